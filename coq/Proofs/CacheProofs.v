(* Proofs/CacheProofs.v — lemmas for property C03 (results depend only on the arguments, not on earlier calls). *)
From AV Require Import Base.Prelude Base.Lemmas Gen.CacheSites Model.Cache.
From Coq Require String.
Open Scope Z_scope.

(* ------------------------------------------------------------------------------------------------ *)
(** * 1. the generic memo step *)

Section MemoProofs.
  Context {A K V : Type}.
  Variable keqb : K -> K -> bool.
  Hypothesis keqb_spec : forall a b, keqb a b = true <-> a = b.
  Variable f : A -> V.
  Variable key_of : A -> K.
  Variable cacheable : A -> bool.
  Variable keep : V -> bool.

  Notation query := (query keqb f key_of cacheable keep).
  Notation run := (run keqb f key_of cacheable keep).

  (* the key captures every argument the stored value depends on *)
  Definition key_captures : Prop :=
    forall a b, cacheable a = true -> cacheable b = true -> key_of a = key_of b ->
                keep (f a) = true -> f a = f b.

  (* every stored value is f of a cacheable argument with that key *)
  Definition store_ok (st : list (K * V)) : Prop :=
    forall k v, mfind keqb k st = Some v ->
                exists a, cacheable a = true /\ key_of a = k /\ keep (f a) = true /\ f a = v.

  Lemma keqb_refl k : keqb k k = true.
  Proof. apply keqb_spec. reflexivity. Qed.

  Lemma store_ok_nil : store_ok [].
  Proof. intros k v H. discriminate H. Qed.

  Lemma query_store_ok st a : store_ok st -> store_ok (snd (query st a)).
  Proof.
    intros Hst. unfold Cache.query.
    destruct (cacheable a) eqn:Hc; [| exact Hst].
    destruct (mfind keqb (key_of a) st) as [v|] eqn:Hf; [exact Hst|].
    cbn [snd]. destruct (keep (f a)) eqn:Hk; [| exact Hst].
    intros k v Hfind. cbn [mfind] in Hfind.
    destruct (keqb k (key_of a)) eqn:Hkk.
    - apply keqb_spec in Hkk. inversion Hfind; subst. exists a. auto.
    - apply Hst. exact Hfind.
  Qed.

  Lemma query_answer st a : key_captures -> store_ok st -> fst (query st a) = f a.
  Proof.
    intros Hkc Hst. unfold Cache.query.
    destruct (cacheable a) eqn:Hc; [| reflexivity].
    destruct (mfind keqb (key_of a) st) as [v|] eqn:Hf; [| reflexivity].
    cbn [fst]. destruct (Hst _ _ Hf) as [b [Hcb [Hkb [Hkeep Hfb]]]].
    rewrite <- Hfb. apply Hkc; auto.
  Qed.

  Lemma run_store_ok h : forall st, store_ok st -> store_ok (run st h).
  Proof.
    induction h as [| a r IH]; intros st Hst; cbn [Cache.run]; [exact Hst|].
    apply IH. apply query_store_ok. exact Hst.
  Qed.

  (* after EVERY history the answer to a probe is f probe, which is also the answer of a fresh table *)
  Theorem memo_transparent :
    key_captures ->
    forall (h : list A) (probe : A),
      fst (query (run [] h) probe) = f probe /\
      fst (query (run [] h) probe) = fst (query [] probe).
  Proof.
    intros Hkc h probe.
    assert (H1 : fst (query (run [] h) probe) = f probe)
      by (apply query_answer; [exact Hkc | apply run_store_ok; exact store_ok_nil]).
    assert (H2 : fst (query [] probe) = f probe)
      by (apply query_answer; [exact Hkc | exact store_ok_nil]).
    split; congruence.
  Qed.

  (* conversely: two arguments that share a key but not the value give a two-call history whose answer differs
     from the fresh one *)
  Theorem memo_refuted :
    forall a b, cacheable a = true -> cacheable b = true -> key_of a = key_of b ->
                keep (f a) = true -> f a <> f b ->
                fst (query (run [] [a]) b) = f a /\ fst (query [] b) = f b /\
                fst (query (run [] [a]) b) <> fst (query [] b).
  Proof.
    intros a b Ha Hb Hk Hkeep Hne.
    assert (E1 : fst (query (run [] [a]) b) = f a).
    { cbn [Cache.run]. unfold Cache.query at 2. rewrite Ha. cbn [mfind snd]. rewrite Hkeep.
      unfold Cache.query. rewrite Hb. cbn [mfind]. rewrite <- Hk, keqb_refl. reflexivity. }
    assert (E2 : fst (query [] b) = f b).
    { unfold Cache.query. rewrite Hb. cbn [mfind]. reflexivity. }
    rewrite E1, E2. auto.
  Qed.

  (* the key condition is exactly what history independence needs *)
  Theorem memo_transparent_iff :
    key_captures <-> (forall h probe, fst (query (run [] h) probe) = fst (query [] probe)).
  Proof.
    split.
    - intros Hkc h probe. apply (memo_transparent Hkc).
    - intros H a b Ha Hb Hk Hkeep.
      assert (E2 : fst (query [] b) = f b)
        by (unfold Cache.query; rewrite Hb; reflexivity).
      assert (E1 : fst (query (run [] [a]) b) = f a).
      { cbn [Cache.run]. unfold Cache.query at 2. rewrite Ha. cbn [mfind snd]. rewrite Hkeep.
        unfold Cache.query. rewrite Hb. cbn [mfind]. rewrite <- Hk, keqb_refl. reflexivity. }
      rewrite <- E1, <- E2. apply H.
  Qed.

  (* programs that use the table only through query *)
  Section ProgProofs.
    Context {R : Type}.
    Notation exec := (@exec A K V R keqb f key_of cacheable keep).
    Notation exec_all := (@exec_all A K V R keqb f key_of cacheable keep).

    Lemma exec_pure (p : prog A V R) :
      key_captures -> forall st, store_ok st ->
      fst (exec p st) = pure_eval f p /\ store_ok (snd (exec p st)).
    Proof.
      intros Hkc. induction p as [r | a k IH]; intros st Hst.
      - cbn [Cache.exec pure_eval fst snd]. auto.
      - cbn [Cache.exec pure_eval].
        pose proof (query_answer st a Hkc Hst) as Hans.
        pose proof (query_store_ok st a Hst) as Hst'.
        destruct (query st a) as [v st'] eqn:Hq. cbn [fst snd] in *. subst v.
        apply IH. exact Hst'.
    Qed.

    Lemma exec_all_store_ok ps : key_captures -> forall st, store_ok st -> store_ok (exec_all ps st).
    Proof.
      intros Hkc. induction ps as [| p r IH]; intros st Hst; cbn [Cache.exec_all]; [exact Hst|].
      apply IH. apply exec_pure; assumption.
    Qed.

    (* whatever API calls were made before, a call returns what it returns when every query is computed afresh *)
    Theorem api_history_independent :
      key_captures ->
      forall (history : list (prog A V R)) (probe : prog A V R),
        fst (exec probe (exec_all history [])) = pure_eval f probe /\
        fst (exec probe (exec_all history [])) = fst (exec probe []).
    Proof.
      intros Hkc history probe.
      assert (H1 : fst (exec probe (exec_all history [])) = pure_eval f probe)
        by (apply exec_pure; [exact Hkc | apply exec_all_store_ok; [exact Hkc | exact store_ok_nil]]).
      assert (H2 : fst (exec probe []) = pure_eval f probe)
        by (apply exec_pure; [exact Hkc | exact store_ok_nil]).
      split; congruence.
    Qed.
  End ProgProofs.
End MemoProofs.

(* ------------------------------------------------------------------------------------------------ *)
(** * 2. LazyLoad *)

Definition lazy_ok {T} (load : outcome (option T)) (slot : lazy T) : Prop :=
  slot = NotLoaded \/ exists d, load = Ok d /\ slot = Loaded d.

Lemma get_or_load_transparent {T} (load : outcome (option T)) (slot : lazy T) :
  lazy_ok load slot ->
  fst (get_or_load slot load) = load /\ lazy_ok load (snd (get_or_load slot load)).
Proof.
  intros [H | [d [Hl Hs]]]; subst slot; cbn [get_or_load].
  - destruct load as [d | e | |]; cbn [fst snd]; split; auto;
      try (left; reflexivity). right. exists d. auto.
  - cbn [fst snd]. split; [symmetry; exact Hl |]. right. exists d. auto.
Qed.

Fixpoint lazy_run {T} (load : outcome (option T)) (slot : lazy T) (n : nat) : lazy T :=
  match n with O => slot | S k => lazy_run load (snd (get_or_load slot load)) k end.

Lemma lazy_run_ok {T} (load : outcome (option T)) n : forall slot, lazy_ok load slot -> lazy_ok load (lazy_run load slot n).
Proof.
  induction n as [| k IH]; intros slot H; cbn [lazy_run]; [exact H|].
  apply IH. apply get_or_load_transparent. exact H.
Qed.

(* a slot answers with the loader's result however often it was asked before (an error is simply retried) *)
Theorem lazy_load_transparent {T} (load : outcome (option T)) (n : nat) :
  fst (get_or_load (lazy_run load NotLoaded n) load) = load.
Proof. apply get_or_load_transparent. apply lazy_run_ok. left. reflexivity. Qed.

(* ------------------------------------------------------------------------------------------------ *)
(** * 3. ReadCache and the per-lookup vector *)

Section ReadCacheProofs.
  Context {T : Type}.
  Variable read : Z -> outcome T.

  Definition rc_ok (cache : list (Z * T)) : Prop := forall b t, zfind b cache = Some t -> read b = Ok t.

  Lemma read_cache_step cache base :
    rc_ok cache -> fst (read_cache read cache base) = read base /\ rc_ok (snd (read_cache read cache base)).
  Proof.
    intros Hok. unfold read_cache.
    destruct (zfind base cache) as [t|] eqn:Hf.
    - cbn [fst snd]. split; [symmetry; apply Hok; exact Hf | exact Hok].
    - destruct (read base) as [t | e | |] eqn:Hr; cbn [fst snd]; split; auto.
      intros b t' Hz. cbn [zfind] in Hz. destruct (b =? base) eqn:Hb.
      + apply Z.eqb_eq in Hb. subst b. inversion Hz; subst. exact Hr.
      + apply Hok. exact Hz.
  Qed.

  Fixpoint rc_run (cache : list (Z * T)) (bases : list Z) : list (Z * T) :=
    match bases with [] => cache | b :: r => rc_run (snd (read_cache read cache b)) r end.

  Lemma rc_run_ok bases : forall cache, rc_ok cache -> rc_ok (rc_run cache bases).
  Proof.
    induction bases as [| b r IH]; intros cache H; cbn [rc_run]; [exact H|].
    apply IH. apply read_cache_step. exact H.
  Qed.

  Theorem read_cache_transparent (bases : list Z) (base : Z) :
    fst (read_cache read (rc_run [] bases) base) = read base.
  Proof. apply read_cache_step. apply rc_run_ok. intros b t H. discriminate H. Qed.

  (* the vector of parsed lookups *)
  Definition lv_ok (vec : list (option T)) : Prop :=
    forall i t, nth_error vec i = Some (Some t) -> read (Z.of_nat i) = Ok t.

  Lemma nth_error_set_nth_same (l : list (option T)) n x :
    (n < length l)%nat -> nth_error (set_nth l n x) n = Some x.
  Proof.
    revert n. induction l as [| y r IH]; intros n Hn; cbn [length] in Hn; [lia|].
    destruct n as [| k]; cbn [set_nth nth_error]; [reflexivity|]. apply IH. lia.
  Qed.

  Lemma nth_error_set_nth_other (l : list (option T)) n m x :
    n <> m -> nth_error (set_nth l n x) m = nth_error l m.
  Proof.
    revert n m. induction l as [| y r IH]; intros n m Hne; [destruct n; reflexivity|].
    destruct n as [| k], m as [| j]; cbn [set_nth nth_error]; try reflexivity; try congruence.
    apply IH. congruence.
  Qed.

  Lemma lv_ok_resize vec n : lv_ok vec -> lv_ok (vec ++ repeat None n).
  Proof.
    intros Hok i t Hn.
    destruct (Nat.lt_ge_cases i (length vec)) as [Hlt | Hge].
    - rewrite nth_error_app1 in Hn by exact Hlt. apply Hok. exact Hn.
    - rewrite nth_error_app2 in Hn by exact Hge.
      apply nth_error_In in Hn. apply repeat_spec in Hn. discriminate Hn.
  Qed.

  Lemma lookup_cache_get_step vec i :
    0 <= i -> lv_ok vec ->
    fst (lookup_cache_get read vec i) = read i /\ lv_ok (snd (lookup_cache_get read vec i)).
  Proof.
    intros Hi Hok. unfold lookup_cache_get.
    set (vec' := if len vec <=? i then vec ++ repeat None (Z.to_nat (i + 1 - len vec)) else vec).
    assert (Hok' : lv_ok vec').
    { unfold vec'. destruct (len vec <=? i); [apply lv_ok_resize; exact Hok | exact Hok]. }
    assert (Hlen : (Z.to_nat i < length vec')%nat).
    { unfold vec'. destruct (len vec <=? i) eqn:Hle.
      - apply Z.leb_le in Hle. rewrite app_length, repeat_length. unfold len in *. lia.
      - apply Z.leb_gt in Hle. unfold len in Hle. lia. }
    unfold nth_opt. destruct (i <? 0) eqn:Hneg; [apply Z.ltb_lt in Hneg; lia|].
    destruct (nth_error vec' (Z.to_nat i)) as [[t|]|] eqn:Hn.
    - cbn [fst snd]. split; [| exact Hok'].
      symmetry. rewrite <- (Z2Nat.id i) by exact Hi. apply Hok'. exact Hn.
    - destruct (read i) as [t | e | |] eqn:Hr; cbn [fst snd]; split; auto.
      intros j t' Hj. destruct (Nat.eq_dec (Z.to_nat i) j) as [E | NE].
      + subst j. rewrite nth_error_set_nth_same in Hj by exact Hlen. inversion Hj; subst.
        rewrite Z2Nat.id by exact Hi. exact Hr.
      + rewrite nth_error_set_nth_other in Hj by exact NE. apply Hok'. exact Hj.
    - apply nth_error_None in Hn. lia.
  Qed.

  Fixpoint lv_run (vec : list (option T)) (idx : list Z) : list (option T) :=
    match idx with [] => vec | i :: r => lv_run (snd (lookup_cache_get read vec i)) r end.

  Lemma lv_run_ok idx : Forall (fun i => 0 <= i) idx -> forall vec, lv_ok vec -> lv_ok (lv_run vec idx).
  Proof.
    induction idx as [| i r IH]; intros Hall vec H; cbn [lv_run]; [exact H|].
    inversion Hall; subst. apply IH; [assumption|]. apply lookup_cache_get_step; assumption.
  Qed.

  (* lookup_cache_gsub / lookup_cache_gpos return the parse of lookup i whatever was asked before *)
  Theorem lookup_cache_transparent (idx : list Z) (i : Z) :
    Forall (fun j => 0 <= j) idx -> 0 <= i ->
    fst (lookup_cache_get read (lv_run [] idx) i) = read i.
  Proof.
    intros Hall Hi. apply lookup_cache_get_step; [exact Hi|].
    apply lv_run_ok; [exact Hall|]. intros j t H. destruct j; discriminate H.
  Qed.
End ReadCacheProofs.

(* ------------------------------------------------------------------------------------------------ *)
(** * 4. several tables are one table over a sum type *)

Section SumTables.
  Context {A1 K1 V1 A2 K2 V2 : Type}.
  Variable f1 : A1 -> V1.
  Variable key1 : A1 -> K1.
  Variable c1 : A1 -> bool.
  Variable keep1 : V1 -> bool.
  Variable f2 : A2 -> V2.
  Variable key2 : A2 -> K2.
  Variable c2 : A2 -> bool.
  Variable keep2 : V2 -> bool.

  Definition sum_f (a : A1 + A2) : V1 + V2 := match a with inl x => inl (f1 x) | inr y => inr (f2 y) end.
  Definition sum_key (a : A1 + A2) : K1 + K2 := match a with inl x => inl (key1 x) | inr y => inr (key2 y) end.
  Definition sum_cacheable (a : A1 + A2) : bool := match a with inl x => c1 x | inr y => c2 y end.
  Definition sum_keep (v : V1 + V2) : bool := match v with inl x => keep1 x | inr y => keep2 y end.

  (* a Font is a product of tables; if every table's key captures its loader's inputs, so does the sum *)
  Lemma key_captures_sum :
    key_captures f1 key1 c1 keep1 -> key_captures f2 key2 c2 keep2 ->
    key_captures sum_f sum_key sum_cacheable sum_keep.
  Proof.
    intros H1 H2 [a | a] [b | b] Ha Hb Hk Hkeep; cbn [sum_f sum_key sum_cacheable sum_keep] in *;
      try discriminate.
    - f_equal. apply H1; auto. congruence.
    - f_equal. apply H2; auto. congruence.
  Qed.
End SumTables.
