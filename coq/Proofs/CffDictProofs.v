(* Proofs/CffDictProofs.v — CFF DICTs: reading is the inverse of writing (Model/CffDict.v).
   Part A: the cursor-level reader is a pure function of the remaining bytes.
   Part B: on the writer's output the reader returns what was written (offsets re-typed by
           integer_to_offset), for dicts of any length.
   Part C: whatever the reader returns is "readable-normal", so parse-write-parse is covered for
           arbitrary parsable bytes.
   Part D: the statements about dict_read / dict_write used by Props/C15.v. *)
From AV Require Import Base.Prelude Base.Lemmas Gen.ReaderPrims Model.Reader Model.ReaderExt
  Proofs.ReaderProofs Proofs.EncodeProofs Model.TableLayout Proofs.TableLayoutProofs Gen.TableLayouts
  Model.Tables Model.Cff Proofs.CffProofs Gen.CffDictTables Model.CffDict.
From Coq Require Import ZifyBool ZifyNat.
Ltac Zify.zify_post_hook ::= Z.div_mod_to_equations.
Open Scope Z_scope.

(* ============================================================ Part A: refinement to byte lists *)
Definition remaining (c : ctxt) : list Z := drop (off c) (data (sc c)).
Definition adv (c : ctxt) (n : Z) : ctxt := {| sc := sc c; off := off c + n |}.

Lemma len_remaining c : cgood c -> len (remaining c) = dlen (sc c) - off c.
Proof.
  intros [[Hc Hs] _]. unfold remaining, dlen in *. apply len_drop. lia.
Qed.

Lemma remaining_bytes_ok c : cgood c -> bytes_ok (remaining c) = true.
Proof. intros [_ [Hb _]]. unfold remaining. apply bytes_ok_drop. exact Hb. Qed.

Lemma adv_good c n : cgood c -> 0 <= n <= len (remaining c) ->
  cgood (adv c n) /\ remaining (adv c n) = drop n (remaining c).
Proof.
  intros Hg Hn. pose proof (len_remaining c Hg) as Hl.
  destruct Hg as [[Hc Hs] [Hb [Hb0 Hb1]]].
  unfold cgood, cinv, adv, remaining; cbn [sc off].
  repeat split; try assumption; try lia.
  rewrite drop_drop by lia. f_equal. lia.
Qed.

Lemma adv_adv c a b : adv (adv c a) b = adv c (a + b).
Proof. unfold adv; cbn [sc off]. f_equal. lia. Qed.

Lemma bytes_available_remaining c : cgood c ->
  bytes_available c = negb (len (remaining c) =? 0).
Proof.
  intros Hg. rewrite (len_remaining c Hg). destruct Hg as [[Hc Hs] _]. unfold bytes_available. lia.
Qed.

(* a primitive read as a function of the remaining bytes *)
Definition rd_prim_l (p : prim) (bs : list Z) : outcome Z :=
  if spec_size p <=? len bs then Ok (decode_prim p (take (spec_size p) bs)) else Err Eof.

Lemma read_prim_refines p c : cgood c ->
  read_prim p c = (v <- rd_prim_l p (remaining c) ;; Ok (v, adv c (spec_size p))).
Proof.
  intros Hg. pose proof (len_remaining c Hg) as Hl. destruct Hg as [Hc [Hb _]].
  unfold rd_prim_l. rewrite Hl.
  destruct (read_prim_exact p c Hb Hc) as [[Hle H]|[Hlt H]]; rewrite H.
  - replace (spec_size p <=? dlen (sc c) - off c) with true by lia. reflexivity.
  - replace (spec_size p <=? dlen (sc c) - off c) with false by lia. reflexivity.
Qed.

Lemma read_slice_refines c n : cgood c -> 0 <= n <= len (remaining c) ->
  read_slice Debug c n = Ok (take n (remaining c), adv c n).
Proof.
  intros Hg Hn. pose proof (len_remaining c Hg) as Hl.
  destruct Hg as [[Hc Hs] [Hb [Hb0 Hb1]]]. unfold sinv in Hs.
  unfold read_slice, read_scope. rewrite offset_length_complete by lia.
  unfold uadd. replace (off c + n <? USIZE) with true by lia. cbn [bind data]. reflexivity.
Qed.

Lemma find_nibble_bound n l : forall i k, find_nibble n l i = Some k -> i <= k < i + len l.
Proof.
  induction l as [|b r IH]; intros i k H; cbn [find_nibble] in H; [discriminate|].
  rewrite len_cons. pose proof (len_nonneg r).
  destruct ((Z.shiftr b 4 =? n) || (Z.land b 15 =? n)).
  - injection H as <-. lia.
  - apply IH in H. lia.
Qed.

Lemma read_until_nibble_refines c : cgood c ->
  read_until_nibble Debug c 15 =
    match find_nibble 15 (remaining c) 0 with
    | None => Err Eof
    | Some e => Ok (take (e + 1) (remaining c), adv c (e + 1))
    end.
Proof.
  intros Hg. pose proof (len_remaining c Hg) as Hl. pose proof Hg as [[Hc Hs] _]. unfold sinv in Hs.
  unfold read_until_nibble. replace (off c <=? dlen (sc c)) with true by lia.
  fold (remaining c). destruct (find_nibble 15 (remaining c) 0) as [e|] eqn:E; [|reflexivity].
  apply find_nibble_bound in E. unfold uadd. replace (e + 1 <? USIZE) with true by lia. cbn [bind].
  apply read_slice_refines; [exact Hg|lia].
Qed.

(* Op::read + operator validation on a byte list: result and number of bytes consumed *)
Definition dop_read_l (bs : list Z) : outcome (dop * Z) :=
  match bs with
  | [] => Err Eof
  | b0 :: r =>
      if b0 =? 12 then
        b1 <- rd_prim_l PU8 r ;;
        match operator_try_from (op2 b1) with Some o => Ok (DOperator o, 2) | None => Err BadValue end
      else if b0 <=? 24 then
        match operator_try_from b0 with Some o => Ok (DOperator o, 1) | None => Panic end
      else if b0 =? cffr_i16_b0 then n <- rd_prim_l PI16 r ;; Ok (DOperand (OInt n), 3)
      else if b0 =? cffr_i32_b0 then n <- rd_prim_l PI32 r ;; Ok (DOperand (OInt n), 5)
      else if b0 =? cffr_real_b0 then
        match find_nibble 15 r 0 with
        | None => Err Eof
        | Some e => Ok (DOperand (OReal (take (e + 1) r)), e + 2)
        end
      else if between cffr_small_lo b0 cffr_small_hi then Ok (DOperand (OInt (b0 - cffr_small_bias)), 1)
      else if between cffr_pos_lo b0 cffr_pos_hi then
        b1 <- rd_prim_l PU8 r ;; Ok (DOperand (OInt ((b0 - cffr_pos_b0) * 256 + b1 + cffr_pos_add)), 2)
      else if between cffr_neg_lo b0 cffr_neg_hi then
        b1 <- rd_prim_l PU8 r ;; Ok (DOperand (OInt (- (b0 - cffr_neg_b0) * 256 - b1 - cffr_neg_sub)), 2)
      else Err BadValue
  end.

Lemma decode_u8_cons b r : decode_prim PU8 (take 1 (b :: r)) = b.
Proof. unfold decode_prim, take. cbn. reflexivity. Qed.

Lemma rd_u8_cons b r : rd_prim_l PU8 (b :: r) = Ok b.
Proof.
  unfold rd_prim_l. rewrite len_cons. pose proof (len_nonneg r). cbn [spec_size].
  replace (1 <=? 1 + len r) with true by lia. rewrite decode_u8_cons. reflexivity.
Qed.
Lemma rd_u8_nil : rd_prim_l PU8 [] = Err Eof.
Proof. reflexivity. Qed.

Lemma dict_op_read_refines c : cgood c ->
  dict_op_read c = ('(r, n) <- dop_read_l (remaining c) ;; Ok (r, adv c n)).
Proof.
  intros Hg. unfold dict_op_read, op_read. rewrite (read_prim_refines PU8 c Hg).
  destruct (remaining c) as [|b0 r] eqn:Hrem; [reflexivity|].
  rewrite rd_u8_cons. cbn [bind]. cbv beta iota. cbn [spec_size].
  assert (0 <= 1 <= len (remaining c)) as H1.
  { rewrite Hrem, len_cons. pose proof (len_nonneg r). lia. }
  destruct (adv_good c 1 Hg H1) as [Hg1 Hr1'].
  assert (remaining (adv c 1) = r) as Hr1 by (rewrite Hr1', Hrem; reflexivity). clear Hr1'.
  unfold dop_read_l.
  destruct (b0 =? 12).
  { rewrite (read_prim_refines PU8 _ Hg1), Hr1. destruct (rd_prim_l PU8 r) as [b1| | |]; try reflexivity.
    cbn [bind]. cbv beta iota. cbn [spec_size]. rewrite adv_adv.
    destruct (operator_try_from (op2 b1)); reflexivity. }
  destruct (b0 <=? 24).
  { cbn [bind]. cbv beta iota. destruct (operator_try_from b0); reflexivity. }
  destruct (b0 =? cffr_i16_b0).
  { rewrite (read_prim_refines PI16 _ Hg1), Hr1. destruct (rd_prim_l PI16 r); try reflexivity.
    cbn [bind]. cbv beta iota. cbn [spec_size]. rewrite adv_adv. reflexivity. }
  destruct (b0 =? cffr_i32_b0).
  { rewrite (read_prim_refines PI32 _ Hg1), Hr1. destruct (rd_prim_l PI32 r); try reflexivity.
    cbn [bind]. cbv beta iota. cbn [spec_size]. rewrite adv_adv. reflexivity. }
  destruct (b0 =? cffr_real_b0).
  { rewrite (read_until_nibble_refines _ Hg1), Hr1. destruct (find_nibble 15 r 0) as [e|]; [|reflexivity].
    cbn [bind]. cbv beta iota. rewrite adv_adv. do 3 f_equal. lia. }
  destruct (between cffr_small_lo b0 cffr_small_hi).
  { reflexivity. }
  destruct (between cffr_pos_lo b0 cffr_pos_hi).
  { rewrite (read_prim_refines PU8 _ Hg1), Hr1. destruct (rd_prim_l PU8 r); try reflexivity.
    cbn [bind]. cbv beta iota. cbn [spec_size]. rewrite adv_adv. reflexivity. }
  destruct (between cffr_neg_lo b0 cffr_neg_hi).
  { rewrite (read_prim_refines PU8 _ Hg1), Hr1. destruct (rd_prim_l PU8 r); try reflexivity.
    cbn [bind]. cbv beta iota. cbn [spec_size]. rewrite adv_adv. reflexivity. }
  reflexivity.
Qed.

(* ---------- Dict::read_dep on a byte list *)
Definition is_nil {A} (l : list A) : bool := match l with [] => true | _ => false end.

Fixpoint dict_read_l (fuel : nat) (bs : list Z) (maxo : Z) (rops : list operand) : outcome dict :=
  if is_nil bs then Ok []
  else match fuel with
       | O => Panic
       | S f =>
           '(r, n) <- dop_read_l bs ;;
           match r with
           | DOperator o =>
               rest <- dict_read_l f (drop n bs) maxo [] ;;
               Ok ((o, integer_to_offset o (rev rops)) :: rest)
           | DOperand x =>
               if maxo <? len (x :: rops) then Err LimitExceeded
               else dict_read_l f (drop n bs) maxo (x :: rops)
           end
       end.

Lemma dict_read_l_S f bs maxo rops :
  dict_read_l (S f) bs maxo rops =
    if is_nil bs then Ok []
    else '(r, n) <- dop_read_l bs ;;
         match r with
         | DOperator o =>
             rest <- dict_read_l f (drop n bs) maxo [] ;;
             Ok ((o, integer_to_offset o (rev rops)) :: rest)
         | DOperand x =>
             if maxo <? len (x :: rops) then Err LimitExceeded
             else dict_read_l f (drop n bs) maxo (x :: rops)
         end.
Proof. reflexivity. Qed.

Lemma is_nil_len {A} (l : list A) : is_nil l = (len l =? 0).
Proof. destruct l; [reflexivity|]. rewrite len_cons. pose proof (len_nonneg l). cbn [is_nil]. lia. Qed.

Lemma rd_prim_l_ok p bs v : rd_prim_l p bs = Ok v -> spec_size p <= len bs.
Proof. unfold rd_prim_l. destruct (spec_size p <=? len bs) eqn:E; [lia|discriminate]. Qed.

(* every successful Op::read consumes between 1 byte and what is there *)
Lemma dop_read_l_consumed bs r n : dop_read_l bs = Ok (r, n) -> 1 <= n <= len bs.
Proof.
  destruct bs as [|b0 rest]; [discriminate|]. rewrite len_cons. pose proof (len_nonneg rest) as Hn.
  unfold dop_read_l.
  assert (forall (p : prim) (f : Z -> outcome (dop * Z)) k,
             (forall v, f v = Ok (r, n) -> n = k) -> k = 1 + spec_size p ->
             (v <- rd_prim_l p rest ;; f v) = Ok (r, n) -> 1 <= n <= 1 + len rest) as Hp.
  { intros p f k Hf Hk H. destruct (rd_prim_l p rest) as [v| | |] eqn:E; try discriminate.
    apply rd_prim_l_ok in E. cbn [bind] in H. apply Hf in H. destruct p; cbn [spec_size] in *; lia. }
  destruct (b0 =? 12).
  { apply (Hp PU8 _ 2); [|reflexivity]. intros v H. destruct (operator_try_from (op2 v)); [|discriminate].
    injection H as _ <-. reflexivity. }
  destruct (b0 <=? 24).
  { destruct (operator_try_from b0); [|discriminate]. intros H. injection H as _ <-. lia. }
  destruct (b0 =? cffr_i16_b0).
  { apply (Hp PI16 _ 3); [|reflexivity]. intros v H. injection H as _ <-. reflexivity. }
  destruct (b0 =? cffr_i32_b0).
  { apply (Hp PI32 _ 5); [|reflexivity]. intros v H. injection H as _ <-. reflexivity. }
  destruct (b0 =? cffr_real_b0).
  { destruct (find_nibble 15 rest 0) as [e|] eqn:E; [|discriminate]. apply find_nibble_bound in E.
    intros H. injection H as _ <-. lia. }
  destruct (between cffr_small_lo b0 cffr_small_hi).
  { intros H. injection H as _ <-. lia. }
  destruct (between cffr_pos_lo b0 cffr_pos_hi).
  { apply (Hp PU8 _ 2); [|reflexivity]. intros v H. injection H as _ <-. reflexivity. }
  destruct (between cffr_neg_lo b0 cffr_neg_hi).
  { apply (Hp PU8 _ 2); [|reflexivity]. intros v H. injection H as _ <-. reflexivity. }
  discriminate.
Qed.

Lemma dict_read_loop_refines fuel : forall c maxo rops, cgood c ->
  dict_read_loop fuel c maxo rops = dict_read_l fuel (remaining c) maxo rops.
Proof.
  induction fuel as [|f IH]; intros c maxo rops Hg.
  - cbn [dict_read_loop dict_read_l]. rewrite (bytes_available_remaining c Hg), is_nil_len.
    destruct (len (remaining c) =? 0); reflexivity.
  - rewrite dict_read_l_S. cbn [dict_read_loop].
    rewrite (bytes_available_remaining c Hg), is_nil_len.
    destruct (len (remaining c) =? 0); cbn [negb]; [reflexivity|].
    rewrite (dict_op_read_refines c Hg).
    destruct (dop_read_l (remaining c)) as [[r n]| | |] eqn:E; try reflexivity.
    cbn [bind]. cbv beta iota.
    apply dop_read_l_consumed in E.
    destruct (adv_good c n Hg ltac:(lia)) as [Hg' Hr'].
    destruct r as [o|x].
    + rewrite (IH _ maxo [] Hg'), Hr'. reflexivity.
    + destruct (maxo <? len (x :: rops)); [reflexivity|].
      rewrite (IH _ maxo (x :: rops) Hg'), Hr'. reflexivity.
Qed.

(* the statement used by everything below: on a fresh table context the reader is dict_read_l *)
Lemma dict_read_table b maxo : bytes_ok b = true -> len b < USIZE ->
  dict_read (table_ctxt b) maxo = dict_read_l (S (length b)) b maxo [].
Proof.
  intros Hb Hl. destruct (table_ctxt_good b Hb Hl) as [Hg Hat].
  unfold dict_read, table_ctxt. rewrite (dict_read_loop_refines _ _ _ _ Hg).
  unfold at_bytes in Hat. unfold remaining. rewrite Hat. reflexivity.
Qed.

(* ============================================================ Part B: the reader on the writer's output *)
(* a real as the reader can return it: bytes, and the first 0xF nibble sits in the last byte *)
Definition real_ok (bs : list Z) : Prop :=
  bytes_ok bs = true /\ find_nibble 15 bs 0 = Some (len bs - 1).
Definition operand_ok (o : operand) : Prop :=
  match o with
  | OInt v => i32_ok v
  | OOff v => i32_ok v
  | OReal bs => real_ok bs
  end.
(* what Op::read makes of a written operand: offsets come back as integers *)
Definition deoffset (o : operand) : operand := match o with OOff v => OInt v | x => x end.

(* an operator the writer and the reader agree on: TryFrom gives it back, and its code has the
   one-byte or the 12-prefixed shape *)
Definition operator_okb (op : Z) : bool :=
  match operator_try_from op with
  | Some o => (o =? op) && (((0 <=? op) && (op <=? 24) && negb (op =? 12)) || ((3072 <=? op) && (op <=? 3327)))
  | None => false
  end.
Definition operator_ok (op : Z) : Prop := operator_okb op = true.

Lemma operator_ok_spec op : operator_ok op ->
  operator_try_from op = Some op /\ ((0 <= op <= 24 /\ op <> 12) \/ 3072 <= op <= 3327).
Proof.
  unfold operator_ok, operator_okb. destruct (operator_try_from op) as [o|]; [|discriminate].
  intros H. assert (o = op) by lia. subst o. split; [reflexivity|lia].
Qed.

(* index-shift invariance, stated once and for all *)
Lemma find_nibble_add n l : forall i j, find_nibble n l (i + j) = option_map (fun k => k + j) (find_nibble n l i).
Proof.
  induction l as [|b r IH]; intros i j; cbn [find_nibble]; [reflexivity|].
  destruct ((Z.shiftr b 4 =? n) || (Z.land b 15 =? n)); [reflexivity|].
  replace (i + j + 1) with (i + 1 + j) by lia. apply IH.
Qed.

Lemma find_nibble_app n a rest : forall i k, find_nibble n a i = Some k -> find_nibble n (a ++ rest) i = Some k.
Proof.
  induction a as [|b r IH]; intros i k H; cbn [find_nibble app] in *; [discriminate|].
  destruct ((Z.shiftr b 4 =? n) || (Z.land b 15 =? n)); [exact H|]. apply IH. exact H.
Qed.

Lemma find_nibble_take n l : forall i k, find_nibble n l i = Some k ->
  find_nibble n (take (k - i + 1) l) i = Some k.
Proof.
  induction l as [|b r IH]; intros i k H; cbn [find_nibble] in H; [discriminate|].
  destruct ((Z.shiftr b 4 =? n) || (Z.land b 15 =? n)) eqn:E.
  - injection H as <-. replace (i - i + 1) with 1 by lia. unfold take. change (Z.to_nat 1) with 1%nat. cbn [firstn find_nibble]. rewrite E. reflexivity.
  - pose proof (find_nibble_bound _ _ _ _ H) as Hb.
    unfold take. replace (Z.to_nat (k - i + 1)) with (S (Z.to_nat (k - (i + 1) + 1))) by lia.
    cbn [firstn find_nibble]. rewrite E. apply IH. exact H.
Qed.

Lemma rd_prim_l_write p v rest : prim_in_range p v = true -> rd_prim_l p (write_prim p v ++ rest) = Ok v.
Proof.
  intros Hr. unfold rd_prim_l. rewrite len_app, len_write_prim. pose proof (len_nonneg rest).
  replace (spec_size p <=? spec_size p + len rest) with true by lia.
  rewrite <- (len_write_prim p v) at 1. rewrite take_app_exact, decode_write_prim by exact Hr. reflexivity.
Qed.

Ltac unfold_cffd :=
  unfold_cff; cbv [cffw_real_b0 operator_wide_above] in *.

(* Op::read inverts Operand::write, for every operand the reader can produce; offsets come back as integers *)
Lemma dop_read_operand x rest : operand_ok x ->
  dop_read_l (operand_write x ++ rest) = Ok (DOperand (deoffset x), len (operand_write x)).
Proof.
  intros Hx. destruct x as [v|v|bs]; cbn [operand_ok operand_write deoffset] in *.
  - unfold i32_ok in Hx. unfold operand_int_write. unfold_cffd.
    destruct ((-107 <=? v) && (v <=? 107)) eqn:R1.
    { cbn [app]. rewrite Z.mod_small by lia. unfold dop_read_l. unfold_cffd. pick_branch.
      do 4 f_equal. lia. }
    destruct ((108 <=? v) && (v <=? 1131)) eqn:R2.
    { cbv zeta. cbn [app]. rewrite (Z.mod_small ((v - 108) / 256 + 247)) by lia.
      unfold dop_read_l. unfold_cffd. pick_branch. rewrite rd_u8_cons. cbn [bind].
      do 4 f_equal. lia. }
    destruct ((-1131 <=? v) && (v <=? -108)) eqn:R3.
    { cbv zeta. cbn [app]. rewrite (Z.mod_small ((- v - 108) / 256 + 251)) by lia.
      unfold dop_read_l. unfold_cffd. pick_branch. rewrite rd_u8_cons. cbn [bind].
      do 4 f_equal. lia. }
    destruct ((-32768 <=? v) && (v <=? 32767)) eqn:R4.
    { assert (to_signed 16 v = v) as Hs.
      { unfold to_signed. change (2 ^ 16) with 65536. change (2 ^ (16 - 1)) with 32768.
        destruct (v mod 65536 <? 32768) eqn:E; lia. }
      rewrite Hs. cbn [app]. unfold dop_read_l. unfold_cffd. pick_branch.
      rewrite rd_prim_l_write by (unfold prim_in_range; cbn; lia). cbn [bind].
      rewrite len_cons, len_write_prim. reflexivity. }
    { cbn [app]. unfold dop_read_l. unfold_cffd. pick_branch.
      rewrite rd_prim_l_write by (unfold prim_in_range; cbn; lia). cbn [bind].
      rewrite len_cons, len_write_prim. reflexivity. }
  - unfold i32_ok in Hx. unfold operand_offset_write. unfold_cffd. cbn [app].
    unfold dop_read_l. unfold_cffd. pick_branch.
    rewrite rd_prim_l_write by (unfold prim_in_range; cbn; lia). cbn [bind].
    rewrite len_cons, len_write_prim. reflexivity.
  - destruct Hx as [Hb Hf]. unfold_cffd. cbn [app]. unfold dop_read_l. unfold_cffd. pick_branch.
    rewrite (find_nibble_app _ _ rest _ _ Hf).
    replace (len bs - 1 + 1) with (len bs) by lia. rewrite take_app_exact, len_cons.
    do 2 f_equal. lia.
Qed.

Lemma write_prim_u16 v : 0 <= v < 65536 -> write_prim PU16 v = [v / 256; v mod 256].
Proof.
  intros H. unfold write_prim. cbn [wsize be_bytes]. change (256 ^ Z.of_nat 1) with 256.
  change (256 ^ Z.of_nat 0) with 1. rewrite Z.div_1_r. f_equal. lia.
Qed.

(* Op::read inverts Operator::write on every operator TryFrom knows *)
Lemma dop_read_operator op rest : operator_ok op ->
  dop_read_l (operator_write op ++ rest) = Ok (DOperator op, len (operator_write op)).
Proof.
  intros H. apply operator_ok_spec in H. destruct H as [Ht [[Hr Hne]|Hr]]; unfold operator_write; unfold_cffd.
  - replace (255 <? op) with false by lia. rewrite write_prim_u8 by lia. cbn [app].
    unfold dop_read_l. replace (op =? 12) with false by lia. replace (op <=? 24) with true by lia.
    rewrite Ht. reflexivity.
  - replace (255 <? op) with true by lia. rewrite write_prim_u16 by lia. cbn [app].
    unfold dop_read_l. replace (op / 256 =? 12) with true by lia. rewrite rd_u8_cons. cbn [bind].
    replace (op2 (op mod 256)) with op by (unfold op2; lia). rewrite Ht. reflexivity.
Qed.

Lemma operator_write_nonempty op : 1 <= len (operator_write op).
Proof. unfold operator_write. destruct (operator_wide_above <? op); rewrite len_write_prim; cbn; lia. Qed.

Lemma operand_write_nonempty x : 1 <= len (operand_write x).
Proof.
  destruct x as [v|v|bs]; cbn [operand_write].
  - unfold operand_int_write. repeat match goal with |- context [if ?b then _ else _] => destruct b end;
      repeat rewrite len_cons; try rewrite len_write_prim; rewrite ?len_nil; cbn; lia.
  - unfold operand_offset_write. rewrite len_cons. pose proof (len_nonneg (write_prim PI32 v)). lia.
  - rewrite len_cons. pose proof (len_nonneg bs). lia.
Qed.

(* ---------- one entry, then a whole DICT *)
Definition entry_wf (maxo : Z) (e : entry) : Prop :=
  operator_ok (fst e) /\ Forall operand_ok (snd e) /\ len (snd e) <= maxo.
(* what the reader returns for a written entry *)
Definition entry_readback (e : entry) : entry :=
  (fst e, integer_to_offset (fst e) (map deoffset (snd e))).

Lemma is_nil_app_nonempty {A} (a b : list A) : 1 <= len a -> is_nil (a ++ b) = false.
Proof. destruct a; [cbn; lia|reflexivity]. Qed.

Lemma dict_read_l_nil fuel maxo rops : dict_read_l fuel [] maxo rops = Ok [].
Proof. destruct fuel; reflexivity. Qed.

Lemma length_len {A} (l : list A) : Z.of_nat (length l) = len l.
Proof. reflexivity. Qed.

Lemma read_operands maxo : forall ops rops fuel tail,
  Forall operand_ok ops -> len rops + len ops <= maxo ->
  (length (operands_write ops ++ tail) < fuel)%nat ->
  exists fuel', (length tail < fuel')%nat /\
    dict_read_l fuel (operands_write ops ++ tail) maxo rops =
    dict_read_l fuel' tail maxo (rev (map deoffset ops) ++ rops).
Proof.
  induction ops as [|x ops IH]; intros rops fuel tail Hok Hmax Hfuel.
  - exists fuel. split; [exact Hfuel|reflexivity].
  - inversion Hok as [|? ? Hx Hops]; subst.
    unfold operands_write in *. cbn [map concat] in *. rewrite <- app_assoc in *.
    fold (operands_write ops) in *.
    destruct fuel as [|f]; [lia|].
    rewrite dict_read_l_S, (is_nil_app_nonempty _ _ (operand_write_nonempty x)).
    rewrite (dop_read_operand x _ Hx). cbn [bind]. cbv beta iota.
    rewrite drop_app_exact. rewrite len_cons in Hmax.
    pose proof (len_nonneg ops) as Hn.
    replace (maxo <? len (deoffset x :: rops)) with false by (rewrite len_cons; lia).
    pose proof (operand_write_nonempty x) as Hw.
    destruct (IH (deoffset x :: rops) f tail Hops) as [fuel' [Hf' Heq]].
    + rewrite len_cons. lia.
    + rewrite app_length in Hfuel. unfold len in Hw. lia.
    + exists fuel'. split; [exact Hf'|]. rewrite Heq. f_equal.
      cbn [map rev]. rewrite <- app_assoc. reflexivity.
Qed.

Lemma read_entries maxo : forall es fuel,
  Forall (entry_wf maxo) es -> (length (concat (map entry_write es)) < fuel)%nat ->
  dict_read_l fuel (concat (map entry_write es)) maxo [] = Ok (map entry_readback es).
Proof.
  induction es as [|[op ops] es IH]; intros fuel Hwf Hfuel.
  - cbn [map concat]. apply dict_read_l_nil.
  - inversion Hwf as [|? ? [Hop [Hops Hlen]] Hes]; subst. cbn [fst snd] in *.
    cbn [map concat]. unfold entry_write at 1. cbn [fst snd]. rewrite <- app_assoc.
    cbn [map concat] in Hfuel. unfold entry_write at 1 in Hfuel. cbn [fst snd] in Hfuel.
    rewrite <- app_assoc in Hfuel.
    destruct (read_operands maxo ops [] fuel _ Hops ltac:(rewrite len_nil; lia) Hfuel) as [fuel' [Hf' Heq]].
    rewrite Heq. rewrite app_nil_r.
    destruct fuel' as [|f']; [lia|].
    rewrite dict_read_l_S, (is_nil_app_nonempty _ _ (operator_write_nonempty op)).
    rewrite (dop_read_operator op _ Hop). cbn [bind]. cbv beta iota.
    rewrite drop_app_exact.
    rewrite IH; [|exact Hes|].
    + cbn [bind]. rewrite rev_involutive. reflexivity.
    + pose proof (operator_write_nonempty op) as Hw. rewrite app_length in Hf'. unfold len in Hw. lia.
Qed.

(* ---------- the written bytes are bytes *)
Lemma operand_write_bytes_ok x : operand_ok x -> bytes_ok (operand_write x) = true.
Proof.
  destruct x as [v|v|bs]; cbn [operand_ok operand_write].
  - intros _. unfold operand_int_write. unfold_cffd.
    repeat match goal with |- context [if ?b then _ else _] => destruct b end;
      cbn [bytes_ok forallb]; rewrite ?andb_true_r; try (unfold byte_ok; lia);
      try (change (forallb byte_ok ?l) with (bytes_ok l); rewrite write_prim_ok); try reflexivity;
      try (apply andb_true_intro; split; unfold byte_ok; lia).
  - intros _. unfold operand_offset_write. unfold_cffd. cbn [bytes_ok forallb].
    change (forallb byte_ok ?l) with (bytes_ok l). rewrite write_prim_ok. reflexivity.
  - intros [Hb _]. unfold_cffd. cbn [bytes_ok forallb]. exact Hb.
Qed.

Lemma operands_write_bytes_ok ops : Forall operand_ok ops -> bytes_ok (operands_write ops) = true.
Proof.
  induction 1 as [|x ops Hx _ IH]; [reflexivity|]. unfold operands_write in *. cbn [map concat].
  rewrite bytes_ok_app, IH, operand_write_bytes_ok by exact Hx. reflexivity.
Qed.

Lemma operator_write_bytes_ok op : bytes_ok (operator_write op) = true.
Proof. unfold operator_write. destruct (operator_wide_above <? op); apply write_prim_ok. Qed.

Lemma entries_write_bytes_ok maxo es : Forall (entry_wf maxo) es ->
  bytes_ok (concat (map entry_write es)) = true.
Proof.
  induction 1 as [|[op ops] es [_ [Hops _]] _ IH]; [reflexivity|]. cbn [map concat fst snd] in *.
  unfold entry_write at 1. cbn [fst snd].
  rewrite !bytes_ok_app, IH, operands_write_bytes_ok, operator_write_bytes_ok by exact Hops. reflexivity.
Qed.

(* ============================================================ Part C: what the reader returns is readable-normal *)
Definition no_offset (o : operand) : Prop := match o with OOff _ => False | _ => True end.
(* an entry the reader can produce: well-formed, and reading its written form gives it back *)
Definition entry_normal (maxo : Z) (e : entry) : Prop := entry_wf maxo e /\ entry_readback e = e.

(* the TryFrom table of the current source returns, for every value it accepts, the operator whose
   `as u16` is that value, and every such operator has the one-byte or the 12-prefixed shape *)
Definition try_from_table_okb : bool :=
  forallb (fun vd => (fst vd =? snd vd) && operator_okb (snd vd)) operator_try_from_table.
Lemma try_from_table_ok : try_from_table_okb = true.
Proof. vm_compute. reflexivity. Qed.

Lemma assoc_In {B} k (l : list (Z * B)) v : assoc k l = Some v -> In (k, v) l.
Proof.
  induction l as [|[k' v'] r IH]; cbn [assoc]; [discriminate|].
  destruct (k =? k') eqn:E.
  - intros H. injection H as <-. left. f_equal. lia.
  - intros H. right. apply IH. exact H.
Qed.

Lemma operator_try_from_ok v o : operator_try_from v = Some o -> operator_ok o.
Proof.
  intros H. apply assoc_In in H. pose proof try_from_table_ok as Ht. unfold try_from_table_okb in Ht.
  rewrite forallb_forall in Ht. specialize (Ht _ H). cbn [fst snd] in Ht.
  apply andb_prop in Ht. exact (proj2 Ht).
Qed.

Lemma to_signed16_range u : -32768 <= to_signed 16 u <= 32767.
Proof.
  unfold to_signed. change (2 ^ 16) with 65536. change (2 ^ (16 - 1)) with 32768.
  pose proof (Z.mod_pos_bound u 65536 ltac:(lia)). destruct (u mod 65536 <? 32768) eqn:E; lia.
Qed.
Lemma to_signed32_range u : -2147483648 <= to_signed 32 u <= 2147483647.
Proof.
  unfold to_signed. change (2 ^ 32) with 4294967296. change (2 ^ (32 - 1)) with 2147483648.
  pose proof (Z.mod_pos_bound u 4294967296 ltac:(lia)). destruct (u mod 4294967296 <? 2147483648) eqn:E; lia.
Qed.

Lemma rd_i16_range r v : rd_prim_l PI16 r = Ok v -> -32768 <= v <= 32767.
Proof.
  unfold rd_prim_l. destruct (spec_size PI16 <=? len r); [|discriminate]. intros H. injection H as <-.
  unfold decode_prim. cbn [prim_signed spec_size]. change (8 * 2) with 16. apply to_signed16_range.
Qed.
Lemma rd_i32_range r v : rd_prim_l PI32 r = Ok v -> -2147483648 <= v <= 2147483647.
Proof.
  unfold rd_prim_l. destruct (spec_size PI32 <=? len r); [|discriminate]. intros H. injection H as <-.
  unfold decode_prim. cbn [prim_signed spec_size]. change (8 * 4) with 32. apply to_signed32_range.
Qed.
Lemma rd_u8_range r v : bytes_ok r = true -> rd_prim_l PU8 r = Ok v -> 0 <= v < 256.
Proof.
  intros Hb. destruct r as [|b r']; [discriminate|]. rewrite rd_u8_cons. intros H. injection H as <-.
  cbn [bytes_ok forallb] in Hb. apply andb_prop in Hb. destruct Hb as [Hb _]. unfold byte_ok in Hb. lia.
Qed.

Lemma dop_read_l_sound bs r n : bytes_ok bs = true -> dop_read_l bs = Ok (r, n) ->
  match r with
  | DOperator o => operator_ok o
  | DOperand x => operand_ok x /\ no_offset x
  end.
Proof.
  intros Hb. destruct bs as [|b0 rest]; [discriminate|].
  cbn [bytes_ok forallb] in Hb. apply andb_prop in Hb. destruct Hb as [Hb0 Hbr].
  change (forallb byte_ok rest) with (bytes_ok rest) in Hbr.
  assert (0 <= b0 < 256) as Hb0' by (unfold byte_ok in Hb0; lia). clear Hb0.
  unfold dop_read_l.
  destruct (b0 =? 12) eqn:E12.
  { destruct (rd_prim_l PU8 rest) as [b1| | |]; try discriminate. cbn [bind].
    destruct (operator_try_from (op2 b1)) as [o|] eqn:Et; [|discriminate].
    intros H. injection H as <- _. eapply operator_try_from_ok. exact Et. }
  destruct (b0 <=? 24) eqn:E24.
  { destruct (operator_try_from b0) as [o|] eqn:Et; [|discriminate].
    intros H. injection H as <- _. eapply operator_try_from_ok. exact Et. }
  destruct (b0 =? cffr_i16_b0).
  { destruct (rd_prim_l PI16 rest) as [v| | |] eqn:Ev; try discriminate. cbn [bind].
    intros H. injection H as <- _. apply rd_i16_range in Ev. split; [|exact I].
    cbn [operand_ok]. unfold i32_ok. lia. }
  destruct (b0 =? cffr_i32_b0).
  { destruct (rd_prim_l PI32 rest) as [v| | |] eqn:Ev; try discriminate. cbn [bind].
    intros H. injection H as <- _. apply rd_i32_range in Ev. split; [|exact I].
    cbn [operand_ok]. unfold i32_ok. lia. }
  destruct (b0 =? cffr_real_b0).
  { destruct (find_nibble 15 rest 0) as [e|] eqn:Ef; [|discriminate].
    intros H. injection H as <- _. split; [|exact I]. cbn [operand_ok]. unfold real_ok.
    pose proof (find_nibble_bound _ _ _ _ Ef) as Hbd.
    split; [apply bytes_ok_take; exact Hbr|].
    rewrite len_take by lia. pose proof (find_nibble_take _ _ _ _ Ef) as Ht.
    replace (e - 0 + 1) with (e + 1) in Ht by lia. rewrite Ht. f_equal. lia. }
  destruct (between cffr_small_lo b0 cffr_small_hi) eqn:Es.
  { intros H. injection H as <- _. split; [|exact I]. cbn [operand_ok]. unfold i32_ok. unfold_cffd. lia. }
  destruct (between cffr_pos_lo b0 cffr_pos_hi) eqn:Ep.
  { destruct (rd_prim_l PU8 rest) as [b1| | |] eqn:Ev; try discriminate. cbn [bind].
    intros H. injection H as <- _. apply (rd_u8_range _ _ Hbr) in Ev. split; [|exact I].
    cbn [operand_ok]. unfold i32_ok. unfold_cffd. lia. }
  destruct (between cffr_neg_lo b0 cffr_neg_hi) eqn:En.
  { destruct (rd_prim_l PU8 rest) as [b1| | |] eqn:Ev; try discriminate. cbn [bind].
    intros H. injection H as <- _. apply (rd_u8_range _ _ Hbr) in Ev. split; [|exact I].
    cbn [operand_ok]. unfold i32_ok. unfold_cffd. lia. }
  discriminate.
Qed.

(* ---------- integer_to_offset *)
Lemma deoffset_id l : Forall no_offset l -> map deoffset l = l.
Proof.
  induction 1 as [|x l Hx _ IH]; [reflexivity|]. cbn [map]. rewrite IH.
  destruct x; [reflexivity|destruct Hx|reflexivity].
Qed.

Lemma ito_cases op l :
  integer_to_offset op l = l \/
  (exists v, l = [OInt v] /\ integer_to_offset op l = [OOff v]) \/
  (exists a b, l = [OInt a; OInt b] /\ integer_to_offset op l = [OOff a; OOff b]).
Proof.
  unfold integer_to_offset.
  destruct l as [|x l]; [left; reflexivity|].
  destruct x as [v| |]; try (left; reflexivity).
  destruct l as [|y l].
  - destruct ((op =? ito_guard_op) && (ito_guard_min <? v)); [right; left; eauto|].
    destruct (mem_z op ito_single_ops); [right; left; eauto|left; reflexivity].
  - destruct y as [w| |]; try (left; reflexivity).
    destruct l; [|left; reflexivity].
    destruct (mem_z op ito_pair_ops); [right; right; eauto|left; reflexivity].
Qed.

Lemma ito_ok op l : Forall operand_ok l -> Forall operand_ok (integer_to_offset op l).
Proof.
  intros H. destruct (ito_cases op l) as [->|[[v [-> ->]]|[a [b [-> ->]]]]]; [exact H| |].
  - inversion H; subst. constructor; [assumption|constructor].
  - inversion H as [|? ? Ha H']; subst. inversion H' as [|? ? Hb _]; subst. constructor; [exact Ha|]. constructor; [exact Hb|constructor].
Qed.

Lemma ito_len op l : len (integer_to_offset op l) = len l.
Proof. destruct (ito_cases op l) as [->|[[v [-> ->]]|[a [b [-> ->]]]]]; reflexivity. Qed.

Lemma ito_deoffset op l : Forall no_offset l -> map deoffset (integer_to_offset op l) = l.
Proof.
  intros H. destruct (ito_cases op l) as [->|[[v [-> ->]]|[a [b [-> ->]]]]]; [apply deoffset_id; exact H| |]; reflexivity.
Qed.

Lemma Forall_rev' {A} (P : A -> Prop) l : Forall P l -> Forall P (rev l).
Proof. intros H. apply Forall_forall. intros x Hx. apply in_rev in Hx. rewrite Forall_forall in H. auto. Qed.

Lemma len_rev {A} (l : list A) : len (rev l) = len l.
Proof. unfold len. rewrite rev_length. reflexivity. Qed.

Lemma dict_read_l_normal maxo : 0 <= maxo -> forall fuel bs rops d,
  bytes_ok bs = true -> Forall operand_ok rops -> Forall no_offset rops -> len rops <= maxo ->
  dict_read_l fuel bs maxo rops = Ok d -> Forall (entry_normal maxo) d.
Proof.
  intros Hmax. induction fuel as [|f IH]; intros bs rops d Hb Hok Hno Hlen H.
  - cbn [dict_read_l] in H. destruct (is_nil bs); [|discriminate]. injection H as <-. constructor.
  - rewrite dict_read_l_S in H. destruct (is_nil bs); [injection H as <-; constructor|].
    destruct (dop_read_l bs) as [[r n]| | |] eqn:E; try discriminate. cbn [bind] in H. cbv beta iota in H.
    pose proof (dop_read_l_sound _ _ _ Hb E) as Hs.
    assert (bytes_ok (drop n bs) = true) as Hb' by (apply bytes_ok_drop; exact Hb).
    destruct r as [o|x].
    + destruct (dict_read_l f (drop n bs) maxo []) as [rest| | |] eqn:Er; try discriminate.
      cbn [bind] in H. injection H as <-. constructor.
      * unfold entry_normal, entry_wf, entry_readback. cbn [fst snd]. repeat split.
        -- exact Hs.
        -- apply ito_ok. apply Forall_rev'. exact Hok.
        -- rewrite ito_len, len_rev. exact Hlen.
        -- rewrite ito_deoffset by (apply Forall_rev'; exact Hno). reflexivity.
      * eapply IH; [exact Hb'|constructor|constructor|rewrite len_nil; lia|exact Er].
    + destruct (maxo <? len (x :: rops)) eqn:El; [discriminate|].
      destruct Hs as [Hx Hnx].
      eapply IH; [exact Hb'| | | |exact H].
      * constructor; assumption.
      * constructor; assumption.
      * lia.
Qed.

(* ============================================================ Part D: the statements about dict_read / dict_write *)
(* the writer's declared normalisation: entries whose operand list EQUALS the operator's default
   list are omitted; everything else is kept, in order *)
Definition elide_defaults (defs : list (Z * list operand)) (d : dict) : dict :=
  filter (fun e => negb (is_default defs (fst e) (snd e))) d.
Definition dict_normal (maxo : Z) (d : dict) : Prop := Forall (entry_normal maxo) d.
(* what reading the written DICT returns, delta included *)
Definition dict_expected (defs : list (Z * list operand)) (d delta : dict) : dict :=
  map entry_readback (dict_written defs d delta).

Lemma operand_eqb_eq a b : operand_eqb a b = true <-> a = b.
Proof.
  destruct a as [x|x|x], b as [y|y|y]; cbn [operand_eqb]; try (split; [discriminate|intros H; discriminate H]).
  - split; [intros H; f_equal; lia|intros H; injection H as ->; lia].
  - split; [intros H; f_equal; lia|intros H; injection H as ->; lia].
  - rewrite zlist_eqb_eq. split; [intros ->; reflexivity|intros H; injection H as ->; reflexivity].
Qed.

Lemma operands_eqb_eq a : forall b, operands_eqb a b = true <-> a = b.
Proof.
  induction a as [|x a IH]; intros [|y b]; cbn [operands_eqb]; try (split; [discriminate|intros H; discriminate H]).
  - split; reflexivity.
  - rewrite andb_true_iff, operand_eqb_eq, IH. split; [intros [-> ->]; reflexivity|intros H; injection H as -> ->; auto].
Qed.

(* "equals the default": same operands, same length, same kinds — nothing less *)
Lemma is_default_spec defs op ops : is_default defs op ops = true <-> assoc op defs = Some ops.
Proof.
  unfold is_default. destruct (assoc op defs) as [dflt|].
  - rewrite operands_eqb_eq. split; [intros ->; reflexivity|intros H; injection H as ->; reflexivity].
  - split; discriminate.
Qed.

Lemma dict_written_nodelta defs d : dict_written defs d [] = elide_defaults defs d.
Proof.
  induction d as [|[op ops] r IH]; [reflexivity|]. cbn [dict_written delta_get assoc elide_defaults filter fst snd].
  destruct (is_default defs op ops); cbn [negb]; rewrite IH; reflexivity.
Qed.

Theorem elide_defaults_spec defs d op ops :
  In (op, ops) (elide_defaults defs d) <-> In (op, ops) d /\ assoc op defs <> Some ops.
Proof.
  unfold elide_defaults. rewrite filter_In. cbn [fst snd]. rewrite negb_true_iff.
  rewrite <- is_default_spec. destruct (is_default defs op ops); split; intros [H1 H2]; split; auto; try discriminate.
  exfalso. apply H2. reflexivity.
Qed.

Lemma elide_defaults_app defs a b : elide_defaults defs (a ++ b) = elide_defaults defs a ++ elide_defaults defs b.
Proof. apply filter_app. Qed.

Lemma elide_defaults_idem defs d : elide_defaults defs (elide_defaults defs d) = elide_defaults defs d.
Proof.
  unfold elide_defaults. induction d as [|e r IH]; [reflexivity|]. cbn [filter].
  destruct (negb (is_default defs (fst e) (snd e))) eqn:E; [cbn [filter]; rewrite E, IH; reflexivity|exact IH].
Qed.

(* ---------- read(write(d, delta)) for any delta *)
Theorem dict_roundtrip_delta defs maxo d delta :
  Forall (entry_wf maxo) (dict_written defs d delta) -> len (dict_write defs d delta) < USIZE ->
  dict_read (table_ctxt (dict_write defs d delta)) maxo = Ok (dict_expected defs d delta).
Proof.
  intros Hwf Hl. unfold dict_write in *.
  rewrite dict_read_table; [|eapply entries_write_bytes_ok; exact Hwf|exact Hl].
  apply read_entries; [exact Hwf|lia].
Qed.

Lemma normal_readback maxo es : Forall (entry_normal maxo) es -> map entry_readback es = es.
Proof. induction 1 as [|e es [_ He] _ IH]; [reflexivity|]. cbn [map]. rewrite He, IH. reflexivity. Qed.

Lemma Forall_filter {A} (P : A -> Prop) f l : Forall P l -> Forall P (filter f l).
Proof. intros H. apply Forall_forall. intros x Hx. apply filter_In in Hx. rewrite Forall_forall in H. apply H. tauto. Qed.

Lemma Forall_impl' {A} (P Q : A -> Prop) l : (forall x, P x -> Q x) -> Forall P l -> Forall Q l.
Proof. intros HPQ H. induction H; constructor; auto. Qed.

(* ---------- read(write(d)) = d minus its exactly-default entries *)
Theorem dict_roundtrip defs maxo d :
  dict_normal maxo d -> len (dict_write defs d []) < USIZE ->
  dict_read (table_ctxt (dict_write defs d [])) maxo = Ok (elide_defaults defs d).
Proof.
  intros Hn Hl.
  assert (Forall (entry_normal maxo) (elide_defaults defs d)) as Hn' by (apply Forall_filter; exact Hn).
  rewrite dict_roundtrip_delta; [|rewrite dict_written_nodelta; eapply Forall_impl'; [|exact Hn']; intros x [Hx _]; exact Hx|exact Hl].
  unfold dict_expected. rewrite dict_written_nodelta. f_equal. eapply normal_readback. exact Hn'.
Qed.

(* ---------- stability *)
Theorem dict_write_elided defs d : dict_write defs (elide_defaults defs d) [] = dict_write defs d [].
Proof. unfold dict_write. rewrite !dict_written_nodelta, elide_defaults_idem. reflexivity. Qed.

Theorem dict_write_read_write defs maxo d :
  dict_normal maxo d -> len (dict_write defs d []) < USIZE ->
  exists d', dict_read (table_ctxt (dict_write defs d [])) maxo = Ok d' /\
             dict_write defs d' [] = dict_write defs d [].
Proof.
  intros Hn Hl. exists (elide_defaults defs d). split; [apply dict_roundtrip; assumption|apply dict_write_elided].
Qed.

(* ---------- whatever the reader accepts is readable-normal *)
Theorem dict_read_normal maxo b d :
  0 <= maxo -> bytes_ok b = true -> len b < USIZE ->
  dict_read (table_ctxt b) maxo = Ok d -> dict_normal maxo d.
Proof.
  intros Hm Hb Hl H. rewrite dict_read_table in H by assumption.
  eapply dict_read_l_normal; [exact Hm|exact Hb|constructor|constructor|rewrite len_nil; lia|exact H].
Qed.

(* ---------- parse-write-parse on arbitrary parsable bytes *)
Theorem dict_parse_write_parse defs maxo b d :
  0 <= maxo -> bytes_ok b = true -> len b < USIZE ->
  dict_read (table_ctxt b) maxo = Ok d -> len (dict_write defs d []) < USIZE ->
  dict_read (table_ctxt (dict_write defs d [])) maxo = Ok (elide_defaults defs d) /\
  dict_write defs (elide_defaults defs d) [] = dict_write defs d [] /\
  dict_read (table_ctxt (dict_write defs (elide_defaults defs d) [])) maxo = Ok (elide_defaults defs d).
Proof.
  intros Hm Hb Hl H Hw. pose proof (dict_read_normal _ _ _ Hm Hb Hl H) as Hn.
  pose proof (dict_roundtrip defs maxo d Hn Hw) as H1. pose proof (dict_write_elided defs d) as H2.
  repeat split; [exact H1|exact H2|]. rewrite H2. exact H1.
Qed.

(* ---------- the delta: named entries are written with the delta's operands and are never elided;
   the others are written unless exactly default; nothing else is written *)
Theorem dict_written_spec defs d delta :
  (forall op ops dops, In (op, ops) d -> delta_get delta op = Some dops -> In (op, dops) (dict_written defs d delta)) /\
  (forall op ops, In (op, ops) d -> delta_get delta op = None -> is_default defs op ops = false ->
                  In (op, ops) (dict_written defs d delta)) /\
  (forall op wops, In (op, wops) (dict_written defs d delta) ->
                   (exists ops, In (op, ops) d /\ delta_get delta op = Some wops) \/
                   (In (op, wops) d /\ delta_get delta op = None /\ is_default defs op wops = false)) /\
  (length (dict_written defs d delta) <= length d)%nat.
Proof.
  induction d as [|[o os] r [IH1 [IH2 [IH3 IH4]]]].
  - cbn [dict_written In length]. repeat split; try contradiction. lia.
  - cbn [dict_written]. repeat split.
    + intros op ops dops [Hin|Hin] Hd.
      * injection Hin as -> ->. rewrite Hd. left. reflexivity.
      * destruct (delta_get delta o); [right|destruct (is_default defs o os); [|right]]; eapply IH1; eassumption.
    + intros op ops [Hin|Hin] Hd Hdef.
      * injection Hin as -> ->. rewrite Hd, Hdef. left. reflexivity.
      * destruct (delta_get delta o); [right|destruct (is_default defs o os); [|right]]; eapply IH2; eassumption.
    + intros op wops Hin. destruct (delta_get delta o) as [dops|] eqn:Ed.
      * destruct Hin as [Hin|Hin].
        -- injection Hin as <- <-. left. exists os. split; [left; reflexivity|exact Ed].
        -- destruct (IH3 _ _ Hin) as [[ops [H1 H2]]|[H1 H2]]; [left; exists ops; split; [right|]; assumption|right; split; [right|]; assumption].
      * destruct (is_default defs o os) eqn:Edef.
        -- destruct (IH3 _ _ Hin) as [[ops [H1 H2]]|[H1 H2]]; [left; exists ops; split; [right|]; assumption|right; split; [right|]; assumption].
        -- destruct Hin as [Hin|Hin].
           ++ injection Hin as <- <-. right. split; [left; reflexivity|split; assumption].
           ++ destruct (IH3 _ _ Hin) as [[ops [H1 H2]]|[H1 H2]]; [left; exists ops; split; [right|]; assumption|right; split; [right|]; assumption].
    + destruct (delta_get delta o); [cbn [length]; lia|]. destruct (is_default defs o os); cbn [length]; lia.
Qed.

(* offsets handed over in a delta come back as offsets where the reader types them so *)
Lemma readback_offset_single op v : mem_z op ito_single_ops = true -> entry_readback (op, [OOff v]) = (op, [OOff v]).
Proof.
  intros H. unfold entry_readback, integer_to_offset. cbn [fst snd map deoffset]. rewrite H.
  destruct ((op =? ito_guard_op) && (ito_guard_min <? v)); reflexivity.
Qed.
Lemma readback_offset_pair op l o : mem_z op ito_pair_ops = true -> entry_readback (op, [OOff l; OOff o]) = (op, [OOff l; OOff o]).
Proof. intros H. unfold entry_readback, integer_to_offset. cbn [fst snd map deoffset]. rewrite H. reflexivity. Qed.

(* ---------- the length returned is the number of bytes written *)
Theorem dict_write_dep_length written defs d delta b n :
  dict_write_dep written defs d delta = Ok (b, n) -> b = dict_write defs d delta /\ n = len b.
Proof. unfold dict_write_dep. intros H. injection H as <- <-. split; [reflexivity|lia]. Qed.

(* ---------- the reader never panics: the fuel suffices and every one-byte operator code the
   first-byte match hands to `try_into().unwrap()` is accepted by TryFrom *)
Definition one_byte_operators_knownb : bool :=
  forallb (fun b0 => (b0 =? 12) || match operator_try_from b0 with Some _ => true | None => false end) (range 0 25).
Lemma one_byte_operators_known : one_byte_operators_knownb = true.
Proof. vm_compute. reflexivity. Qed.

Definition definite {A} (x : outcome A) : Prop := x <> Panic /\ x <> OOB.

Lemma rd_prim_l_definite p bs : definite (rd_prim_l p bs).
Proof. unfold rd_prim_l, definite. destruct (spec_size p <=? len bs); split; discriminate. Qed.

Lemma dop_read_l_definite bs : bytes_ok bs = true -> definite (dop_read_l bs).
Proof.
  intros Hb. destruct bs as [|b0 rest]; [split; discriminate|].
  cbn [bytes_ok forallb] in Hb. apply andb_prop in Hb. destruct Hb as [Hb0 _].
  assert (0 <= b0 < 256) as Hb0' by (unfold byte_ok in Hb0; lia).
  unfold dop_read_l.
  assert (forall (p : prim) (f : Z -> outcome (dop * Z)), (forall v, definite (f v)) ->
            definite (v <- rd_prim_l p rest ;; f v)) as Hp.
  { intros p f Hf. destruct (rd_prim_l_definite p rest) as [H1 H2].
    destruct (rd_prim_l p rest); cbn [bind]; try (split; discriminate); try contradiction. apply Hf. }
  destruct (b0 =? 12) eqn:E12.
  { apply Hp. intros v. destruct (operator_try_from (op2 v)); split; discriminate. }
  destruct (b0 <=? 24) eqn:E24.
  { pose proof one_byte_operators_known as Hk. unfold one_byte_operators_knownb in Hk.
    rewrite forallb_forall in Hk. specialize (Hk b0). rewrite range_In in Hk. specialize (Hk ltac:(lia)).
    rewrite E12 in Hk. cbn [orb] in Hk. destruct (operator_try_from b0); [split; discriminate|discriminate]. }
  destruct (b0 =? cffr_i16_b0). { apply Hp. intros v. split; discriminate. }
  destruct (b0 =? cffr_i32_b0). { apply Hp. intros v. split; discriminate. }
  destruct (b0 =? cffr_real_b0). { destruct (find_nibble 15 rest 0); split; discriminate. }
  destruct (between cffr_small_lo b0 cffr_small_hi). { split; discriminate. }
  destruct (between cffr_pos_lo b0 cffr_pos_hi). { apply Hp. intros v. split; discriminate. }
  destruct (between cffr_neg_lo b0 cffr_neg_hi). { apply Hp. intros v. split; discriminate. }
  split; discriminate.
Qed.

Lemma dict_read_l_definite maxo : forall fuel bs rops,
  bytes_ok bs = true -> (length bs < fuel)%nat -> definite (dict_read_l fuel bs maxo rops).
Proof.
  induction fuel as [|f IH]; intros bs rops Hb Hf; [lia|].
  rewrite dict_read_l_S. destruct (is_nil bs); [split; discriminate|].
  destruct (dop_read_l_definite bs Hb) as [H1 H2].
  destruct (dop_read_l bs) as [[r n]| | |] eqn:E; cbn [bind]; try (split; discriminate); try contradiction.
  cbv beta iota. apply dop_read_l_consumed in E.
  assert (bytes_ok (drop n bs) = true) as Hb' by (apply bytes_ok_drop; exact Hb).
  assert (length (drop n bs) < f)%nat as Hf'.
  { pose proof (len_drop n bs ltac:(lia)) as Hd. unfold len in *. lia. }
  destruct r as [o|x].
  - destruct (IH (drop n bs) [] Hb' Hf') as [H3 H4].
    destruct (dict_read_l f (drop n bs) maxo []); cbn [bind]; try (split; discriminate); contradiction.
  - destruct (maxo <? len (x :: rops)); [split; discriminate|]. apply IH; assumption.
Qed.

Theorem dict_read_definite maxo b : bytes_ok b = true -> len b < USIZE ->
  definite (dict_read (table_ctxt b) maxo).
Proof.
  intros Hb Hl. rewrite dict_read_table by assumption. apply dict_read_l_definite; [exact Hb|lia].
Qed.

(* ============================================================ the tables of the current source *)
Lemma mem_z_In x l : mem_z x l = true <-> In x l.
Proof.
  unfold mem_z. rewrite existsb_exists. split.
  - intros [y [Hy He]]. apply Z.eqb_eq in He. subst y. exact Hy.
  - intros H. exists x. split; [exact H|apply Z.eqb_refl].
Qed.

Lemma assoc_some_iff {B} k (l : list (Z * B)) : (exists v, assoc k l = Some v) <-> In k (map fst l).
Proof.
  induction l as [|[k' v'] r IH]; cbn [assoc map fst In].
  - split; [intros [v H]; discriminate|contradiction].
  - destruct (k =? k') eqn:E.
    + split; [intros _; left; lia|intros _; eexists; reflexivity].
    + rewrite IH. split; [intros H; right; exact H|intros [H|H]; [lia|exact H]].
Qed.

Definition same_setb (a b : list Z) : bool :=
  forallb (fun x => mem_z x b) a && forallb (fun x => mem_z x a) b.
Lemma same_setb_spec a b : same_setb a b = true -> forall x, In x a <-> In x b.
Proof.
  unfold same_setb. rewrite andb_true_iff, !forallb_forall. intros [H1 H2] x.
  split; intros H; apply mem_z_In; auto.
Qed.

(* every operator of `enum Operator` survives Operator::write -> Op::read, and TryFrom<u16> accepts
   exactly the discriminants of the enum *)
Theorem operators_agree :
  Forall operator_ok operator_enum /\
  (forall v, (exists o, operator_try_from v = Some o) <-> In v operator_enum).
Proof.
  split.
  - apply Forall_forall. intros op Hin.
    assert (forallb operator_okb operator_enum = true) as H by (vm_compute; reflexivity).
    rewrite forallb_forall in H. apply H. exact Hin.
  - intros v. unfold operator_try_from. rewrite assoc_some_iff.
    apply same_setb_spec. vm_compute. reflexivity.
Qed.

(* the declared normalisation, pinned: default tables (Technical Note #5176 tables 9, 10, 23; CFF2
   tables 9 and 16), the operators whose operands are offsets, the operand limits *)
Definition font_matrix_default : list operand := [OReal [10; 0; 31]; OInt 0; OInt 0; OReal [10; 0; 31]; OInt 0; OInt 0].
Theorem dict_tables_declared :
  top_dict_default =
    [(3073, [OInt 0]); (3074, [OInt 0]); (3075, [OInt (-100)]); (3076, [OInt 50]); (3077, [OInt 0]);
     (3078, [OInt 2]); (3079, font_matrix_default); (5, [OInt 0; OInt 0; OInt 0; OInt 0]); (3080, [OInt 0]);
     (15, [OOff 0]); (16, [OOff 0]); (3103, [OInt 0]); (3104, [OInt 0]); (3105, [OInt 0]); (3106, [OInt 8720])] /\
  font_dict_default = [] /\
  private_dict_default =
    [(3081, [OReal [10; 3; 150; 37; 255]]); (3082, [OInt 7]); (3083, [OInt 1]); (3086, [OInt 0]); (3089, [OInt 0]);
     (3090, [OReal [10; 6; 255]]); (3091, [OInt 0]); (3080, [OInt 0]); (20, [OInt 0]); (21, [OInt 0])] /\
  cff2_top_dict_default = [(3079, font_matrix_default)] /\
  cff2_font_dict_default = [] /\
  cff2_private_dict_default =
    [(3081, [OReal [10; 3; 150; 37; 255]]); (3082, [OInt 7]); (3083, [OInt 1]); (3089, [OInt 0]);
     (3090, [OReal [10; 6; 255]]); (22, [OInt 0])] /\
  ito_guard_op = 16 /\ ito_guard_min = 1 /\ ito_single_ops = [15; 17; 19; 3108; 3109; 24] /\ ito_pair_ops = [18] /\
  cff_max_operands = 48 /\ cff2_max_operands = 513 /\ operator_wide_above = 255 /\ end_of_float_flag = 15 /\
  cffw_real_b0 = cffr_real_b0.
Proof. repeat split; reflexivity. Qed.
