(* Proofs/ArrayTableProofs.v — tables that are arrays: hmtx (numberOfHMetrics <= numGlyphs),
   loca short/long through the owned writer (with its refusals). *)
From AV Require Import Base.Prelude Base.Lemmas Gen.ReaderPrims Model.Reader Model.ReaderExt
  Proofs.ReaderProofs Proofs.EncodeProofs Model.TableLayout Proofs.TableLayoutProofs Proofs.RecordProofs
  Gen.TableLayouts Model.Tables Proofs.TableProofs.
From Coq Require Import ZifyBool ZifyNat.
Ltac Zify.zify_post_hook ::= Z.div_mod_to_equations.
Open Scope Z_scope.

(* ---------- hmtx *)
Lemma long_hor_metric_ty_eq : long_hor_metric_ty = [PU16; PI16].
Proof. reflexivity. Qed.

Definition hmtx_ok (t : hmtx) : Prop :=
  Forall (rec_ok long_hor_metric_ty) (fst t) /\ Forall (fun v => prim_in_range PI16 v = true) (snd t).

Lemma lhm_write_enc r : rec_ok long_hor_metric_ty r ->
  write_items false long_hor_metric_write r = enc_rec long_hor_metric_ty r.
Proof.
  rewrite long_hor_metric_ty_eq. destruct r as [|a [|l [|x r]]]; cbn [rec_ok]; try tauto; intros _; reflexivity.
Qed.

Lemma single_recs p (ls : list Z) :
  concat (map (write_prim p) ls) = enc_recs [p] (map (fun v => [v]) ls).
Proof.
  unfold enc_recs. rewrite map_map. f_equal. apply map_ext. intros v. cbn [enc_rec]. rewrite app_nil_r. reflexivity.
Qed.

Lemma single_recs_ok p (ls : list Z) :
  Forall (fun v => prim_in_range p v = true) ls -> Forall (rec_ok [p]) (map (fun v => [v]) ls).
Proof. intros H. rewrite Forall_map. eapply Forall_impl; [|exact H]. intros v Hv. cbn. auto. Qed.

Lemma len_map {A B} (f : A -> B) l : len (map f l) = len l.
Proof. unfold len. rewrite map_length. reflexivity. Qed.

(* Theorem: hmtx with numberOfHMetrics long metrics followed by numGlyphs - numberOfHMetrics bare
   left side bearings (signed) reads back as written *)
Theorem hmtx_roundtrip (t : hmtx) rest c :
  hmtx_ok t -> cgood c -> at_bytes c (hmtx_write t ++ rest) ->
  exists c', hmtx_read c (len (fst t) + len (snd t)) (len (fst t)) = Ok (t, c') /\ advanced c c' rest.
Proof.
  destruct t as [hm ls]. intros [Hhm Hls] Hg Hat. cbn [fst snd] in *.
  unfold hmtx_write in Hat. cbn [fst snd] in Hat. rewrite <- app_assoc in Hat.
  assert (map (write_items false long_hor_metric_write) hm = map (enc_rec long_hor_metric_ty) hm) as Hm.
  { apply map_ext_in. intros r Hr. apply lhm_write_enc. rewrite Forall_forall in Hhm. auto. }
  rewrite Hm in Hat. fold (enc_recs long_hor_metric_ty hm) in Hat.
  assert (0 < ty_size long_hor_metric_ty < USIZE) as Hsz by (rewrite long_hor_metric_ty_eq; cbv; split; reflexivity).
  destruct (read_records_layout _ c hm _ Hg Hsz Hhm Hat) as [c1 [E1 A1]].
  unfold hmtx_read. rewrite E1. cbn [bind]. cbv beta iota.
  pose proof (len_nonneg ls). replace (Z.max 0 (len hm + len ls - len hm)) with (len ls) by lia.
  pose proof (proj2 (proj2 A1)) as Hat1. rewrite single_recs in Hat1.
  rewrite <- (len_map (fun v => [v]) ls).
  assert (0 < ty_size [PI16] < USIZE) as Hsz2 by (cbv; split; reflexivity).
  destruct (read_records_layout _ c1 _ rest (proj1 A1) Hsz2 (single_recs_ok _ _ Hls) Hat1) as [c2 [E2 A2]].
  rewrite E2. cbn [bind]. cbv beta iota. exists c2. split; [|eapply advanced_trans; eassumption].
  rewrite map_map. cbn [hd]. rewrite map_id. reflexivity.
Qed.

(* ---------- loca through loca::owned::LocaTable::write_dep *)
Definition u32_ok (v : Z) : Prop := 0 <= v <= 4294967295.

Lemma loca_short_loop offs : forall b, Forall u32_ok offs ->
  loca_write_short offs = Ok b ->
  b = enc_recs [PU16] (map (fun o => [o / 2]) offs) /\
  Forall (fun o => o mod 2 = 0 /\ 0 <= o <= 131070) offs.
Proof.
  induction offs as [|o r IH]; intros b Hu H.
  - cbn in H. injection H as <-. split; [reflexivity|constructor].
  - inversion Hu as [|? ? Ho Hr]; subst. cbn [loca_write_short] in H.
    change loca_short_divisor with 2 in H.
    assert (Z.land o 1 = o mod 2) as Hl by (change 1 with (Z.ones 1); rewrite Z.land_ones by lia; reflexivity).
    rewrite Hl in H. destruct (o mod 2 =? 1) eqn:E; [discriminate|].
    unfold try_u16 in H. destruct ((0 <=? o / 2) && (o / 2 <=? 65535)) eqn:E2; [|discriminate].
    cbn [bind] in H. destruct (loca_write_short r) as [rest| | |] eqn:E3; try discriminate.
    cbn [bind] in H. injection H as <-. destruct (IH rest Hr eq_refl) as [-> Hf].
    split.
    + unfold enc_recs. cbn [map concat enc_rec]. rewrite app_nil_r. reflexivity.
    + constructor; [|exact Hf]. unfold u32_ok in Ho. lia.
Qed.

(* Refusal: whenever the short-format writer returns Ok, every offset was even and its half fits
   16 bits — nothing was truncated; and the bytes are exactly the halves. *)
Theorem loca_short_refuses_unrepresentable offs b :
  Forall u32_ok offs -> loca_write 0 offs = Ok b ->
  Forall (fun o => o mod 2 = 0 /\ 0 <= o <= 131070) offs /\ len b = 2 * len offs.
Proof.
  intros Hu H. unfold loca_write in H. cbn [Z.eqb] in H.
  destruct (match offs with [] => false | _ => last offs 0 / 2 >? 65535 end); [discriminate|].
  destruct (loca_short_loop offs b Hu H) as [-> Hf]. split; [exact Hf|].
  rewrite len_enc_recs.
  - rewrite len_map. cbv [ty_size fold_right prim_size]. lia.
  - rewrite Forall_map. eapply Forall_impl; [|exact Hf]. intros o [Ho1 Ho2]. cbn. split; [|exact I].
    unfold prim_in_range. cbn. lia.
Qed.

(* ... and it accepts everything that is representable *)
Theorem loca_short_accepts_representable offs :
  Forall (fun o => o mod 2 = 0 /\ 0 <= o <= 131070) offs -> exists b, loca_write 0 offs = Ok b.
Proof.
  intros H. unfold loca_write. cbn [Z.eqb].
  assert (exists b, loca_write_short offs = Ok b) as [b Hb].
  { induction offs as [|o r IH]; [eexists; reflexivity|].
    inversion H as [|? ? [Ho1 Ho2] Hr]; subst. destruct (IH Hr) as [b Hb].
    cbn [loca_write_short]. change loca_short_divisor with 2.
    assert (Z.land o 1 = o mod 2) as Hl by (change 1 with (Z.ones 1); rewrite Z.land_ones by lia; reflexivity).
    rewrite Hl. replace (o mod 2 =? 1) with false by lia. unfold try_u16.
    replace ((0 <=? o / 2) && (o / 2 <=? 65535)) with true by lia. cbn [bind]. rewrite Hb. cbn [bind]. eauto. }
  destruct offs as [|o r]; [eauto|].
  assert (last (o :: r) 0 / 2 >? 65535 = false) as Hlast.
  { assert (In (last (o :: r) 0) (o :: r)) as Hin.
    { clear. revert o. induction r as [|x r IH]; intros o; [left; reflexivity|].
      change (last (o :: x :: r) 0) with (last (x :: r) 0). right. apply IH. }
    rewrite Forall_forall in H. specialize (H _ Hin). lia. }
  rewrite Hlast. eauto.
Qed.

Theorem loca_short_roundtrip offs b rest c :
  Forall u32_ok offs -> offs <> [] -> loca_write 0 offs = Ok b ->
  cgood c -> at_bytes c (b ++ rest) ->
  exists c', loca_read c (len offs - 1) 0 = Ok (offs, c') /\ advanced c c' rest.
Proof.
  intros Hu Hne H Hg Hat. unfold loca_write in H. cbn [Z.eqb] in H.
  destruct (match offs with [] => false | _ => last offs 0 / 2 >? 65535 end); [discriminate|].
  destruct (loca_short_loop offs b Hu H) as [-> Hf].
  assert (Forall (rec_ok [PU16]) (map (fun o => [o / 2]) offs)) as Hok.
  { rewrite Forall_map. eapply Forall_impl; [|exact Hf]. intros o [Ho1 Ho2]. cbn. split; [|exact I].
    unfold prim_in_range. cbn. lia. }
  assert (0 < ty_size [PU16] < USIZE) as Hsz by (cbv; split; reflexivity).
  destruct (read_records_layout _ c _ rest Hg Hsz Hok Hat) as [c1 [E1 A1]].
  unfold loca_read. cbn [Z.eqb]. rewrite len_map in E1.
  replace (len offs - 1 + 1) with (len offs) by lia. rewrite E1. cbn [bind]. cbv beta iota.
  exists c1. split; [|exact A1]. f_equal. f_equal. rewrite map_map. cbn [hd]. change loca_short_divisor with 2.
  rewrite <- (map_id offs) at 2. apply map_ext_in. intros o Ho. rewrite Forall_forall in Hf. specialize (Hf _ Ho). lia.
Qed.

Theorem loca_long_roundtrip offs rest c :
  Forall u32_ok offs -> offs <> [] ->
  cgood c -> at_bytes c (concat (map (write_prim PU32) offs) ++ rest) ->
  loca_write 1 offs = Ok (concat (map (write_prim PU32) offs)) /\
  exists c', loca_read c (len offs - 1) 1 = Ok (offs, c') /\ advanced c c' rest.
Proof.
  intros Hu Hne Hg Hat. split; [reflexivity|]. rewrite single_recs in Hat.
  assert (Forall (fun v => prim_in_range PU32 v = true) offs) as Hr.
  { eapply Forall_impl; [|exact Hu]. intros o Ho. unfold u32_ok in Ho. unfold prim_in_range. cbn. lia. }
  assert (0 < ty_size [PU32] < USIZE) as Hsz by (cbv; split; reflexivity).
  destruct (read_records_layout _ c _ rest Hg Hsz (single_recs_ok _ _ Hr) Hat) as [c1 [E1 A1]].
  unfold loca_read. change (1 =? 0) with false. cbv iota. rewrite len_map in E1.
  replace (len offs - 1 + 1) with (len offs) by lia. rewrite E1. cbn [bind]. cbv beta iota.
  exists c1. split; [|exact A1]. rewrite map_map. cbn [hd]. rewrite map_id. reflexivity.
Qed.
