(* Proofs/Woff2Ints.v — 255UInt16 and UIntBase128: the readers of src/woff2.rs decode every
   encoding the specification allows, and accept nothing else. *)
From AV Require Import Base.Prelude Base.Lemmas Gen.Woff2Lut Model.Woff2 Proofs.Woff2Spec.
From Coq Require Import ZifyBool.
Ltac Zify.zify_post_hook ::= Z.div_mod_to_equations.
Open Scope Z_scope.

(* ------------------------------------------------------------------ stream facts *)
Lemma split_at_spec : forall s n, 0 <= n ->
  split_at s n = if n <=? len s then Some (take n s, drop n s) else None.
Proof.
  induction s as [|b r IH]; intros n Hn; cbn [split_at].
  - destruct (n <=? 0) eqn:E.
    + assert (n = 0) by lia; subst. reflexivity.
    + rewrite len_nil. rewrite E. reflexivity.
  - destruct (n <=? 0) eqn:E.
    + assert (n = 0) by lia; subst. rewrite len_cons.
      destruct (0 <=? 1 + len r) eqn:E2; [reflexivity|]. pose proof (len_nonneg r). lia.
    + rewrite IH by lia. rewrite len_cons.
      destruct (n - 1 <=? len r) eqn:E2.
      * replace (n <=? 1 + len r) with true by lia.
        unfold take, drop. replace (Z.to_nat n) with (S (Z.to_nat (n - 1))) by lia. reflexivity.
      * replace (n <=? 1 + len r) with false by lia. reflexivity.
Qed.

Lemma rd_slice_spec : forall n s, 0 <= n ->
  rd_slice n s = if n <=? len s then Ok (take n s, drop n s) else Err Eof.
Proof.
  intros n s Hn. unfold rd_slice. rewrite split_at_spec by exact Hn.
  destruct (n <=? len s); reflexivity.
Qed.

Lemma take_app_exact {A} (a r : list A) : take (len a) (a ++ r) = a.
Proof.
  unfold take, len. rewrite Nat2Z.id. rewrite firstn_app, Nat.sub_diag, firstn_all. cbn [firstn].
  apply app_nil_r.
Qed.
Lemma drop_app_exact {A} (a r : list A) : drop (len a) (a ++ r) = r.
Proof.
  unfold drop, len. rewrite Nat2Z.id. rewrite skipn_app, Nat.sub_diag, skipn_all. reflexivity.
Qed.

(* reading exactly the bytes that were written, whatever follows *)
Lemma rd_slice_app : forall a r, rd_slice (len a) (a ++ r) = Ok (a, r).
Proof.
  intros a r. rewrite rd_slice_spec by apply len_nonneg.
  rewrite len_app. pose proof (len_nonneg r).
  replace (len a <=? len a + len r) with true by lia.
  rewrite take_app_exact, drop_app_exact. reflexivity.
Qed.

Lemma rd_slice_short : forall n s, len s < n -> rd_slice n s = Err Eof.
Proof.
  intros n s H. pose proof (len_nonneg s). rewrite rd_slice_spec by lia.
  replace (n <=? len s) with false by lia. reflexivity.
Qed.

(* ------------------------------------------------------------------ 255UInt16 *)
(* every encoding the specification allows decodes to the value, leaving the rest untouched *)
Lemma packed_u16_all_encodings : forall bytes v rest,
  encodes_255 bytes v -> read_packed_u16 (bytes ++ rest) = Ok (v, rest).
Proof.
  intros bytes v rest H. destruct H as [v Hv|v Hv|v Hv|v Hv]; unfold read_packed_u16, lowest_ucode;
    cbn [app rd_u8 rd_u16 bind].
  - replace (v =? 253) with false by lia. replace (v =? 254) with false by lia.
    replace (v =? 255) with false by lia. reflexivity.
  - cbn [Z.eqb Pos.eqb]. f_equal. f_equal. lia.
  - cbn [Z.eqb Pos.eqb bind]. f_equal. f_equal. lia.
  - cbn [Z.eqb Pos.eqb bind]. f_equal. f_equal. lia.
Qed.

Lemma enc_255_encodes : forall v, 0 <= v < 65536 -> encodes_255 (enc_255 v) v.
Proof.
  intros v Hv. unfold enc_255.
  destruct (v <? 253) eqn:E1; [apply E255_one; lia|].
  destruct (v <? 506) eqn:E2; [apply E255_more1; lia|].
  destruct (v <? 762) eqn:E3; [apply E255_more2; lia|].
  apply E255_word; lia.
Qed.

Lemma packed_u16_roundtrip : forall v rest, 0 <= v < 65536 ->
  read_packed_u16 (enc_255 v ++ rest) = Ok (v, rest).
Proof. intros; apply packed_u16_all_encodings, enc_255_encodes; assumption. Qed.

(* the reader accepts only encodings of the specification, and the value is a u16 *)
Lemma packed_u16_sound : forall s v rest,
  bytes_ok s = true -> read_packed_u16 s = Ok (v, rest) ->
  exists bytes, s = bytes ++ rest /\ encodes_255 bytes v /\ 0 <= v < 65536.
Proof.
  intros s v rest Hb H. unfold read_packed_u16, lowest_ucode in H.
  destruct s as [|c s1]; cbn [rd_u8 bind] in H; [discriminate|].
  cbn [bytes_ok forallb] in Hb. apply andb_true_iff in Hb. destruct Hb as [Hc Hb].
  unfold byte_ok in Hc.
  destruct (c =? 253) eqn:E253.
  - destruct s1 as [|a [|b r]]; cbn [rd_u16] in H; try discriminate. injection H as <- <-.
    cbn [forallb] in Hb. unfold byte_ok in Hb.
    exists [253; a; b]. assert (c = 253) by lia; subst c. split; [reflexivity|].
    assert ((a * 256 + b) / 256 = a) as Ha by lia. assert ((a * 256 + b) mod 256 = b) as Hb' by lia.
    split; [|lia]. pose proof (E255_word (a * 256 + b) ltac:(lia)) as E. rewrite Ha, Hb' in E. exact E.
  - destruct (c =? 254) eqn:E254.
    + destruct s1 as [|a r]; cbn [rd_u8 bind] in H; try discriminate. injection H as <- <-.
      cbn [forallb] in Hb. unfold byte_ok in Hb.
      exists [254; a]. assert (c = 254) by lia; subst c. split; [reflexivity|]. split; [|lia].
      pose proof (E255_more2 (a + 253 * 2) ltac:(lia)) as E.
      replace (a + 253 * 2 - 506) with a in E by lia. exact E.
    + destruct (c =? 255) eqn:E255.
      * destruct s1 as [|a r]; cbn [rd_u8 bind] in H; try discriminate. injection H as <- <-.
        cbn [forallb] in Hb. unfold byte_ok in Hb.
        exists [255; a]. assert (c = 255) by lia; subst c. split; [reflexivity|]. split; [|lia].
        pose proof (E255_more1 (a + 253) ltac:(lia)) as E.
        replace (a + 253 - 253) with a in E by lia. exact E.
      * injection H as <- <-. exists [c]. split; [reflexivity|]. split; [apply E255_one; lia|lia].
Qed.

(* ------------------------------------------------------------------ UIntBase128 *)
Lemma land_127 : forall b, 0 <= b -> Z.land b 127 = b mod 128.
Proof. intros b Hb. change 127 with (Z.ones 7). rewrite Z.land_ones by lia. reflexivity. Qed.

Lemma land_128_zero : forall b, 0 <= b < 256 -> (Z.land b 128 =? 0) = (b <? 128).
Proof.
  intros b Hb.
  assert (forallb (fun b => Bool.eqb (Z.land b 128 =? 0) (b <? 128)) (range 0 256) = true) as H
    by (vm_compute; reflexivity).
  rewrite forallb_forall in H. specialize (H b). rewrite range_In in H.
  specialize (H ltac:(cbn; lia)). apply Bool.eqb_prop in H. exact H.
Qed.

(* accum & 0xFE000000 == 0 exactly when accum << 7 still fits 32 bits *)
Lemma land_top7 : forall a, 0 <= a < 4294967296 ->
  (Z.land a 4261412864 =? 0) = (a <? 33554432).
Proof.
  intros a Ha.
  set (hi := a / 33554432). set (lo := a mod 33554432).
  assert (a = hi * 2 ^ 25 + lo) as Hsplit by (subst hi lo; change (2 ^ 25) with 33554432; lia).
  assert (0 <= lo < 2 ^ 25) as Hlo by (subst lo; change (2 ^ 25) with 33554432; lia).
  assert (0 <= hi < 128) as Hhi by (subst hi; lia).
  assert (Z.land a 4261412864 = hi * 2 ^ 25) as Hl.
  { rewrite Hsplit. rewrite <- (lor_shiftl_add hi lo 25) by lia.
    change 4261412864 with (Z.shiftl 127 25).
    rewrite Z.land_lor_distr_l. rewrite <- Z.shiftl_land. rewrite land_127 by lia.
    rewrite Z.mod_small by lia.
    assert (Z.land lo (Z.shiftl 127 25) = 0) as Hz.
    { apply Z.bits_inj'; intros k Hk. rewrite Z.land_spec, Z.bits_0.
      destruct (Z.lt_ge_cases k 25).
      - rewrite Z.shiftl_spec_low by lia. apply andb_false_r.
      - rewrite (testbit_small lo 25 k) by lia. reflexivity. }
    rewrite Hz, Z.lor_0_r. apply shiftl_mul; lia. }
  rewrite Hl. change (2 ^ 25) with 33554432 in *. lia.
Qed.

Lemma lor128 : forall a g, 0 <= g < 128 -> Z.lor (a * 128) g = a * 128 + g.
Proof.
  intros a g Hg. pose proof (lor_shiftl_add a g 7 ltac:(lia) ltac:(change (2 ^ 7) with 128; lia)) as H.
  rewrite shiftl_mul in H by lia. change (2 ^ 7) with 128 in H. exact H.
Qed.

(* one loop iteration on a byte whose low seven bits are g *)
Lemma base128_step_more : forall k first accum g s,
  0 <= accum < 33554432 -> 0 <= g < 128 -> (first = true -> g <> 0) ->
  base128_loop (S k) first accum ((128 + g) :: s) = base128_loop k false (accum * 128 + g) s.
Proof.
  intros k first accum g s Ha Hg Hf. cbn [base128_loop rd_u8 bind].
  replace (first && (128 + g =? 128)) with false
    by (destruct first; cbn [andb]; [specialize (Hf eq_refl); lia|reflexivity]).
  rewrite land_top7 by lia. replace (accum <? 33554432) with true by lia. cbn [negb].
  rewrite land_128_zero by lia. replace (128 + g <? 128) with false by lia.
  rewrite land_127 by lia. rewrite shiftl_mul by lia. change (2 ^ 7) with 128.
  change (2 ^ 32) with 4294967296. rewrite (Z.mod_small (accum * 128)) by lia.
  replace ((128 + g) mod 128) with g by lia.
  rewrite lor128 by lia. reflexivity.
Qed.

Lemma base128_step_last : forall k first accum g s,
  0 <= accum < 33554432 -> 0 <= g < 128 ->
  base128_loop (S k) first accum (g :: s) = Ok (accum * 128 + g, s).
Proof.
  intros k first accum g s Ha Hg. cbn [base128_loop rd_u8 bind].
  replace (first && (g =? 128)) with false by (destruct first; cbn [andb]; lia).
  rewrite land_top7 by lia. replace (accum <? 33554432) with true by lia. cbn [negb].
  rewrite land_128_zero by lia. replace (g <? 128) with true by lia.
  rewrite land_127 by lia. rewrite shiftl_mul by lia. change (2 ^ 7) with 128.
  change (2 ^ 32) with 4294967296. rewrite (Z.mod_small (accum * 128)) by lia.
  rewrite (Z.mod_small g) by lia.
  rewrite lor128 by lia. reflexivity.
Qed.

Ltac ok_eq := match goal with
  | |- Ok (?a, _) = Ok (?b, _) => replace a with b by lia; reflexivity
  end.

Lemma base128_roundtrip : forall v rest, 0 <= v < 4294967296 ->
  read_base128 (enc_base128 v ++ rest) = Ok (v, rest).
Proof.
  intros v rest Hv. unfold read_base128, enc_base128.
  destruct (v <? 128) eqn:E1.
  { cbn [app]. rewrite base128_step_last by lia. ok_eq. }
  destruct (v <? 16384) eqn:E2.
  { cbn [app]. rewrite base128_step_more by lia. rewrite base128_step_last by lia.
    ok_eq. }
  destruct (v <? 2097152) eqn:E3.
  { cbn [app]. rewrite base128_step_more by lia. rewrite base128_step_more by lia.
    rewrite base128_step_last by lia. ok_eq. }
  destruct (v <? 268435456) eqn:E4.
  { cbn [app]. rewrite base128_step_more by lia. rewrite base128_step_more by lia.
    rewrite base128_step_more by lia. rewrite base128_step_last by lia. ok_eq. }
  cbn [app]. rewrite base128_step_more by lia. rewrite base128_step_more by lia.
  rewrite base128_step_more by lia. rewrite base128_step_more by lia.
  rewrite base128_step_last by lia. ok_eq.
Qed.

(* rejections required by section 3.1 *)
Lemma base128_rejects_leading_zero : forall s, read_base128 (128 :: s) = Err BadValue.
Proof. intros; reflexivity. Qed.

(* what one iteration does, for any byte *)
Lemma base128_step_cases : forall k first accum b s,
  0 <= accum < 4294967296 -> 0 <= b < 256 ->
  base128_loop (S k) first accum (b :: s) =
    if first && (b =? 128) then Err BadValue
    else if 33554432 <=? accum then Err BadValue
    else if b <? 128 then Ok (accum * 128 + b, s)
    else base128_loop k false (accum * 128 + (b - 128)) s.
Proof.
  intros k first accum b s Ha Hb. cbn [base128_loop rd_u8 bind].
  destruct (first && (b =? 128)); [reflexivity|].
  rewrite land_top7 by lia.
  destruct (accum <? 33554432) eqn:E; cbn [negb];
    [replace (33554432 <=? accum) with false by lia|replace (33554432 <=? accum) with true by lia; reflexivity].
  rewrite land_128_zero by lia. rewrite land_127 by lia.
  rewrite shiftl_mul by lia. change (2 ^ 7) with 128. change (2 ^ 32) with 4294967296.
  rewrite (Z.mod_small (accum * 128)) by lia.
  rewrite lor128 by lia.
  destruct (b <? 128) eqn:E2.
  - rewrite (Z.mod_small b) by lia. reflexivity.
  - replace (b mod 128) with (b - 128) by lia. reflexivity.
Qed.

(* more than five bytes: five bytes with the continuation bit are refused whatever follows *)
Lemma base128_rejects_long : forall b1 b2 b3 b4 b5 s,
  128 <= b1 < 256 -> 128 <= b2 < 256 -> 128 <= b3 < 256 -> 128 <= b4 < 256 -> 128 <= b5 < 256 ->
  read_base128 (b1 :: b2 :: b3 :: b4 :: b5 :: s) = Err BadValue.
Proof.
  intros b1 b2 b3 b4 b5 s H1 H2 H3 H4 H5. unfold read_base128.
  rewrite base128_step_cases by lia.
  destruct (true && (b1 =? 128)); [reflexivity|]. cbn [Z.leb Z.compare].
  replace (b1 <? 128) with false by lia.
  rewrite base128_step_cases by lia. cbn [andb].
  destruct (33554432 <=? 0 * 128 + (b1 - 128)); [reflexivity|].
  replace (b2 <? 128) with false by lia.
  rewrite base128_step_cases by lia. cbn [andb].
  destruct (33554432 <=? _); [reflexivity|].
  replace (b3 <? 128) with false by lia.
  rewrite base128_step_cases by lia. cbn [andb].
  destruct (33554432 <=? _); [reflexivity|].
  replace (b4 <? 128) with false by lia.
  rewrite base128_step_cases by lia. cbn [andb].
  destruct (33554432 <=? _); [reflexivity|].
  replace (b5 <? 128) with false by lia. reflexivity.
Qed.

(* soundness: whatever the reader accepts is the canonical encoding of a 32-bit value.  In
   particular values of 2^32 and above (overflow), sequences with a leading zero group and
   sequences longer than five bytes are all refused. *)
Lemma base128_sound : forall s v rest,
  bytes_ok s = true -> read_base128 s = Ok (v, rest) ->
  0 <= v < 4294967296 /\ s = enc_base128 v ++ rest.
Proof.
  intros s v rest Hb H. unfold read_base128 in H.
  assert (forall b l, bytes_ok (b :: l) = true -> 0 <= b < 256 /\ bytes_ok l = true) as Hcons.
  { intros b l Hx. cbn [bytes_ok forallb] in Hx. apply andb_true_iff in Hx. unfold byte_ok in Hx.
    split; [lia|apply Hx]. }
  (* closes a branch where the reader returned: pick the matching case of enc_base128 *)
  Ltac b128_done H :=
    injection H as <- <-; split; [lia|]; unfold enc_base128;
    repeat match goal with
           | |- context [if ?c then _ else _] => destruct c eqn:?; try (exfalso; lia)
           end;
    cbn [app]; repeat (f_equal; try lia).
  destruct s as [|b1 s]; [discriminate|]. apply Hcons in Hb. destruct Hb as [H1 Hb].
  rewrite base128_step_cases in H by lia.
  destruct (true && (b1 =? 128)) eqn:F1; [discriminate|]. cbn [andb] in F1.
  cbn [Z.leb Z.compare] in H.
  destruct (b1 <? 128) eqn:L1; [b128_done H|].
  remember (b1 - 128) as g1 eqn:Eg1. assert (1 <= g1 < 128) as Hg1 by lia.
  destruct s as [|b2 s]; [discriminate|]. apply Hcons in Hb. destruct Hb as [H2 Hb].
  rewrite base128_step_cases in H by lia. cbn [andb] in H.
  replace (33554432 <=? 0 * 128 + g1) with false in H by lia.
  destruct (b2 <? 128) eqn:L2; [b128_done H|].
  remember (b2 - 128) as g2 eqn:Eg2. assert (0 <= g2 < 128) as Hg2 by lia.
  destruct s as [|b3 s]; [discriminate|]. apply Hcons in Hb. destruct Hb as [H3 Hb].
  rewrite base128_step_cases in H by lia. cbn [andb] in H.
  replace (33554432 <=? (0 * 128 + g1) * 128 + g2) with false in H by lia.
  destruct (b3 <? 128) eqn:L3; [b128_done H|].
  remember (b3 - 128) as g3 eqn:Eg3. assert (0 <= g3 < 128) as Hg3 by lia.
  destruct s as [|b4 s]; [discriminate|]. apply Hcons in Hb. destruct Hb as [H4 Hb].
  rewrite base128_step_cases in H by lia. cbn [andb] in H.
  replace (33554432 <=? ((0 * 128 + g1) * 128 + g2) * 128 + g3) with false in H by lia.
  destruct (b4 <? 128) eqn:L4; [b128_done H|].
  remember (b4 - 128) as g4 eqn:Eg4. assert (0 <= g4 < 128) as Hg4 by lia.
  destruct s as [|b5 s]; [discriminate|]. apply Hcons in Hb. destruct Hb as [H5 Hb].
  rewrite base128_step_cases in H by lia. cbn [andb] in H.
  destruct (33554432 <=? (((0 * 128 + g1) * 128 + g2) * 128 + g3) * 128 + g4) eqn:Ov; [discriminate|].
  destruct (b5 <? 128) eqn:L5; [|cbn [base128_loop] in H; discriminate].
  b128_done H.
Qed.

(* overflow: a five-byte sequence whose value would be 2^32 or more is refused *)
Lemma base128_rejects_overflow : forall b1 b2 b3 b4 b5 s,
  bytes_ok (b1 :: b2 :: b3 :: b4 :: b5 :: s) = true ->
  128 <= b1 -> 128 <= b2 -> 128 <= b3 -> 128 <= b4 ->
  4294967296 <= ((((b1 - 128) * 128 + (b2 - 128)) * 128 + (b3 - 128)) * 128 + (b4 - 128)) * 128 + b5 mod 128 ->
  exists e, read_base128 (b1 :: b2 :: b3 :: b4 :: b5 :: s) = Err e.
Proof.
  intros b1 b2 b3 b4 b5 s Hb H1 H2 H3 H4 Hov.
  cbn [bytes_ok forallb] in Hb. unfold byte_ok in Hb. unfold read_base128.
  rewrite base128_step_cases by lia.
  destruct (true && (b1 =? 128)); [eexists; reflexivity|].
  replace (33554432 <=? 0) with false by reflexivity.
  replace (b1 <? 128) with false by lia.
  rewrite base128_step_cases by lia. cbn [andb].
  match goal with |- context [33554432 <=? ?w] => replace (33554432 <=? w) with false by lia end.
  replace (b2 <? 128) with false by lia.
  rewrite base128_step_cases by lia. cbn [andb].
  match goal with |- context [33554432 <=? ?w] => replace (33554432 <=? w) with false by lia end.
  replace (b3 <? 128) with false by lia.
  rewrite base128_step_cases by lia. cbn [andb].
  match goal with |- context [33554432 <=? ?w] => replace (33554432 <=? w) with false by lia end.
  replace (b4 <? 128) with false by lia.
  rewrite base128_step_cases by lia. cbn [andb].
  match goal with |- context [33554432 <=? ?w] => replace (33554432 <=? w) with true by lia end.
  eexists; reflexivity.
Qed.
