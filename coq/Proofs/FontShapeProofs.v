(* Proofs/FontShapeProofs.v — Font::shape hands gsub::apply the font's own GSUB and GDEF, independently of GPOS,
   kern, morx. *)
From AV Require Import Base.Prelude Model.Layout Model.Gsub Model.FontShape.
Open Scope Z_scope.

Definition shaped_glyphs (r : outcome (option err * list glyph)) : option (list glyph) :=
  match r with Ok (_, gs) => Some gs | _ => None end.

Definition apply_glyphs (r : outcome (list glyph)) : option (list glyph) :=
  match r with Ok gs => Some gs | _ => None end.

Section Shape.
  Variable apply : layout_table -> option gdef -> Z -> list glyph -> outcome (list glyph).

  (* the substituted glyphs are those of gsub::apply on the font's GSUB with the font's GDEF *)
  Lemma shape_is_apply_with_font_gdef : forall f t gs,
    ft_gsub f = TPresent t ->
    shaped_glyphs (font_shape_subst apply f gs) = apply_glyphs (apply t (loaded (ft_gdef f)) (ft_num_glyphs f) gs).
  Proof.
    intros f t gs Hg. unfold font_shape_subst, shape_gdef. rewrite Hg. cbn [loaded].
    destruct (apply t (loaded (ft_gdef f)) (ft_num_glyphs f) gs); reflexivity.
  Qed.

  Lemma shape_uses_present_gdef : forall f t gd gs,
    ft_gsub f = TPresent t -> ft_gdef f = TPresent gd ->
    shaped_glyphs (font_shape_subst apply f gs) = apply_glyphs (apply t (Some gd) (ft_num_glyphs f) gs).
  Proof.
    intros f t gd gs Hg Hd. rewrite (shape_is_apply_with_font_gdef f t gs Hg). rewrite Hd. reflexivity.
  Qed.

  (* two fonts with the same GSUB, GDEF and glyph count substitute alike: GPOS / kern / morx (present, absent,
     unreadable) have no influence on the glyphs *)
  Lemma shape_glyphs_independent_of_positioning_tables : forall f1 f2 gs,
    ft_gsub f1 = ft_gsub f2 -> ft_gdef f1 = ft_gdef f2 -> ft_num_glyphs f1 = ft_num_glyphs f2 ->
    shaped_glyphs (font_shape_subst apply f1 gs) = shaped_glyphs (font_shape_subst apply f2 gs).
  Proof.
    intros f1 f2 gs Hs Hd Hn. unfold font_shape_subst, shape_gdef. rewrite Hs, Hd, Hn.
    destruct (loaded (ft_gsub f2)) as [t|]; [|reflexivity].
    destruct (apply t (loaded (ft_gdef f2)) (ft_num_glyphs f2) gs); reflexivity.
  Qed.

  (* ... and whether substitution succeeds at all does not depend on them either *)
  Lemma shape_success_independent_of_positioning_tables : forall f1 f2 gs,
    ft_gsub f1 = ft_gsub f2 -> ft_gdef f1 = ft_gdef f2 -> ft_num_glyphs f1 = ft_num_glyphs f2 ->
    (exists r, font_shape_subst apply f1 gs = Ok r) <-> (exists r, font_shape_subst apply f2 gs = Ok r).
  Proof.
    intros f1 f2 gs Hs Hd Hn. unfold font_shape_subst, shape_gdef. rewrite Hs, Hd, Hn.
    destruct (loaded (ft_gsub f2)) as [t|].
    - destruct (apply t (loaded (ft_gdef f2)) (ft_num_glyphs f2) gs);
        split; intros [r Hr]; try discriminate; eexists; reflexivity.
    - split; intros _; eexists; reflexivity.
  Qed.

  (* without a readable GSUB nothing is substituted *)
  Lemma shape_without_gsub : forall f gs,
    loaded (ft_gsub f) = None -> font_shape_subst apply f gs = Ok (table_errors f, gs).
  Proof. intros f gs H. unfold font_shape_subst. rewrite H. reflexivity. Qed.

  (* the error report: the first unreadable table, in load order; a failure of the substitution only after them *)
  Lemma shape_reports_first_table_error : forall f gs e r,
    table_errors f = Some e ->
    font_shape_subst apply f gs = r ->
    match r with Ok (e', _) => e' = Some e | Err e' => e' = e | _ => True end.
  Proof.
    intros f gs e r He Hr. subst r. unfold font_shape_subst. rewrite He.
    destruct (loaded (ft_gsub f)) as [t|]; [|reflexivity].
    destruct (apply t (shape_gdef f) (ft_num_glyphs f) gs); auto.
  Qed.
End Shape.
