(* Proofs/LigatureProofs.v — the ligature loop of gsub_apply_lookup (LigatureSubst arm, Ligature::matches,
   Ligature::apply) computes the declarative scan lig_scan of Model/GsubSpec.v; characters of all components
   are carried; skipped glyphs are kept; length bookkeeping. *)
From AV Require Import Base.Prelude Base.Lemmas Gen.LayoutConsts Model.Layout Model.LayoutSpec Model.Gsub Model.GsubSpec
  Proofs.LayoutProofs Proofs.GsubProofs.
From Coq Require Import ZifyBool.
Open Scope Z_scope.

Lemma ids_app a b : ids (a ++ b) = ids a ++ ids b.
Proof. unfold ids. apply map_app. Qed.

Lemma len_ids a : len (ids a) = len a.
Proof. unfold ids, len. rewrite map_length. reflexivity. Qed.

Lemma drop_ids_mid pre g rest : drop (len pre + 1) (ids (pre ++ g :: rest)) = ids rest.
Proof.
  rewrite ids_app. cbn [ids map]. fold (ids rest).
  replace (ids pre ++ g_id g :: ids rest) with ((ids pre ++ [g_id g]) ++ ids rest) by (rewrite <- app_assoc; reflexivity).
  replace (len pre + 1) with (len (ids pre ++ [g_id g])).
  - apply drop_app_len.
  - rewrite len_app, len_ids. unfold len; cbn [length]. lia.
Qed.

Lemma first_subtable_ext {S A} (f f' : S -> outcome (option A)) subs :
  (forall s, f s = f' s) -> first_subtable f subs = first_subtable f' subs.
Proof. intros H. induction subs as [|s subs IH]; cbn [first_subtable]; [reflexivity|]. rewrite H, IH. reflexivity. Qed.

Section Lig.
Variable mt : match_type.
Variable gd : option gdef.

Lemma ligature_matches_mid l pre g rest :
  ligature_matches l mt gd (len pre) (pre ++ g :: rest) = lig_applicable mt gd l rest.
Proof.
  unfold ligature_matches, lig_applicable, match_front. cbn [gt_entries].
  pose proof (match_front_entries_spec mt gd (ids (pre ++ g :: rest)) (map EId (lig_comps l)) (len pre) (len_nonneg pre)) as S.
  rewrite drop_ids_mid in S.
  destruct (match_front_entries mt gd (map EId (lig_comps l)) (ids (pre ++ g :: rest)) (len pre)).
  - destruct S as (S & _). symmetry; exact S.
  - symmetry; exact S.
Qed.

Lemma first_ligature_find ls pre g rest :
  first_ligature ls mt gd (len pre) (pre ++ g :: rest) = find (fun l => lig_applicable mt gd l rest) ls.
Proof.
  induction ls as [|l ls IH]; cbn [first_ligature find]; [reflexivity|].
  rewrite ligature_matches_mid, IH. reflexivity.
Qed.

Lemma would_apply_mid subs pre g rest :
  ligaturesubst_would_apply gd subs mt (len pre) (pre ++ g :: rest) = lig_choose mt gd subs g rest.
Proof.
  unfold ligaturesubst_would_apply, lig_choose. rewrite gget_mid. cbn [bind].
  apply first_subtable_ext. intros s.
  destruct (cov_indexed (ls_cov s) (ls_sets s) (g_id g)) as [[set|]| | |]; cbn [bind]; try reflexivity.
  rewrite first_ligature_find. reflexivity.
Qed.

Lemma prefix_check_length es l : prefix_check es l = true -> (length es <= length l)%nat.
Proof.
  revert l; induction es as [|e es IH]; intros l H; cbn [length]; [lia|].
  destruct l as [|g l]; cbn [prefix_check] in H; [discriminate|].
  apply andb_true_iff in H. destruct H as [_ H]. apply IH in H. cbn [length]. lia.
Qed.

Notation P := (fun c : glyph => match_glyph mt gd (g_id c)).

Definition enough (n : nat) (rest : list glyph) : Prop := (n <= length (unskipped mt gd (ids rest)))%nat.

Lemma enough_cons_P n c r : match_glyph mt gd (g_id c) = true -> enough (S n) (c :: r) -> enough n r.
Proof. unfold enough, unskipped, ids. cbn [map filter]. intros E. rewrite E. cbn [length]. lia. Qed.

Lemma enough_cons_notP n c r : match_glyph mt gd (g_id c) = false -> enough n (c :: r) -> enough n r.
Proof. unfold enough, unskipped, ids. cbn [map filter]. intros E. rewrite E. tauto. Qed.

Lemma applicable_enough l rest : lig_applicable mt gd l rest = true -> enough (length (lig_comps l)) rest.
Proof.
  unfold lig_applicable, enough. intros H. apply prefix_check_length in H. rewrite map_length in H. exact H.
Qed.

Lemma absorb_lengths : forall rest n acc m, enough n rest ->
  match lig_absorb mt gd rest n acc m with
  | (_, kept, rem) => (length rest = n + length kept + length rem)%nat
  end.
Proof.
  induction rest as [|c r IH]; intros n acc m He; destruct n as [|n]; cbn [lig_absorb length]; try lia.
  - unfold enough in He. cbn in He. lia.
  - destruct (match_glyph mt gd (g_id c)) eqn:E.
    + pose proof (IH n (absorb acc c) (m + 1) (enough_cons_P _ _ _ E He)) as H.
      destruct (lig_absorb mt gd r n (absorb acc c) (m + 1)) as [[a k] rem]. lia.
    + pose proof (IH (S n) acc m (enough_cons_notP _ _ _ E He)) as H.
      destruct (lig_absorb mt gd r (S n) acc m) as [[a k] rem]. cbn [length]. lia.
Qed.

(* the first loop of Ligature::apply, started in the middle of its run *)
Lemma lig_collect_spec pre : forall rest n acc kept matched fuel,
  enough n rest -> (length rest <= fuel)%nat ->
  lig_collect fuel mt gd (pre ++ acc :: kept ++ rest) (len pre) (len pre + 1 + len kept) n matched (len kept) =
  match lig_absorb mt gd rest n acc matched with
  | (acc', kept', rem) =>
    Ok (pre ++ acc' :: kept ++ kept' ++ rem, len pre + 1 + len kept + len kept', len kept + len kept')
  end.
Proof.
  induction rest as [|c r IH]; intros n acc kept matched fuel He Hf; destruct n as [|n]; cbn [lig_collect lig_absorb].
  - rewrite len_nil, !Z.add_0_r. cbn [app]. destruct fuel; reflexivity.
  - unfold enough in He. cbn in He. lia.
  - rewrite len_nil, !Z.add_0_r. cbn [app]. destruct fuel; reflexivity.
  - destruct fuel as [|fuel]; [cbn in Hf; lia|]. cbn [lig_collect].
    assert (Hidx : len pre + 1 + len kept = len (pre ++ acc :: kept)) by (rewrite len_app, len_cons; lia).
    replace (pre ++ acc :: kept ++ c :: r) with ((pre ++ acc :: kept) ++ c :: r) by (rewrite <- app_assoc; reflexivity).
    rewrite Hidx, nth_opt_mid.
    destruct (match_glyph mt gd (g_id c)) eqn:E.
    + rewrite gremove_mid.
      replace ((pre ++ acc :: kept) ++ c :: r) with (pre ++ acc :: (kept ++ c :: r)) by (rewrite <- app_assoc; reflexivity).
      rewrite gget_mid. cbn [bind].
      replace ((pre ++ acc :: kept) ++ r) with (pre ++ acc :: (kept ++ r)) by (rewrite <- app_assoc; reflexivity).
      rewrite gset_mid. rewrite <- Hidx.
      apply IH; [exact (enough_cons_P _ _ _ E He)|cbn in Hf; lia].
    + rewrite gset_mid.
      set (c' := set_pos c (matched mod 65536)).
      replace ((pre ++ acc :: kept) ++ c' :: r) with (pre ++ acc :: (kept ++ [c']) ++ r)
        by (rewrite <- !app_assoc; reflexivity).
      assert (Hk : len (kept ++ [c']) = len kept + 1) by (rewrite len_app; unfold len; cbn [length]; lia).
      replace (len (pre ++ acc :: kept) + 1) with (len pre + 1 + len (kept ++ [c'])) by lia.
      replace (len kept + 1) with (len (kept ++ [c'])) by lia.
      rewrite IH; [|exact (enough_cons_notP _ _ _ E He)|cbn in Hf; lia].
      destruct (lig_absorb mt gd r (S n) acc matched) as [[a k] rem].
      rewrite <- !app_assoc. cbn [app]. rewrite len_cons.
      replace (len pre + 1 + len (kept ++ [c']) + len k) with (len pre + 1 + len kept + (1 + len k)) by lia.
      replace (len (kept ++ [c']) + len k) with (len kept + (1 + len k)) by lia.
      rewrite <- ?Hidx. reflexivity.
Qed.

(* Ligature::apply at the head of a suffix *)
Lemma ligature_apply_mid l pre g rest : enough (length (lig_comps l)) rest ->
  ligature_apply l mt gd (len pre) (pre ++ g :: rest) =
  match lig_absorb mt gd rest (length (lig_comps l)) g 0 with
  | (acc, kept, rem) =>
    Ok (len kept, pre ++ set_id acc (lig_glyph l) :: kept ++ lig_trailing gd rem (len (lig_comps l)))
  end.
Proof.
  intros He. unfold ligature_apply.
  pose proof (lig_collect_spec pre rest (length (lig_comps l)) g [] 0 (length (pre ++ g :: rest)) He) as H.
  cbn [app] in H. rewrite len_nil in H. replace (len pre + 1 + 0) with (len pre + 1) in H by lia.
  rewrite H by (rewrite app_length; cbn [length]; lia). clear H.
  destruct (lig_absorb mt gd rest (length (lig_comps l)) g 0) as [[acc kept] rem]. cbn [bind].
  replace (len pre + 1 + len kept) with (len (pre ++ acc :: kept)) by (rewrite len_app, len_cons; lia).
  replace (pre ++ acc :: kept ++ rem) with ((pre ++ acc :: kept) ++ rem) by (rewrite <- app_assoc; reflexivity).
  rewrite take_app_len, drop_app_len.
  replace ((pre ++ acc :: kept) ++ lig_trailing gd rem (len (lig_comps l)))
    with (pre ++ acc :: (kept ++ lig_trailing gd rem (len (lig_comps l)))) by (rewrite <- app_assoc; reflexivity).
  rewrite gget_mid. cbn [bind]. rewrite gset_mid. reflexivity.
Qed.

Lemma find_some_true {A} (f : A -> bool) l x : find f l = Some x -> f x = true.
Proof. intros H. apply find_some in H. tauto. Qed.

Lemma lig_choose_applicable subs g rest l :
  lig_choose mt gd subs g rest = Ok (Some l) -> lig_applicable mt gd l rest = true.
Proof.
  unfold lig_choose. intros H. apply first_subtable_some in H.
  destruct H as (pre & s & post & _ & _ & Hs).
  destruct (cov_indexed (ls_cov s) (ls_sets s) (g_id g)) as [[set|]| | |]; cbn [bind] in Hs; try discriminate.
  inversion Hs as [Hf]. apply find_some_true in Hf. exact Hf.
Qed.

Lemma lig_trailing_length rem k : length (lig_trailing gd rem k) = length rem.
Proof.
  induction rem as [|c r IH]; cbn [lig_trailing]; [reflexivity|].
  destruct (match_glyph mt_marks_only gd (g_id c)); cbn [length]; [rewrite IH|]; reflexivity.
Qed.

(* ------------------------------------------------------------------ the loop *)
(* window reaching the end of the run: start + wlen = |glyphs| *)
Lemma ligature_loop_spec m subs : forall fuel pre todo start wlen,
  0 <= start <= len pre -> start + wlen = len pre + len todo -> len pre + len todo < USIZE ->
  ligature_loop fuel m mt gd subs (pre ++ todo) start (len pre) wlen =
  (r <- lig_scan fuel mt gd subs todo ;; Ok (pre ++ r, wlen + len r - len todo)).
Proof.
  induction fuel as [|fuel IH]; intros pre todo start wlen Hs Hw Hb; cbn [ligature_loop lig_scan]; [reflexivity|].
  pose proof (len_nonneg pre). pose proof (len_nonneg todo).
  rewrite uadd_small by lia. cbn [bind].
  destruct todo as [|g rest].
  - rewrite len_nil in *. replace (len pre <? start + wlen) with false by lia. cbn [bind].
    rewrite len_nil. do 2 f_equal. lia.
  - rewrite len_cons in *. pose proof (len_nonneg rest).
    replace (len pre <? start + wlen) with true by lia. rewrite gget_mid. cbn [bind].
    assert (Hskip : (i' <- uadd m (len pre) 1 ;; ligature_loop fuel m mt gd subs (pre ++ g :: rest) start i' wlen) =
                    (r <- (t <- lig_scan fuel mt gd subs rest ;; Ok (g :: t)) ;;
                     Ok (pre ++ r, wlen + len r - (1 + len rest)))).
    { rewrite uadd_small by lia. cbn [bind].
      assert (Hdg : len (pre ++ [g]) = len pre + 1) by (rewrite len_app; unfold len; cbn [length]; lia).
      replace (pre ++ g :: rest) with ((pre ++ [g]) ++ rest) by (rewrite <- app_assoc; reflexivity).
      rewrite <- Hdg. rewrite IH by lia.
      destruct (lig_scan fuel mt gd subs rest) as [t| | |]; cbn [bind]; try reflexivity.
      rewrite <- app_assoc. cbn [app]. rewrite len_cons. do 2 f_equal. lia. }
    destruct (match_glyph mt gd (g_id g)) eqn:EP; [|exact Hskip].
    unfold ligaturesubst. rewrite would_apply_mid.
    destruct (lig_choose mt gd subs g rest) as [[l|]| | |] eqn:Ec; cbn [bind]; try reflexivity; [|exact Hskip].
    pose proof (applicable_enough l rest (lig_choose_applicable _ _ _ _ Ec)) as He.
    rewrite (ligature_apply_mid l pre g rest He).
    pose proof (absorb_lengths rest (length (lig_comps l)) g 0 He) as Hl.
    destruct (lig_absorb mt gd rest (length (lig_comps l)) g 0) as [[acc kept] rem]. cbn [bind].
    pose proof (len_nonneg kept). pose proof (len_nonneg rem).
    assert (Hl' : len rest = len (lig_comps l) + len kept + len rem) by (unfold len; lia).
    pose proof (len_nonneg (lig_comps l)).
    rewrite uadd_small by lia. cbn [bind]. rewrite uadd_small by lia. cbn [bind].
    rewrite usub_small by lia. cbn [bind].
    set (acc' := set_id acc (lig_glyph l)). set (tr := lig_trailing gd rem (len (lig_comps l))).
    assert (Htr : len tr = len rem) by (unfold len, tr; rewrite lig_trailing_length; reflexivity).
    replace (pre ++ acc' :: kept ++ tr) with ((pre ++ acc' :: kept) ++ tr) by (rewrite <- app_assoc; reflexivity).
    assert (Hp' : len (pre ++ acc' :: kept) = len pre + (len kept + 1)) by (rewrite len_app, len_cons; lia).
    rewrite <- Hp'. rewrite IH by lia.
    destruct (lig_scan fuel mt gd subs tr) as [t| | |]; cbn [bind]; try reflexivity.
    rewrite <- !app_assoc. cbn [app]. rewrite len_cons, len_app. do 2 f_equal. lia.
Qed.

(* fuel: S |l| suffices, the scan never reports exhaustion *)
Lemma lig_scan_fuel subs : forall fuel l, (length l < fuel)%nat -> lig_scan fuel mt gd subs l <> Err OtherErr.
Proof.
  assert (Hbind : forall (x : outcome (list glyph)) (f : list glyph -> list glyph),
            x <> Err OtherErr -> (t <- x ;; Ok (f t)) <> Err OtherErr).
  { intros [t|e| |] f Hx; cbn [bind]; congruence. }
  assert (Hchoose : forall g rest, lig_choose mt gd subs g rest <> Err OtherErr).
  { intros g rest. unfold lig_choose.
    induction subs as [|s ss IHs]; cbn [first_subtable]; [discriminate|].
    unfold cov_indexed. destruct (coverage_value (ls_cov s) (g_id g)); cbn [bind].
    - unfold checked_nth. destruct (nth_opt (ls_sets s) z); cbn [bind]; [|discriminate].
      destruct (find _ l); [discriminate|exact IHs].
    - exact IHs. }
  induction fuel as [|fuel IH]; intros l Hl; [lia|]. cbn [lig_scan].
  destruct l as [|g rest]; [discriminate|]. cbn [length] in Hl.
  destruct (match_glyph mt gd (g_id g)).
  - pose proof (Hchoose g rest) as Hc.
    destruct (lig_choose mt gd subs g rest) as [[l|]|e| |] eqn:Ec; cbn [bind]; try congruence.
    + pose proof (absorb_lengths rest (length (lig_comps l)) g 0
                    (applicable_enough l rest (lig_choose_applicable _ _ _ _ Ec))) as Hlen.
      destruct (lig_absorb mt gd rest (length (lig_comps l)) g 0) as [[acc kept] rem].
      apply (Hbind _ (fun t => set_id acc (lig_glyph l) :: kept ++ t)). apply IH. rewrite lig_trailing_length. lia.
    + apply (Hbind _ (fun t => g :: t)). apply IH. lia.
  - apply (Hbind _ (fun t => g :: t)). apply IH. lia.
Qed.

End Lig.

(* LigatureSubst over a window that reaches the end of the run (the whole run: start = 0) *)
Theorem ligature_lookup_spec : forall m lks gd li tag alt gs start wlen lk subs,
  get_lookup lks li = Ok lk -> lk_body lk = LLigature subs ->
  0 <= start -> 0 <= wlen -> start + wlen = len gs -> len gs < USIZE ->
  let mt := from_lookup_flag (lk_flag lk) (lk_mfs lk) in
  gsub_apply_lookup m (Some lks) gd li tag alt gs start wlen =
  (r <- lig_scan (loop_fuel gs) mt gd subs (drop start gs) ;; Ok (take start gs ++ r, len r)).
Proof.
  intros m lks gd li tag alt gs start wlen lk subs Hlk Hb H1 Hw H2 H3 mt.
  unfold gsub_apply_lookup. rewrite Hlk. cbn [bind]. rewrite Hb. fold mt.
  pose proof (len_nonneg gs).
  assert (Hgs : gs = take start gs ++ drop start gs) by (unfold take, drop; symmetry; apply firstn_skipn).
  assert (Hs : len (take start gs) = start) by (apply len_take; lia).
  transitivity (ligature_loop (loop_fuel gs) m mt gd subs (take start gs ++ drop start gs) start (len (take start gs)) wlen).
  { rewrite <- Hgs, Hs. reflexivity. }
  assert (Hd : len (drop start gs) = len gs - start) by (apply len_drop; lia).
  rewrite ligature_loop_spec by lia.
  destruct (lig_scan _ _ _ _ _) as [r| | |]; cbn [bind]; try reflexivity. do 2 f_equal. lia.
Qed.

(* ------------------------------------------------------------------ characters *)
From Coq Require Import Permutation.

Definition chars (l : list glyph) : list Z := concat (map g_chars l).

Lemma chars_app a b : chars (a ++ b) = chars a ++ chars b.
Proof. unfold chars. rewrite map_app, concat_app. reflexivity. Qed.

Lemma chars_cons g l : chars (g :: l) = g_chars g ++ chars l.
Proof. reflexivity. Qed.

Lemma lig_trailing_chars gd rem k : chars (lig_trailing gd rem k) = chars rem.
Proof.
  induction rem as [|c r IH]; cbn [lig_trailing]; [reflexivity|].
  destruct (match_glyph mt_marks_only gd (g_id c)); [|reflexivity].
  rewrite !chars_cons, IH. reflexivity.
Qed.

(* the ligature glyph carries its own characters followed by those of the absorbed components, in order;
   nothing else changes hands *)
Lemma absorb_chars mt gd : forall rest n acc m,
  match lig_absorb mt gd rest n acc m with
  | (a, kept, rem) =>
    g_chars a = g_chars acc ++ chars (firstn n (filter (fun c => match_glyph mt gd (g_id c)) rest)) /\
    Permutation (g_chars a ++ chars kept ++ chars rem) (g_chars acc ++ chars rest)
  end.
Proof.
  induction rest as [|c r IH]; intros n acc m; destruct n as [|n]; cbn [lig_absorb firstn filter].
  - cbn. rewrite app_nil_r. split; [reflexivity|apply Permutation_refl].
  - cbn. rewrite app_nil_r. split; [reflexivity|apply Permutation_refl].
  - cbn [chars map concat app]. rewrite app_nil_r. split; [reflexivity|apply Permutation_refl].
  - destruct (match_glyph mt gd (g_id c)) eqn:E.
    + specialize (IH n (absorb acc c) (m + 1)).
      destruct (lig_absorb mt gd r n (absorb acc c) (m + 1)) as [[a k] rem].
      destruct IH as (I1 & I2). cbn [firstn]. rewrite !chars_cons. split.
      * rewrite I1. cbn [absorb g_chars]. rewrite <- app_assoc. reflexivity.
      * cbn [absorb g_chars] in I2. rewrite <- app_assoc in I2. exact I2.
    + specialize (IH (S n) acc m).
      destruct (lig_absorb mt gd r (S n) acc m) as [[a k] rem].
      destruct IH as (I1 & I2). split.
      * exact I1.
      * rewrite !chars_cons. cbn [set_pos g_chars].
        rewrite <- app_assoc.
        eapply Permutation_trans; [apply Permutation_app_swap_app|].
        eapply Permutation_trans; [|apply Permutation_app_swap_app].
        apply Permutation_app_head. exact I2.
Qed.

Lemma absorb_lig_monotone mt gd : forall rest n acc m,
  g_lig acc = true -> g_lig (fst (fst (lig_absorb mt gd rest n acc m))) = true.
Proof.
  induction rest as [|c r IH]; intros n acc m H; destruct n as [|n]; cbn [lig_absorb fst]; try exact H.
  destruct (match_glyph mt gd (g_id c)).
  - apply IH. reflexivity.
  - specialize (IH (S n) acc m H). destruct (lig_absorb mt gd r (S n) acc m) as [[a k] rem]. exact IH.
Qed.

(* a ligature of two or more components sets the LIGATURE flag *)
Lemma absorb_sets_lig_flag mt gd : forall rest n acc m,
  enough mt gd (S n) rest -> g_lig (fst (fst (lig_absorb mt gd rest (S n) acc m))) = true.
Proof.
  induction rest as [|c r IH]; intros n acc m He.
  - unfold enough in He. cbn in He. lia.
  - cbn [lig_absorb]. destruct (match_glyph mt gd (g_id c)) eqn:E.
    + apply absorb_lig_monotone. reflexivity.
    + specialize (IH n acc m (enough_cons_notP mt gd _ _ _ E He)).
      destruct (lig_absorb mt gd r (S n) acc m) as [[a k] rem]. exact IH.
Qed.

(* no character is lost, duplicated or invented by a ligature lookup *)
Theorem ligature_scan_preserves_characters : forall mt gd subs fuel l out,
  lig_scan fuel mt gd subs l = Ok out -> Permutation (chars out) (chars l).
Proof.
  intros mt gd subs. induction fuel as [|fuel IH]; intros l out H; cbn [lig_scan] in H; [discriminate|].
  destruct l as [|g rest]; [inversion H; apply Permutation_refl|].
  assert (Hskip : forall out, (t <- lig_scan fuel mt gd subs rest ;; Ok (g :: t)) = Ok out ->
                              Permutation (chars out) (chars (g :: rest))).
  { intros o Ho. destruct (lig_scan fuel mt gd subs rest) as [t| | |] eqn:Et; cbn [bind] in Ho; try discriminate.
    inversion Ho; subst. rewrite !chars_cons. apply Permutation_app_head. apply IH. exact Et. }
  destruct (match_glyph mt gd (g_id g)); [|apply Hskip; exact H].
  destruct (lig_choose mt gd subs g rest) as [[lg|]| | |]; cbn [bind] in H; try discriminate; [|apply Hskip; exact H].
  pose proof (absorb_chars mt gd rest (length (lig_comps lg)) g 0) as Ha.
  destruct (lig_absorb mt gd rest (length (lig_comps lg)) g 0) as [[acc kept] rem].
  destruct Ha as (_ & Hp).
  destruct (lig_scan fuel mt gd subs (lig_trailing gd rem (len (lig_comps lg)))) as [t| | |] eqn:Et;
    cbn [bind] in H; try discriminate.
  inversion H; subst. apply IH in Et. rewrite lig_trailing_chars in Et.
  rewrite !chars_cons, chars_app. cbn [set_id g_chars].
  eapply Permutation_trans; [|exact Hp].
  apply Permutation_app_head. apply Permutation_app_head. exact Et.
Qed.
