(* Proofs/CmapProofs.v — the cmap model (Model/Cmap.v) meets the OpenType specification
   (Model/CmapSpec.v). *)
From AV Require Import Base.Prelude Base.Lemmas Gen.CmapPrefs Model.MacRoman Model.Cmap Model.CmapSpec.
Require Import ZifyBool.
Open Scope Z_scope.

(* ------------------------------------------------------------------------------------------- *)
(* list indexing *)

Lemma get_range {A} (l : list A) i x : get l i = Some x -> 0 <= i < len l.
Proof.
  unfold get. destruct ((0 <=? i) && (i <? len l)) eqn:E; [lia | discriminate].
Qed.

Lemma get_nil {A} i : get (@nil A) i = None.
Proof.
  unfold get, len. cbn [length]. destruct ((0 <=? i) && (i <? Z.of_nat 0)) eqn:E; [lia | reflexivity].
Qed.

Lemma get_cons {A} (x : A) t i : get (x :: t) i = if i =? 0 then Some x else get t (i - 1).
Proof.
  unfold get. rewrite len_cons.
  destruct (i =? 0) eqn:E0.
  - assert (i = 0) by lia. subst. pose proof (len_nonneg t).
    destruct ((0 <=? 0) && (0 <? 1 + len t)) eqn:E; [reflexivity | lia].
  - destruct ((0 <=? i) && (i <? 1 + len t)) eqn:E1;
    destruct ((0 <=? i - 1) && (i - 1 <? len t)) eqn:E2; try lia; try reflexivity.
    replace (Z.to_nat i) with (S (Z.to_nat (i - 1))) by lia. reflexivity.
Qed.

Lemma get_In {A} (l : list A) i x : get l i = Some x -> In x l.
Proof.
  unfold get. destruct ((0 <=? i) && (i <? len l)); [|discriminate].
  apply nth_error_In.
Qed.

Lemma get_app_r {A} (a b : list A) i : len a <= i -> get (a ++ b) i = get b (i - len a).
Proof.
  intros H. unfold get. rewrite len_app. pose proof (len_nonneg a).
  destruct ((0 <=? i) && (i <? len a + len b)) eqn:E1;
  destruct ((0 <=? i - len a) && (i - len a <? len b)) eqn:E2; try lia; try reflexivity.
  rewrite nth_error_app2 by (unfold len in *; lia).
  f_equal. unfold len in *. lia.
Qed.

Lemma get_Forall {A} (P : A -> Prop) l i x : Forall P l -> get l i = Some x -> P x.
Proof. intros HF HG. apply get_In in HG. rewrite Forall_forall in HF. auto. Qed.

(* ------------------------------------------------------------------------------------------- *)
(* formats 0, 6, 10 *)

Lemma owned_index_get gids i : 0 <= i -> owned_index gids i = get gids i.
Proof.
  intros H. unfold owned_index, get.
  destruct (i <? len gids) eqn:E.
  - replace (0 <=? i) with true by lia. cbn [andb].
    symmetry. apply nth_error_nth'. unfold len in *. lia.
  - replace (0 <=? i) with true by lia. reflexivity.
Qed.

(* ------------------------------------------------------------------------------------------- *)
(* format 4: segment search *)

Definition seg_has (sg : seg) (c : Z) : bool := (s_start sg <=? c) && (c <=? s_end sg).

Lemma zip4_get ss es ds rs i sg :
  get (zip4 ss es ds rs) i = Some sg ->
  get ss i = Some (s_start sg) /\ get es i = Some (s_end sg) /\
  get ds i = Some (s_delta sg) /\ get rs i = Some (s_ro sg).
Proof.
  revert es ds rs i. induction ss as [|s ss IH]; intros es ds rs i H.
  - cbn [zip4] in H. rewrite get_nil in H. discriminate.
  - destruct es as [|e es]; [cbn [zip4] in H; rewrite get_nil in H; discriminate|].
    destruct ds as [|dl ds]; [cbn [zip4] in H; rewrite get_nil in H; discriminate|].
    destruct rs as [|r rs]; [cbn [zip4] in H; rewrite get_nil in H; discriminate|].
    cbn [zip4] in H. rewrite get_cons in H. rewrite !get_cons.
    destruct (i =? 0).
    + inversion H; subst. cbn. auto.
    + apply IH in H. exact H.
Qed.

Lemma get_zip4 ss es ds rs i s e dl r :
  get ss i = Some s -> get es i = Some e -> get ds i = Some dl -> get rs i = Some r ->
  get (zip4 ss es ds rs) i = Some {| s_start := s; s_end := e; s_delta := dl; s_ro := r |}.
Proof.
  revert es ds rs i. induction ss as [|s0 ss IH]; intros es ds rs i H1 H2 H3 H4.
  - rewrite get_nil in H1. discriminate.
  - destruct es as [|e0 es]; [rewrite get_nil in H2; discriminate|].
    destruct ds as [|d0 ds]; [rewrite get_nil in H3; discriminate|].
    destruct rs as [|r0 rs]; [rewrite get_nil in H4; discriminate|].
    cbn [zip4]. rewrite get_cons in H1, H2, H3, H4. rewrite get_cons.
    destruct (i =? 0).
    + inversion H1; inversion H2; inversion H3; inversion H4; subst. reflexivity.
    + apply IH; assumption.
Qed.

(* what find_seg returns: the first segment (in array order) that contains c *)
Lemma find_seg_some segs k c i sg :
  find_seg segs k c = Some (i, sg) ->
  exists n, i = k + n /\ 0 <= n /\ get segs n = Some sg /\ seg_has sg c = true /\
            forall j sg', 0 <= j < n -> get segs j = Some sg' -> seg_has sg' c = false.
Proof.
  revert k. induction segs as [|s0 segs IH]; intros k H; cbn [find_seg] in H; [discriminate|].
  fold (seg_has s0 c) in H. destruct (seg_has s0 c) eqn:E.
  - inversion H; subst. exists 0.
    split; [lia|]. split; [lia|]. split; [rewrite get_cons; reflexivity|]. split; [exact E|].
    intros; lia.
  - apply IH in H. destruct H as (n & -> & Hn & Hg & Hh & Hj).
    exists (n + 1).
    split; [lia|]. split; [lia|].
    split.
    { rewrite get_cons. replace (n + 1 =? 0) with false by lia. replace (n + 1 - 1) with n by lia. exact Hg. }
    split; [exact Hh|].
    intros j sg' Hjr Hgj. rewrite get_cons in Hgj. destruct (j =? 0) eqn:Ej.
    + inversion Hgj; subst. exact E.
    + apply (Hj (j - 1)); [lia | exact Hgj].
Qed.

Lemma find_seg_none segs k c :
  find_seg segs k c = None -> forall n sg, get segs n = Some sg -> seg_has sg c = false.
Proof.
  revert k. induction segs as [|s0 segs IH]; intros k H n sg Hg.
  - rewrite get_nil in Hg. discriminate.
  - cbn [find_seg] in H. fold (seg_has s0 c) in H. destruct (seg_has s0 c) eqn:E; [discriminate|].
    rewrite get_cons in Hg. destruct (n =? 0).
    + inversion Hg; subst. exact E.
    + eapply IH; eauto.
Qed.

Lemma find_seg_first segs k c n sg :
  0 <= n -> get segs n = Some sg -> seg_has sg c = true ->
  (forall j sg', 0 <= j < n -> get segs j = Some sg' -> seg_has sg' c = false) ->
  find_seg segs k c = Some (k + n, sg).
Proof.
  revert k n. induction segs as [|s0 segs IH]; intros k n Hn Hg Hh Hj.
  - rewrite get_nil in Hg. discriminate.
  - cbn [find_seg]. fold (seg_has s0 c). rewrite get_cons in Hg. destruct (n =? 0) eqn:En.
    + inversion Hg; subst. rewrite Hh. f_equal. f_equal. lia.
    + assert (E : seg_has s0 c = false).
      { apply (Hj 0); [lia|]. rewrite get_cons. reflexivity. }
      rewrite E. replace (k + n) with (k + 1 + (n - 1)) by lia.
      apply IH; try lia; try assumption.
      intros j sg' Hjr Hgj. apply (Hj (j + 1)); [lia|].
      rewrite get_cons. replace (j + 1 =? 0) with false by lia. replace (j + 1 - 1) with j by lia. exact Hgj.
Qed.

Lemma nondecreasing_get l i j x y :
  nondecreasing l -> 0 <= i < j -> get l i = Some x -> get l j = Some y -> x <= y.
Proof.
  revert i j. induction l as [|a l IH]; intros i j Hs Hij Hi Hj.
  - rewrite get_nil in Hi. discriminate.
  - cbn [nondecreasing] in Hs. destruct Hs as [Ha Hs].
    rewrite get_cons in Hi, Hj. replace (j =? 0) with false in Hj by lia.
    destruct (i =? 0) eqn:Ei.
    + inversion Hi; subst. apply Ha. eapply get_In; eauto.
    + apply (IH (i - 1) (j - 1)); try assumption; lia.
Qed.

(* ------------------------------------------------------------------------------------------- *)
(* format 4: the glyph rule *)

Lemma even_decomp ro : Z.even ro = true -> ro = 2 * (ro / 2).
Proof. intros H. apply Zeven_bool_iff in H. apply Zeven_div2 in H. rewrite Z.div2_div in H. exact H. Qed.

Lemma even_add_2 a b : Z.even (a + 2 * b) = Z.even a.
Proof. rewrite Z.even_add_mul_2. reflexivity. Qed.

Lemma glyph_rule_sound ros gids ro c dl i sco g :
  0 <= i -> 0 <= sco ->
  glyph_id_for_id_range_offset ros gids ro c dl i sco = Ok g ->
  f4_glyph ros gids i ro dl (c - sco) c g.
Proof.
  intros Hi Hsco H. unfold glyph_id_for_id_range_offset in H.
  destruct (ro =? 65535) eqn:E1.
  - cbn in H. inversion H; subst. apply G4_delta. lia.
  - destruct (ro =? 0) eqn:E0.
    + inversion H; subst. apply G4_delta. lia.
    + unfold offset_to_index in H.
      destruct ((len ros * 2 <=? ro + i * 2 + sco * 2) && Z.even (ro + i * 2 + sco * 2)) eqn:EC;
        [|cbn in H; discriminate].
      cbn [bind] in H.
      apply andb_prop in EC. destruct EC as [EC1 EC2].
      assert (Hev : Z.even ro = true).
      { replace (ro + i * 2 + sco * 2) with (ro + 2 * (i + sco)) in EC2 by lia.
        rewrite even_add_2 in EC2. exact EC2. }
      pose proof (even_decomp ro Hev) as Hro.
      assert (Hidx : (ro + i * 2 + sco * 2) / 2 - len ros = i + ro / 2 + (c - (c - sco)) - len ros).
      { replace (ro + i * 2 + sco * 2) with ((ro / 2 + i + sco) * 2) by lia.
        rewrite Z.div_mul by lia. lia. }
      rewrite Hidx in H.
      assert (Hle : len ros <= i + ro / 2 + (c - (c - sco))) by lia.
      destruct (get gids (i + ro / 2 + (c - (c - sco)) - len ros)) as [w|] eqn:EG; [|cbn in H; discriminate].
      cbn [ok_or bind] in H.
      assert (HW : get (words ros gids) (i + ro / 2 + (c - (c - sco))) = Some w).
      { unfold words. rewrite get_app_r by exact Hle. exact EG. }
      destruct (w =? 0) eqn:EW.
      * inversion H; subst. assert (w = 0) by lia. subst.
        apply G4_array_missing; try assumption; lia.
      * inversion H; subst. apply G4_array; try assumption; lia.
Qed.

Lemma glyph_rule_complete ros gids ro c dl i s g :
  0 <= i -> s <= c ->
  f4_glyph ros gids i ro dl s c g ->
  glyph_id_for_id_range_offset ros gids ro c dl i (c - s) = Ok g.
Proof.
  intros Hi Hs H. unfold glyph_id_for_id_range_offset.
  assert (Harr : forall w, ro <> 0 -> ro <> 65535 -> Z.even ro = true ->
                 len ros <= i + ro / 2 + (c - s) ->
                 get (words ros gids) (i + ro / 2 + (c - s)) = Some w ->
                 (index <- offset_to_index i ro (c - s) (len ros);;
                  glyph_id <- ok_or (get gids index) BadIndex;;
                  (if glyph_id =? 0 then Ok 0 else Ok ((glyph_id + dl) mod 65536)))
                 = (if w =? 0 then Ok 0 else Ok ((w + dl) mod 65536))).
  { intros w H0 H1 Hev Hle HW.
    pose proof (even_decomp ro Hev) as Hro.
    unfold offset_to_index.
    replace (ro + i * 2 + (c - s) * 2) with (ro + 2 * (i + (c - s))) by lia.
    rewrite even_add_2, Hev.
    replace (len ros * 2 <=? ro + 2 * (i + (c - s))) with true by lia.
    cbn [andb bind].
    replace (ro + 2 * (i + (c - s))) with ((i + ro / 2 + (c - s)) * 2) by lia.
    rewrite Z.div_mul by lia.
    unfold words in HW. rewrite get_app_r in HW by exact Hle. rewrite HW. reflexivity. }
  inversion H; subst.
  - destruct H0 as [-> | ->]; reflexivity.
  - replace (ro =? 65535) with false by lia. replace (ro =? 0) with false by lia.
    rewrite (Harr 0) by assumption. reflexivity.
  - replace (ro =? 65535) with false by lia. replace (ro =? 0) with false by lia.
    rewrite (Harr w) by assumption. replace (w =? 0) with false by lia. reflexivity.
Qed.

(* ------------------------------------------------------------------------------------------- *)
(* format 4: model = specification *)

Lemma f4_sound l ends starts deltas ros gids c g :
  nondecreasing starts -> 0 <= c ->
  map_glyph (F4 l ends starts deltas ros gids) c = Ok (Some g) ->
  assigns (F4 l ends starts deltas ros gids) c g.
Proof.
  intros Hsorted Hc H. cbn [map_glyph] in H. unfold f4_map_glyph in H.
  destruct (65535 <? c) eqn:E; [discriminate|].
  destruct (find_seg (zip4 starts ends deltas ros) 0 c) as [[i sg]|] eqn:EF; [|discriminate].
  apply find_seg_some in EF. destruct EF as (n & -> & Hn & Hg & Hh & Hj).
  destruct (glyph_id_for_id_range_offset ros gids (s_ro sg) c (s_delta sg) (0 + n) (c - s_start sg)) as [g'| | |] eqn:EG;
    cbn [bind] in H; try discriminate.
  inversion H; subst g'. clear H.
  unfold seg_has in Hh. apply andb_prop in Hh. destruct Hh as [Hh1 Hh2].
  pose proof (zip4_get _ _ _ _ _ _ Hg) as (G1 & G2 & G3 & G4).
  apply (A4 l ends starts deltas ros gids c n (s_end sg) (s_start sg) (s_delta sg) (s_ro sg) g); [lia| |].
  - unfold f4_segment.
    split; [exact G2|]. split; [exact G1|]. split; [exact G3|]. split; [exact G4|].
    split; [lia|]. split; [|lia].
    intros j e' Hjr Hje.
    (* segment j exists in the zip (j < n), it does not contain c, and its start is <= c *)
    pose proof (get_range _ _ _ Hg) as Hlen.
    destruct (get (zip4 starts ends deltas ros) j) as [sgj|] eqn:EJ.
    + pose proof (zip4_get _ _ _ _ _ _ EJ) as (J1 & J2 & J3 & J4).
      rewrite J2 in Hje. inversion Hje; subst e'.
      pose proof (Hj j sgj Hjr EJ) as Hno. unfold seg_has in Hno.
      pose proof (nondecreasing_get starts j n _ _ Hsorted ltac:(lia) J1 G1) as Hle.
      lia.
    + exfalso. unfold get in EJ.
      destruct ((0 <=? j) && (j <? len (zip4 starts ends deltas ros))) eqn:EB; [|lia].
      apply nth_error_None in EJ. unfold len in *. lia.
  - replace (0 + n) with n in EG by lia.
    pose proof (glyph_rule_sound ros gids (s_ro sg) c (s_delta sg) n (c - s_start sg) g Hn ltac:(lia) EG) as HG.
    replace (c - (c - s_start sg)) with (s_start sg) in HG by lia. exact HG.
Qed.

Lemma f4_complete l ends starts deltas ros gids c g :
  assigns (F4 l ends starts deltas ros gids) c g ->
  map_glyph (F4 l ends starts deltas ros gids) c = Ok (Some g).
Proof.
  intros H. inversion H; subst. clear H.
  match goal with Hs : f4_segment _ _ _ _ _ _ _ _ _ _ |- _ => destruct Hs as (G2 & G1 & G3 & G4 & Hce & Hj & Hsc) end.
  cbn [map_glyph]. unfold f4_map_glyph.
  replace (65535 <? c) with false by lia.
  pose proof (get_range _ _ _ G1) as Hi.
  pose proof (get_zip4 _ _ _ _ _ _ _ _ _ G1 G2 G3 G4) as HZ.
  rewrite (find_seg_first _ 0 c i _ ltac:(lia) HZ).
  - cbn [s_ro s_delta s_start]. replace (0 + i) with i by lia.
    match goal with Hg : f4_glyph _ _ _ _ _ _ _ _ |- _ =>
      rewrite (glyph_rule_complete ros gids ro c dl i s g (proj1 Hi) Hsc Hg) end.
    reflexivity.
  - unfold seg_has. cbn [s_start s_end]. lia.
  - intros j sg' Hjr Hgj. pose proof (zip4_get _ _ _ _ _ _ Hgj) as (J1 & J2 & J3 & J4).
    specialize (Hj j (s_end sg') Hjr J2). unfold seg_has. lia.
Qed.

(* ------------------------------------------------------------------------------------------- *)
(* format 12 *)

Definition group_has (g : seq_group) (c : Z) : bool := (g_start g <=? c) && (c <=? g_end g).

Lemma find_group_some gs c g : find_group gs c = Some g -> In g gs /\ group_has g c = true.
Proof.
  induction gs as [|g0 gs IH]; cbn [find_group]; intros H; [discriminate|].
  fold (group_has g0 c) in H. destruct (group_has g0 c) eqn:E.
  - inversion H; subst. split; [left; reflexivity | exact E].
  - apply IH in H. destruct H. split; [right; assumption | assumption].
Qed.

Lemma find_group_none gs c : find_group gs c = None -> forall g, In g gs -> group_has g c = false.
Proof.
  induction gs as [|g0 gs IH]; cbn [find_group]; intros H g Hin; [contradiction|].
  fold (group_has g0 c) in H. destruct (group_has g0 c) eqn:E; [discriminate|].
  destruct Hin as [<- | Hin]; [exact E | apply IH; assumption].
Qed.

Lemma find_group_disjoint gs c g :
  groups_disjoint gs -> In g gs -> group_has g c = true -> find_group gs c = Some g.
Proof.
  induction gs as [|g0 gs IH]; intros Hd Hin Hh; [contradiction|].
  cbn [groups_disjoint] in Hd. destruct Hd as [Hd0 Hd].
  cbn [find_group]. fold (group_has g0 c). destruct (group_has g0 c) eqn:E.
  - destruct Hin as [<- | Hin]; [reflexivity|].
    exfalso. specialize (Hd0 g Hin). unfold group_has in *. lia.
  - destruct Hin as [<- | Hin]; [congruence|]. apply IH; assumption.
Qed.

(* ------------------------------------------------------------------------------------------- *)
(* conformance of single lookups *)

Definition supported (st : subtable) : Prop := match st with F2 _ _ _ _ => False | _ => True end.

Theorem map_glyph_sound st c g :
  supported st -> well_formed st -> 0 <= c ->
  map_glyph st c = Ok (Some g) -> assigns st c g.
Proof.
  intros Hsup Hwf Hc H. destruct st as [l gids | | l ends starts deltas ros gids | l first gids | l start gids | l groups].
  - cbn [map_glyph] in H. inversion H as [HG]. constructor. exact HG.
  - contradiction.
  - apply f4_sound; assumption.
  - cbn [map_glyph] in H. destruct (first <=? c) eqn:E; inversion H as [HG].
    pose proof (get_range _ _ _ HG). constructor; [lia | exact HG].
  - cbn [map_glyph] in H. destruct (start <=? c) eqn:E; inversion H as [HG].
    pose proof (get_range _ _ _ HG). constructor; [lia | exact HG].
  - cbn [map_glyph] in H. unfold f12_map_glyph in H.
    destruct (find_group groups c) as [grp|] eqn:EF; [|discriminate].
    destruct (g_gid grp + (c - g_start grp) <=? 65535); [|discriminate].
    inversion H; subst. apply find_group_some in EF. destruct EF as [Hin Hh].
    unfold group_has in Hh. constructor; [exact Hin | lia].
Qed.

Theorem map_glyph_complete st c g :
  well_formed st -> 0 <= g <= 65535 ->
  assigns st c g -> map_glyph st c = Ok (Some g).
Proof.
  intros Hwf Hg H. destruct st as [l gids | | l ends starts deltas ros gids | l first gids | l start gids | l groups].
  - inversion H; subst. cbn [map_glyph]. congruence.
  - inversion H.
  - apply f4_complete. exact H.
  - inversion H; subst. cbn [map_glyph]. replace (first <=? c) with true by lia. congruence.
  - inversion H; subst. cbn [map_glyph]. replace (start <=? c) with true by lia. congruence.
  - inversion H; subst. cbn [map_glyph]. unfold f12_map_glyph.
    cbn [well_formed] in Hwf.
    rewrite (find_group_disjoint groups c grp Hwf) by (try assumption; unfold group_has; lia).
    replace (g_gid grp + (c - g_start grp) <=? 65535) with true by lia. reflexivity.
Qed.

(* a code the specification assigns nothing to is reported as glyph 0 (None or an error) *)
Theorem unassigned_is_zero st c :
  supported st -> well_formed st -> 0 <= c ->
  unassigned st c -> glyph_of (map_glyph st c) = 0.
Proof.
  intros Hsup Hwf Hc Hun. unfold glyph_of.
  destruct (map_glyph st c) as [[g|]| | |] eqn:E; try reflexivity.
  exfalso. apply (Hun g). apply map_glyph_sound; assumption.
Qed.

(* a format 12 glyph id that does not fit in 16 bits is an error, i.e. glyph 0 *)
Lemma f12_too_large l groups c grp :
  groups_disjoint groups -> In grp groups -> g_start grp <= c <= g_end grp ->
  65535 < g_gid grp + (c - g_start grp) ->
  map_glyph (F12 l groups) c = Err BadValue.
Proof.
  intros Hd Hin Hr Hbig. cbn [map_glyph]. unfold f12_map_glyph.
  rewrite (find_group_disjoint groups c grp Hd Hin) by (unfold group_has; lia).
  replace (g_gid grp + (c - g_start grp) <=? 65535) with false by lia. reflexivity.
Qed.

(* the result is a u16 whenever the fields are *)
Lemma map_glyph_u16 st c g :
  supported st -> in_range st -> 0 <= c -> map_glyph st c = Ok (Some g) -> 0 <= g <= 65535.
Proof.
  intros Hsup Hr Hc H. destruct st as [l gids | | l ends starts deltas ros gids | l first gids | l start gids | l groups];
    cbn [in_range] in Hr.
  - cbn [map_glyph] in H. inversion H as [HG]. destruct Hr as [Hr _].
    pose proof (get_Forall _ _ _ _ Hr HG). cbn beta in *. lia.
  - contradiction.
  - cbn [map_glyph] in H. unfold f4_map_glyph in H.
    destruct (65535 <? c); [discriminate|].
    destruct (find_seg (zip4 starts ends deltas ros) 0 c) as [[i sg]|]; [|discriminate].
    unfold glyph_id_for_id_range_offset in H.
    destruct ((if s_ro sg =? 65535 then 0 else s_ro sg) =? 0).
    + cbn [bind] in H. inversion H.
      pose proof (Z.mod_pos_bound (c + s_delta sg) 65536 ltac:(lia)). lia.
    + destruct (offset_to_index i (if s_ro sg =? 65535 then 0 else s_ro sg) (c - s_start sg) (len ros)) as [idx| | |];
        cbn [bind] in H; try discriminate.
      destruct (get gids idx) as [w|]; cbn [ok_or bind] in H; try discriminate.
      destruct (w =? 0); cbn [bind] in H; inversion H; [lia|].
      pose proof (Z.mod_pos_bound (w + s_delta sg) 65536 ltac:(lia)). lia.
  - destruct Hr as (_ & Hr & _). cbn [map_glyph] in H. destruct (first <=? c); inversion H as [HG].
    exact (get_Forall _ _ _ _ Hr HG).
  - destruct Hr as (_ & Hr & _). cbn [map_glyph] in H. destruct (start <=? c); inversion H as [HG].
    exact (get_Forall _ _ _ _ Hr HG).
  - cbn [map_glyph] in H. unfold f12_map_glyph in H.
    destruct (find_group groups c) as [grp|] eqn:EF; [|discriminate].
    destruct (g_gid grp + (c - g_start grp) <=? 65535) eqn:E; [|discriminate].
    inversion H; subst. apply find_group_some in EF. destruct EF as [Hin Hh].
    rewrite Forall_forall in Hr. specialize (Hr grp Hin). unfold u32, group_has in *. lia.
Qed.

(* owned::CmapSubtable::map_glyph is the same function *)
Theorem owned_map_glyph_eq st c :
  supported st -> 0 <= c -> owned_map_glyph st c = map_glyph st c.
Proof.
  intros Hsup Hc. destruct st; cbn [owned_map_glyph map_glyph]; try reflexivity.
  - rewrite owned_index_get by lia. reflexivity.
  - contradiction.
  - destruct (first <=? c) eqn:E; [|reflexivity]. rewrite owned_index_get by lia. reflexivity.
  - destruct (start <=? c) eqn:E; [|reflexivity]. rewrite owned_index_get by lia. reflexivity.
Qed.

(* the OpenType ordering conditions imply what the conformance proof needs *)
Lemma segments_ordered_lower lo starts ends x :
  segments_ordered_from lo starts ends -> In x starts -> lo <= x.
Proof.
  revert lo ends. induction starts as [|s st IH]; intros lo ends H Hin; [contradiction|].
  destruct ends as [|e et]; [contradiction|]. cbn [segments_ordered_from] in H.
  destruct H as (H1 & H2 & H3). destruct Hin as [<- | Hin]; [exact H1|].
  specialize (IH _ _ H3 Hin). lia.
Qed.

Lemma segments_ordered_starts lo starts ends : segments_ordered_from lo starts ends -> nondecreasing starts.
Proof.
  revert lo ends. induction starts as [|s st IH]; intros lo ends H; [exact I|].
  destruct ends as [|e et]; [contradiction|]. cbn [segments_ordered_from] in H.
  destruct H as (H1 & H2 & H3). cbn [nondecreasing]. split; [|eapply IH; eauto].
  intros y Hy. pose proof (segments_ordered_lower _ _ _ _ H3 Hy). lia.
Qed.

Lemma groups_ordered_lower lo gs h : groups_ordered_from lo gs -> In h gs -> lo <= g_start h.
Proof.
  revert lo. induction gs as [|g t IH]; intros lo H Hin; [contradiction|].
  cbn [groups_ordered_from] in H. destruct H as (H1 & H2 & H3).
  destruct Hin as [<- | Hin]; [exact H1|]. specialize (IH _ H3 Hin). lia.
Qed.

Lemma groups_ordered_disjoint lo gs : groups_ordered_from lo gs -> groups_disjoint gs.
Proof.
  revert lo. induction gs as [|g t IH]; intros lo H; [exact I|].
  cbn [groups_ordered_from] in H. destruct H as (H1 & H2 & H3).
  cbn [groups_disjoint]. split; [|eapply IH; eauto].
  intros h Hh. pose proof (groups_ordered_lower _ _ _ H3 Hh). lia.
Qed.

Lemma strictly_well_formed_wf st : strictly_well_formed st -> well_formed st.
Proof.
  destruct st; cbn [strictly_well_formed well_formed]; try exact (fun _ => I).
  - intros H. eapply segments_ordered_starts; eauto.
  - apply groups_ordered_disjoint.
Qed.

(* ------------------------------------------------------------------------------------------- *)
(* enumeration (mappings_fn) *)

Lemma first_assoc_app c l1 l2 :
  first_assoc c (l1 ++ l2) = match first_assoc c l1 with Some g => Some g | None => first_assoc c l2 end.
Proof.
  induction l1 as [|[a g] l1 IH]; cbn [first_assoc app]; [reflexivity|].
  destruct (a =? c); [reflexivity | exact IH].
Qed.

Lemma first_assoc_In c g l : first_assoc c l = Some g -> In (c, g) l.
Proof.
  induction l as [|[a h] l IH]; cbn [first_assoc]; intros H; [discriminate|].
  destruct (a =? c) eqn:E.
  - inversion H; subst. left. f_equal. lia.
  - right. auto.
Qed.

Lemma first_assoc_nodup c g l : NoDup (map fst l) -> In (c, g) l -> first_assoc c l = Some g.
Proof.
  induction l as [|[a h] l IH]; cbn [first_assoc map fst]; intros Hnd Hin; [contradiction|].
  inversion Hnd as [|? ? Hnot Hnd']; subst.
  destruct Hin as [Heq | Hin].
  - inversion Heq; subst. rewrite Z.eqb_refl. reflexivity.
  - destruct (a =? c) eqn:E.
    + exfalso. apply Hnot. assert (a = c) by lia. subst. change c with (fst (c, g)). apply in_map. exact Hin.
    + auto.
Qed.

Lemma first_assoc_none c l : first_assoc c l = None -> forall g, ~ In (c, g) l.
Proof.
  induction l as [|[a h] l IH]; cbn [first_assoc]; intros H g Hin; [contradiction|].
  destruct (a =? c) eqn:E; [discriminate|].
  destruct Hin as [Heq | Hin]; [inversion Heq; lia | eapply IH; eauto].
Qed.

(* enum_from *)
Lemma first_assoc_enum_from c s l :
  first_assoc c (enum_from s l) = if s <=? c then get l (c - s) else None.
Proof.
  revert s. induction l as [|x t IH]; intros s; cbn [enum_from first_assoc].
  - rewrite get_nil. destruct (s <=? c); reflexivity.
  - rewrite get_cons, IH. destruct (s =? c) eqn:E.
    + replace (s <=? c) with true by lia. replace (c - s =? 0) with true by lia. reflexivity.
    + destruct (s <=? c) eqn:E1.
      * replace (s + 1 <=? c) with true by lia. replace (c - s =? 0) with false by lia.
        replace (c - (s + 1)) with (c - s - 1) by lia. reflexivity.
      * replace (s + 1 <=? c) with false by lia. reflexivity.
Qed.

Lemma enum_from_keys s l x : In x (map fst (enum_from s l)) -> s <= x.
Proof.
  revert s. induction l as [|g t IH]; intros s H; cbn [enum_from map fst] in H; [contradiction|].
  destruct H as [<- | H]; [lia|]. apply IH in H. lia.
Qed.

Lemma enum_from_nodup s l : NoDup (map fst (enum_from s l)).
Proof.
  revert s. induction l as [|g t IH]; intros s; cbn [enum_from map fst]; constructor.
  - intros H. apply enum_from_keys in H. lia.
  - apply IH.
Qed.

(* emit_list *)
Lemma emit_list_ok f chs :
  snd (emit_list f chs) = Ok tt -> forall ch, In ch chs -> exists g, f ch = Ok g.
Proof.
  induction chs as [|a t IH]; intros H ch Hin; [contradiction|].
  cbn [emit_list] in H. destruct (f a) as [g| | |] eqn:E; cbn [snd] in H; try discriminate.
  destruct Hin as [<- | Hin]; [eauto | apply IH; assumption].
Qed.

Lemma first_assoc_emit_list f chs c :
  snd (emit_list f chs) = Ok tt ->
  first_assoc c (fst (emit_list f chs)) =
  if existsb (Z.eqb c) chs then match f c with Ok g => Some g | _ => None end else None.
Proof.
  induction chs as [|a t IH]; intros H; [reflexivity|].
  cbn [emit_list] in H |- *. destruct (f a) as [g| | |] eqn:E; cbn [snd] in H; try discriminate.
  cbn [fst first_assoc existsb]. rewrite (Z.eqb_sym c a). destruct (a =? c) eqn:E1.
  - assert (a = c) by lia. subst. rewrite E. reflexivity.
  - cbn [orb]. apply IH. exact H.
Qed.

Lemma emit_list_keys f chs x : In x (map fst (fst (emit_list f chs))) -> In x chs.
Proof.
  induction chs as [|a t IH]; cbn [emit_list]; intros H; [contradiction|].
  destruct (f a); cbn [fst map] in H; try contradiction.
  destruct H as [<- | H]; [left; reflexivity | right; auto].
Qed.

Lemma emit_list_values f chs c g : In (c, g) (fst (emit_list f chs)) -> f c = Ok g.
Proof.
  induction chs as [|a t IH]; cbn [emit_list]; intros H; [contradiction|].
  destruct (f a) eqn:E; cbn [fst] in H; try contradiction.
  destruct H as [Heq | H]; [inversion Heq; subst; exact E | auto].
Qed.

Lemma existsb_range c s n : existsb (Z.eqb c) (range s n) = (s <=? c) && (c <? s + Z.of_nat n).
Proof.
  revert s. induction n as [|n IH]; intros s; cbn [range existsb].
  - lia.
  - rewrite IH. lia.
Qed.

Lemma emit_then_ok a k : snd (emit_then a k) = Ok tt -> snd a = Ok tt /\ snd k = Ok tt.
Proof.
  destruct a as [l [[]| | |]]; cbn [emit_then snd]; intros H; try discriminate. auto.
Qed.

Lemma emit_then_fst a k : snd a = Ok tt -> fst (emit_then a k) = fst a ++ fst k.
Proof. destruct a as [l [[]| | |]]; cbn [emit_then snd fst]; intros H; try discriminate. reflexivity. Qed.

(* format 4 *)
Definition f4_gid (ros gids : list Z) (i : Z) (sg : seg) (ch : Z) : outcome Z :=
  glyph_id_for_id_range_offset ros gids (s_ro sg) ch (s_delta sg) i (ch - s_start sg).

Definition f4_seg_emit (ros gids : list Z) (p : Z * seg) : emitted :=
  let '(i, sg) := p in
  emit_list (f4_gid ros gids i sg) (range (s_start sg) (Z.to_nat (s_end sg - s_start sg + 1))).

Lemma f4_mappings_unfold ends starts deltas ros gids :
  f4_mappings ends starts deltas ros gids =
  emit_all (f4_seg_emit ros gids) (index_segs 0 (zip4 starts ends deltas ros)).
Proof.
  unfold f4_mappings. f_equal.
Qed.

Lemma f4_first_assoc ros gids segs k c :
  snd (emit_all (f4_seg_emit ros gids) (index_segs k segs)) = Ok tt ->
  first_assoc c (fst (emit_all (f4_seg_emit ros gids) (index_segs k segs))) =
  match find_seg segs k c with
  | None => None
  | Some (i, sg) => match f4_gid ros gids i sg c with Ok g => Some g | _ => None end
  end.
Proof.
  revert k. induction segs as [|sg segs IH]; intros k H; [reflexivity|].
  cbn [index_segs emit_all] in H |- *.
  apply emit_then_ok in H. destruct H as [H1 H2].
  rewrite emit_then_fst by exact H1. rewrite first_assoc_app.
  cbn [f4_seg_emit] in H1 |- *.
  rewrite first_assoc_emit_list by exact H1. rewrite existsb_range.
  cbn [find_seg].
  assert (EQ : (s_start sg <=? c) && (c <? s_start sg + Z.of_nat (Z.to_nat (s_end sg - s_start sg + 1)))
               = (s_start sg <=? c) && (c <=? s_end sg)) by lia.
  rewrite EQ. destruct ((s_start sg <=? c) && (c <=? s_end sg)) eqn:E.
  - assert (Hin : In c (range (s_start sg) (Z.to_nat (s_end sg - s_start sg + 1)))).
    { apply range_In. lia. }
    destruct (emit_list_ok _ _ H1 c Hin) as [g Hg]. rewrite Hg. reflexivity.
  - apply IH. exact H2.
Qed.

Lemma zip4_ends_bound ss es ds rs b sg :
  Forall (fun e => e <= b) es -> In sg (zip4 ss es ds rs) -> s_end sg <= b.
Proof.
  revert es ds rs. induction ss as [|s ss IH]; intros es ds rs HF Hin; [contradiction|].
  destruct es as [|e es]; [contradiction|]. destruct ds as [|dl ds]; [contradiction|].
  destruct rs as [|r rs]; [contradiction|]. cbn [zip4] in Hin.
  inversion HF; subst. destruct Hin as [<- | Hin]; [exact H1 | eapply IH; eauto].
Qed.

Lemma find_seg_in segs k c i sg : find_seg segs k c = Some (i, sg) -> In sg segs /\ seg_has sg c = true.
Proof.
  intros H. apply find_seg_some in H. destruct H as (n & _ & _ & Hg & Hh & _).
  split; [eapply get_In; eauto | exact Hh].
Qed.

Theorem f4_mappings_first l ends starts deltas ros gids c :
  Forall u16 ends -> 0 <= c ->
  snd (mappings (F4 l ends starts deltas ros gids)) = Ok tt ->
  first_assoc c (fst (mappings (F4 l ends starts deltas ros gids))) = lookup (F4 l ends starts deltas ros gids) c.
Proof.
  intros Hr Hc H. cbn [mappings] in *. rewrite f4_mappings_unfold in *.
  rewrite f4_first_assoc by exact H.
  unfold lookup. cbn [map_glyph]. unfold f4_map_glyph.
  destruct (find_seg (zip4 starts ends deltas ros) 0 c) as [[i sg]|] eqn:EF.
  - apply find_seg_in in EF. destruct EF as [Hin Hh].
    assert (s_end sg <= 65535).
    { apply (zip4_ends_bound starts ends deltas ros 65535 sg); [|exact Hin].
      eapply Forall_impl; [|exact Hr]. unfold u16. intros; lia. }
    unfold seg_has in Hh. replace (65535 <? c) with false by lia.
    unfold f4_gid. destruct (glyph_id_for_id_range_offset ros gids (s_ro sg) c (s_delta sg) i (c - s_start sg)); reflexivity.
  - destruct (65535 <? c); reflexivity.
Qed.

(* format 10 *)
Lemma f10_mappings_ok s l : snd (f10_mappings s l) = Ok tt -> fst (f10_mappings s l) = enum_from s l.
Proof.
  revert s. induction l as [|g t IH]; intros s H; [reflexivity|].
  cbn [f10_mappings] in H |- *. destruct (4294967295 <? s); cbn [snd fst] in H |- *; [discriminate|].
  cbn [enum_from]. f_equal. apply IH. exact H.
Qed.

(* format 12 *)
Definition f12_gid (g : seq_group) (ch : Z) : outcome Z :=
  let i := ch - g_start g in
  if 65535 <? g_gid g then Err BadValue
  else if 65535 <? i then Err BadValue
  else if 65535 <? g_gid g + i then Err BadValue
  else Ok (g_gid g + i).

Lemma f12_group_first_assoc g c :
  snd (f12_group_mappings g) = Ok tt ->
  first_assoc c (fst (f12_group_mappings g)) =
  if group_has g c then Some (g_gid g + (c - g_start g)) else None.
Proof.
  intros H. unfold f12_group_mappings in *. fold (f12_gid g) in *.
  set (n := Z.to_nat (Z.min (g_end g - g_start g + 1) 65537)) in *.
  (* the cap is not reached: otherwise the 65537th iteration fails *)
  assert (Hcap : g_end g - g_start g + 1 <= 65536).
  { destruct (Z_le_gt_dec (g_end g - g_start g + 1) 65536) as [|Hgt]; [assumption|exfalso].
    assert (Hin : In (g_start g + 65536) (range (g_start g) n)).
    { apply range_In. subst n. lia. }
    destruct (emit_list_ok _ _ H _ Hin) as [x Hx]. unfold f12_gid in Hx.
    destruct (65535 <? g_gid g); [discriminate|].
    replace (65535 <? g_start g + 65536 - g_start g) with true in Hx by lia. discriminate. }
  rewrite first_assoc_emit_list by exact H. rewrite existsb_range.
  assert (EQ : (g_start g <=? c) && (c <? g_start g + Z.of_nat n) = group_has g c).
  { unfold group_has. subst n. lia. }
  rewrite EQ. destruct (group_has g c) eqn:E; [|reflexivity].
  assert (Hin : In c (range (g_start g) n)).
  { apply range_In. unfold group_has in E. subst n. lia. }
  destruct (emit_list_ok _ _ H _ Hin) as [x Hx]. rewrite Hx.
  unfold f12_gid in Hx. destruct (65535 <? g_gid g); [discriminate|].
  destruct (65535 <? c - g_start g); [discriminate|].
  destruct (65535 <? g_gid g + (c - g_start g)); [discriminate|]. inversion Hx. reflexivity.
Qed.

Lemma f12_group_ok_small g c :
  snd (f12_group_mappings g) = Ok tt -> group_has g c = true -> g_gid g + (c - g_start g) <= 65535.
Proof.
  intros H Hh. pose proof (f12_group_first_assoc g c H) as HF. rewrite Hh in HF.
  apply first_assoc_In in HF. unfold f12_group_mappings in HF.
  apply emit_list_values in HF.
  destruct (65535 <? g_gid g); [discriminate|].
  destruct (65535 <? c - g_start g); [discriminate|].
  destruct (65535 <? g_gid g + (c - g_start g)) eqn:E; [discriminate|]. lia.
Qed.

Theorem f12_mappings_first l groups c :
  snd (mappings (F12 l groups)) = Ok tt ->
  first_assoc c (fst (mappings (F12 l groups))) = lookup (F12 l groups) c.
Proof.
  unfold lookup. cbn [mappings map_glyph]. unfold f12_map_glyph.
  induction groups as [|g gs IH]; intros H; [reflexivity|].
  cbn [emit_all] in H |- *. apply emit_then_ok in H. destruct H as [H1 H2].
  rewrite emit_then_fst by exact H1. rewrite first_assoc_app.
  rewrite f12_group_first_assoc by exact H1.
  cbn [find_group]. fold (group_has g c). destruct (group_has g c) eqn:E.
  - pose proof (f12_group_ok_small g c H1 E).
    replace (g_gid g + (c - g_start g) <=? 65535) with true by lia. reflexivity.
  - apply IH. exact H2.
Qed.

(* all supported formats: the first pair enumerated for a code is what the single lookup returns *)
Theorem mappings_first st c :
  supported st -> in_range st -> 0 <= c ->
  snd (mappings st) = Ok tt ->
  first_assoc c (fst (mappings st)) = lookup st c.
Proof.
  intros Hsup Hr Hc H. destruct st as [l gids | | l ends starts deltas ros gids | l first gids | l start gids | l groups].
  - cbn [mappings fst]. rewrite first_assoc_enum_from. unfold lookup. cbn [map_glyph].
    replace (0 <=? c) with true by lia. replace (c - 0) with c by lia.
    destruct (get gids c); reflexivity.
  - contradiction.
  - apply f4_mappings_first; [apply Hr | exact Hc | exact H].
  - cbn [mappings fst]. rewrite first_assoc_enum_from. unfold lookup. cbn [map_glyph].
    destruct (first <=? c); [destruct (get gids (c - first))|]; reflexivity.
  - cbn [mappings] in H |- *. rewrite (f10_mappings_ok _ _ H). rewrite first_assoc_enum_from.
    unfold lookup. cbn [map_glyph].
    destruct (start <=? c); [destruct (get gids (c - start))|]; reflexivity.
  - apply f12_mappings_first. exact H.
Qed.

(* every successful single lookup is enumerated *)
Theorem mappings_complete st c g :
  supported st -> in_range st -> 0 <= c ->
  snd (mappings st) = Ok tt ->
  lookup st c = Some g -> In (c, g) (fst (mappings st)).
Proof.
  intros Hsup Hr Hc H HL. apply first_assoc_In. rewrite mappings_first by assumption. exact HL.
Qed.

(* when no code is enumerated twice the enumeration is exactly the set of successful lookups *)
Theorem mappings_exact_nodup st c g :
  supported st -> in_range st -> 0 <= c ->
  snd (mappings st) = Ok tt ->
  NoDup (map fst (fst (mappings st))) ->
  (In (c, g) (fst (mappings st)) <-> lookup st c = Some g).
Proof.
  intros Hsup Hr Hc H Hnd. split.
  - intros Hin. rewrite <- mappings_first by assumption. apply first_assoc_nodup; assumption.
  - apply mappings_complete; assumption.
Qed.

(* ------------------------------------------------------------------------------------------- *)
(* no code is enumerated twice when the sub-table is ordered as OpenType requires *)

Fixpoint incr (lo : Z) (l : list Z) : Prop :=
  match l with [] => True | x :: t => lo <= x /\ incr (x + 1) t end.

Lemma incr_range s n : incr s (range s n).
Proof. revert s. induction n as [|n IH]; intros s; cbn [range incr]; [exact I|]. split; [lia | apply IH]. Qed.

Lemma incr_weaken lo lo' l : lo' <= lo -> incr lo l -> incr lo' l.
Proof. destruct l as [|x t]; cbn [incr]; [auto|]. intros H [H1 H2]. split; [lia | exact H2]. Qed.

Lemma incr_lower lo l x : incr lo l -> In x l -> lo <= x.
Proof.
  revert lo. induction l as [|a t IH]; intros lo H Hin; [contradiction|].
  cbn [incr] in H. destruct H as [H1 H2]. destruct Hin as [<- | Hin]; [exact H1|].
  specialize (IH _ H2 Hin). lia.
Qed.

Lemma incr_app lo l1 hi l2 :
  lo <= hi -> incr lo l1 -> (forall x, In x l1 -> x < hi) -> incr hi l2 -> incr lo (l1 ++ l2).
Proof.
  revert lo. induction l1 as [|x t IH]; intros lo Hle H1 Hb H2; cbn [app].
  - eapply incr_weaken; eauto.
  - cbn [incr] in H1 |- *. destruct H1 as [Hx Ht]. split; [exact Hx|].
    apply IH; try assumption.
    + specialize (Hb x (or_introl eq_refl)). lia.
    + intros y Hy. apply Hb. right. exact Hy.
Qed.

Lemma incr_nodup lo l : incr lo l -> NoDup l.
Proof.
  revert lo. induction l as [|x t IH]; intros lo H; constructor.
  - cbn [incr] in H. destruct H as [_ H]. intros Hin. pose proof (incr_lower _ _ _ H Hin). lia.
  - cbn [incr] in H. destruct H as [_ H]. eapply IH; eauto.
Qed.

Lemma emit_list_keys_ok f chs : snd (emit_list f chs) = Ok tt -> map fst (fst (emit_list f chs)) = chs.
Proof.
  induction chs as [|a t IH]; intros H; [reflexivity|].
  cbn [emit_list] in H |- *. destruct (f a); cbn [snd fst] in H |- *; try discriminate.
  cbn [map fst]. f_equal. apply IH. exact H.
Qed.

Lemma f4_keys_incr ros gids lo ss es ds rs k :
  segments_ordered_from lo ss es ->
  snd (emit_all (f4_seg_emit ros gids) (index_segs k (zip4 ss es ds rs))) = Ok tt ->
  incr lo (map fst (fst (emit_all (f4_seg_emit ros gids) (index_segs k (zip4 ss es ds rs))))).
Proof.
  revert lo es ds rs k. induction ss as [|s ss IH]; intros lo es ds rs k Ho H; [exact I|].
  destruct es as [|e es]; [contradiction|].
  destruct ds as [|dl ds]; [exact I|]. destruct rs as [|r rs]; [exact I|].
  cbn [segments_ordered_from] in Ho. destruct Ho as (H1 & H2 & H3).
  cbn [zip4 index_segs emit_all] in H |- *.
  apply emit_then_ok in H. destruct H as [Ha Hb].
  rewrite emit_then_fst by exact Ha. rewrite map_app.
  cbn [f4_seg_emit s_start s_end] in Ha |- *.
  rewrite emit_list_keys_ok by exact Ha.
  apply (incr_app lo _ (e + 1)).
  - lia.
  - eapply incr_weaken; [exact H1 | apply incr_range].
  - intros x Hx. apply range_In in Hx. lia.
  - apply IH; assumption.
Qed.

Lemma f12_group_keys g :
  snd (f12_group_mappings g) = Ok tt ->
  map fst (fst (f12_group_mappings g)) = range (g_start g) (Z.to_nat (g_end g - g_start g + 1)).
Proof.
  intros H. unfold f12_group_mappings in *. rewrite emit_list_keys_ok by exact H.
  f_equal.
  destruct (Z_le_gt_dec (g_end g - g_start g + 1) 65536) as [|Hgt]; [lia|exfalso].
  assert (Hin : In (g_start g + 65536) (range (g_start g) (Z.to_nat (Z.min (g_end g - g_start g + 1) 65537)))).
  { apply range_In. lia. }
  destruct (emit_list_ok _ _ H _ Hin) as [x Hx]. cbn beta in Hx.
  destruct (65535 <? g_gid g); [discriminate|].
  replace (65535 <? g_start g + 65536 - g_start g) with true in Hx by lia. discriminate.
Qed.

Lemma f12_keys_incr lo gs :
  groups_ordered_from lo gs ->
  snd (emit_all f12_group_mappings gs) = Ok tt ->
  incr lo (map fst (fst (emit_all f12_group_mappings gs))).
Proof.
  revert lo. induction gs as [|g gs IH]; intros lo Ho H; [exact I|].
  cbn [groups_ordered_from] in Ho. destruct Ho as (H1 & H2 & H3).
  cbn [emit_all] in H |- *. apply emit_then_ok in H. destruct H as [Ha Hb].
  rewrite emit_then_fst by exact Ha. rewrite map_app. rewrite f12_group_keys by exact Ha.
  apply (incr_app lo _ (g_end g + 1)).
  - lia.
  - eapply incr_weaken; [exact H1 | apply incr_range].
  - intros x Hx. apply range_In in Hx. lia.
  - apply IH; assumption.
Qed.

Theorem mappings_nodup st :
  supported st -> strictly_well_formed st -> snd (mappings st) = Ok tt ->
  NoDup (map fst (fst (mappings st))).
Proof.
  intros Hsup Hwf H. destruct st as [l gids | | l ends starts deltas ros gids | l first gids | l start gids | l groups].
  - apply enum_from_nodup.
  - contradiction.
  - cbn [mappings strictly_well_formed] in *. rewrite f4_mappings_unfold in *.
    eapply incr_nodup. apply f4_keys_incr; eauto.
  - apply enum_from_nodup.
  - cbn [mappings] in *. rewrite (f10_mappings_ok _ _ H). apply enum_from_nodup.
  - cbn [mappings] in *. eapply incr_nodup. apply f12_keys_incr; eauto.
Qed.

(* C06, enumeration: for a sub-table ordered as OpenType requires, mappings_fn reports exactly
   the (code, glyph) pairs that single lookups return *)
Theorem mappings_exact st c g :
  supported st -> in_range st -> strictly_well_formed st -> 0 <= c ->
  snd (mappings st) = Ok tt ->
  (In (c, g) (fst (mappings st)) <-> lookup st c = Some g).
Proof.
  intros Hsup Hr Hwf Hc H. apply mappings_exact_nodup; try assumption.
  apply mappings_nodup; assumption.
Qed.

(* enumerated codes are never negative / are codes the lookup accepts *)
Theorem mappings_sound_wf st c g :
  supported st -> in_range st -> strictly_well_formed st -> 0 <= c ->
  snd (mappings st) = Ok tt ->
  In (c, g) (fst (mappings st)) -> assigns st c g.
Proof.
  intros Hsup Hr Hwf Hc H Hin.
  apply map_glyph_sound; try assumption; [apply strictly_well_formed_wf; exact Hwf|].
  apply (mappings_exact st c g) in Hin; try assumption.
  unfold lookup in Hin. destruct (map_glyph st c) as [[x|]| | |]; try discriminate. congruence.
Qed.

(* ------------------------------------------------------------------------------------------- *)
(* sub-table selection *)

Lemma find_first_match (f : enc_rec -> bool) recs r :
  find f recs = Some r ->
  exists pre post, recs = pre ++ r :: post /\ f r = true /\ forall x, In x pre -> f x = false.
Proof.
  induction recs as [|a t IH]; cbn [find]; intros H; [discriminate|].
  destruct (f a) eqn:E.
  - inversion H; subst. exists [], t. split; [reflexivity|]. split; [exact E|]. intros x [].
  - destruct (IH H) as (pre & post & -> & Hr & Hp).
    exists (a :: pre), post. split; [reflexivity|]. split; [exact Hr|].
    intros x [<- | Hx]; [exact E | auto].
Qed.

Lemma find_none_all (f : enc_rec -> bool) recs : find f recs = None -> forall x, In x recs -> f x = false.
Proof. intros H x Hx. eapply find_none; eauto. Qed.

Definition query_test (q : query) (r : enc_rec) : bool :=
  match q with
  | QExact p e => (er_platform r =? p) && (er_encoding r =? e)
  | QPlatform p => er_platform r =? p
  end.

Lemma query_test_matches q r : query_test q r = true <-> matches q r.
Proof. destruct q; cbn [query_test matches]; lia. Qed.

Lemma run_query_find recs q : run_query recs q = find (query_test q) recs.
Proof. destruct q; reflexivity. Qed.

Lemma run_query_some recs q r : run_query recs q = Some r -> first_match q recs r.
Proof.
  rewrite run_query_find. intros H. apply find_first_match in H.
  destruct H as (pre & post & -> & Hr & Hp). exists pre, post.
  split; [reflexivity|]. split; [apply query_test_matches; exact Hr|].
  intros x Hx Hm. apply query_test_matches in Hm. rewrite (Hp x Hx) in Hm. discriminate.
Qed.

Lemma run_query_none recs q : run_query recs q = None -> forall x, In x recs -> ~ matches q x.
Proof.
  rewrite run_query_find. intros H x Hx Hm. apply query_test_matches in Hm.
  rewrite (find_none_all _ _ H x Hx) in Hm. discriminate.
Qed.

Theorem find_good_in_selected prefs recs enc r :
  find_good_in prefs recs = Some (enc, r) -> selected prefs recs enc r.
Proof.
  induction prefs as [|[q e] t IH]; cbn [find_good_in]; intros H; [discriminate|].
  destruct (run_query recs q) as [r0|] eqn:E.
  - inversion H; subst. exists [], q, t. split; [reflexivity|].
    split; [apply run_query_some; exact E|]. intros q' e' x [].
  - destruct (IH H) as (before & q1 & after & -> & Hfm & Hb).
    exists ((q, e) :: before), q1, after. split; [reflexivity|]. split; [exact Hfm|].
    intros q' e' x [Heq | Hin] Hx.
    + inversion Heq; subst. eapply run_query_none; eauto.
    + eapply Hb; eauto.
Qed.

Theorem find_good_in_none prefs recs :
  find_good_in prefs recs = None -> forall q e x, In (q, e) prefs -> In x recs -> ~ matches q x.
Proof.
  induction prefs as [|[q0 e0] t IH]; cbn [find_good_in]; intros H q e x Hin Hx; [contradiction|].
  destruct (run_query recs q0) as [r0|] eqn:E; [discriminate|].
  destruct Hin as [Heq | Hin].
  - inversion Heq; subst. eapply run_query_none; eauto.
  - eapply IH; eauto.
Qed.

(* the cascade regenerated from font.rs is the documented preference list *)
Lemma preferences_are_spec : cmap_preferences = spec_preferences.
Proof. reflexivity. Qed.

Theorem preference_order recs enc r :
  find_good_cmap_subtable recs = Some (enc, r) -> selected spec_preferences recs enc r.
Proof.
  unfold find_good_cmap_subtable. rewrite preferences_are_spec. apply find_good_in_selected.
Qed.

Theorem preference_none recs :
  find_good_cmap_subtable recs = None ->
  forall q e x, In (q, e) spec_preferences -> In x recs -> ~ matches q x.
Proof.
  unfold find_good_cmap_subtable. rewrite preferences_are_spec. apply find_good_in_none.
Qed.

(* ------------------------------------------------------------------------------------------- *)
(* Font-level dispatch *)

(* the glyph reported for a character code is the sub-table's, errors and unmapped codes are 0 *)
Theorem font_map_glyph_spec cmap offset code st :
  parse (slice_from cmap offset) = Ok st ->
  map_glyph st code <> Panic -> map_glyph st code <> OOB ->
  font_map_glyph cmap offset code = Ok (glyph_of (map_glyph st code)).
Proof.
  intros HP H1 H2. unfold font_map_glyph, glyph_of. rewrite HP.
  destruct (map_glyph st code) as [[g|]| | |]; try reflexivity; contradiction.
Qed.

Theorem font_map_glyph_unparsable cmap offset code e :
  parse (slice_from cmap offset) = Err e -> font_map_glyph cmap offset code = Ok 0.
Proof. intros HP. unfold font_map_glyph. rewrite HP. reflexivity. Qed.

(* an encoding-record offset beyond the table reads as an empty sub-table: glyph 0, no panic *)
Theorem font_map_glyph_offset_beyond cmap offset code :
  len cmap < offset -> font_map_glyph cmap offset code = Ok 0.
Proof.
  intros H. unfold font_map_glyph, slice_from. replace (offset <=? len cmap) with false by lia.
  reflexivity.
Qed.

Theorem dispatch_unicode cmap offset first ch :
  map_unicode_to_glyph cmap EUnicode offset first ch = font_map_glyph cmap offset ch.
Proof. reflexivity. Qed.

(* Symbol: 0x20 corresponds to usFirstCharIndex; U+F000..U+F0FF are folded onto 0x00..0xFF first *)
Theorem dispatch_symbol cmap offset first ch :
  map_unicode_to_glyph cmap ESymbol offset first ch =
  let b := if (61440 <=? ch) && (ch <=? 61695) then ch - 61440 else ch in
  let f := match first with Some f => f | None => 32 end in
  if 32 <=? b + f then font_map_glyph cmap offset (b + f - 32) else Ok 0.
Proof.
  cbn [map_unicode_to_glyph]. unfold legacy_symbol_char_code.
  destruct ((ch <? 61440) || (61695 <? ch)) eqn:E1; destruct ((61440 <=? ch) && (ch <=? 61695)) eqn:E2; try lia;
    cbn zeta; destruct first; destruct (32 <=? _); reflexivity.
Qed.

Theorem symbol_twin first b :
  0 <= b <= 255 -> legacy_symbol_char_code first (61440 + b) = legacy_symbol_char_code first b.
Proof.
  intros H. unfold legacy_symbol_char_code.
  replace ((61440 + b <? 61440) || (61695 <? 61440 + b)) with false by lia.
  replace ((b <? 61440) || (61695 <? b)) with true by lia.
  replace (61440 + b - 61440) with b by lia. reflexivity.
Qed.

Theorem symbol_default_identity ch :
  0 <= ch < 61440 -> legacy_symbol_char_code None ch = Some ch.
Proof.
  intros H. unfold legacy_symbol_char_code.
  replace ((ch <? 61440) || (61695 <? ch)) with true by lia.
  replace (32 <=? ch + 32) with true by lia. f_equal. lia.
Qed.

Theorem dispatch_apple_roman cmap offset first ch :
  map_unicode_to_glyph cmap EAppleRoman offset first ch =
  match char_to_macroman ch with
  | Some b => font_map_glyph cmap offset b
  | None => map_unicode_to_glyph cmap ESymbol offset first ch
  end.
Proof. reflexivity. Qed.

Theorem font_lookup_selected cmap first ch recs enc r :
  parse_cmap cmap = Ok recs -> find_good_cmap_subtable recs = Some (enc, r) ->
  font_lookup cmap first ch = map_unicode_to_glyph cmap enc (er_offset r) first ch.
Proof.
  intros HP HF. unfold font_lookup, charmap_info. rewrite HP. cbn [bind]. rewrite HF. reflexivity.
Qed.

Theorem font_new_unsuitable cmap first ch recs :
  parse_cmap cmap = Ok recs -> find_good_cmap_subtable recs = None ->
  font_lookup cmap first ch = Err UnsuitableCmap.
Proof.
  intros HP HF. unfold font_lookup, charmap_info. rewrite HP. cbn [bind]. rewrite HF. reflexivity.
Qed.

(* ------------------------------------------------------------------------------------------- *)
(* witnesses used by the non-vacuity examples of Props/C06.v *)

Definition ex4 : subtable := F4 0 [67; 65535] [65; 65535] [3; 1] [4; 0] [7; 0; 9].
Definition ex4_unsorted : subtable := F4 0 [20; 25] [10; 5] [0; 0] [0; 0] [].

Lemma ex4_spec_A_proof : assigns ex4 65 10.
Proof.
  apply (A4 0 _ _ _ _ _ 65 0 67 65 3 4 10); [lia| |].
  - unfold f4_segment. repeat split; try reflexivity; try lia.
  - change 10 with ((7 + 3) mod 65536). apply G4_array; try reflexivity; try lia; cbn; lia.
Qed.

Lemma ex4_unsorted_spec_proof : unassigned ex4_unsorted 7.
Proof.
  intros g H. inversion H; subst.
  match goal with Hs : f4_segment _ _ _ _ _ _ _ _ _ _ |- _ => destruct Hs as (G2 & G1 & _ & _ & Hce & Hj & Hsc) end.
  assert (Hi : i = 0 \/ i = 1).
  { pose proof (get_range _ _ _ G1) as R. cbn in R. lia. }
  destruct Hi as [-> | ->].
  - vm_compute in G1. inversion G1; subst. lia.
  - specialize (Hj 0 20 ltac:(lia) eq_refl). lia.
Qed.
