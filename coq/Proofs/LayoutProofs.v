(* Proofs/LayoutProofs.v — lemmas about Model/Layout.v: lookup-flag skipping vs. the declarative skip
   specification, Coverage / ClassDef denotation, the position searches and the backtrack / input /
   lookahead matcher vs. "the unskipped glyphs before / after the position". *)
From AV Require Import Base.Prelude Base.Lemmas Gen.LayoutConsts Model.Layout Model.LayoutSpec.
From Coq Require Import ZifyBool.
Open Scope Z_scope.

(* ------------------------------------------------------------------ (a) lookup flags *)
(* the mask tests of the LookupFlag getters (masks regenerated from context.rs) are the bit / byte of the
   lookupFlag word the OpenType table assigns; finite sweep over all 16-bit words *)
Definition flag_facts (f : Z) : bool :=
  Bool.eqb (flag_test f FLAG_IGNORE_BASES) (Z.testbit f 1) &&
  Bool.eqb (flag_test f FLAG_IGNORE_LIGATURES) (Z.testbit f 2) &&
  Bool.eqb (flag_test f FLAG_IGNORE_MARKS) (Z.testbit f 3) &&
  Bool.eqb (flag_test f FLAG_USE_MFS) (Z.testbit f 4) &&
  Bool.eqb (flag_test f FLAG_MAT_MASK) (negb (mark_attachment_type f =? 0)) &&
  (Z.shiftr f FLAG_MAT_SHIFT mod 256 =? mark_attachment_type f) &&
  Bool.eqb (flag_test f FLAG_RTL) (Z.testbit f 0).

Lemma flag_facts_all : forallb flag_facts (range 0 (Z.to_nat 65536)) = true.
Proof. vm_compute. reflexivity. Qed.

Lemma flag_facts_u16 f : 0 <= f < 65536 -> flag_facts f = true.
Proof.
  intros Hf. pose proof flag_facts_all as H. rewrite forallb_forall in H. apply H.
  apply range_In. lia.
Qed.

Lemma flag_decode f : 0 <= f < 65536 ->
  get_ignore_bases f = Z.testbit f 1 /\ get_ignore_ligatures f = Z.testbit f 2 /\
  flag_test f FLAG_IGNORE_MARKS = Z.testbit f 3 /\ use_mark_filtering_set f = Z.testbit f 4 /\
  flag_test f FLAG_MAT_MASK = negb (mark_attachment_type f =? 0) /\
  Z.shiftr f FLAG_MAT_SHIFT mod 256 = mark_attachment_type f /\ get_rtl f = Z.testbit f 0.
Proof.
  intros Hf. pose proof (flag_facts_u16 f Hf) as H. unfold flag_facts in H.
  repeat rewrite andb_true_iff in H. repeat rewrite eqb_true_iff in H.
  destruct H as [[[[[[H1 H2] H3] H4] H5] H6] H7].
  unfold get_ignore_bases, get_ignore_ligatures, use_mark_filtering_set, get_rtl.
  repeat split; try assumption. lia.
Qed.

Lemma mark_in_set_split gd g i :
  glyph_is_mark_in_set gd g i = (glyph_class gd g =? CLASS_MARK) && in_mark_set gd i g.
Proof. reflexivity. Qed.

Theorem match_glyph_skip_spec : forall f mfs gd g,
  0 <= f < 65536 -> flag_combines_attach_and_set f mfs = false ->
  match_glyph (from_lookup_flag f mfs) gd g = negb (skip_spec f mfs gd g).
Proof.
  intros f mfs gd g Hf Hcls.
  destruct (flag_decode f Hf) as (H1 & H2 & H3 & H4 & H5 & H6 & _).
  unfold match_glyph, from_lookup_flag, get_ignore_marks, skip_spec, flag_combines_attach_and_set in *.
  cbn [ignore_bases ignore_ligatures ignore_mks].
  rewrite H1, H2, H3, H4, H5, H6.
  unfold MG_CLASS_BASE, MG_CLASS_LIGATURE, MG_CLASS_MARK, CLASS_BASE, CLASS_LIGATURE, CLASS_MARK in *.
  set (c := glyph_class gd g). set (a := mark_attach_class gd g). set (mat := mark_attachment_type f) in *.
  destruct (Z.testbit f 1), (Z.testbit f 2), (Z.testbit f 3), (Z.testbit f 4), (mat =? 0) eqn:Em, mfs as [i|];
    cbn [negb andb orb is_no_ignore] in *; try discriminate Hcls; rewrite ?mark_in_set_split;
    unfold CLASS_MARK; fold c;
    destruct (c =? 1) eqn:E1, (c =? 2) eqn:E2, (c =? 3) eqn:E3; cbn [negb andb orb];
    try reflexivity; try (exfalso; lia);
    try (destruct (in_mark_set gd i g); reflexivity);
    try (destruct (a =? mat); reflexivity).
Qed.

(* inside the excluded class the implementation really deviates: attachment type 1 + filtering set {} *)
Example match_glyph_deviates_in_class :
  let gd := Some (mkGdef (Some (CdF1 0 [0; 1; 3; 3])) (Some (CdF1 0 [0; 0; 1; 1])) (Some [CovF1 [2]])) in
  flag_combines_attach_and_set 272 (Some 0) = true /\
  match_glyph (from_lookup_flag 272 (Some 0)) gd 3 = true /\ skip_spec 272 (Some 0) gd 3 = true.
Proof. vm_compute. repeat split. Qed.

(* ------------------------------------------------------------------ (b) Coverage *)
Lemma index_of_app g a b k :
  index_of g (a ++ b) k = match index_of g a k with Some j => Some j | None => index_of g b (k + len a) end.
Proof.
  revert k; induction a as [|x a IH]; intros k; cbn [index_of app].
  - rewrite len_nil. f_equal. lia.
  - destruct (x =? g); [reflexivity|]. rewrite IH, len_cons.
    replace (k + (1 + len a)) with (k + 1 + len a) by lia. reflexivity.
Qed.

Lemma index_of_bounds g l k j : index_of g l k = Some j -> k <= j < k + len l /\ nthZ l (j - k) = g.
Proof.
  revert k; induction l as [|x l IH]; intros k H; cbn [index_of] in H; [discriminate|].
  rewrite len_cons. destruct (x =? g) eqn:E.
  - inversion H; subst j. split; [pose proof (len_nonneg l); lia|]. replace (k - k) with 0 by lia. cbn. lia.
  - apply IH in H. destruct H as [Hb Hn]. split; [lia|].
    unfold nthZ in *. replace (Z.to_nat (j - k)) with (S (Z.to_nat (j - (k + 1)))) by lia. exact Hn.
Qed.

Lemma index_of_none g l k : index_of g l k = None <-> ~ In g l.
Proof.
  revert k; induction l as [|x l IH]; intros k; cbn [index_of In]; [tauto|].
  destruct (x =? g) eqn:E.
  - split; [discriminate|]. intros H; exfalso; apply H; left; lia.
  - rewrite IH. split; intros H; [intros [H1|H1]; [lia|tauto]|tauto].
Qed.

Lemma strictly_sorted_lt x l : strictly_sorted (x :: l) -> forall y, In y l -> x < y.
Proof.
  revert x; induction l as [|z l IH]; intros x Hs y Hy; [destruct Hy|].
  cbn in Hs. destruct Hs as [Hxz Hs]. destruct Hy as [->|Hy]; [exact Hxz|].
  pose proof (IH z Hs y Hy). lia.
Qed.

(* format 1: on a strictly increasing array the coverage index of the j-th glyph is j *)
Lemma index_of_nth l : strictly_sorted l -> forall j k, 0 <= j < len l -> index_of (nthZ l j) l k = Some (k + j).
Proof.
  induction l as [|x l IH]; intros Hs j k Hj; [unfold len in Hj; cbn in Hj; lia|].
  rewrite len_cons in Hj. cbn [index_of].
  destruct (Z.eq_dec j 0) as [->|Hnz].
  - unfold nthZ; cbn. rewrite Z.eqb_refl. f_equal; lia.
  - assert (Hin : In (nthZ (x :: l) j) l).
    { unfold nthZ. replace (Z.to_nat j) with (S (Z.to_nat (j - 1))) by lia. cbn [nth].
      apply nth_In. unfold len in Hj. lia. }
    pose proof (strictly_sorted_lt x l Hs _ Hin) as Hlt.
    destruct (x =? nthZ (x :: l) j) eqn:E; [lia|].
    assert (Hs' : strictly_sorted l) by (cbn in Hs; tauto).
    replace (nthZ (x :: l) j) with (nthZ l (j - 1)).
    + rewrite (IH Hs' (j - 1) (k + 1)) by lia. f_equal; lia.
    + unfold nthZ. replace (Z.to_nat j) with (S (Z.to_nat (j - 1))) by lia. reflexivity.
Qed.

Theorem coverage_format1_spec : forall l, strictly_sorted l ->
  (forall j, 0 <= j < len l -> coverage_value (CovF1 l) (nthZ l j) = Some j) /\
  (forall g, coverage_value (CovF1 l) g = None <-> ~ In g l) /\
  (forall g j, coverage_value (CovF1 l) g = Some j -> 0 <= j < len l /\ nthZ l j = g).
Proof.
  intros l Hs. cbn [coverage_value]. repeat split.
  - intros j Hj. rewrite (index_of_nth l Hs j 0 Hj). f_equal.
  - apply index_of_none.
  - apply index_of_none.
  - apply index_of_bounds in H. lia.
  - apply index_of_bounds in H. lia.
  - apply index_of_bounds in H. destruct H as [_ H]. replace (j - 0) with j in H by lia. exact H.
Qed.

Lemma index_of_range g s n k : s <= g < s + Z.of_nat n -> index_of g (range s n) k = Some (k + (g - s)).
Proof.
  revert s k; induction n as [|n IH]; intros s k H; [lia|].
  cbn [range index_of]. destruct (s =? g) eqn:E.
  - f_equal; lia.
  - rewrite IH by lia. f_equal; lia.
Qed.

Lemma index_of_range_none g s n k : ~ (s <= g < s + Z.of_nat n) -> index_of g (range s n) k = None.
Proof. intros H. apply index_of_none. rewrite range_In. exact H. Qed.

Fixpoint ranges_count (rs : list (Z * Z * Z)) : Z :=
  match rs with [] => 0 | (s, e, _) :: t => (e - s + 1) + ranges_count t end.

Lemma ranges_count_nonneg rs ng ni : ranges_wf rs ng ni -> 0 <= ranges_count rs.
Proof.
  revert ng ni; induction rs as [|[[s e] sci] t IH]; intros ng ni H; cbn [ranges_count]; [lia|].
  cbn in H. destruct H as (H1 & H2 & H3 & H4). apply IH in H4. lia.
Qed.

(* format 2 = format 1 of the expanded glyph list (well-formed ranges, indices within u16) *)
Lemma cov_ranges_expand rs : forall ng ni g,
  ranges_wf rs ng ni -> 0 <= ni -> ni + ranges_count rs <= 65536 ->
  cov_ranges_value g rs = index_of g (expand_ranges rs) ni.
Proof.
  induction rs as [|[[s e] sci] t IH]; intros ng ni g Hwf Hni Hcnt; [reflexivity|].
  cbn in Hwf. destruct Hwf as (H1 & H2 & H3 & H4). subst sci.
  cbn [cov_ranges_value expand_ranges ranges_count] in *.
  pose proof (ranges_count_nonneg _ _ _ H4) as Hnn.
  rewrite index_of_app.
  destruct ((s <=? g) && (g <=? e)) eqn:E.
  - rewrite index_of_range by lia.
    destruct (ni + (g - s) <? 65536) eqn:E2; [reflexivity|lia].
  - rewrite index_of_range_none by lia.
    unfold len; rewrite range_length.
    rewrite (IH (e + 1) (ni + (e - s + 1)) g H4) by lia. f_equal. lia.
Qed.

Theorem coverage_denotation : forall c g,
  coverage_wf c -> len (coverage_glyphs c) <= 65536 ->
  coverage_value c g = index_of g (coverage_glyphs c) 0.
Proof.
  intros [l|rs] g Hwf Hlen; cbn [coverage_value coverage_glyphs coverage_wf] in *; [reflexivity|].
  apply (cov_ranges_expand rs 0 0 g Hwf); [lia|].
  assert (Hc : forall rs ng ni, ranges_wf rs ng ni -> len (expand_ranges rs) = ranges_count rs).
  { clear. induction rs as [|[[s e] sci] t IH]; intros ng ni H; [reflexivity|].
    cbn in H. destruct H as (H1 & H2 & H3 & H4). cbn [expand_ranges ranges_count].
    rewrite len_app, (IH _ _ H4). unfold len; rewrite range_length. lia. }
  rewrite <- (Hc rs 0 0 Hwf). lia.
Qed.

(* the first range that contains the glyph decides, whatever the table looks like *)
Theorem coverage_format2_first_range : forall pre s e sci post g,
  (forall s' e' i', In (s', e', i') pre -> ~ (s' <= g <= e')) -> s <= g <= e ->
  coverage_value (CovF2 (pre ++ (s, e, sci) :: post)) g =
  if sci + (g - s) <? 65536 then Some (sci + (g - s)) else None.
Proof.
  intros pre s e sci post g Hpre Hin. cbn [coverage_value].
  induction pre as [|[[s' e'] i'] pre IH]; cbn [app cov_ranges_value].
  - replace ((s <=? g) && (g <=? e)) with true by lia. reflexivity.
  - assert (H : ~ (s' <= g <= e')) by (apply (Hpre s' e' i'); left; reflexivity).
    replace ((s' <=? g) && (g <=? e')) with false by lia.
    apply IH. intros; apply (Hpre s'0 e'0 i'0). right; assumption.
Qed.

(* ------------------------------------------------------------------ (b) ClassDef *)
Theorem classdef_format1_spec : forall s vals g,
  class_value (CdF1 s vals) g = if (s <=? g) && (g <? s + len vals) then nthZ vals (g - s) else 0.
Proof.
  intros. cbn [class_value].
  destruct ((s <=? g) && (g - s <? len vals)) eqn:E1, ((s <=? g) && (g <? s + len vals)) eqn:E2; try reflexivity; lia.
Qed.

Theorem classdef_format2_first_range : forall pre s e c post g,
  (forall s' e' c', In (s', e', c') pre -> ~ (s' <= g <= e')) -> s <= g <= e ->
  class_value (CdF2 (pre ++ (s, e, c) :: post)) g = c.
Proof.
  intros pre s e c post g Hpre Hin. cbn [class_value].
  induction pre as [|[[s' e'] c'] pre IH]; cbn [app class_ranges_value].
  - replace ((s <=? g) && (g <=? e)) with true by lia. reflexivity.
  - assert (H : ~ (s' <= g <= e')) by (apply (Hpre s' e' c'); left; reflexivity).
    replace ((s' <=? g) && (g <=? e')) with false by lia.
    apply IH. intros; apply (Hpre s'0 e'0 c'0). right; assumption.
Qed.

Theorem classdef_format2_default : forall rs g,
  (forall s e c, In (s, e, c) rs -> ~ (s <= g <= e)) -> class_value (CdF2 rs) g = 0.
Proof.
  intros rs g H. cbn [class_value]. induction rs as [|[[s e] c] rs IH]; cbn [class_ranges_value]; [reflexivity|].
  assert (H1 : ~ (s <= g <= e)) by (apply (H s e c); left; reflexivity).
  replace ((s <=? g) && (g <=? e)) with false by lia.
  apply IH. intros; apply (H s0 e0 c0). right; assumption.
Qed.

(* the two formats are interchangeable: format 1 = format 2 with one single-glyph range per entry *)
Fixpoint singles (s : Z) (vals : list Z) : list (Z * Z * Z) :=
  match vals with [] => [] | v :: t => (s, s, v) :: singles (s + 1) t end.

Theorem classdef_formats_agree : forall s vals g,
  class_value (CdF1 s vals) g = class_value (CdF2 (singles s vals)) g.
Proof.
  intros s vals g. rewrite classdef_format1_spec. cbn [class_value].
  revert s; induction vals as [|v t IH]; intros s; cbn [singles class_ranges_value].
  - rewrite len_nil. destruct ((s <=? g) && (g <? s + 0)) eqn:E; [lia|reflexivity].
  - rewrite len_cons. destruct ((s <=? g) && (g <=? s)) eqn:E.
    + assert (g = s) by lia. subst g.
      replace ((s <=? s) && (s <? s + (1 + len t))) with true by (pose proof (len_nonneg t); lia).
      replace (s - s) with 0 by lia. reflexivity.
    + rewrite <- IH.
      destruct ((s <=? g) && (g <? s + (1 + len t))) eqn:E1, ((s + 1 <=? g) && (g <? s + 1 + len t)) eqn:E2;
        try reflexivity; try lia.
      unfold nthZ. replace (Z.to_nat (g - s)) with (S (Z.to_nat (g - (s + 1)))) by lia. reflexivity.
Qed.

(* ------------------------------------------------------------------ position search *)
Section Search.
Variable mt : match_type.
Variable gd : option gdef.
Notation P := (match_glyph mt gd).
Notation U := (unskipped mt gd).

Lemma find_first_from_some l k p : find_first_from mt gd l k = Some p ->
  exists a x b, l = a ++ x :: b /\ p = k + len a /\ U a = [] /\ P x = true.
Proof.
  revert k; induction l as [|g l IH]; intros k H; cbn [find_first_from] in H; [discriminate|].
  destruct (P g) eqn:E.
  - inversion H; subst p. exists [], g, l. rewrite len_nil. repeat split; [lia|assumption].
  - apply IH in H. destruct H as (a & x & b & -> & -> & Ha & Hx).
    exists (g :: a), x, b. rewrite len_cons. repeat split; [lia| |assumption].
    unfold unskipped in *. cbn [filter]. rewrite E. exact Ha.
Qed.

Lemma find_first_from_none l k : find_first_from mt gd l k = None -> U l = [].
Proof.
  revert k; induction l as [|g l IH]; intros k H; cbn [find_first_from] in H; [reflexivity|].
  unfold unskipped in *. cbn [filter]. destruct (P g); [discriminate|]. exact (IH _ H).
Qed.

Lemma find_first_down_some l k p : find_first_down mt gd l k = Some p ->
  exists a x b, l = a ++ x :: b /\ p = k - len a /\ U a = [] /\ P x = true.
Proof.
  revert k; induction l as [|g l IH]; intros k H; cbn [find_first_down] in H; [discriminate|].
  destruct (P g) eqn:E.
  - inversion H; subst p. exists [], g, l. rewrite len_nil. repeat split; [lia|assumption].
  - apply IH in H. destruct H as (a & x & b & -> & -> & Ha & Hx).
    exists (g :: a), x, b. rewrite len_cons. repeat split; [lia| |assumption].
    unfold unskipped in *. cbn [filter]. rewrite E. exact Ha.
Qed.

Lemma find_first_down_none l k : find_first_down mt gd l k = None -> U l = [].
Proof.
  revert k; induction l as [|g l IH]; intros k H; cbn [find_first_down] in H; [reflexivity|].
  unfold unskipped in *. cbn [filter]. destruct (P g); [discriminate|]. exact (IH _ H).
Qed.

Lemma U_app a b : U (a ++ b) = U a ++ U b.
Proof. unfold unskipped. apply filter_app. Qed.

Lemma drop_app_len {A} (a b : list A) : drop (len a) (a ++ b) = b.
Proof. unfold drop, len. rewrite Nat2Z.id. rewrite skipn_app, skipn_all, Nat.sub_diag. reflexivity. Qed.

Lemma nthZ_app_len (a : list Z) x b : nthZ (a ++ x :: b) (len a) = x.
Proof. unfold nthZ, len. rewrite Nat2Z.id, app_nth2, Nat.sub_diag by lia. reflexivity. Qed.

(* find_next: the next unskipped glyph, and what remains after it *)
Lemma find_next_some ids i p : 0 <= i -> find_next mt gd ids i = Some p ->
  i < p < len ids /\ P (nthZ ids p) = true /\ U (drop (i + 1) ids) = nthZ ids p :: U (drop (p + 1) ids).
Proof.
  intros Hi H. unfold find_next in H. apply find_first_from_some in H.
  destruct H as (a & x & b & Hl & -> & Ha & Hx).
  assert (Hlen : i + 1 + len a < len ids).
  { assert (H1 : len (drop (i + 1) ids) = len a + 1 + len b) by (rewrite Hl, len_app, len_cons; lia).
    unfold len, drop in *. rewrite skipn_length in H1. lia. }
  assert (Hx' : nthZ ids (i + 1 + len a) = x).
  { rewrite <- (nthZ_drop ids (i + 1) (len a)) by (pose proof (len_nonneg a); lia). rewrite Hl. apply nthZ_app_len. }
  assert (Hd : drop (i + 1 + len a + 1) ids = b).
  { replace (i + 1 + len a + 1) with ((len a + 1) + (i + 1)) by lia.
    rewrite <- drop_drop by (pose proof (len_nonneg a); lia). rewrite Hl.
    replace (len a + 1) with (len (a ++ [x])) by (rewrite len_app, len_cons, len_nil; lia).
    replace (a ++ x :: b) with ((a ++ [x]) ++ b) by (rewrite <- app_assoc; reflexivity).
    apply drop_app_len. }
  pose proof (len_nonneg a). repeat split; try lia.
  - rewrite Hx'. exact Hx.
  - rewrite Hl, U_app, Ha, Hx', Hd. unfold unskipped at 1. cbn [filter app]. rewrite Hx. reflexivity.
Qed.

Lemma find_next_none ids i : find_next mt gd ids i = None -> U (drop (i + 1) ids) = [].
Proof. unfold find_next. apply find_first_from_none. Qed.

(* find_prev: the previous unskipped glyph, and what remains before it *)
Lemma find_prev_some ids i p : 0 <= i <= len ids -> find_prev mt gd ids i = Some p ->
  0 <= p < i /\ P (nthZ ids p) = true /\ U (rev (take i ids)) = nthZ ids p :: U (rev (take p ids)).
Proof.
  intros Hi H. unfold find_prev in H. apply find_first_down_some in H.
  destruct H as (a & x & b & Hl & -> & Ha & Hx).
  assert (Ht : take i ids = rev b ++ x :: rev a).
  { rewrite <- (rev_involutive (take i ids)), Hl, rev_app_distr. cbn [rev]. rewrite <- app_assoc. reflexivity. }
  assert (Hlen : len (rev b) + 1 + len a = i).
  { assert (H1 : len (take i ids) = len (rev b) + 1 + len a).
    { rewrite Ht, len_app, len_cons. unfold len. rewrite !rev_length. lia. }
    rewrite len_take in H1 by lia. lia. }
  assert (Hp : i - 1 - len a = len (rev b)) by lia.
  assert (Htp : take (len (rev b)) ids = rev b).
  { rewrite <- (take_take (len (rev b)) i ids) by (pose proof (len_nonneg (rev b)); pose proof (len_nonneg a); lia).
    rewrite Ht. unfold take, len. rewrite Nat2Z.id, firstn_app, Nat.sub_diag, firstn_all. cbn [firstn]. apply app_nil_r. }
  assert (Hx' : nthZ ids (len (rev b)) = x).
  { rewrite <- (nthZ_take ids i) by (pose proof (len_nonneg (rev b)); pose proof (len_nonneg a); lia).
    rewrite Ht. apply nthZ_app_len. }
  pose proof (len_nonneg a). pose proof (len_nonneg (rev b)).
  replace (i - 1 - len a) with (len (rev b)) by lia.
  repeat split; try lia.
  - rewrite Hx'. exact Hx.
  - rewrite Hl, U_app, Ha, Hx', Htp, rev_involutive. unfold unskipped at 1. cbn [filter app]. rewrite Hx. reflexivity.
Qed.

Lemma find_prev_none ids i : find_prev mt gd ids i = None -> U (rev (take i ids)) = [].
Proof. unfold find_prev. apply find_first_down_none. Qed.

(* ------------------------------------------------------------------ matcher vs. prefix_check *)
Lemma match_front_entries_spec ids : forall es i, 0 <= i ->
  match match_front_entries mt gd es ids i with
  | Some last => prefix_check es (U (drop (i + 1) ids)) = true /\ i <= last /\
                 (es = [] -> last = i) /\ (es <> [] -> last < len ids) /\
                 skipn (length es) (U (drop (i + 1) ids)) = U (drop (last + 1) ids)
  | None => prefix_check es (U (drop (i + 1) ids)) = false
  end.
Proof.
  induction es as [|e es IH]; intros i Hi; cbn [match_front_entries].
  - repeat split; [lia|congruence].
  - destruct (find_next mt gd ids i) as [p|] eqn:En.
    + destruct (find_next_some ids i p Hi En) as (Hp & HP & HU). rewrite HU. cbn [prefix_check length skipn].
      destruct (check_entry e (nthZ ids p)) eqn:Ec; [|reflexivity].
      specialize (IH p ltac:(lia)). destruct (match_front_entries mt gd es ids p) as [last|].
      * destruct IH as (H1 & H2 & H0 & H3 & H4). cbn [andb]. repeat split; try assumption; try lia.
        -- discriminate.
        -- intros _. destruct es as [|e' es']; [rewrite H0 by reflexivity; lia|apply H3; discriminate].
      * cbn [andb]. exact IH.
    + rewrite (find_next_none ids i En). reflexivity.
Qed.

Lemma match_back_entries_spec ids : forall es i, 0 <= i <= len ids ->
  match_back_entries mt gd es ids i = prefix_check es (U (rev (take i ids))).
Proof.
  induction es as [|e es IH]; intros i Hi; cbn [match_back_entries]; [reflexivity|].
  destruct (find_prev mt gd ids i) as [p|] eqn:En.
  - destruct (find_prev_some ids i p Hi En) as (Hp & HP & HU). rewrite HU. cbn [prefix_check].
    destruct (check_entry e (nthZ ids p)); [|reflexivity]. cbn [andb]. apply IH. lia.
  - rewrite (find_prev_none ids i En). reflexivity.
Qed.

Lemma prefix_check_app a b l :
  prefix_check (a ++ b) l = prefix_check a l && prefix_check b (skipn (length a) l).
Proof.
  revert l; induction a as [|e a IH]; intros l; [reflexivity|].
  destruct l as [|g l]; cbn [app prefix_check length skipn]; [reflexivity|].
  rewrite IH. rewrite andb_assoc. reflexivity.
Qed.

Lemma match_front_entries_last_some ids es i last :
  0 <= i -> match_front_entries mt gd es ids i = Some last -> i <= last.
Proof.
  intros Hi H. pose proof (match_front_entries_spec ids es i Hi) as S. rewrite H in S. tauto.
Qed.

(* MatchContext::matches = the declarative statement over the unskipped glyphs *)
Theorem mc_matches_spec : forall mc ids i, 0 <= i <= len ids ->
  mc_matches gd mt mc ids i = context_matches_spec gd mt mc ids i.
Proof.
  intros mc ids i Hi. unfold mc_matches, context_matches_spec, match_back, match_front.
  rewrite match_back_entries_spec by lia. f_equal.
  rewrite prefix_check_app.
  pose proof (match_front_entries_spec ids (gt_entries (mc_input mc)) i ltac:(lia)) as S1.
  destruct (match_front_entries mt gd (gt_entries (mc_input mc)) ids i) as [front|].
  - destruct S1 as (H1 & H2 & _ & H3 & H4). rewrite H1, H4. cbn [andb].
    pose proof (match_front_entries_spec ids (gt_entries (mc_look mc)) front ltac:(lia)) as S2.
    destruct (match_front_entries mt gd (gt_entries (mc_look mc)) ids front) as [l2|].
    + destruct S2 as (H5 & _). rewrite H5. reflexivity.
    + rewrite S2. reflexivity.
  - rewrite S1. reflexivity.
Qed.

End Search.
