(* Proofs/LayoutProofs.v — read-after-write for straight-line table layouts (Model/Layout.v):
   signed and unsigned primitives, fixed-size byte arrays, and the generic theorem
   `layout_roundtrip` for any reader/writer pair that passes the decidable `compat` test. *)
From AV Require Import Base.Prelude Base.Lemmas Gen.ReaderPrims Model.Reader Model.ReaderExt
  Proofs.ReaderProofs Proofs.EncodeProofs Model.Layout.
From Coq Require Import ZifyBool ZifyNat.
Ltac Zify.zify_post_hook ::= Z.div_mod_to_equations.
Open Scope Z_scope.

(* ---------- the writer's primitive sizes agree with the reader's (hand-written spec_size) *)
Lemma wsize_spec p : Z.of_nat (wsize p) = spec_size p.
Proof. destruct p; reflexivity. Qed.
Lemma is_signed_spec p : is_signed p = prim_signed p.
Proof. destruct p; reflexivity. Qed.

Lemma len_write_prim p v : len (write_prim p v) = spec_size p.
Proof. unfold write_prim. rewrite len_be_bytes. apply wsize_spec. Qed.
Lemma write_prim_ok p v : bytes_ok (write_prim p v) = true.
Proof. apply be_bytes_ok. Qed.

(* two's complement: decoding the bytes of an in-range value gives the value, signed or not *)
Lemma decode_write_prim p v : prim_in_range p v = true -> decode_prim p (write_prim p v) = v.
Proof.
  intros H. unfold decode_prim, write_prim. rewrite be_val_be_bytes_mod. rewrite <- is_signed_spec.
  unfold prim_in_range, prim_bits in H. unfold to_signed.
  destruct p; cbn [is_signed wsize spec_size] in *;
    repeat match goal with
           | |- context [256 ^ Z.of_nat ?n] =>
               let x := eval vm_compute in (256 ^ Z.of_nat n) in change (256 ^ Z.of_nat n) with x
           | |- context [2 ^ (8 * ?n - 1)] =>
               let x := eval vm_compute in (2 ^ (8 * n - 1)) in change (2 ^ (8 * n - 1)) with x
           | |- context [2 ^ (8 * ?n)] =>
               let x := eval vm_compute in (2 ^ (8 * n)) in change (2 ^ (8 * n)) with x
           | H : context [2 ^ (8 * Z.of_nat ?n - 1)] |- _ =>
               let x := eval vm_compute in (2 ^ (8 * Z.of_nat n - 1)) in change (2 ^ (8 * Z.of_nat n - 1)) with x in H
           | H : context [2 ^ (8 * Z.of_nat ?n)] |- _ =>
               let x := eval vm_compute in (2 ^ (8 * Z.of_nat n)) in change (2 ^ (8 * Z.of_nat n)) with x in H
           end; try lia; match goal with |- (if ?b then _ else _) = _ => destruct b eqn:E; lia end.
Qed.

(* ---------- cursors positioned on known bytes *)
Definition cgood (c : ctxt) : Prop :=
  cinv c /\ bytes_ok (data (sc c)) = true /\ 0 <= base (sc c) /\ base (sc c) + dlen (sc c) < USIZE.
Definition at_bytes (c : ctxt) (bs : list Z) : Prop := drop (off c) (data (sc c)) = bs.
(* c' is c advanced to the point where `rest` starts *)
Definition advanced (c c' : ctxt) (rest : list Z) : Prop :=
  cgood c' /\ sc c' = sc c /\ at_bytes c' rest.

Lemma table_ctxt_good d : bytes_ok d = true -> len d < USIZE -> cgood (ctxt_new (scope_new d)) /\ at_bytes (ctxt_new (scope_new d)) d.
Proof.
  intros Hb Hl. unfold cgood, cinv, sinv, at_bytes, dlen; cbn [ctxt_new scope_new sc off data base].
  pose proof (len_nonneg d). rewrite drop_0. repeat split; try lia; assumption.
Qed.

Lemma advance_by c x rest :
  cgood c -> at_bytes c (x ++ rest) ->
  off c + len x <= dlen (sc c) /\ advanced c {| sc := sc c; off := off c + len x |} rest.
Proof.
  intros [[Hc Hs] [Hb [Hb0 Hb1]]] Hat. unfold at_bytes in *. unfold dlen in *.
  pose proof (drop_len_le _ _ _ _ Hc Hat) as Hle. pose proof (len_nonneg x).
  split; [exact Hle|]. unfold advanced, cgood, cinv, at_bytes; cbn [sc off].
  repeat split; try assumption; try (unfold dlen; lia).
  apply drop_after; assumption.
Qed.

Lemma read_prim_layout p c v rest :
  cgood c -> prim_in_range p v = true -> at_bytes c (write_prim p v ++ rest) ->
  exists c', read_prim p c = Ok (v, c') /\ advanced c c' rest.
Proof.
  intros Hg Hv Hat. destruct (advance_by c _ rest Hg Hat) as [Hle Hadv].
  rewrite len_write_prim in *. destruct Hg as [Hc [Hb _]].
  destruct (read_prim_exact p c Hb Hc) as [[_ H]|[H _]]; [|lia].
  exists {| sc := sc c; off := off c + spec_size p |}. split; [|exact Hadv].
  rewrite H. unfold at_bytes in Hat. rewrite Hat. rewrite <- (len_write_prim p v). rewrite take_app_exact.
  rewrite decode_write_prim by assumption. reflexivity.
Qed.

Lemma read_slice_layout c (bs rest : list Z) :
  cgood c -> at_bytes c (bs ++ rest) ->
  exists c', read_slice Debug c (len bs) = Ok (bs, c') /\ advanced c c' rest.
Proof.
  intros Hg Hat. destruct (advance_by c _ rest Hg Hat) as [Hle Hadv].
  pose proof Hg as [[Hc Hs] [Hb [Hb0 Hb1]]]. pose proof (len_nonneg bs). unfold sinv in Hs.
  exists {| sc := sc c; off := off c + len bs |}. split; [|exact Hadv].
  unfold read_slice, read_scope. rewrite offset_length_complete by lia.
  unfold uadd. replace (off c + len bs <? USIZE) with true by lia. cbn [bind data].
  unfold at_bytes in Hat. rewrite Hat. rewrite take_app_exact. reflexivity.
Qed.
