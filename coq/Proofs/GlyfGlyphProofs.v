(* Proofs/GlyfGlyphProofs.v — C16 (a)+(b) end to end: a simple glyph description written by any
   conforming encoder is read back (Glyph::read) and drawn (visit_simple_glyph_outline) as the
   specified paths of its contours. *)
From AV Require Import Base.Prelude Base.Lemmas Gen.GlyfConsts Model.GlyfSpec Model.GlyfOutline
     Proofs.GlyfContourProofs Proofs.GlyfDecodeProofs Proofs.GlyfCompositeProofs.
From Coq Require Import QArith ZifyBool ZifyNat.
Ltac Zify.zify_post_hook ::= Z.div_mod_to_equations.
Open Scope Z_scope.

Lemma rd_u16_be16 v r : 0 <= v <= 65535 -> rd_u16 (be16 v ++ r) = Ok (v, r).
Proof.
  intros H. unfold be16. cbn [app rd_u16]. f_equal. f_equal. lia.
Qed.

Lemma rd_i16_be16 v r : -32768 <= v <= 32767 -> rd_i16 (be16 v ++ r) = Ok (v, r).
Proof.
  intros H. unfold rd_i16, be16. cbn [app rd_u16 bind]. f_equal. f_equal. unfold to_signed.
  change (2 ^ 16) with 65536. change (2 ^ (16 - 1)) with 32768.
  replace (v mod 65536 / 256 * 256 + (v mod 65536) mod 256) with (v mod 65536) by lia.
  destruct ((v mod 65536) mod 65536 <? 32768) eqn:E; lia.
Qed.

Lemma rd_slice_app a r n : len a = n -> rd_slice n (a ++ r) = Ok (a, r).
Proof.
  intros H. unfold rd_slice. rewrite len_app. pose proof (len_nonneg r).
  destruct (n <=? len a + len r) eqn:E; [|lia].
  unfold take, drop. subst n. unfold len. rewrite Nat2Z.id.
  rewrite firstn_app, Nat.sub_diag, firstn_all. cbn [firstn]. rewrite app_nil_r.
  rewrite skipn_app, Nat.sub_diag, skipn_all. reflexivity.
Qed.

Lemma u16s_be16 : forall l r, Forall (fun v => 0 <= v <= 65535) l ->
  u16s (length l) (flat_map be16 l ++ r) = l.
Proof.
  induction l as [|v l IH]; intros r H; [reflexivity|].
  inversion H; subst. cbn [length flat_map]. rewrite <- app_assoc. unfold be16 at 1. cbn [app u16s].
  f_equal; [lia|]. apply IH. assumption.
Qed.

Lemma u16s_ignores_tail : forall n a r, length a = (2 * n)%nat -> u16s n (a ++ r) = u16s n a.
Proof.
  induction n as [|n IH]; intros a r H.
  - destruct a; [|discriminate]. cbn [u16s app]. destruct r; reflexivity.
  - destruct a as [|x [|y a']]; cbn [length] in H; try lia.
    cbn [app u16s]. f_equal. apply IH. lia.
Qed.

Lemma flat_be16_length l : length (flat_map be16 l) = (2 * length l)%nat.
Proof. induction l as [|v l IH]; [reflexivity|]. cbn [flat_map]. rewrite app_length, IH. cbn [be16 length]. lia. Qed.

Lemma rd_u16_array_be16 l r : Forall (fun v => 0 <= v <= 65535) l ->
  rd_u16_array (len l) (flat_map be16 l ++ r) = Ok (l, r).
Proof.
  intros H. unfold rd_u16_array.
  rewrite rd_slice_app by (unfold len; rewrite flat_be16_length; lia). cbn [bind].
  unfold len. rewrite Nat2Z.id.
  rewrite <- (app_nil_r (flat_map be16 l)). rewrite u16s_be16 by exact H. reflexivity.
Qed.

(* ---- end points ---- *)

Lemma end_points_range : forall cs start, 0 <= start ->
  forallb (fun c => negb (len c =? 0)) cs = true -> start + len (concat cs) <= 65536 ->
  Forall (fun v => 0 <= v <= 65535) (end_points start cs).
Proof.
  induction cs as [|c r IH]; intros start Hs Hne Hlen; [constructor|].
  cbn [forallb] in Hne. apply andb_true_iff in Hne. destruct Hne as [Hc Hr].
  cbn [concat] in Hlen. rewrite len_app in Hlen.
  pose proof (len_nonneg c). pose proof (len_nonneg (concat r)).
  cbn [end_points]. constructor; [lia|]. apply IH; [lia|exact Hr|lia].
Qed.

Lemma end_points_length : forall cs start, length (end_points start cs) = length cs.
Proof. induction cs as [|c r IH]; intros; cbn [end_points length]; [reflexivity|rewrite IH; reflexivity]. Qed.

Lemma last_opt_end_points : forall cs start,
  forallb (fun c => negb (len c =? 0)) cs = true ->
  match last_opt (end_points start cs) with None => 0 | Some l => l + 1 end =
  match cs with [] => 0 | _ => start + len (concat cs) end.
Proof.
  induction cs as [|c r IH]; intros start Hne; [reflexivity|].
  cbn [forallb] in Hne. apply andb_true_iff in Hne. destruct Hne as [Hc Hr].
  cbn [end_points concat]. rewrite len_app. destruct r as [|c2 r'].
  - cbn [end_points last_opt concat]. rewrite len_nil. lia.
  - specialize (IH (start + len c) Hr). cbn [end_points] in IH. cbn [end_points last_opt].
    cbn [last_opt] in IH. rewrite IH. lia.
Qed.

(* contours() recovers the contours from the flat coordinate array *)
Lemma contours_split : forall (cs : list (list spoint)) (pre coords : list point),
  forallb (fun c => negb (len c =? 0)) cs = true ->
  map to_spoint coords = concat cs ->
  exists cs', contours (len pre) (end_points (len pre) cs) (pre ++ coords) = cs' /\
              map (map to_spoint) cs' = cs.
Proof.
  induction cs as [|c r IH]; intros pre coords Hne Hmap.
  - exists []. split; reflexivity.
  - cbn [forallb] in Hne. apply andb_true_iff in Hne. destruct Hne as [Hc Hr].
    cbn [concat] in Hmap.
    set (c' := firstn (length c) coords). set (rest := skipn (length c) coords).
    assert (Hlen : length coords = (length c + length (concat r))%nat).
    { rewrite <- (map_length to_spoint coords), Hmap, app_length. reflexivity. }
    assert (Hc' : map to_spoint c' = c).
    { subst c'. rewrite <- firstn_map, Hmap, firstn_app, Nat.sub_diag, firstn_all. cbn [firstn]. apply app_nil_r. }
    assert (Hrest : map to_spoint rest = concat r).
    { subst rest. rewrite <- skipn_map, Hmap, skipn_app, Nat.sub_diag, skipn_all. reflexivity. }
    assert (Hcl : length c' = length c) by (subst c'; rewrite firstn_length; lia).
    cbn [end_points contours]. unfold get_incl.
    pose proof (len_nonneg pre). pose proof (len_nonneg c).
    rewrite len_app.
    assert (Hlc : len coords = len c + len (concat r)) by (unfold len; lia).
    pose proof (len_nonneg (concat r)).
    destruct ((len pre + len c - 1 + 1 <? len pre) || (len pre + len coords <? len pre + len c - 1 + 1)) eqn:E; [lia|].
    replace (len pre + len c - 1 + 1 - len pre) with (len c) by lia.
    assert (Htake : take (len c) (drop (len pre) (pre ++ coords)) = c').
    { unfold take, drop, len. rewrite !Nat2Z.id. rewrite skipn_app, Nat.sub_diag, skipn_all. reflexivity. }
    rewrite Htake.
    replace (len pre + len c - 1 + 1) with (len (pre ++ c')) by (rewrite len_app; unfold len; lia).
    replace (len pre + len c) with (len (pre ++ c')) by (rewrite len_app; unfold len; lia).
    assert (Hsplit : pre ++ coords = (pre ++ c') ++ rest).
    { rewrite <- app_assoc. f_equal. subst c' rest. symmetry. apply firstn_skipn. }
    rewrite Hsplit.
    destruct (IH (pre ++ c') rest Hr Hrest) as [cs' [Hq1 Hq2]].
    exists (c' :: cs'). split; [rewrite Hq1; reflexivity|]. cbn [map]. rewrite Hc', Hq2. reflexivity.
Qed.

Definition spec_path_of (c : list spoint) (p : list pcmd) : Prop :=
  exists k, (k < length (expand c))%nat /\ path_of_rotation (rotl k (expand c)) = Some p.

Lemma filter_nonempty_id (cs' : list (list point)) :
  forallb (fun c => negb (len c =? 0)) (map (map to_spoint) cs') = true ->
  filter (fun c => negb (len c =? 0)) cs' = cs'.
Proof.
  induction cs' as [|c r IH]; intros H; [reflexivity|].
  cbn [map forallb] in H. apply andb_true_iff in H. destruct H as [H1 H2].
  cbn [filter]. unfold len in *. rewrite map_length in H1. rewrite H1. f_equal. apply IH. exact H2.
Qed.

(* the whole simple glyph: parsed and drawn as specified *)
Theorem simple_glyph_end_to_end cs bbox instr chs gs rest :
  simple_glyph_legal cs bbox instr chs gs = true ->
  exists sg paths,
    read_glyph (simple_glyph_bytes cs bbox instr chs gs ++ rest) = Ok (GSimple sg) /\
    visit_simple sg = Ok (concat paths) /\
    Forall2 spec_path_of cs paths.
Proof.
  unfold simple_glyph_legal, simple_glyph_bytes. intros H.
  apply andb_true_iff in H. destruct H as [H Henc].
  apply andb_true_iff in H. destruct H as [H Hil].
  apply andb_true_iff in H. destruct H as [H Hbb].
  apply andb_true_iff in H. destruct H as [H Htot].
  apply andb_true_iff in H. destruct H as [Hne Hnc].
  pose proof (len_nonneg cs). pose proof (len_nonneg instr). pose proof (len_nonneg (concat cs)).
  unfold read_glyph. rewrite <- !app_assoc.
  rewrite rd_i16_be16 by lia. cbn [bind].
  destruct (0 <=? len cs) eqn:E0; [|lia].
  unfold read_simple.
  rewrite rd_slice_app by lia. cbn [bind].
  assert (Hep : Forall (fun v => 0 <= v <= 65535) (end_points 0 cs)) by (apply end_points_range; [lia|exact Hne|lia]).
  replace (len cs) with (len (end_points 0 cs)) by (unfold len; rewrite end_points_length; reflexivity).
  rewrite rd_u16_array_be16 by exact Hep. cbn [bind].
  rewrite rd_u16_be16 by lia. cbn [bind].
  rewrite rd_slice_app by reflexivity. cbn [bind].
  rewrite (last_opt_end_points cs 0 Hne).
  assert (Hn : match cs with [] => 0 | _ => 0 + len (concat cs) end = len (concat cs)).
  { destruct cs; [reflexivity|lia]. }
  rewrite Hn.
  destruct (decode_encode (concat cs) chs gs rest Henc) as [coords [Hrd Hmap]].
  rewrite Hrd. cbn [bind].
  eexists. 
  destruct (contours_split cs [] coords Hne Hmap) as [cs' [Hcs' Hmap']].
  cbn [app] in Hcs'. change (len (@nil point)) with 0 in Hcs'.
  destruct (simple_cmds_spec cs') as [paths [Hp1 Hp2]].
  exists paths. split; [reflexivity|]. split.
  - unfold visit_simple. cbn [sg_ends sg_coords]. rewrite Hcs'. exact Hp1.
  - rewrite filter_nonempty_id in Hp2 by (rewrite Hmap'; exact Hne).
    rewrite <- Hmap'. clear -Hp2. induction Hp2 as [|c p cs' ps H1 H2 IH]; cbn [map]; constructor; [|exact IH].
    exact H1.
Qed.

(* ---------------------------------------------------------------------------------------------- *)
(* ... and through OutlineBuilder::visit: table load, glyph lookup, identity transform              *)

Lemma render_identity cs :
  cmds_eq (render [(x_id, cs)]) (map (map_cmd half) cs).
Proof.
  unfold render. cbn [flat_map fst snd]. rewrite app_nil_r.
  induction cs as [|c r IH]; cbn [map]; constructor; [|exact IH].
  destruct c; cbn [map_cmd cmd_eq]; auto using x_id_apply.
Qed.

Theorem visit_simple_glyph cs bbox instr chs gs :
  simple_glyph_legal cs bbox instr chs gs = true ->
  exists cmds paths,
    visit [simple_glyph_bytes cs bbox instr chs gs] 0 = Ok cmds /\
    cmds_eq cmds (map (map_cmd half) (concat paths)) /\
    Forall2 spec_path_of cs paths.
Proof.
  intros H. destruct (simple_glyph_end_to_end cs bbox instr chs gs [] H) as [sg [paths [Hr [Hv Hp]]]].
  rewrite app_nil_r in Hr.
  set (g := simple_glyph_bytes cs bbox instr chs gs) in *.
  assert (Hg : exists b0 b1 r, g = b0 :: b1 :: r).
  { subst g. unfold simple_glyph_bytes, be16. cbn [app]. eauto. }
  destruct Hg as [b0 [b1 [r Hg]]].
  exists (render [(x_id, concat paths)]), paths. split; [|split; [apply render_identity|exact Hp]].
  unfold visit, visit_insts, table_load. rewrite Hg. cbn [check_records].
  unfold rd_i16 at 1. cbn [rd_u16 bind].
  unfold VISIT_FUEL. rewrite visit_outline_S.
  unfold DEPTH_START, depth_exceeded, RECURSION_LIMIT. cbn [Z.ltb Z.compare].
  unfold get_parsed_glyph, nth_opt. cbn [Z.ltb Z.compare Z.to_nat nth_error].
  rewrite <- Hg, Hr. cbn [bind]. rewrite Hv. reflexivity.
Qed.
