(* Proofs/NameProofs.v — the owned `name` table: owned::NameTable::write, then NameTable::read and
   owned::NameTable::try_from give the records and language tags back. *)
From AV Require Import Base.Prelude Base.Lemmas Gen.ReaderPrims Model.Reader Model.ReaderExt
  Proofs.ReaderProofs Proofs.EncodeProofs Model.TableLayout Proofs.TableLayoutProofs Proofs.RecordProofs
  Gen.TableLayouts Model.Tables Proofs.RefusalProofs.
From Coq Require Import ZifyBool ZifyNat.
Ltac Zify.zify_post_hook ::= Z.div_mod_to_equations.
Open Scope Z_scope.

Lemma Ok_inj {A} (a b : A) : @Ok A a = Ok b -> a = b.
Proof. intros H. injection H. auto. Qed.

Lemma drop_app_len_n {A} (a b : list A) n : len a = n -> drop n (a ++ b) = b.
Proof. intros <-. apply drop_app_exact. Qed.

Definition u16_ok (v : Z) : Prop := 0 <= v <= 65535.
Definition ids_ok (ids : list Z) : Prop := exists a b c d, ids = [a; b; c; d] /\ u16_ok a /\ u16_ok b /\ u16_ok c /\ u16_ok d.

Lemma name_record_ty_eq : name_record_ty = [PU16; PU16; PU16; PU16; PU16; PU16].
Proof. reflexivity. Qed.
Lemma langtag_record_ty_eq : langtag_record_ty = [PU16; PU16].
Proof. reflexivity. Qed.

Lemma u16_range v : u16_ok v -> prim_in_range PU16 v = true.
Proof. unfold u16_ok, prim_in_range. cbn. lia. Qed.

(* the records as the fixed part of the table stores them: ids, length, offset into the storage *)
Fixpoint fixed_records (recs : list owned_record) (off : Z) : list (list Z) :=
  match recs with
  | [] => []
  | (ids, s) :: r => (ids ++ [len s; off]) :: fixed_records r (off + len s)
  end.
Fixpoint fixed_langtags (lts : list (list Z)) (off : Z) : list (list Z) :=
  match lts with
  | [] => []
  | s :: r => [len s; off] :: fixed_langtags r (off + len s)
  end.

Lemma len_fixed_records recs : forall off, len (fixed_records recs off) = len recs.
Proof. induction recs as [|[ids s] r IH]; intros off; [reflexivity|]. cbn [fixed_records]. rewrite !len_cons, IH. reflexivity. Qed.
Lemma len_fixed_langtags lts : forall off, len (fixed_langtags lts off) = len lts.
Proof. induction lts as [|s r IH]; intros off; [reflexivity|]. cbn [fixed_langtags]. rewrite !len_cons, IH. reflexivity. Qed.

Lemma string_offsets_app a : forall b off,
  string_offsets (a ++ b) off = string_offsets a off ++ string_offsets b (off + len (concat a)).
Proof.
  induction a as [|s r IH]; intros b off.
  - cbn [app string_offsets concat]. change (len (@nil Z)) with 0. rewrite Z.add_0_r. reflexivity.
  - cbn [app string_offsets concat]. rewrite IH, len_app. f_equal. f_equal. f_equal. lia.
Qed.

Lemma owned_records_fixed_enc recs : forall off rb off1,
  Forall (fun r => ids_ok (fst r)) recs -> 0 <= off ->
  Forall (fun o => o <= 65535) (string_offsets (map snd recs) off) ->
  owned_records_fixed recs off = Ok (rb, off1) ->
  rb = enc_recs name_record_ty (fixed_records recs off) /\
  Forall (rec_ok name_record_ty) (fixed_records recs off).
Proof.
  induction recs as [|[ids s] r IH]; intros off rb off1 Hids Hoff Hfit H.
  - cbn in H. injection H as <- <-. split; [reflexivity|constructor].
  - inversion Hids as [|? ? Hi Hr]; subst. cbn [fst] in Hi. destruct Hi as [a [b [c [d [-> [Ha [Hb [Hc Hd]]]]]]]].
    cbn [map snd string_offsets] in Hfit. inversion Hfit as [|? ? Ho Hfr]; subst.
    cbn [owned_records_fixed] in H. destruct (try_u16 (len s)) as [l| | |] eqn:El; try discriminate.
    destruct (try_u16_ok _ _ El) as [-> Hl]. cbn [bind] in H.
    destruct (owned_records_fixed r (off + len s)) as [[bs o2]| | |] eqn:Er; try discriminate.
    cbn [bind] in H. injection H as <- <-.
    pose proof (len_nonneg s).
    destruct (IH (off + len s) bs o2 Hr ltac:(lia) Hfr Er) as [-> Hok].
    cbn [fixed_records]. split.
    + unfold enc_recs. cbn [map concat]. reflexivity.
    + constructor; [|exact Hok]. rewrite name_record_ty_eq. cbn [app rec_ok].
      repeat split; apply u16_range; unfold u16_ok in *; lia.
Qed.

Lemma owned_langtags_fixed_enc lts : forall off lb off1,
  0 <= off -> Forall (fun o => o <= 65535) (string_offsets lts off) ->
  owned_langtags_fixed lts off = Ok (lb, off1) ->
  lb = enc_recs langtag_record_ty (fixed_langtags lts off) /\
  Forall (rec_ok langtag_record_ty) (fixed_langtags lts off).
Proof.
  induction lts as [|s r IH]; intros off lb off1 Hoff Hfit H.
  - cbn in H. injection H as <- <-. split; [reflexivity|constructor].
  - cbn [string_offsets] in Hfit. inversion Hfit as [|? ? Ho Hfr]; subst.
    cbn [owned_langtags_fixed] in H. destruct (try_u16 (len s)) as [l| | |] eqn:El; try discriminate.
    destruct (try_u16_ok _ _ El) as [-> Hl]. cbn [bind] in H.
    destruct (owned_langtags_fixed r (off + len s)) as [[bs o2]| | |] eqn:Er; try discriminate.
    cbn [bind] in H. injection H as <- <-.
    pose proof (len_nonneg s).
    destruct (IH (off + len s) bs o2 ltac:(lia) Hfr Er) as [-> Hok].
    cbn [fixed_langtags]. split.
    + unfold enc_recs. cbn [map concat]. reflexivity.
    + constructor; [|exact Hok]. rewrite langtag_record_ty_eq. cbn [rec_ok].
      repeat split; apply u16_range; unfold u16_ok; lia.
Qed.

(* ---------- strings out of the storage area *)
Lemma offset_length_at pre s tail :
  len (pre ++ s ++ tail) < USIZE ->
  offset_length Debug (scope_new (pre ++ s ++ tail)) (len pre) (len s)
  = Ok {| base := len pre; data := s |}.
Proof.
  intros Hl. pose proof (len_nonneg pre). pose proof (len_nonneg s). pose proof (len_nonneg tail).
  rewrite !len_app in Hl.
  rewrite offset_length_complete; cbn [scope_new base data]; unfold dlen; cbn [scope_new data]; rewrite ?len_app; try lia.
  rewrite drop_app_exact, take_app_exact. rewrite Z.add_0_l. reflexivity.
Qed.

Lemma name_strings_records recs : forall pre tail,
  Forall (fun r => ids_ok (fst r)) recs ->
  len (pre ++ concat (map snd recs) ++ tail) < USIZE ->
  name_strings (scope_new (pre ++ concat (map snd recs) ++ tail)) (fixed_records recs (len pre)) 4 5
  = Ok (map snd recs).
Proof.
  induction recs as [|[ids s] r IH]; intros pre tail Hids Hl; [reflexivity|].
  inversion Hids as [|? ? Hi Hr]; subst. cbn [fst] in Hi. destruct Hi as [a [b [c [d [-> _]]]]].
  cbn [fixed_records name_strings map snd concat app nth]. cbn [map snd concat] in Hl.
  rewrite <- app_assoc in *. rewrite (offset_length_at pre s _ Hl). cbn [bind data].
  replace (pre ++ s ++ concat (map snd r) ++ tail) with ((pre ++ s) ++ concat (map snd r) ++ tail) in * by (rewrite <- app_assoc; reflexivity).
  replace (len pre + len s) with (len (pre ++ s)) by apply len_app.
  rewrite (IH (pre ++ s) tail Hr Hl). reflexivity.
Qed.

Lemma name_strings_langtags lts : forall pre tail,
  len (pre ++ concat lts ++ tail) < USIZE ->
  name_strings (scope_new (pre ++ concat lts ++ tail)) (fixed_langtags lts (len pre)) 0 1 = Ok lts.
Proof.
  induction lts as [|s r IH]; intros pre tail Hl; [reflexivity|].
  cbn [fixed_langtags name_strings concat nth]. cbn [concat] in Hl.
  rewrite <- app_assoc in *. rewrite (offset_length_at pre s _ Hl). cbn [bind data].
  replace (pre ++ s ++ concat r ++ tail) with ((pre ++ s) ++ concat r ++ tail) in * by (rewrite <- app_assoc; reflexivity).
  replace (len pre + len s) with (len (pre ++ s)) by apply len_app.
  rewrite (IH (pre ++ s) tail Hl). reflexivity.
Qed.

Lemma combine_fixed recs : forall off, Forall (fun r => ids_ok (fst r)) recs ->
  combine (map (firstn 4) (fixed_records recs off)) (map snd recs) = recs.
Proof.
  induction recs as [|[ids s] r IH]; intros off H; [reflexivity|].
  inversion H as [|? ? Hi Hr]; subst. cbn [fst] in Hi. destruct Hi as [a [b [c [d [-> _]]]]].
  cbn [fixed_records map combine snd app firstn]. rewrite IH by exact Hr. reflexivity.
Qed.

(* Theorem: whenever owned::NameTable::write (into a fresh buffer) returns Ok, NameTable::read parses
   the bytes and owned::NameTable::try_from recovers exactly the records (ids and string bytes) and
   the language-tag strings that were written.  (A format-1 table is written only when there are
   language tags: the owned struct has no format field, so nothing is lost.) *)
Theorem name_owned_roundtrip recs lts b rest c :
  Forall (fun r => ids_ok (fst r)) recs ->
  name_owned_write 0 recs lts = Ok b ->
  cgood c -> at_bytes c (b ++ rest) ->
  exists n c', name_read c = Ok (n, c') /\ name_to_owned n = Ok (recs, lts).
Proof.
  intros Hids H Hg Hat.
  pose proof (name_owned_refusal 0 recs lts b H) as [Hcnt [Hlcnt [_ [_ Hfit]]]].
  unfold name_owned_write in H.
  match type of H with bind ?x _ = _ => destruct x as [cnt| | |] eqn:Ec; try discriminate H end. cbn [bind] in H.
  destruct (try_u16_ok _ _ Ec) as [-> Hc16].
  match type of H with bind ?x _ = _ => destruct x as [[rb off1]| | |] eqn:Er; try discriminate H end. cbn [bind] in H.
  match type of H with bind ?x _ = _ => destruct x as [lc| | |] eqn:El; try discriminate H end. cbn [bind] in H.
  match type of H with bind ?x _ = _ => destruct x as [[lb o3]| | |] eqn:Elt; try discriminate H end. cbn [bind] in H.
  match type of H with bind ?x _ = _ => destruct x as [ss| | |] eqn:Es; try discriminate H end. cbn [bind] in H.
  destruct (try_u16_ok _ _ Es) as [-> Hss].
  destruct (offsets_fit (map snd recs ++ lts) 0) eqn:Eo; [|discriminate]. apply Ok_inj in H. subst b.
  rewrite string_offsets_app in Hfit. apply Forall_app in Hfit. destruct Hfit as [Hfit1 Hfit2].
  destruct (owned_records_fixed_ok _ _ _ _ Er) as [_ Hoff1]. rewrite Z.add_0_l in Hoff1, Hfit2.
  destruct (owned_records_fixed_enc recs 0 rb off1 Hids ltac:(lia) Hfit1 Er) as [-> Hrok].
  pose proof (len_nonneg (concat (map snd recs))) as Hn1.
  rewrite <- Hoff1 in Hfit2.
  destruct (owned_langtags_fixed_enc lts off1 lb o3 ltac:(lia) Hfit2 Elt) as [-> Hlok].
  set (RB := enc_recs name_record_ty (fixed_records recs 0)) in *.
  set (LB := enc_recs langtag_record_ty (fixed_langtags lts off1)) in *.
  set (S1 := concat (map snd recs)) in *. set (S2 := concat lts) in *.
  set (SS := 0 + 6 + len RB + len lc + len LB) in *.
  (* the cursor and the table scope *)
  pose proof Hg as [[Hc1 Hc2] [Hb [Hb0 Hb1]]]. unfold sinv in Hc2.
  set (TBL := write_prim PU16 (match lts with [] => 0 | _ => 1 end) ++ write_prim PU16 (len recs) ++
              write_prim PU16 SS ++ RB ++ lc ++ LB ++ S1 ++ S2) in *.
  assert (len (TBL ++ rest) <= dlen (sc c)) as Hlen.
  { assert (len (TBL ++ rest) = len (drop (off c) (data (sc c)))) as Hq by (f_equal; symmetry; exact Hat).
    rewrite Hq. unfold dlen in *. rewrite len_drop by lia. lia. }
  assert (len (write_prim PU16 (match lts with [] => 0 | _ => 1 end) ++ write_prim PU16 (len recs) ++
               write_prim PU16 SS ++ RB ++ lc ++ LB) = SS) as Hfixed.
  { rewrite !len_app, !len_write_prim. unfold SS. cbn [spec_size]. lia. }
  unfold name_read, ctxt_scope, scope_offset, wadd. cbn [bind].
  assert (slice_from (data (sc c)) (off c) = TBL ++ rest) as Hslice.
  { rewrite slice_from_drop by (unfold dlen in Hc1; exact Hc1). exact Hat. }
  (* three header reads *)
  unfold TBL in Hat. rewrite <- !app_assoc in Hat.
  assert (prim_in_range PU16 (match lts with [] => 0 | _ => 1 end) = true) as Hfr by (destruct lts; reflexivity).
  destruct (read_prim_layout PU16 c _ _ Hg Hfr Hat) as [c1 [E1 A1]]. rewrite E1. cbn [bind]. cbv beta iota.
  replace (1 <? match lts with [] => 0 | _ => 1 end) with false by (destruct lts; reflexivity).
  destruct (read_prim_layout PU16 c1 _ _ (proj1 A1) (u16_range _ Hc16) (proj2 (proj2 A1))) as [c2 [E2 A2]].
  rewrite E2. cbn [bind]. cbv beta iota.
  destruct (read_prim_layout PU16 c2 _ _ (proj1 A2) (u16_range _ Hss) (proj2 (proj2 A2))) as [c3 [E3 A3]].
  rewrite E3. cbn [bind]. cbv beta iota. cbn [data base].
  (* the storage scope *)
  rewrite Hslice.
  assert (slice_from (TBL ++ rest) SS = S1 ++ S2 ++ rest) as Hstor.
  { rewrite slice_from_drop.
    - unfold TBL. rewrite <- !app_assoc.
      replace (write_prim PU16 (match lts with [] => 0 | _ => 1 end) ++ write_prim PU16 (len recs) ++
               write_prim PU16 SS ++ RB ++ lc ++ LB ++ S1 ++ S2 ++ rest)
        with ((write_prim PU16 (match lts with [] => 0 | _ => 1 end) ++ write_prim PU16 (len recs) ++
               write_prim PU16 SS ++ RB ++ lc ++ LB) ++ S1 ++ S2 ++ rest) by (rewrite <- !app_assoc; reflexivity).
      apply drop_app_len_n. exact Hfixed.
    - unfold TBL. rewrite !len_app in *. pose proof (len_nonneg S1). pose proof (len_nonneg S2). pose proof (len_nonneg rest).
      lia. }
  rewrite Hstor.
  (* the record array *)
  assert (0 < ty_size name_record_ty < USIZE) as Hsz by (rewrite name_record_ty_eq; cbv; split; reflexivity).
  rewrite <- (len_fixed_records recs 0).
  destruct (read_records_layout name_record_ty c3 _ _ (proj1 A3) Hsz Hrok (proj2 (proj2 A3))) as [c4 [E4 A4]].
  rewrite E4. cbn [bind]. cbv beta iota.
  assert (len (S1 ++ S2 ++ rest) < USIZE) as Hsl.
  { rewrite !len_app in *. unfold TBL in Hlen. rewrite !len_app in Hlen.
    pose proof (len_nonneg RB). pose proof (len_nonneg lc). pose proof (len_nonneg LB).
    rewrite !len_write_prim in Hlen. cbn [spec_size] in Hlen. lia. }
  destruct lts as [|lt0 ltr] eqn:Elts.
  - (* format 0 *)
    change (0 <? 0) with false. cbv iota.
    eexists; eexists. split; [reflexivity|].
    unfold name_to_owned. cbn [nt_storage nt_records nt_langtags].
    pose proof (name_strings_records recs [] (S2 ++ rest) Hids) as Hns. cbn [app] in Hns.
    change (len (@nil Z)) with 0 in Hns. fold S1 in Hns. rewrite (Hns Hsl). cbn [bind].
    rewrite combine_fixed by exact Hids. reflexivity.
  - (* format 1 *)
    rewrite <- Elts in *. change (0 <? 1) with true. cbv iota.
    assert (lc = write_prim PU16 (len lts)) as ->.
    { rewrite Elts in El. destruct (try_u16 (len (lt0 :: ltr))) as [c0| | |] eqn:E0; try discriminate.
      destruct (try_u16_ok _ _ E0) as [-> _]. cbn [bind] in El. injection El as <-. rewrite Elts. reflexivity. }
    assert (u16_ok (len lts)) as Hl16 by (unfold u16_ok; pose proof (len_nonneg lts); lia).
    destruct (read_prim_layout PU16 c4 _ _ (proj1 A4) (u16_range _ Hl16) (proj2 (proj2 A4))) as [c5 [E5 A5]].
    rewrite E5. cbn [bind]. cbv beta iota.
    assert (0 < ty_size langtag_record_ty < USIZE) as Hsz2 by (rewrite langtag_record_ty_eq; cbv; split; reflexivity).
    rewrite <- (len_fixed_langtags lts off1).
    pose proof (proj2 (proj2 A5)) as HA5. unfold LB in HA5. rewrite <- Elts in HA5.
    destruct (read_records_layout langtag_record_ty c5 _ _ (proj1 A5) Hsz2 Hlok HA5) as [c6 [E6 A6]].
    rewrite E6. cbn [bind]. cbv beta iota.
    eexists; eexists. split; [reflexivity|].
    unfold name_to_owned. cbn [nt_storage nt_records nt_langtags].
    pose proof (name_strings_records recs [] (S2 ++ rest) Hids) as Hns. cbn [app] in Hns.
    change (len (@nil Z)) with 0 in Hns. fold S1 in Hns. rewrite (Hns Hsl). cbn [bind].
    pose proof (name_strings_langtags lts S1 rest) as Hnl.
    assert (S2 = concat lts) as HS2 by (unfold S2; rewrite Elts; reflexivity). rewrite <- HS2 in Hnl.
    rewrite Hoff1. rewrite (Hnl Hsl). cbn [bind].
    rewrite combine_fixed by exact Hids. reflexivity.
Qed.
