(* Proofs/CmapSubsetLift.v — the links composed: for a source font whose selected sub-table is a
   Unicode one, the cmap that subset() writes maps every character the source maps to a retained
   glyph to that glyph's new id and every other character to glyph 0 (through Font::new /
   Font::lookup_glyph_index as modelled in C06).  Partial: Unicode sources, unrestricted target,
   outputs that are format 4 or format 12 tables. *)
From AV Require Import Base.Prelude Base.Lemmas Gen.MacRomanTables Gen.CmapPrefs Model.MacRoman Model.Cmap Model.CmapSpec
  Model.CmapSubset Proofs.CmapProofs Proofs.CmapParseProofs Proofs.MacRomanProofs
  Proofs.CmapSubsetProofs Proofs.CmapWriteProofs Proofs.CmapKeepProofs Proofs.CmapSubsetTop.
Require Import ZifyBool.
Open Scope Z_scope.

(* ------------------------------------------------------------------------------------------- *)
(* small facts *)

Lemma assoc_z_first_assoc c l : assoc_z c l = first_assoc c l.
Proof. induction l as [|[a g] t IH]; cbn [assoc_z first_assoc]; [reflexivity|]. destruct (a =? c); auto. Qed.

Lemma is_char_range c : is_char c = true -> 0 <= c <= 1114111.
Proof. unfold is_char. lia. Qed.

Lemma arms_keys_small : forallb (fun p => fst p <=? 65535) c2m_arms = true.
Proof. vm_compute. reflexivity. Qed.

Lemma is_macroman_small c : is_macroman c = true -> c <= 65535.
Proof.
  unfold is_macroman, char_to_macroman. destruct (c <? c2m_bound) eqn:E.
  - intros _. assert (c2m_bound <= 65535) by (vm_compute; discriminate). lia.
  - destruct (assoc c c2m_arms) as [b|] eqn:EA; [|discriminate]. intros _.
    destruct (assoc_key _ _ _ EA) as [v Hin].
    pose proof arms_keys_small as S. rewrite forallb_forall in S. specialize (S _ Hin). cbn [fst] in S. lia.
Qed.

Lemma index_of_range g ids : forall i k, index_of g ids i = Some k -> i <= k < i + len ids.
Proof.
  induction ids as [|x t IH]; intros i k H; cbn [index_of] in H; [discriminate|].
  rewrite len_cons. pose proof (len_nonneg t). destruct (x =? g).
  - inversion H; subst. lia.
  - apply IH in H. lia.
Qed.

Lemma new_id_range ids g : len ids <= 65536 -> 0 <= new_id ids g <= 65535.
Proof.
  intros H. unfold new_id. destruct (index_of g ids 0) as [k|] eqn:E; [|lia].
  apply index_of_range in E. lia.
Qed.

(* ------------------------------------------------------------------------------------------- *)
(* the kept map of a Unicode source, in terms of the source's single lookups *)

Definition retained (ids : list Z) (g : Z) : bool := negb (g =? 0) && existsb (Z.eqb g) ids.

Lemma wanted_unicode ids ch gid :
  wanted EUnicode None ids TUnrestricted (ch, gid) =
  if retained ids gid && is_char ch then Some (CUnicode ch, gid) else None.
Proof.
  unfold wanted, retained, output_char, character_new.
  destruct (negb (gid =? 0) && existsb (Z.eqb gid) ids); [|reflexivity].
  destruct (is_char ch); reflexivity.
Qed.

Lemma last_wanted_unicode ids u pairs : forall acc,
  NoDup (map fst pairs) ->
  last_wanted (wanted EUnicode None ids TUnrestricted) (CUnicode u) pairs acc =
  match assoc_z u pairs with
  | Some g => if retained ids g && is_char u then Some g else acc
  | None => acc
  end.
Proof.
  induction pairs as [|[c g] t IH]; intros acc HN; [reflexivity|].
  cbn [map fst] in HN. inversion HN as [|? ? Hnot HN']; subst.
  cbn [last_wanted assoc_z]. rewrite wanted_unicode.
  destruct (c =? u) eqn:E.
  - assert (c = u) by lia. subst c.
    assert (Hnone : assoc_z u t = None).
    { destruct (assoc_z u t) as [g'|] eqn:EA; [|reflexivity]. exfalso. apply Hnot.
      rewrite assoc_z_first_assoc in EA. apply first_assoc_In in EA.
      change u with (fst (u, g')). apply in_map. exact EA. }
    destruct (retained ids g && is_char u).
    + rewrite IH by exact HN'. rewrite Hnone. cbn [char_eqb]. rewrite Z.eqb_refl. reflexivity.
    + rewrite IH by exact HN'. rewrite Hnone. reflexivity.
  - destruct (retained ids g && is_char c).
    + rewrite IH by exact HN'. cbn [char_eqb]. replace (u =? c) with false by lia. reflexivity.
    + apply IH. exact HN'.
Qed.

(* what subset() should produce for character u *)
Definition expected_glyph (st : subtable) (ids : list Z) (u : Z) : Z :=
  match lookup st u with
  | Some g => if retained ids g then new_id ids g else 0
  | None => 0
  end.

(* ------------------------------------------------------------------------------------------- *)
(* the mapping handed to the builders *)

Lemma update_lookup ids kept k :
  bt_lookup k (update_to_new_ids ids kept) = option_map (new_id ids) (bt_lookup k kept).
Proof.
  unfold update_to_new_ids. induction kept as [|[k' v] t IH]; cbn [map bt_lookup fst snd]; [reflexivity|].
  destruct (char_eqb k k'); [reflexivity | exact IH].
Qed.

Lemma update_sorted ids kept : bt_sorted kept -> bt_sorted (update_to_new_ids ids kept).
Proof.
  unfold update_to_new_ids. induction kept as [|[k v] t IH]; cbn [map bt_sorted fst snd]; intros H; [exact I|].
  destruct H as [H1 H2]. split; [|apply IH; exact H2].
  intros k' v' Hin. apply in_map_iff in Hin. destruct Hin as ([k2 v2] & Heq & Hin). cbn [fst snd] in Heq.
  inversion Heq; subst. eapply H1; eauto.
Qed.

(* a strictly sorted map whose keys are all Unicode characters within [0, hi] and whose values are
   within [0, vhi] is, as (code, glyph) pairs, strictly increasing *)
Lemma as_pairs_lookup0 M u :
  (forall k v, In (k, v) M -> exists c, k = CUnicode c) ->
  lookup0 (as_pairs M) u = match bt_lookup (CUnicode u) M with Some g => g | None => 0 end.
Proof.
  unfold lookup0, as_pairs. induction M as [|[k v] t IH]; intros HU; cbn [map assoc_z bt_lookup fst snd]; [reflexivity|].
  destruct (HU k v (or_introl eq_refl)) as [c ->]. cbn [char_code char_eqb].
  rewrite (Z.eqb_sym u c). destruct (c =? u); [reflexivity|].
  apply IH. intros k' v' Hin. eapply HU. right. exact Hin.
Qed.

Lemma as_pairs_sorted16 M : forall lo,
  bt_sorted M ->
  (forall k v, In (k, v) M -> exists c, k = CUnicode c /\ lo < c /\ c <= 65535 /\ 0 <= v <= 65535) ->
  sorted_above lo (as_pairs M).
Proof.
  unfold as_pairs. induction M as [|[k v] t IH]; intros lo HS HU; cbn [map sorted_above fst snd]; [exact I|].
  destruct (HU k v (or_introl eq_refl)) as (c & -> & H1 & H2 & H3). cbn [char_code].
  cbn [bt_sorted] in HS. destruct HS as [HS1 HS2].
  split; [exact H1|]. split; [exact H2|]. split; [exact H3|].
  apply IH; [exact HS2|]. intros k' v' Hin.
  destruct (HU k' v' (or_intror Hin)) as (c' & -> & H1' & H2' & H3').
  exists c'. split; [reflexivity|]. split; [|split; assumption].
  specialize (HS1 _ _ Hin). cbn [char_ltb] in HS1. lia.
Qed.

Lemma as_pairs_sorted32 M : forall lo,
  bt_sorted M ->
  (forall k v, In (k, v) M -> exists c, k = CUnicode c /\ lo < c /\ c <= 4294967294 /\ 0 <= v <= 65534) ->
  sorted_above32 lo (as_pairs M).
Proof.
  unfold as_pairs. induction M as [|[k v] t IH]; intros lo HS HU; cbn [map sorted_above32 fst snd]; [exact I|].
  destruct (HU k v (or_introl eq_refl)) as (c & -> & H1 & H2 & H3). cbn [char_code].
  cbn [bt_sorted] in HS. destruct HS as [HS1 HS2].
  split; [exact H1|]. split; [exact H2|]. split; [exact H3|].
  apply IH; [exact HS2|]. intros k' v' Hin.
  destruct (HU k' v' (or_intror Hin)) as (c' & -> & H1' & H2' & H3').
  exists c'. split; [reflexivity|]. split; [|split; assumption].
  specialize (HS1 _ _ Hin). cbn [char_ltb] in HS1. lia.
Qed.

(* the plane is the initial one or the existence of some wanted character *)
Lemma keep_fold_plane_attained enc sfc ids pairs : forall st,
  let st' := fold_left (keep_step enc sfc ids TUnrestricted) pairs st in
  snd st' = snd st \/
  exists p oc g, In p pairs /\ wanted enc sfc ids TUnrestricted p = Some (oc, g) /\ snd st' = existence_of oc.
Proof.
  induction pairs as [|p t IH]; intros st; cbn [fold_left]; [left; reflexivity|].
  cbn zeta in IH. destruct (IH (keep_step enc sfc ids TUnrestricted st p)) as [H | (q & oc & g & Hq & Hw & Hs)].
  - rewrite H. rewrite keep_step_wanted.
    destruct (wanted enc sfc ids TUnrestricted p) as [[oc g]|] eqn:EW; [|left; reflexivity].
    cbn [snd]. unfold existence_max. destruct (rank (snd st) <? rank (existence_of oc)); [|left; reflexivity].
    right. exists p, oc, g. split; [left; reflexivity|]. split; [exact EW | reflexivity].
  - right. exists q, oc, g. split; [right; exact Hq|]. split; assumption.
Qed.

Lemma existence_unicode_not_divine c : existence_of (CUnicode c) <> XDivine.
Proof. cbn [existence_of]. destruct (is_macroman c); [discriminate|]. destruct (c <=? 65535); discriminate. Qed.

Lemma existence_bmp_small c : rank (existence_of (CUnicode c)) <= 2 -> c <= 65535.
Proof.
  cbn [existence_of]. destruct (is_macroman c) eqn:E; [intros _; apply is_macroman_small; exact E|].
  destruct (c <=? 65535) eqn:E2; cbn [rank]; lia.
Qed.

(* C08, lifted (partial: Unicode source sub-tables, unrestricted target, output written as a
   Unicode sub-table): the subset font maps every character to the new id of the glyph the source
   font maps it to when that glyph is retained, and to glyph 0 otherwise *)
Theorem subset_lookup_unicode m src os2 ids out recs r st_s first :
  bytes_ok src = true ->
  parse_cmap src = Ok recs -> find_good_cmap_subtable recs = Some (EUnicode, r) ->
  parse (slice_from src (er_offset r)) = Ok st_s ->
  supported st_s -> strictly_well_formed st_s ->
  len ids <= 65535 ->
  subset_cmap m src os2 ids TUnrestricted = Ok out ->
  charmap_info out = Ok (EUnicode, 12) ->
  forall u, is_char u = true -> font_lookup out first u = Ok (expected_glyph st_s ids u).
Proof.
  intros Hbytes HPC HFG HPS Hsup Hswf Hids HS Hsel u Hu.
  unfold subset_cmap in HS. apply bind_ok_inv in HS. destruct HS as ([kept plane] & HK & HB).
  (* MappingsToKeep::new *)
  unfold mappings_to_keep_new in HK. rewrite HPC in HK. cbn [bind] in HK. rewrite HFG in HK.
  rewrite HPS in HK. cbn [bind] in HK.
  destruct (mappings st_s) as [pairs status] eqn:EM.
  apply bind_ok_inv in HK. destruct HK as ([] & Hstatus & HK).
  destruct (fold_left (keep_step EUnicode None ids TUnrestricted) pairs ([], XMacRoman)) as [kept0 plane0] eqn:EF.
  destruct (len kept0 <=? 65535); [|discriminate]. apply ok_inj in HK. inversion HK; subst kept0 plane0; clear HK.
  assert (Hpairs : pairs = fst (mappings st_s)) by (rewrite EM; reflexivity).
  assert (Hst : snd (mappings st_s) = Ok tt) by (rewrite EM; exact Hstatus).
  assert (Hrange : in_range st_s).
  { eapply parse_in_range; [|exact HPS]. apply bytes_ok_slice_from. exact Hbytes. }
  assert (Hnd : NoDup (map fst pairs)) by (rewrite Hpairs; apply mappings_nodup; assumption).
  (* the kept map *)
  assert (Hsorted : bt_sorted kept).
  { pose proof (keep_fold_sorted EUnicode None ids TUnrestricted pairs ([], XMacRoman) I) as H. rewrite EF in H. exact H. }
  assert (Hlook : forall c, 0 <= c -> bt_lookup (CUnicode c) kept =
                            match lookup st_s c with
                            | Some g => if retained ids g && is_char c then Some g else None
                            | None => None end).
  { intros c Hc. pose proof (keep_fold_lookup EUnicode None ids TUnrestricted pairs ([], XMacRoman) (CUnicode c)) as H.
    rewrite EF in H. cbn [fst bt_lookup] in H. rewrite H. rewrite last_wanted_unicode by exact Hnd.
    rewrite assoc_z_first_assoc, Hpairs. rewrite (mappings_first st_s c Hsup Hrange Hc Hst). reflexivity. }
  assert (Hkeys : forall k v, In (k, v) kept -> exists c, k = CUnicode c /\ is_char c = true).
  { intros k v Hin. pose proof (keep_fold_in EUnicode None ids TUnrestricted pairs ([], XMacRoman) k v) as H.
    rewrite EF in H. destruct (H Hin) as [[] | ([c g] & _ & Hw)].
    rewrite wanted_unicode in Hw. destruct (retained ids g && is_char c) eqn:E; [|discriminate].
    inversion Hw; subst. exists c. split; [reflexivity|]. apply andb_prop in E. tauto. }
  assert (Hplane : forall k v, In (k, v) kept -> rank (existence_of k) <= rank plane).
  { pose proof (keep_fold_plane EUnicode None ids pairs ([], XMacRoman)) as H. cbn zeta in H. rewrite EF in H.
    cbn [fst snd] in H. apply H. intros ? ? []. }
  (* the mapping handed to the builders *)
  set (M' := update_to_new_ids ids kept) in *.
  assert (HsortedM : bt_sorted M') by (apply update_sorted; exact Hsorted).
  assert (HkeysM : forall k v, In (k, v) M' ->
                   exists c v0, k = CUnicode c /\ In (CUnicode c, v0) kept /\ v = new_id ids v0).
  { intros k v Hin. unfold M', update_to_new_ids in Hin. apply in_map_iff in Hin.
    destruct Hin as ([k0 v0] & Heq & Hin). cbn [fst snd] in Heq. inversion Heq; subst.
    destruct (Hkeys _ _ Hin) as (c & -> & _). exists c, v0. auto. }
  assert (Hval : lookup0 (as_pairs M') u = expected_glyph st_s ids u).
  { rewrite as_pairs_lookup0.
    - unfold M'. rewrite update_lookup. pose proof (is_char_range u Hu). rewrite Hlook by lia. unfold expected_glyph.
      destruct (lookup st_s u) as [g|]; [|reflexivity]. rewrite Hu, andb_true_r.
      destruct (retained ids g); reflexivity.
    - intros k v Hin. destruct (HkeysM k v Hin) as (c & _ & -> & _). eauto. }
  assert (Hfl : forall f, (forall c, 0 <= c -> font_map_glyph out 12 c = Ok (f c)) ->
                font_lookup out first u = Ok (f u)).
  { intros f Hf. unfold font_lookup. rewrite Hsel. cbn [bind map_unicode_to_glyph].
    apply Hf. pose proof (is_char_range u Hu). lia. }
  rewrite <- Hval.
  destruct plane.
  - (* Mac Roman plane *)
    destruct (forallb (fun p : character * Z => snd p <=? 255) M') eqn:E255.
    + (* byte table: selected as AppleRoman, excluded by the hypothesis *)
      exfalso.
      assert (H0 : Forall (fun p => 0 <= char_code (fst p)) M').
      { apply Forall_forall. intros [k v] Hin. destruct (HkeysM k v Hin) as (c & v0 & -> & Hin0 & _).
        destruct (Hkeys _ _ Hin0) as (c' & Heq & Hc'). inversion Heq; subst c'. cbn [fst char_code].
        pose proof (is_char_range c Hc'). lia. }
      assert (HND : NoDup (map fst M')).
      { clear -HsortedM. induction M' as [|[k v] t IH]; cbn [map fst]; constructor.
        - cbn [bt_sorted] in HsortedM. destruct HsortedM as [H1 _]. intros Hin. apply in_map_iff in Hin.
          destruct Hin as ([k' v'] & Heq & Hin). cbn [fst] in Heq. subst k'.
          specialize (H1 _ _ Hin). rewrite char_ltb_irrefl in H1. discriminate.
        - apply IH. cbn [bt_sorted] in HsortedM. tauto. }
      assert (H255 : Forall (fun p => 0 <= snd p <= 255) M').
      { apply Forall_forall. intros [k v] Hin. rewrite forallb_forall in E255. specialize (E255 _ Hin). cbn [snd] in *.
        destruct (HkeysM k v Hin) as (c & v0 & _ & _ & ->). pose proof (new_id_range ids v0 ltac:(lia)). lia. }
      destruct (build_cmap_format0 m M' out H0 HND H255 HB) as [HC _]. rewrite HC in Hsel. discriminate.
    + apply Hfl. apply (build_cmap_format4 m M' XMacRoman out); [right; right; split; [reflexivity | exact E255] | | exact HB].
      apply as_pairs_sorted16; [exact HsortedM|]. intros k v Hin.
      destruct (HkeysM k v Hin) as (c & v0 & -> & Hin0 & ->).
      destruct (Hkeys _ _ Hin0) as (c' & Heq & Hc'). inversion Heq; subst c'.
      pose proof (is_char_range c Hc'). pose proof (Hplane _ _ Hin0) as Hp. cbn [rank] in Hp.
      pose proof (existence_bmp_small c ltac:(lia)). pose proof (new_id_range ids v0 ltac:(lia)).
      exists c. repeat split; try reflexivity; lia.
  - (* BMP *)
    apply Hfl. apply (build_cmap_format4 m M' XBmp out); [left; reflexivity | | exact HB].
    apply as_pairs_sorted16; [exact HsortedM|]. intros k v Hin.
    destruct (HkeysM k v Hin) as (c & v0 & -> & Hin0 & ->).
    destruct (Hkeys _ _ Hin0) as (c' & Heq & Hc'). inversion Heq; subst c'.
    pose proof (is_char_range c Hc'). pose proof (Hplane _ _ Hin0) as Hp. cbn [rank] in Hp.
    pose proof (existence_bmp_small c Hp). pose proof (new_id_range ids v0 ltac:(lia)).
    exists c. repeat split; try reflexivity; lia.
  - (* astral *)
    apply Hfl. intros c _. apply (build_cmap_format12 m M' out); [|exact HB].
    apply as_pairs_sorted32; [exact HsortedM|]. intros k v Hin.
    destruct (HkeysM k v Hin) as (c0 & v0 & -> & Hin0 & ->).
    destruct (Hkeys _ _ Hin0) as (c' & Heq & Hc'). inversion Heq; subst c'.
    pose proof (is_char_range c0 Hc').
    assert (0 <= new_id ids v0 <= 65534).
    { unfold new_id. destruct (index_of v0 ids 0) as [k|] eqn:E; [|lia]. apply index_of_range in E. lia. }
    exists c0. repeat split; try reflexivity; lia.
  - (* a symbol plane cannot arise from a Unicode source *)
    exfalso. pose proof (keep_fold_plane_attained EUnicode None ids pairs ([], XMacRoman)) as H. cbn zeta in H.
    rewrite EF in H. cbn [snd] in H. destruct H as [H | ([c g] & oc & g' & _ & Hw & Hs)]; [discriminate|].
    rewrite wanted_unicode in Hw. destruct (retained ids g && is_char c); [|discriminate].
    inversion Hw; subst. symmetry in Hs. exact (existence_unicode_not_divine c Hs).
Qed.
