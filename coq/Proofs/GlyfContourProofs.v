(* Proofs/GlyfContourProofs.v — C16 (b): the contour walker of src/tables/glyf/outline.rs
   (calculate_origin, the Points iterator, the loop of visit_simple_glyph_outline) against the
   declarative expansion of Model/GlyfSpec.v. *)
From AV Require Import Base.Prelude Base.Lemmas Gen.GlyfConsts Model.GlyfSpec Model.GlyfOutline.
From Coq Require Import ZifyBool ZifyNat.
Ltac Zify.zify_post_hook ::= Z.div_mod_to_equations.
Open Scope Z_scope.

(* ---------------------------------------------------------------------------------------------- *)
(* vocabulary                                                                                      *)

Definition to_spoint (p : point) : spoint := (has (fst p) sf_is_on_curve, snd p).
Definition cp_of_e (e : epoint) : cpoint := if e_on e then OnCurve (e_pos e) else Control (e_pos e).
Definition cp_of (p : point) : cpoint := cp_of_e (e_orig (to_spoint p)).

Definition d0 : point := (0, (0, 0)).
Definition s0 : spoint := (true, (0, 0)).

(* the loop of visit_simple_glyph_outline over the list of items the iterator yields *)
Fixpoint walk_list (o : pt) (l : list cpoint) : outcome (list (cmd pt)) :=
  match l with
  | [] => Ok []
  | OnCurve p :: r => b <- walk_list o r ;; Ok (Line p :: b)
  | Control c :: r =>
    match r with
    | [] => Ok [Quad c o]
    | OnCurve p :: r' => b <- walk_list o r' ;; Ok (Quad c p :: b)
    | Control _ :: _ => Panic
    end
  end.

(* the items an iterator state yields *)
Inductive yields (c : list point) : pstate -> list cpoint -> Prop :=
| y_done st : points_next c st = Ok (None, st) -> yields c st []
| y_step st x st' l : points_next c st = Ok (Some x, st') -> yields c st' l -> yields c st (x :: l).

Lemma walk_yields c o : forall n l, (length l <= n)%nat -> forall st fuel,
  yields c st l -> (n < fuel)%nat -> walk fuel c o st = walk_list o l.
Proof.
  induction n as [|n IH]; intros l Hl st fuel Hy Hf.
  - destruct l; [|cbn [length] in Hl; lia].
    inversion Hy as [st0 Hn|]; subst. destruct fuel; [lia|]. cbn [walk]. rewrite Hn. reflexivity.
  - destruct fuel as [|fuel]; [lia|].
    inversion Hy as [st0 Hn|st0 x st1 l1 Hn Hy1]; subst.
    + cbn [walk]. rewrite Hn. reflexivity.
    + cbn [walk]. rewrite Hn. cbn [bind]. destruct x as [p|ctl].
      * cbn [walk_list]. rewrite (IH l1); [reflexivity| cbn [length] in Hl; lia | exact Hy1 | lia].
      * cbn [walk_list].
        inversion Hy1 as [st2 Hn2|st2 x2 st3 l2 Hn2 Hy2]; subst.
        -- rewrite Hn2. reflexivity.
        -- rewrite Hn2. cbn [bind]. destruct x2 as [p2|c2]; [|reflexivity].
           rewrite (IH l2); [reflexivity| cbn [length] in Hl; lia | exact Hy2 | lia].
Qed.

(* ---------------------------------------------------------------------------------------------- *)
(* index form of the expansion                                                                     *)

Definition succ_idx (n i : nat) : nat := if Nat.eqb (S i) n then O else S i.

Definition eemit (sp : list spoint) (i : nat) : list epoint :=
  let p := nth i sp s0 in
  let q := nth (succ_idx (length sp) i) sp s0 in
  e_orig p :: implied_between p q.

Lemma succ_idx_mod n i : (i < n)%nat ->
  (Z.of_nat i + 1) mod Z.of_nat n = Z.of_nat (succ_idx n i).
Proof.
  intros H. unfold succ_idx. destruct (Nat.eqb (S i) n) eqn:E.
  - apply Nat.eqb_eq in E. replace (Z.of_nat i + 1) with (Z.of_nat n) by lia.
    apply Z_mod_same_full.
  - apply Nat.eqb_neq in E. rewrite Z.mod_small; lia.
Qed.

Lemma succ_idx_lt n i : (i < n)%nat -> (succ_idx n i < n)%nat.
Proof. intros H. unfold succ_idx. destruct (Nat.eqb (S i) n) eqn:E; [lia|]. apply Nat.eqb_neq in E. lia. Qed.

Lemma cp_get_nth c i : (i < length c)%nat -> cp_get c (Z.of_nat i) = Ok (cp_of (nth i c d0)).
Proof.
  intros H. unfold cp_get, nth_opt.
  destruct (Z.of_nat i <? 0) eqn:E; [lia|]. rewrite Nat2Z.id.
  rewrite (nth_error_nth' c d0 H). destruct (nth i c d0) as [f p].
  unfold cp_of, cp_of_e, e_orig, to_spoint, dbl. cbn [fst snd e_on e_pos].
  destruct (has f sf_is_on_curve); reflexivity.
Qed.

Lemma nth_to_spoint c i : (i < length c)%nat -> nth i (map to_spoint c) s0 = to_spoint (nth i c d0).
Proof.
  intros H. rewrite (nth_indep _ s0 (to_spoint d0)) by (rewrite map_length; exact H).
  apply map_nth.
Qed.

Lemma lerp_half_dbl a b : lerp_half (dbl a) (dbl b) = (fst a + fst b, snd a + snd b).
Proof.
  unfold lerp_half, dbl, LERP_DEN. cbn [fst snd]. f_equal.
  - replace (2 * fst b - 2 * fst a) with ((fst b - fst a) * 2) by lia. rewrite Z.div_mul; lia.
  - replace (2 * snd b - 2 * snd a) with ((snd b - snd a) * 2) by lia. rewrite Z.div_mul; lia.
Qed.

Lemma len_Z_of_nat {A} (l : list A) : len l = Z.of_nat (length l).
Proof. reflexivity. Qed.

(* one item group of the iterator: state (i, until, None) with i < until yields eemit i *)
Lemma yields_step_idx c (i until_ : nat) l :
  (i < until_)%nat -> (until_ <= length c)%nat ->
  yields c {| p_i := Z.of_nat (S i); p_until := Z.of_nat until_; p_mid := None |} l ->
  yields c {| p_i := Z.of_nat i; p_until := Z.of_nat until_; p_mid := None |}
         (map cp_of_e (eemit (map to_spoint c) i) ++ l).
Proof.
  intros Hi Hu Hy.
  assert (Hlt : (i < length c)%nat) by lia.
  assert (Hs : (succ_idx (length c) i < length c)%nat) by (apply succ_idx_lt; exact Hlt).
  unfold eemit. rewrite map_length.
  rewrite (nth_to_spoint c i Hlt), (nth_to_spoint c _ Hs).
  set (p := nth i c d0). set (q := nth (succ_idx (length c) i) c d0).
  assert (Hnext : forall st, st = {| p_i := Z.of_nat i; p_until := Z.of_nat until_; p_mid := None |} ->
     points_next c st =
     match cp_of p with
     | OnCurve _ => Ok (Some (cp_of p), {| p_i := Z.of_nat i + 1; p_until := Z.of_nat until_; p_mid := None |})
     | Control ctl =>
       match cp_of q with
       | OnCurve _ => Ok (Some (cp_of p), {| p_i := Z.of_nat i + 1; p_until := Z.of_nat until_; p_mid := None |})
       | Control ctl2 => Ok (Some (cp_of p), {| p_i := Z.of_nat i + 1; p_until := Z.of_nat until_;
                                                p_mid := Some (lerp_half ctl ctl2) |})
       end
     end).
  { intros st ->. unfold points_next. cbn [p_mid p_until p_i].
    destruct (Z.of_nat until_ <=? Z.of_nat i) eqn:E; [lia|].
    rewrite (cp_get_nth c i Hlt). fold p. cbn [bind].
    destruct (cp_of p) as [pp|ctl] eqn:Ep; [reflexivity|].
    destruct (len c =? 0) eqn:E0; [rewrite len_Z_of_nat in E0; lia|].
    rewrite len_Z_of_nat, (succ_idx_mod _ _ Hlt), (cp_get_nth c _ Hs). fold q. cbn [bind].
    destruct (cp_of q); reflexivity. }
  replace (Z.of_nat (S i)) with (Z.of_nat i + 1) in Hy by lia.
  unfold implied_between.
  unfold cp_of in Hnext.
  destruct (to_spoint p) as [onp pp] eqn:Ep. destruct (to_spoint q) as [onq qq] eqn:Eq.
  unfold cp_of_e in Hnext. cbn [e_orig e_on e_pos fst snd] in Hnext. cbn [fst snd].
  destruct onp.
  - cbn [negb andb app map]. eapply y_step; [apply Hnext; reflexivity|].
    unfold cp_of_e. cbn [e_orig e_on e_pos fst snd]. exact Hy.
  - destruct onq.
    + cbn [negb andb app map]. eapply y_step; [apply Hnext; reflexivity|].
      unfold cp_of_e. cbn [e_orig e_on e_pos fst snd]. exact Hy.
    + cbn [negb andb app map]. eapply y_step; [apply Hnext; reflexivity|].
      eapply y_step; [|exact Hy].
      unfold points_next. cbn [p_mid p_i p_until].
      unfold cp_of_e, e_mid. cbn [e_on e_pos fst snd].
      change (2 * fst pp, 2 * snd pp) with (dbl pp). change (2 * fst qq, 2 * snd qq) with (dbl qq).
      rewrite lerp_half_dbl. reflexivity.
Qed.

(* the whole iterator: from (start, until, None) it yields eemit start ++ ... ++ eemit (until-1) *)
Lemma yields_range c (until_ : nat) : (until_ <= length c)%nat -> forall k i, (i + k = until_)%nat ->
  yields c {| p_i := Z.of_nat i; p_until := Z.of_nat until_; p_mid := None |}
         (map cp_of_e (flat_map (eemit (map to_spoint c)) (seq i k))).
Proof.
  intros Hu. induction k as [|k IH]; intros i Hik.
  - cbn [seq flat_map map]. apply y_done. unfold points_next. cbn [p_mid p_until p_i].
    destruct (Z.of_nat until_ <=? Z.of_nat i) eqn:E; [reflexivity|lia].
  - cbn [seq flat_map]. rewrite map_app. apply yields_step_idx; [lia|exact Hu|].
    apply IH. lia.
Qed.

(* ---------------------------------------------------------------------------------------------- *)
(* the index form equals the structural expansion                                                  *)

Lemma expand_from_idx (sp : list spoint) : forall pre suf, sp = pre ++ suf -> sp <> [] ->
  flat_map (eemit sp) (seq (length pre) (length suf)) = expand_from (hd s0 sp) suf.
Proof.
  intros pre suf. revert pre. induction suf as [|p r IH]; intros pre E Hne.
  - reflexivity.
  - cbn [length seq flat_map expand_from].
    assert (Hn : nth (length pre) sp s0 = p).
    { rewrite E, app_nth2, Nat.sub_diag by lia. reflexivity. }
    assert (Hq : nth (succ_idx (length sp) (length pre)) sp s0 = match r with [] => hd s0 sp | q :: _ => q end).
    { unfold succ_idx. destruct r as [|q r'].
      - assert (length sp = S (length pre)) by (rewrite E, app_length; cbn [length]; lia).
        rewrite H, Nat.eqb_refl. destruct sp; [congruence|reflexivity].
      - assert (length sp = S (S (length pre + length r'))) by (rewrite E, app_length; cbn [length]; lia).
        destruct (Nat.eqb (S (length pre)) (length sp)) eqn:E2; [apply Nat.eqb_eq in E2; lia|].
        rewrite E. replace (pre ++ p :: q :: r') with ((pre ++ [p]) ++ q :: r') by (rewrite <- app_assoc; reflexivity).
        rewrite app_nth2; rewrite app_length; cbn [length]; [|lia].
        replace (S (length pre) - (length pre + 1))%nat with O by lia. reflexivity. }
    unfold eemit at 1. rewrite Hn, Hq. cbn [app]. f_equal. f_equal.
    replace (S (length pre)) with (length (pre ++ [p])) by (rewrite app_length; cbn [length]; lia).
    apply IH; [rewrite <- app_assoc; exact E|exact Hne].
Qed.

Lemma expand_idx (sp : list spoint) : sp <> [] ->
  flat_map (eemit sp) (seq 0 (length sp)) = expand sp.
Proof.
  intros Hne. change 0%nat with (length (@nil spoint)).
  rewrite (expand_from_idx sp [] sp eq_refl Hne).
  destruct sp; [congruence|reflexivity].
Qed.

Lemma seq_split a b c : seq a (b + c) = seq a b ++ seq (a + b) c.
Proof. apply seq_app. Qed.

(* ---------------------------------------------------------------------------------------------- *)
(* reading: the model's loop over items = the spec's read_segments                                 *)

Fixpoint no_adj (l : list epoint) : bool :=
  match l with
  | a :: r => match r with b :: _ => (e_on a || e_on b) && no_adj r | [] => true end
  | [] => true
  end.

Fixpoint ends_off (l : list epoint) : bool :=
  match l with
  | [] => false
  | e :: r => match r with [] => negb (e_on e) | _ => ends_off r end
  end.

Lemma walk_list_read o : forall n l, (length l <= n)%nat ->
  walk_list o (map cp_of_e l) = match read_segments o l with Some b => Ok b | None => Panic end.
Proof.
  induction n as [|n IH]; intros l Hl.
  - destruct l; [reflexivity|cbn [length] in Hl; lia].
  - destruct l as [|p r]; [reflexivity|]. cbn [length] in Hl.
    cbn [map walk_list read_segments]. unfold cp_of_e at 1. destruct (e_on p) eqn:Ep.
    + rewrite (IH r) by lia. destruct (read_segments o r); reflexivity.
    + destruct r as [|q r']; [reflexivity|]. cbn [map]. unfold cp_of_e at 1. cbn [length] in Hl.
      destruct (e_on q) eqn:Eq; [|reflexivity].
      rewrite (IH r') by lia. destruct (read_segments o r'); reflexivity.
Qed.

Lemma read_segments_total o : forall n l, (length l <= n)%nat -> no_adj l = true ->
  exists b, read_segments o l = Some b.
Proof.
  induction n as [|n IH]; intros l Hl Hn.
  - destruct l; [eexists; reflexivity|cbn [length] in Hl; lia].
  - destruct l as [|p r]; [eexists; reflexivity|]. cbn [length] in Hl. cbn [read_segments].
    destruct (e_on p) eqn:Ep.
    + destruct (IH r) as [b Hb]; [lia| |rewrite Hb; eexists; reflexivity].
      cbn [no_adj] in Hn. destruct r; [reflexivity|]. apply andb_true_iff in Hn. apply Hn.
    + destruct r as [|q r']; [eexists; reflexivity|]. cbn [length] in Hl.
      cbn [no_adj] in Hn. rewrite Ep in Hn. cbn [orb] in Hn. apply andb_true_iff in Hn. destruct Hn as [Hq Hn].
      rewrite Hq. destruct (IH r') as [b Hb]; [lia| |rewrite Hb; eexists; reflexivity].
      cbn [no_adj] in Hn. destruct r'; [reflexivity|]. apply andb_true_iff in Hn. apply Hn.
Qed.

Lemma no_adj_app_l a : forall b, no_adj (a ++ b) = true -> no_adj a = true.
Proof.
  induction a as [|x a IH]; intros b H; [reflexivity|].
  cbn [app no_adj] in *. destruct a as [|y a'].
  - reflexivity.
  - cbn [app] in H. apply andb_true_iff in H. destruct H as [H1 H2].
    rewrite H1. cbn [andb]. apply (IH b). exact H2.
Qed.

Lemma no_adj_tl x l : no_adj (x :: l) = true -> no_adj l = true.
Proof. cbn [no_adj]. destruct l; [reflexivity|]. intros H. apply andb_true_iff in H. apply H. Qed.

(* the expansion never has two adjacent off-curve points *)
Lemma expand_from_no_adj f : forall l, no_adj (expand_from f l) = true.
Proof.
  induction l as [|p r IH]; [reflexivity|].
  cbn [expand_from]. unfold implied_between.
  destruct p as [onp pp]. cbn [fst].
  destruct r as [|q r'].
  - cbn [expand_from]. destruct onp; cbn [negb andb app no_adj e_orig e_on fst]; [reflexivity|].
    destruct (negb (fst f)); cbn [app no_adj e_on e_orig e_mid fst orb andb]; reflexivity.
  - destruct q as [onq qq]. cbn [fst] in *.
    destruct onp; cbn [negb andb app].
    + cbn [no_adj]. cbn [expand_from] in *. cbn [e_orig e_on fst orb andb]. exact IH.
    + destruct onq; cbn [negb app].
      * cbn [no_adj]. cbn [expand_from] in *. cbn [e_orig e_on fst orb andb]. exact IH.
      * cbn [no_adj app]. cbn [e_mid e_orig e_on fst orb andb].
        cbn [expand_from] in *. cbn [e_orig e_on fst orb andb]. exact IH.
Qed.

Lemma expand_no_adj sp : no_adj (expand sp) = true.
Proof. destruct sp; [reflexivity|apply expand_from_no_adj]. Qed.

Lemma rs_on o p r : e_on p = true ->
  read_segments o (p :: r) = option_map (cons (Line (e_pos p))) (read_segments o r).
Proof. intros H. cbn [read_segments]. rewrite H. reflexivity. Qed.
Lemma rs_off1 o p : e_on p = false -> read_segments o [p] = Some [Quad (e_pos p) o].
Proof. intros H. cbn [read_segments]. rewrite H. reflexivity. Qed.
Lemma rs_off2 o p q r : e_on p = false ->
  read_segments o (p :: q :: r) =
  if e_on q then option_map (cons (Quad (e_pos p) (e_pos q))) (read_segments o r) else None.
Proof. intros H. cbn [read_segments]. rewrite H. reflexivity. Qed.

Lemma ends_off_cons p q r : ends_off (p :: q :: r) = ends_off (q :: r).
Proof. reflexivity. Qed.

(* closing curve: an on-curve point at the start position appended after a trailing off-curve point
   is consumed by the same quadratic that would otherwise wrap around *)
Lemma read_segments_closing o m : e_on m = true -> e_pos m = o -> forall n l, (length l <= n)%nat ->
  ends_off l = true -> read_segments o (l ++ [m]) = read_segments o l.
Proof.
  intros Hm Ho. induction n as [|n IH]; intros l Hl He.
  - destruct l; [discriminate|cbn [length] in Hl; lia].
  - destruct l as [|p r]; [discriminate|]. cbn [length] in Hl.
    destruct r as [|q r'].
    + cbn [ends_off] in He. apply negb_true_iff in He. cbn [app].
      rewrite rs_off2, rs_off1, Hm, Ho by exact He. reflexivity.
    + rewrite ends_off_cons in He. cbn [length] in Hl.
      change ((p :: q :: r') ++ [m]) with (p :: (q :: r') ++ [m]).
      destruct (e_on p) eqn:Ep.
      * rewrite !rs_on by exact Ep. rewrite (IH (q :: r')); [reflexivity|cbn [length]; lia|exact He].
      * change ((q :: r') ++ [m]) with (q :: r' ++ [m]). rewrite !rs_off2 by exact Ep.
        destruct (e_on q) eqn:Eq; [|reflexivity].
        destruct r' as [|s r''].
        -- cbn [ends_off] in He. rewrite Eq in He. discriminate.
        -- rewrite ends_off_cons in He.
           rewrite (IH (s :: r'')); [reflexivity|cbn [length] in *; lia|exact He].
Qed.

(* ---------------------------------------------------------------------------------------------- *)
(* the main theorem for one contour                                                                *)

Lemma eemit_len sp i : (length (eemit sp i) <= 2)%nat.
Proof. unfold eemit, implied_between. destruct (_ && _); cbn [length]; lia. Qed.

Lemma flat_eemit_len sp : forall k i, (length (flat_map (eemit sp) (seq i k)) <= 2 * k)%nat.
Proof.
  induction k as [|k IH]; intros i; [cbn; lia|].
  cbn [seq flat_map]. rewrite app_length. pose proof (eemit_len sp i). specialize (IH (S i)). lia.
Qed.

Lemma walk_range c o (i k until_ : nat) : (until_ <= length c)%nat -> (i + k = until_)%nat ->
  walk (2 * length c + 2) c o {| p_i := Z.of_nat i; p_until := Z.of_nat until_; p_mid := None |}
  = walk_list o (map cp_of_e (flat_map (eemit (map to_spoint c)) (seq i k))).
Proof.
  intros Hu Hk.
  apply (walk_yields c o (2 * k)).
  - rewrite map_length. apply flat_eemit_len.
  - apply yields_range; assumption.
  - lia.
Qed.

Definition on_curve (p : point) : bool := has (fst p) sf_is_on_curve.

Lemma cp_of_on p : on_curve p = true -> cp_of p = OnCurve (dbl (snd p)).
Proof. unfold cp_of, cp_of_e, to_spoint, on_curve. cbn [e_orig e_on e_pos fst snd]. intros ->. reflexivity. Qed.
Lemma cp_of_off p : on_curve p = false -> cp_of p = Control (dbl (snd p)).
Proof. unfold cp_of, cp_of_e, to_spoint, on_curve. cbn [e_orig e_on e_pos fst snd]. intros ->. reflexivity. Qed.

Lemma calculate_origin_eq c : c <> [] ->
  let n := length c in
  let p0 := nth 0 c d0 in
  let pl := nth (n - 1) c d0 in
  calculate_origin c =
  Ok (if on_curve p0 then (dbl (snd p0), 1, Z.of_nat n)
      else if on_curve pl then (dbl (snd pl), 0, Z.of_nat (n - 1))
      else (lerp_half (dbl (snd p0)) (dbl (snd pl)), 0, Z.of_nat n)).
Proof.
  intros Hne n p0 pl.
  assert (Hn : (0 < n)%nat) by (subst n; destruct c; [congruence|cbn [length]; lia]).
  unfold calculate_origin.
  change 0 with (Z.of_nat 0) at 1. rewrite (cp_get_nth c 0) by exact Hn. fold p0. cbn [bind].
  rewrite len_Z_of_nat. fold n.
  destruct (Z.of_nat n - 1 <? 0) eqn:E; [lia|].
  replace (Z.of_nat n - 1) with (Z.of_nat (n - 1)) by lia.
  rewrite (cp_get_nth c (n - 1)) by lia. fold pl. cbn [bind].
  unfold origin_on, origin_offon, origin_offoff.
  destruct (on_curve p0) eqn:E0.
  - rewrite (cp_of_on _ E0).
    destruct (cp_of pl); cbn [origin_of]; (destruct (Z.of_nat n - 0 <? 0) eqn:E1; [lia|]);
      do 2 f_equal; lia.
  - rewrite (cp_of_off _ E0). destruct (on_curve pl) eqn:El.
    + rewrite (cp_of_on _ El). cbn [origin_of]. destruct (Z.of_nat n - 1 <? 0) eqn:E1; [lia|].
      do 2 f_equal; lia.
    + rewrite (cp_of_off _ El). cbn [origin_of]. destruct (Z.of_nat n - 0 <? 0) eqn:E1; [lia|].
      do 2 f_equal; lia.
Qed.

Lemma rotl_0 {A} (l : list A) : rotl 0 l = l.
Proof. unfold rotl. cbn [skipn firstn]. apply app_nil_r. Qed.

Lemma rotl_app {A} (a b : list A) : rotl (length a) (a ++ b) = b ++ a.
Proof.
  unfold rotl. rewrite skipn_app, firstn_app, Nat.sub_diag, skipn_all, firstn_all.
  cbn [skipn firstn]. rewrite app_nil_r. reflexivity.
Qed.

Lemma to_spoint_on p : fst (to_spoint p) = on_curve p.
Proof. reflexivity. Qed.

Lemma eemit_on sp i : fst (nth i sp s0) = true -> eemit sp i = [e_orig (nth i sp s0)].
Proof. intros H. unfold eemit, implied_between. rewrite H. reflexivity. Qed.

Theorem contour_cmds_spec c : c <> [] ->
  exists cmds k, contour_cmds c = Ok cmds /\
    (k < length (expand (map to_spoint c)))%nat /\
    path_of_rotation (rotl k (expand (map to_spoint c))) = Some cmds.
Proof.
  intros Hne.
  set (sp := map to_spoint c). set (n := length c).
  assert (Hn : (0 < n)%nat) by (subst n; destruct c; [congruence|cbn [length]; lia]).
  assert (Hsp : sp <> []) by (subst sp; destruct c; [congruence|discriminate]).
  assert (Hlen : length sp = n) by (subst sp; apply map_length).
  pose proof (expand_idx sp Hsp) as HE. rewrite Hlen in HE.
  pose proof (expand_no_adj sp) as Hadj.
  unfold contour_cmds. rewrite len_Z_of_nat. fold n.
  destruct (Z.of_nat n =? 0) eqn:E0; [lia|].
  rewrite (calculate_origin_eq c Hne). cbn zeta. fold n.
  set (p0 := nth 0 c d0). set (pl := nth (n - 1) c d0).
  assert (Hp0 : nth 0 sp s0 = to_spoint p0) by (apply nth_to_spoint; exact Hn).
  assert (Hpl : nth (n - 1) sp s0 = to_spoint pl) by (apply nth_to_spoint; fold n; lia).
  destruct (on_curve p0) eqn:Eon0.
  - (* A: the first point is on the curve *)
    cbn [bind].
    change 1 with (Z.of_nat 1). rewrite (walk_range c _ 1 (n - 1) n) by (fold n; lia). fold sp.
    replace n with (1 + (n - 1))%nat in HE by lia. rewrite seq_app, flat_map_app in HE.
    cbn [seq flat_map Nat.add] in HE. rewrite app_nil_r in HE.
    rewrite eemit_on in HE by (rewrite Hp0; exact Eon0). rewrite Hp0 in HE. cbn [app] in HE.
    set (R := flat_map (eemit sp) (seq 1 (n - 1))) in *.
    rewrite (walk_list_read _ (length R) R (le_n _)).
    rewrite <- HE in Hadj.
    destruct (read_segments_total (dbl (snd p0)) (length R) R (le_n _) (no_adj_tl _ _ Hadj)) as [b Hb].
    rewrite Hb. cbn [bind].
    exists (Move (dbl (snd p0)) :: b ++ [Close]), 0%nat. split; [reflexivity|]. split.
    + rewrite <- HE. cbn [length]. lia.
    + rewrite rotl_0, <- HE. cbn [path_of_rotation]. cbn [e_orig e_on e_pos].
      rewrite to_spoint_on, Eon0. change (2 * fst (snd (to_spoint p0)), 2 * snd (snd (to_spoint p0))) with (dbl (snd p0)).
      rewrite Hb. reflexivity.
  - replace n with ((n - 1) + 1)%nat in HE by lia. rewrite seq_app in HE. cbn [seq Nat.add] in HE.
    rewrite flat_map_app in HE. cbn [flat_map] in HE. rewrite app_nil_r in HE.
    set (L := flat_map (eemit sp) (seq 0 (n - 1))) in *.
    destruct (on_curve pl) eqn:Eonl.
    + (* B: first off, last on: the last point is the origin *)
      cbn [bind].
      change 0 with (Z.of_nat 0). rewrite (walk_range c _ 0 (n - 1) (n - 1)) by (fold n; lia). fold sp L.
      rewrite eemit_on in HE by (rewrite Hpl; exact Eonl). rewrite Hpl in HE.
      rewrite (walk_list_read _ (length L) L (le_n _)).
      rewrite <- HE in Hadj.
      destruct (read_segments_total (dbl (snd pl)) (length L) L (le_n _) (no_adj_app_l _ _ Hadj)) as [b Hb].
      rewrite Hb. cbn [bind].
      exists (Move (dbl (snd pl)) :: b ++ [Close]), (length L). split; [reflexivity|]. split.
      * rewrite <- HE, app_length. cbn [length]. lia.
      * rewrite <- HE, rotl_app. cbn [app path_of_rotation]. cbn [e_orig e_on e_pos].
        rewrite to_spoint_on, Eonl.
        change (2 * fst (snd (to_spoint pl)), 2 * snd (snd (to_spoint pl))) with (dbl (snd pl)).
        rewrite Hb. reflexivity.
    + (* C: first and last off: the origin is the implied point across the closing edge *)
      cbn [bind].
      change 0 with (Z.of_nat 0) at 1. rewrite (walk_range c _ 0 n n) by (fold n; lia). fold sp.
      assert (Hem : eemit sp (n - 1) = [e_orig (to_spoint pl); e_mid (to_spoint pl) (to_spoint p0)]).
      { unfold eemit. rewrite Hlen. unfold succ_idx.
        replace (S (n - 1)) with n by lia. rewrite Nat.eqb_refl, Hpl, Hp0.
        unfold implied_between. rewrite !to_spoint_on, Eonl, Eon0. reflexivity. }
      rewrite Hem in HE.
      set (m := e_mid (to_spoint pl) (to_spoint p0)) in *.
      set (E' := L ++ [e_orig (to_spoint pl)]).
      assert (HE2 : E' ++ [m] = expand sp).
      { subst E'. rewrite <- app_assoc. exact HE. }
      assert (Horg : lerp_half (dbl (snd p0)) (dbl (snd pl)) = e_pos m).
      { rewrite lerp_half_dbl. subst m. unfold e_mid, to_spoint. cbn [e_pos fst snd]. f_equal; lia. }
      assert (Hall : flat_map (eemit sp) (seq 0 n) = E' ++ [m]).
      { rewrite HE2. replace n with ((n - 1) + 1)%nat at 1 by lia.
        rewrite seq_app, flat_map_app. cbn [seq Nat.add flat_map]. rewrite app_nil_r.
        fold L. rewrite Hem. exact HE. }
      rewrite Hall, Horg.
      rewrite (walk_list_read _ (length (E' ++ [m])) _ (le_n _)).
      assert (Hends : ends_off E' = true).
      { subst E'. generalize L. intros L0.
        induction L0 as [|x L' IH]; [cbn; unfold to_spoint; cbn [fst]; fold (on_curve pl); rewrite Eonl; reflexivity|].
        destruct L'; [cbn [app ends_off] in *; exact IH|cbn [app] in *; rewrite ends_off_cons; exact IH]. }
      rewrite (read_segments_closing (e_pos m) m eq_refl eq_refl (length E') E' (le_n _) Hends).
      rewrite <- HE2 in Hadj.
      destruct (read_segments_total (e_pos m) (length E') E' (le_n _) (no_adj_app_l _ _ Hadj)) as [b Hb].
      rewrite Hb. cbn [bind].
      exists (Move (e_pos m) :: b ++ [Close]), (length E'). split; [reflexivity|]. split.
      * rewrite <- HE2, app_length. cbn [length]. lia.
      * rewrite <- HE2, rotl_app. cbn [app path_of_rotation]. change (e_on m) with true. cbn iota.
        rewrite Hb. reflexivity.
Qed.

(* ---------------------------------------------------------------------------------------------- *)
(* what a path of the specification looks like (independent reading through `trace`)               *)

Lemma trace_app a : forall b, trace (a ++ b) = trace a ++ trace b.
Proof.
  induction a as [|x a IH]; intros b; [reflexivity|].
  destruct x; cbn [app trace]; rewrite IH; reflexivity.
Qed.

Lemma read_segments_shape o : forall n l b, (length l <= n)%nat -> read_segments o l = Some b ->
  forallb is_segment b = true /\
  trace b = map untag l ++ (if ends_off l then [(true, o)] else []).
Proof.
  induction n as [|n IH]; intros l b Hl Hb.
  - destruct l; [|cbn [length] in Hl; lia]. cbn in Hb. inversion Hb. split; reflexivity.
  - destruct l as [|p r]; [cbn in Hb; inversion Hb; split; reflexivity|]. cbn [length] in Hl.
    destruct (e_on p) eqn:Ep.
    + rewrite rs_on in Hb by exact Ep. destruct (read_segments o r) as [b'|] eqn:Hr; [|discriminate].
      cbn [option_map] in Hb. inversion Hb; subst b. destruct (IH r b' ltac:(lia) Hr) as [H1 H2].
      split; [cbn [forallb is_segment]; exact H1|].
      cbn [trace map app]. rewrite H2. unfold untag at 2. rewrite Ep.
      destruct r; [cbn [ends_off]; rewrite Ep; reflexivity|rewrite ends_off_cons; reflexivity].
    + destruct r as [|q r'].
      * rewrite rs_off1 in Hb by exact Ep. inversion Hb; subst b. split; [reflexivity|].
        cbn [trace map app ends_off]. rewrite Ep. unfold untag. rewrite Ep. reflexivity.
      * rewrite rs_off2 in Hb by exact Ep. destruct (e_on q) eqn:Eq; [|discriminate].
        destruct (read_segments o r') as [b'|] eqn:Hr; [|discriminate].
        cbn [option_map] in Hb. inversion Hb; subst b. cbn [length] in Hl.
        destruct (IH r' b' ltac:(lia) Hr) as [H1 H2].
        split; [cbn [forallb is_segment]; exact H1|].
        cbn [trace map app]. rewrite H2. unfold untag at 2 3. rewrite Ep, Eq.
        rewrite ends_off_cons.
        destruct r'; [cbn [ends_off]; rewrite Eq; reflexivity|rewrite ends_off_cons; reflexivity].
Qed.

Theorem path_shape R cmds : path_of_rotation R = Some cmds ->
  exists e R' b, R = e :: R' /\ e_on e = true /\
    cmds = Move (e_pos e) :: b ++ [Close] /\ forallb is_segment b = true /\
    trace cmds = map untag R ++ (if ends_off R' then [(true, e_pos e)] else []).
Proof.
  intros H. destruct R as [|e R']; [discriminate|]. cbn [path_of_rotation] in H.
  destruct (e_on e) eqn:Ee; [|discriminate].
  destruct (read_segments (e_pos e) R') as [b|] eqn:Hb; [|discriminate].
  cbn [option_map] in H. inversion H; subst cmds.
  destruct (read_segments_shape _ _ _ _ (le_n _) Hb) as [H1 H2].
  exists e, R', b. repeat split; try assumption.
  cbn [trace map]. rewrite trace_app, H2. cbn [trace]. rewrite app_nil_r.
  unfold untag at 2. rewrite Ee. reflexivity.
Qed.

(* ---------------------------------------------------------------------------------------------- *)
(* the expansion, characterised without recursion: every point followed by the implied point of the
   cyclic pair it opens                                                                            *)

Definition cyclic_pairs (sp : list spoint) : list (spoint * spoint) :=
  combine sp (tl sp ++ firstn 1 sp).

Lemma expand_from_pairs f : forall l,
  expand_from f l = flat_map (fun pq => e_orig (fst pq) :: implied_between (fst pq) (snd pq))
                             (combine l (tl l ++ [f])).
Proof.
  induction l as [|p r IH]; [reflexivity|].
  cbn [expand_from tl]. destruct r as [|q r'].
  - cbn [app combine flat_map expand_from fst snd]. rewrite !app_nil_r. reflexivity.
  - change ((q :: r') ++ [f]) with (q :: (r' ++ [f])).
    cbn [combine flat_map fst snd]. cbn [tl] in IH. rewrite IH. reflexivity.
Qed.

Theorem expand_pairs sp :
  expand sp = flat_map (fun pq => e_orig (fst pq) :: implied_between (fst pq) (snd pq)) (cyclic_pairs sp).
Proof.
  destruct sp as [|p r]; [reflexivity|]. unfold expand, cyclic_pairs. cbn [firstn]. apply expand_from_pairs.
Qed.

Lemma implied_between_spec p q :
  implied_between p q =
  if negb (fst p) && negb (fst q)
  then [{| e_implied := true; e_on := true;
           e_pos := (fst (snd p) + fst (snd q), snd (snd p) + snd (snd q)) |}]
  else [].
Proof. reflexivity. Qed.

(* original points: once each, in order *)
Lemma expand_from_originals f : forall l,
  filter (fun e => negb (e_implied e)) (expand_from f l) = map e_orig l.
Proof.
  induction l as [|p r IH]; [reflexivity|].
  cbn [expand_from map]. cbn [filter e_orig e_implied negb]. f_equal.
  rewrite filter_app, IH. unfold implied_between.
  destruct (_ && _); reflexivity.
Qed.

Lemma expand_originals sp : filter (fun e => negb (e_implied e)) (expand sp) = map e_orig sp.
Proof. destruct sp; [reflexivity|apply expand_from_originals]. Qed.

Lemma filter_rotl {A} (f : A -> bool) k (l : list A) :
  filter f (rotl k l) = rotl (length (filter f (firstn k l))) (filter f l).
Proof.
  unfold rotl at 1. rewrite filter_app.
  assert (H : filter f l = filter f (firstn k l) ++ filter f (skipn k l))
    by (rewrite <- filter_app, firstn_skipn; reflexivity).
  rewrite H. rewrite rotl_app. reflexivity.
Qed.

Theorem rotation_originals sp k : exists k',
  filter (fun e => negb (e_implied e)) (rotl k (expand sp)) = rotl k' (map e_orig sp).
Proof. eexists. rewrite filter_rotl, expand_originals. reflexivity. Qed.

(* ---------------------------------------------------------------------------------------------- *)
(* all contours of a simple glyph                                                                  *)

Definition is_path_of (c : list point) (p : list pcmd) : Prop :=
  exists k, (k < length (expand (map to_spoint c)))%nat /\
            path_of_rotation (rotl k (expand (map to_spoint c))) = Some p.

Theorem simple_cmds_spec : forall cs, exists paths,
  simple_cmds cs = Ok (concat paths) /\
  Forall2 is_path_of (filter (fun c => negb (len c =? 0)) cs) paths.
Proof.
  induction cs as [|c r [paths [H1 H2]]].
  - exists []. split; [reflexivity|constructor].
  - cbn [simple_cmds filter]. destruct (len c =? 0) eqn:E.
    + cbn [bind negb]. rewrite H1. cbn [bind app]. exists paths. split; [reflexivity|exact H2].
    + assert (Hne : c <> []) by (intros ->; discriminate).
      destruct (contour_cmds_spec c Hne) as [cmds [k [Hc [Hk Hp]]]].
      rewrite Hc, H1. cbn [bind negb]. exists (cmds :: paths). split; [reflexivity|].
      constructor; [exists k; split; assumption|exact H2].
Qed.

(* contours() partitions the coordinate array at well-formed end points *)
Fixpoint ends_ok (start : Z) (ends : list Z) (n : Z) : bool :=
  match ends with
  | [] => true
  | e :: r => (start <=? e) && (e <? n) && ends_ok (e + 1) r n
  end.

Fixpoint next_start (start : Z) (ends : list Z) : Z :=
  match ends with [] => start | e :: r => next_start (e + 1) r end.

Lemma next_start_ge n : forall ends start, ends_ok start ends n = true -> start <= next_start start ends.
Proof.
  induction ends as [|x r IH]; intros s H; [cbn; lia|].
  cbn [ends_ok] in H. apply andb_true_iff in H. destruct H as [H1 H2].
  apply andb_true_iff in H1. specialize (IH (x + 1) H2). cbn [next_start]. lia.
Qed.

Lemma contours_partition {A} (coords : list A) : forall ends start,
  0 <= start -> ends_ok start ends (len coords) = true ->
  concat (contours start ends coords) = take (next_start start ends - start) (drop start coords) /\
  Forall (fun c => c <> []) (contours start ends coords) /\
  length (contours start ends coords) = length ends.
Proof.
  induction ends as [|e r IH]; intros start Hs Hok.
  - cbn [contours concat next_start]. rewrite Z.sub_diag. repeat split; constructor.
  - cbn [ends_ok] in Hok. apply andb_true_iff in Hok. destruct Hok as [Hok Hr].
    apply andb_true_iff in Hok. destruct Hok as [H1 H2].
    cbn [contours]. unfold get_incl.
    destruct ((e + 1 <? start) || (len coords <? e + 1)) eqn:E; [lia|].
    destruct (IH (e + 1) ltac:(lia) Hr) as [I1 [I2 I3]].
    cbn [concat length]. repeat split.
    + rewrite I1.
      cbn [next_start].
      pose proof (next_start_ge _ _ _ Hr) as Hge.
      replace (drop (e + 1) coords) with (drop (e + 1 - start) (drop start coords))
        by (rewrite drop_drop by lia; f_equal; lia).
      set (d := drop start coords).
      replace (next_start (e + 1) r - start) with ((e + 1 - start) + (next_start (e + 1) r - (e + 1))) by lia.
      unfold take, drop. rewrite Z2Nat.inj_add by lia.
      set (a := Z.to_nat (e + 1 - start)). set (b := Z.to_nat (next_start (e + 1) r - (e + 1))).
      rewrite firstn_skipn_comm.
      transitivity (firstn a (firstn (a + b) d) ++ skipn a (firstn (a + b) d)); [|apply firstn_skipn].
      f_equal. rewrite firstn_firstn. f_equal. lia.
    + constructor; [|exact I2].
      intros Hnil. assert (Hl : len (take (e + 1 - start) (drop start coords)) = 0) by (rewrite Hnil; reflexivity).
      rewrite len_take in Hl; [lia|]. rewrite len_drop by lia. lia.
    + rewrite I3. reflexivity.
Qed.
