(* Proofs/PreprocessThai.v — thai_lao::reorder_marks of Model/Preprocess.v against its specification:
   every SARA AM is replaced by NIKHAHIT + SARA AA, the NIKHAHIT placed in front of the above-base
   marks that immediately precede it; nothing else moves; then the combining-class sort. *)
From AV Require Import Base.Prelude Gen.PreprocessTables Model.Preprocess
  Proofs.PreprocessSort Proofs.PreprocessRuns Proofs.PreprocessMarks.
From Coq Require Import Permutation.
Open Scope Z_scope.

(* ---- Vec operations on a vector split at the index ---- *)
Lemma v_get_app (P : list Z) c R : v_get (P ++ c :: R) (length P) = Ok c.
Proof.
  unfold v_get. rewrite nth_error_app2 by lia. rewrite Nat.sub_diag. reflexivity.
Qed.

Lemma v_get_app1 (P X : list Z) j : (j < length P)%nat -> v_get (P ++ X) j = v_get P j.
Proof. intro H. unfold v_get. rewrite nth_error_app1 by exact H. reflexivity. Qed.

Lemma v_set_app (P : list Z) c R c' : v_set (P ++ c :: R) (length P) c' = Ok (P ++ c' :: R).
Proof.
  unfold v_set. rewrite app_length. cbn [length].
  replace (length P <? length P + S (length R))%nat with true by (symmetry; apply Nat.ltb_lt; lia).
  rewrite firstn_app_exact.
  replace (S (length P)) with (length (P ++ [c])) by (rewrite app_length; cbn [length]; lia).
  replace (P ++ c :: R) with ((P ++ [c]) ++ R) by (rewrite <- app_assoc; reflexivity).
  rewrite skipn_app_exact. reflexivity.
Qed.

Lemma v_insert_app (P R : list Z) c : v_insert (P ++ R) (length P) c = Ok (P ++ c :: R).
Proof.
  unfold v_insert. rewrite app_length.
  replace (length P <=? length P + length R)%nat with true by (symmetry; apply Nat.leb_le; lia).
  rewrite firstn_app_exact, skipn_app_exact. reflexivity.
Qed.

Lemma v_remove_app (P : list Z) c R : v_remove (P ++ c :: R) (length P) = Ok (P ++ R).
Proof.
  unfold v_remove. rewrite app_length. cbn [length].
  replace (length P <? length P + S (length R))%nat with true by (symmetry; apply Nat.ltb_lt; lia).
  rewrite firstn_app_exact.
  replace (S (length P)) with (length (P ++ [c])) by (rewrite app_length; cbn [length]; lia).
  replace (P ++ c :: R) with ((P ++ [c]) ++ R) by (rewrite <- app_assoc; reflexivity).
  rewrite skipn_app_exact. reflexivity.
Qed.

(* cs[j..=i].rotate_right(1) where cs = front ++ tail ++ c :: rest, j = |front|, i = |front| + |tail| *)
Lemma v_rotate_right_one (front tail : list Z) c rest :
  v_rotate_right (front ++ tail ++ c :: rest) (length front) (length front + length tail + 1) 1
  = Ok (front ++ c :: tail ++ rest).
Proof.
  unfold v_rotate_right.
  replace (length front <=? length front + length tail + 1)%nat with true by (symmetry; apply Nat.leb_le; lia).
  replace (length front + length tail + 1 <=? length (front ++ tail ++ c :: rest))%nat with true
    by (symmetry; apply Nat.leb_le; rewrite !app_length; cbn [length]; lia).
  replace (1 <=? length front + length tail + 1 - length front)%nat with true by (symmetry; apply Nat.leb_le; lia).
  cbn [andb]. f_equal.
  replace (length front + length tail + 1 - length front)%nat with (length (tail ++ [c]))
    by (rewrite app_length; cbn [length]; lia).
  rewrite firstn_app_exact, skipn_app_exact.
  replace (tail ++ c :: rest) with ((tail ++ [c]) ++ rest) by (rewrite <- app_assoc; reflexivity).
  rewrite firstn_app_exact.
  replace (length (tail ++ [c]) - 1)%nat with (length tail) by (rewrite app_length; cbn [length]; lia).
  rewrite firstn_app_exact, skipn_app_exact.
  f_equal. cbn [app]. f_equal. f_equal.
  replace (length front + length tail + 1)%nat with (length (front ++ tail ++ [c]))
    by (rewrite !app_length; cbn [length]; lia).
  replace (front ++ (tail ++ [c]) ++ rest) with ((front ++ tail ++ [c]) ++ rest)
    by (rewrite <- !app_assoc; reflexivity).
  apply skipn_app_exact.
Qed.

Lemma assoc_z_In {A} (c : Z) (l : list (Z * A)) v : assoc_z c l = Some v -> In (c, v) l.
Proof.
  induction l as [|[k w] t IH]; cbn [assoc_z]; [discriminate|].
  destruct (c =? k) eqn:E; intro H.
  - inversion H; subst. left. f_equal. lia.
  - right. apply IH. exact H.
Qed.

(* ---- facts about the tables taken from the source (checked by computation) ---- *)
Definition expand_am (c : Z) : list Z :=
  match split_am_vowel c with Some (c1, c2) => [c1; c2] | None => [c] end.

(* the second part of a split is itself not split, and is not an above-base mark *)
Lemma am_second_closed : forall c c1 c2, split_am_vowel c = Some (c1, c2) ->
  split_am_vowel c2 = None /\ is_abovebase_mark c2 = false.
Proof.
  intros c c1 c2 H. unfold split_am_vowel in H. apply assoc_z_In in H.
  assert (Hall : forallb (fun e => match split_am_vowel (snd (snd e)) with None => negb (is_abovebase_mark (snd (snd e))) | Some _ => false end) AM_SPLITS = true)
    by (vm_compute; reflexivity).
  rewrite forallb_forall in Hall. specialize (Hall _ H). cbn [snd] in Hall.
  destruct (split_am_vowel c2); [discriminate|]. split; [reflexivity|].
  destruct (is_abovebase_mark c2); [discriminate|reflexivity].
Qed.

(* ---- the backwards scan over the above-base marks ---- *)
Fixpoint scan_p (P : list Z) (j : nat) : nat :=
  match j with
  | O => O
  | S j' => match nth_error P j' with
            | Some c => if is_abovebase_mark c then scan_p P j' else j
            | None => j
            end
  end.

Lemma thai_scan_back_ok (P X : list Z) : forall j, (j <= length P)%nat ->
  thai_scan_back (P ++ X) j = Ok (scan_p P j).
Proof.
  induction j as [|j IH]; intro H; cbn [thai_scan_back scan_p]; [reflexivity|].
  rewrite v_get_app1 by lia. unfold v_get.
  destruct (nth_error P j) as [c|] eqn:E.
  - cbn [bind]. destruct (is_abovebase_mark c); [apply IH; lia|reflexivity].
  - apply nth_error_None in E. lia.
Qed.

Definition above (c : Z) : Prop := is_abovebase_mark c = true.
(* front ends with a character that is not an above-base mark (or is empty) *)
Definition closed_front (f : list Z) : Prop :=
  f = [] \/ exists f0 z, f = f0 ++ [z] /\ is_abovebase_mark z = false.

Lemma scan_p_decomp (f tl : list Z) : Forall above tl -> closed_front f ->
  forall n, (length f <= n <= length (f ++ tl))%nat -> scan_p (f ++ tl) n = length f.
Proof.
  intros Htl Hf. induction n as [|n IH]; intro Hn; cbn [scan_p]; [lia|].
  destruct (Nat.eq_dec (S n) (length f)) as [e|ne].
  - (* the element below is the last of f *)
    destruct Hf as [->|(f0 & z & -> & Hz)]; [cbn [length] in e; lia|].
    rewrite app_length in e. cbn [length] in e.
    assert (n = length f0) as -> by lia.
    rewrite <- app_assoc. rewrite nth_error_app2 by lia. rewrite Nat.sub_diag. cbn [app nth_error].
    rewrite Hz. rewrite app_length. cbn [length]. lia.
  - assert (Hge : (length f <= n)%nat) by lia.
    rewrite nth_error_app2 by exact Hge.
    rewrite app_length in Hn.
    destruct (nth_error tl (n - length f)) as [c|] eqn:E.
    + assert (Hc : above c). { rewrite Forall_forall in Htl. apply Htl. eapply nth_error_In. exact E. }
      unfold above in Hc. rewrite Hc. apply IH. rewrite app_length. lia.
    + apply nth_error_None in E. lia.
Qed.

Lemma decomp_exists (P : list Z) : exists f tl, P = f ++ tl /\ Forall above tl /\ closed_front f.
Proof.
  induction P as [|x P IH] using rev_ind.
  - exists [], []. repeat split; [constructor|left; reflexivity].
  - destruct (is_abovebase_mark x) eqn:Ex.
    + destruct IH as (f & tl & -> & Htl & Hf). exists f, (tl ++ [x]). repeat split.
      * rewrite app_assoc. reflexivity.
      * apply Forall_app. split; [exact Htl|]. constructor; [exact Ex|constructor].
      * exact Hf.
    + exists (P ++ [x]), []. repeat split.
      * rewrite app_nil_r. reflexivity.
      * constructor.
      * right. exists P, x. split; [reflexivity|exact Ex].
Qed.

(* insert c1 in front of the trailing above-base marks of P *)
Definition ins_above (P : list Z) (c1 : Z) : list Z :=
  let j := scan_p P (length P) in firstn j P ++ c1 :: skipn j P.

Lemma ins_above_decomp f tl c1 : Forall above tl -> closed_front f ->
  ins_above (f ++ tl) c1 = f ++ c1 :: tl.
Proof.
  intros Htl Hf. unfold ins_above.
  rewrite (scan_p_decomp f tl Htl Hf) by (rewrite app_length; lia).
  rewrite firstn_app_exact, skipn_app_exact. reflexivity.
Qed.

Lemma closed_front_app X b f : is_abovebase_mark b = false -> closed_front f -> closed_front (X ++ b :: f).
Proof.
  intros Hb [->|(f0 & z & -> & Hz)].
  - right. exists X, b. split; [reflexivity|exact Hb].
  - right. exists (X ++ b :: f0), z. split; [rewrite <- app_assoc; reflexivity|exact Hz].
Qed.

(* a character that is not an above-base mark is a barrier *)
Lemma ins_above_barrier X b P c1 : is_abovebase_mark b = false ->
  ins_above (X ++ b :: P) c1 = X ++ b :: ins_above P c1.
Proof.
  intro Hb. destruct (decomp_exists P) as (f & tl & -> & Htl & Hf).
  rewrite (ins_above_decomp f tl c1 Htl Hf).
  replace (X ++ b :: f ++ tl) with ((X ++ b :: f) ++ tl) by (rewrite <- app_assoc; reflexivity).
  rewrite ins_above_decomp; [rewrite <- app_assoc; reflexivity|exact Htl|].
  apply closed_front_app; assumption.
Qed.

Lemma ins_above_perm P c1 : Permutation (P ++ [c1]) (ins_above P c1).
Proof.
  destruct (decomp_exists P) as (f & tl & -> & Htl & Hf). rewrite ins_above_decomp by assumption.
  rewrite <- app_assoc. apply Permutation_app_head. apply Permutation_sym. apply Permutation_cons_append.
Qed.

(* ---- the loop ---- *)
(* the loop on the split vector, same fuel *)
Fixpoint thai_pm (fuel : nat) (P R : list Z) : outcome (list Z) :=
  match fuel with
  | O => Err LimitExceeded
  | S f =>
    match R with
    | [] => Ok P
    | c :: R' =>
      match split_am_vowel c with
      | Some (c1, c2) => thai_pm f (ins_above P c1) (c2 :: R')
      | None => thai_pm f (P ++ [c]) R'
      end
    end
  end.

Lemma ins_above_length P c1 : length (ins_above P c1) = S (length P).
Proof.
  rewrite <- (Permutation_length (ins_above_perm P c1)). rewrite app_length. cbn [length]. lia.
Qed.

Lemma v_insert_app1 (P : list Z) c R c2 : v_insert (P ++ c :: R) (length P + 1) c2 = Ok (P ++ c :: c2 :: R).
Proof.
  replace (P ++ c :: R) with ((P ++ [c]) ++ R) by (rewrite <- app_assoc; reflexivity).
  replace (length P + 1)%nat with (length (P ++ [c])) by (rewrite app_length; cbn [length]; lia).
  rewrite v_insert_app. rewrite <- app_assoc. reflexivity.
Qed.

Lemma rotate_ins (P : list Z) c1 X :
  v_rotate_right (P ++ c1 :: X) (scan_p P (length P)) (length P + 1) 1 = Ok (ins_above P c1 ++ X).
Proof.
  destruct (decomp_exists P) as (fr & tl & -> & Htl & Hf).
  rewrite (ins_above_decomp fr tl c1 Htl Hf).
  rewrite (scan_p_decomp fr tl Htl Hf) by (rewrite app_length; lia).
  rewrite app_length. rewrite <- !app_assoc. cbn [app].
  apply v_rotate_right_one.
Qed.

Lemma thai_loop_pm : forall fuel P R, thai_loop fuel (P ++ R) (length P) = thai_pm fuel P R.
Proof.
  induction fuel as [|f IH]; intros P R; cbn [thai_loop thai_pm]; [reflexivity|].
  destruct R as [|c R'].
  - rewrite app_nil_r. rewrite Nat.ltb_irrefl. reflexivity.
  - replace (length P <? length (P ++ c :: R'))%nat with true
      by (symmetry; apply Nat.ltb_lt; rewrite app_length; cbn [length]; lia).
    rewrite v_get_app. cbn [bind].
    destruct (split_am_vowel c) as [[c1 c2]|] eqn:Es.
    + rewrite v_set_app. cbn [bind].
      rewrite v_insert_app1. cbn [bind].
      rewrite thai_scan_back_ok by lia. cbn [bind].
      rewrite rotate_ins. cbn [bind].
      replace (length P + 1)%nat with (length (ins_above P c1)) by (rewrite ins_above_length; lia).
      apply IH.
    + replace (P ++ c :: R') with ((P ++ [c]) ++ R') by (rewrite <- app_assoc; reflexivity).
      replace (length P + 1)%nat with (length (P ++ [c])) by (rewrite app_length; cbn [length]; lia).
      apply IH.
Qed.

(* ---- the specification: one pass, no fuel ---- *)
Fixpoint thai_spec (P R : list Z) : list Z :=
  match R with
  | [] => P
  | c :: R' =>
    match split_am_vowel c with
    | Some (c1, c2) => thai_spec (ins_above P c1 ++ [c2]) R'
    | None => thai_spec (P ++ [c]) R'
    end
  end.

Lemma thai_pm_spec : forall R fuel P, (2 * length R < fuel)%nat -> thai_pm fuel P R = Ok (thai_spec P R).
Proof.
  induction R as [|c R' IH]; intros fuel P Hf.
  - destruct fuel as [|f]; [cbn [length] in Hf; lia|]. reflexivity.
  - cbn [length] in Hf. destruct fuel as [|f]; [lia|]. cbn [thai_pm thai_spec].
    destruct (split_am_vowel c) as [[c1 c2]|] eqn:Es.
    + destruct (am_second_closed c c1 c2 Es) as [Hn _].
      destruct f as [|f']; [lia|]. cbn [thai_pm]. rewrite Hn. apply IH. lia.
    + apply IH. lia.
Qed.

Lemma thai_loop_ok cs : thai_loop (2 * length cs + 1) cs 0 = Ok (thai_spec [] cs).
Proof.
  change cs with ([] ++ cs) at 2. change O with (length (@nil Z)).
  rewrite thai_loop_pm. apply thai_pm_spec. lia.
Qed.

Section ThaiClass.
Variable class : Z -> Z.

Definition thai_p (cs : list Z) : list Z := sort_p class (thai_spec [] cs).

Lemma thai_ok cs : thai_reorder_marks class cs = Ok (thai_p cs).
Proof. unfold thai_reorder_marks. rewrite thai_loop_ok. cbn [bind]. apply sort_ok. Qed.
End ThaiClass.

(* ---- properties of the specification ---- *)
Lemma thai_spec_app : forall l1 P l2, thai_spec P (l1 ++ l2) = thai_spec (thai_spec P l1) l2.
Proof.
  induction l1 as [|c t IH]; intros P l2; cbn [app thai_spec]; [reflexivity|].
  destruct (split_am_vowel c) as [[c1 c2]|]; apply IH.
Qed.

(* content: the input with every SARA AM replaced by its two parts *)
Lemma thai_spec_perm : forall R P, Permutation (P ++ flat_map expand_am R) (thai_spec P R).
Proof.
  induction R as [|c R' IH]; intro P; cbn [flat_map thai_spec].
  - rewrite app_nil_r. apply Permutation_refl.
  - unfold expand_am at 1. destruct (split_am_vowel c) as [[c1 c2]|].
    + eapply perm_trans; [|apply IH]. cbn [app].
      replace (P ++ c1 :: c2 :: flat_map expand_am R') with ((P ++ [c1]) ++ c2 :: flat_map expand_am R')
        by (rewrite <- app_assoc; reflexivity).
      replace ((ins_above P c1 ++ [c2]) ++ flat_map expand_am R') with (ins_above P c1 ++ c2 :: flat_map expand_am R')
        by (rewrite <- app_assoc; reflexivity).
      apply Permutation_app_tail. apply ins_above_perm.
    + eapply perm_trans; [|apply IH]. rewrite <- app_assoc. apply Permutation_refl.
Qed.

(* what is already behind a non-above-base character is never touched again *)
Lemma thai_spec_prefix X b : is_abovebase_mark b = false ->
  forall R P, thai_spec (X ++ b :: P) R = X ++ b :: thai_spec P R.
Proof.
  intro Hb. induction R as [|c R' IH]; intro P; cbn [thai_spec]; [reflexivity|].
  destruct (split_am_vowel c) as [[c1 c2]|].
  - rewrite ins_above_barrier by exact Hb. rewrite <- app_assoc. cbn [app]. apply IH.
  - rewrite <- app_assoc. cbn [app]. apply IH.
Qed.

(* barrier: a character that is neither an above-base mark nor a SARA AM keeps everything before it
   before it and everything after it after it *)
Lemma thai_spec_barrier l1 b l2 : is_abovebase_mark b = false -> split_am_vowel b = None ->
  thai_spec [] (l1 ++ b :: l2) = thai_spec [] l1 ++ b :: thai_spec [] l2.
Proof.
  intros Hb Hs. rewrite thai_spec_app. cbn [thai_spec]. rewrite Hs.
  apply thai_spec_prefix. exact Hb.
Qed.

(* a SARA AM is a barrier too: its second part stays where the AM was, its first part goes in front
   of the above-base marks that precede it *)
Lemma thai_spec_am l1 c c1 c2 l2 : split_am_vowel c = Some (c1, c2) ->
  thai_spec [] (l1 ++ c :: l2) = ins_above (thai_spec [] l1) c1 ++ c2 :: thai_spec [] l2.
Proof.
  intro Hs. rewrite thai_spec_app. cbn [thai_spec]. rewrite Hs.
  destruct (am_second_closed c c1 c2 Hs) as [_ Hna].
  apply thai_spec_prefix. exact Hna.
Qed.

(* marks that are not split are appended in order *)
Lemma thai_spec_nosplit : forall R P, Forall (fun c => split_am_vowel c = None) R -> thai_spec P R = P ++ R.
Proof.
  induction R as [|c R' IH]; intros P H; cbn [thai_spec]; [rewrite app_nil_r; reflexivity|].
  inversion H as [|? ? Hc Ht]; subst. rewrite Hc. rewrite IH by exact Ht. rewrite <- app_assoc. reflexivity.
Qed.

(* the exact effect on one cluster: front (ending in a non-above-base character), above-base marks, SARA AM *)
Lemma thai_spec_cluster front ms c c1 c2 :
  closed_front front -> Forall (fun x => split_am_vowel x = None) front ->
  Forall above ms -> Forall (fun x => split_am_vowel x = None) ms ->
  split_am_vowel c = Some (c1, c2) ->
  thai_spec [] (front ++ ms ++ [c]) = front ++ c1 :: ms ++ [c2].
Proof.
  intros Hf Hfn Hms Hmn Hs.
  rewrite app_assoc. rewrite (thai_spec_am (front ++ ms) c c1 c2 [] Hs). cbn [thai_spec].
  rewrite thai_spec_nosplit by (apply Forall_app; split; assumption). cbn [app].
  rewrite ins_above_decomp by assumption. rewrite <- app_assoc. reflexivity.
Qed.
