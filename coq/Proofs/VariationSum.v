(* Proofs/VariationSum.v — property C12: the deltas glyph_deltas returns are, point by point, the sum
   over the applicable tuple variations of (tuple scalar * that tuple's delta for the point), where
   a tuple's deltas are its explicit deltas completed by the inferred ones (VariationIup.v). *)
From AV Require Import Base.Prelude Base.Lemmas Gen.VariationConsts Model.Variation
  Proofs.VariationScalar Proofs.VariationIup.
From Coq Require Import QArith Lia.
Local Open Scope Z_scope.

(* the contributions of the applicable headers, in order: (scalar, the region's deltas for all points) *)
Fixpoint contributions (g : glyph) (np : Z) (shared : list (list Z)) (inst : list Z)
                       (sp : option point_numbers) (hs : list tvh) : outcome (list (Q * list qpair)) :=
  match hs with
  | [] => Ok []
  | h :: rest =>
    match header_scalar shared inst h with
    | None => contributions g np shared inst sp rest
    | Some scale =>
      '(pn, xs, ys) <- variation_data h np sp ;;
      let pairs := zip3 (pn_list pn) xs ys in
      region <- match g with
                | GSimple coords endpts => region_deltas_simple coords endpts np pairs
                | _ => region_deltas_other np pairs
                end ;;
      cs <- contributions g np shared inst sp rest ;;
      Ok ((scale, region) :: cs)
    end
  end.

Definition add_contribution (acc : list qpair) (c : Q * list qpair) : list qpair :=
  zip_with (qadd_scaled (fst c)) acc (snd c).

(* accumulate_regions succeeds exactly when every applicable header's data decodes, and then it is
   the left fold of the contributions; when it fails it fails with the first failing header's error *)
Lemma accumulate_regions_fold g np shared inst sp : forall hs final,
  match contributions g np shared inst sp hs with
  | Ok cs => accumulate_regions g np shared inst sp hs final = Ok (fold_left add_contribution cs final)
  | Err e => accumulate_regions g np shared inst sp hs final = Err e
  | Panic => accumulate_regions g np shared inst sp hs final = Panic
  | OOB => accumulate_regions g np shared inst sp hs final = OOB
  end.
Proof.
  induction hs as [|h hs IH]; intros final; [reflexivity|].
  cbn [contributions accumulate_regions].
  destruct (header_scalar shared inst h) as [scale|]; [|apply IH].
  destruct (variation_data h np sp) as [[[pn xs] ys]|e| |]; cbn [bind]; try reflexivity.
  set (region := match g with
                 | GSimple coords endpts => region_deltas_simple coords endpts np (zip3 (pn_list pn) xs ys)
                 | _ => region_deltas_other np (zip3 (pn_list pn) xs ys)
                 end).
  destruct region as [rg|e| |]; cbn [bind]; try reflexivity.
  specialize (IH (zip_with (qadd_scaled scale) final rg)).
  destruct (contributions g np shared inst sp hs) as [cs|e| |]; cbn [bind fold_left]; exact IH.
Qed.

(* pointwise sums *)
Definition qfst (l : list qpair) (k : nat) : Q := fst (nth k l (0%Q, 0%Q)).
Definition qsnd (l : list qpair) (k : nat) : Q := snd (nth k l (0%Q, 0%Q)).

Fixpoint sum_fst (cs : list (Q * list qpair)) (k : nat) : Q :=
  match cs with [] => 0%Q | c :: r => (fst c * qfst (snd c) k + sum_fst r k)%Q end.
Fixpoint sum_snd (cs : list (Q * list qpair)) (k : nat) : Q :=
  match cs with [] => 0%Q | c :: r => (fst c * qsnd (snd c) k + sum_snd r k)%Q end.

Lemma zip_with_length {A B C} (f : A -> B -> C) : forall a b, length a = length b -> length (zip_with f a b) = length a.
Proof.
  induction a as [|x a IH]; intros b H; [reflexivity|]. destruct b as [|y b]; [discriminate|].
  cbn [zip_with length]. f_equal. apply IH. cbn [length] in H. lia.
Qed.

Lemma zip_with_nth {A B C} (f : A -> B -> C) (da : A) (db : B) (dc : C) : forall a b k,
  length a = length b -> (k < length a)%nat -> nth k (zip_with f a b) dc = f (nth k a da) (nth k b db).
Proof.
  induction a as [|x a IH]; intros b k H Hk; cbn [length] in Hk; [lia|].
  destruct b as [|y b]; [discriminate|]. destruct k as [|k]; cbn [zip_with nth]; [reflexivity|].
  apply IH; cbn [length] in *; lia.
Qed.

Lemma fold_contributions_nth : forall cs final k,
  Forall (fun c => length (snd c) = length final) cs -> (k < length final)%nat ->
  length (fold_left add_contribution cs final) = length final /\
  (qfst (fold_left add_contribution cs final) k == qfst final k + sum_fst cs k)%Q /\
  (qsnd (fold_left add_contribution cs final) k == qsnd final k + sum_snd cs k)%Q.
Proof.
  induction cs as [|c cs IH]; intros final k H Hk.
  { cbn [fold_left sum_fst sum_snd]. split; [reflexivity|]. split; ring. }
  inversion H as [|? ? Hc Hcs]; subst. cbn [fold_left sum_fst sum_snd].
  assert (L : length (add_contribution final c) = length final).
  { unfold add_contribution. apply zip_with_length. symmetry. exact Hc. }
  destruct (IH (add_contribution final c) k) as (L2 & A & B).
  { eapply Forall_impl; [|exact Hcs]. cbv beta. intros c0 Hc0. rewrite L. exact Hc0. }
  { rewrite L. exact Hk. }
  split; [rewrite L2; exact L|].
  assert (Step : nth k (add_contribution final c) (0%Q, 0%Q)
                 = qadd_scaled (fst c) (nth k final (0%Q, 0%Q)) (nth k (snd c) (0%Q, 0%Q))).
  { unfold add_contribution. apply zip_with_nth; [symmetry; exact Hc|exact Hk]. }
  assert (SA : (qfst (add_contribution final c) k == qfst final k + fst c * qfst (snd c) k)%Q).
  { unfold qfst. rewrite Step. unfold qadd_scaled. cbn [fst snd]. rewrite Qred_correct. ring. }
  assert (SB : (qsnd (add_contribution final c) k == qsnd final k + fst c * qsnd (snd c) k)%Q).
  { unfold qsnd. rewrite Step. unfold qadd_scaled. cbn [fst snd]. rewrite Qred_correct. ring. }
  split; [rewrite A, SA|rewrite B, SB]; ring.
Qed.

(* lengths: every region's delta list has one entry per point (phantom points included) *)
Lemma infer_contour_from_length : forall k m coords s e t deltas d',
  infer_contour_from m coords s e t k deltas = Ok d' -> length d' = length deltas.
Proof.
  induction k as [|k IH]; intros m coords s e t deltas d' H; cbn [infer_contour_from] in H.
  - injection H as <-. reflexivity.
  - destruct (ref_at m t); [exact (IH _ _ _ _ _ _ _ H)|].
    destruct (next_ref m s e t) as [nx|]; [|discriminate].
    destruct (prev_ref m s e t) as [pv|]; [|discriminate].
    destruct (infer_delta coords t pv nx) as [d| | |]; cbn [bind] in H; try discriminate.
    rewrite (IH _ _ _ _ _ _ _ H). apply set_nth_length.
Qed.

Lemma infer_one_contour_length m coords s e deltas d' :
  infer_one_contour m coords s e deltas = Ok d' -> length d' = length deltas.
Proof.
  unfold infer_one_contour. intros H.
  destruct (count_ref m s (Z.to_nat (e - s + 1)) =? 0); [injection H as <-; reflexivity|].
  destruct (count_ref m s (Z.to_nat (e - s + 1)) =? 1).
  { destruct (find_first m s (Z.to_nat (e - s + 1))) as [[i d]|]; [|discriminate].
    injection H as <-. apply fill_range_length. }
  destruct (count_ref m s (Z.to_nat (e - s + 1)) =? e - s + 1); [injection H as <-; reflexivity|].
  exact (infer_contour_from_length _ _ _ _ _ _ _ _ H).
Qed.

Lemma infer_contours_length : forall endpts m coords begin deltas d',
  infer_contours m coords begin endpts deltas = Ok d' -> length d' = length deltas.
Proof.
  induction endpts as [|e rest IH]; intros m coords begin deltas d' H; cbn [infer_contours] in H.
  - injection H as <-. reflexivity.
  - destruct ((e <? begin) || (len coords <=? e)); [discriminate|].
    destruct (infer_one_contour m coords begin e deltas) as [d1| | |] eqn:E1; cbn [bind] in H; try discriminate.
    rewrite (IH _ _ _ _ _ H). exact (infer_one_contour_length _ _ _ _ _ _ E1).
Qed.

Lemma build_emap_length np pairs m : 0 <= np -> build_emap np pairs = Ok m -> length m = Z.to_nat np.
Proof.
  intros Hnp H. unfold build_emap in H. destruct (existsb _ pairs); [discriminate|]. injection H as <-.
  assert (L : forall ps (m : emap), length (fold_left (fun m p => set_nth m (Z.to_nat (fst p)) (Some (snd p))) ps m) = length m).
  { induction ps as [|p ps IHp]; intros m0; cbn [fold_left]; [reflexivity|]. rewrite IHp, set_nth_length. reflexivity. }
  rewrite L, repeat_length. reflexivity.
Qed.

Lemma region_length g np pairs rg : 0 <= np ->
  match g with
  | GSimple coords endpts => region_deltas_simple coords endpts np pairs
  | _ => region_deltas_other np pairs
  end = Ok rg -> length rg = Z.to_nat np.
Proof.
  intros Hnp H.
  assert (Other : forall rg, region_deltas_other np pairs = Ok rg -> length rg = Z.to_nat np).
  { intros r Hr. unfold region_deltas_other in Hr. destruct (build_emap np pairs) as [m| | |] eqn:E; cbn [bind] in Hr; try discriminate.
    injection Hr as <-. unfold explicit_region. rewrite map_length. exact (build_emap_length np pairs m Hnp E). }
  destruct g as [|coords endpts|cs]; [exact (Other rg H)| |exact (Other rg H)].
  unfold region_deltas_simple in H. destruct (build_emap np pairs) as [m| | |] eqn:E; cbn [bind] in H; try discriminate.
  pose proof (build_emap_length np pairs m Hnp E) as Lm.
  destruct (count_ref m 0 (Z.to_nat np) =? np).
  - injection H as <-. unfold explicit_region. rewrite map_length. exact Lm.
  - rewrite (infer_contours_length _ _ _ _ _ _ H). unfold explicit_region. rewrite map_length. exact Lm.
Qed.

Lemma contributions_lengths g np shared inst sp : forall hs cs, 0 <= np ->
  contributions g np shared inst sp hs = Ok cs -> Forall (fun c => length (snd c) = Z.to_nat np) cs.
Proof.
  induction hs as [|h hs IH]; intros cs Hnp H; cbn [contributions] in H.
  - injection H as <-. constructor.
  - destruct (header_scalar shared inst h) as [scale|]; [|exact (IH cs Hnp H)].
    destruct (variation_data h np sp) as [[[pn xs] ys]| | |]; cbn [bind] in H; try discriminate.
    destruct (match g with
              | GSimple coords endpts => region_deltas_simple coords endpts np (zip3 (pn_list pn) xs ys)
              | _ => region_deltas_other np (zip3 (pn_list pn) xs ys)
              end) as [rg| | |] eqn:Er; cbn [bind] in H; try discriminate.
    destruct (contributions g np shared inst sp hs) as [cs'| | |] eqn:Ec; cbn [bind] in H; try discriminate.
    injection H as <-. constructor; [cbn [snd]; exact (region_length g np _ rg Hnp Er)|exact (IH cs' Hnp eq_refl)].
Qed.

(* THE sum theorem: when glyph_deltas succeeds with variation data, the delta of every point k
   (phantom points included) is, in each direction, the sum over the applicable tuples of
   scalar * (that tuple's delta for point k) *)
Lemma glyph_deltas_is_sum g axis_count shared inst data deltas :
  glyph_deltas g axis_count shared inst data = Ok (Some deltas) ->
  exists st cs,
    read_store axis_count (number_of_points g + 4) data = Ok st /\
    contributions g (number_of_points g + 4) shared inst (tvs_shared_points st) (tvs_headers st) = Ok cs /\
    length deltas = Z.to_nat (number_of_points g + 4) /\
    forall k, (k < length deltas)%nat ->
      (qfst deltas k == sum_fst cs k)%Q /\ (qsnd deltas k == sum_snd cs k)%Q.
Proof.
  unfold glyph_deltas. intros H.
  destruct (len data =? 0); [discriminate|].
  set (np := number_of_points g + 4) in *.
  assert (Hnp0 : 0 <= number_of_points g) by (destruct g; cbn [number_of_points]; try lia; apply len_nonneg).
  assert (Hnp : 0 <= np) by (subst np; lia).
  destruct (read_store axis_count np data) as [st| | |] eqn:Es; cbn [bind] in H; try discriminate.
  pose proof (accumulate_regions_fold g np shared inst (tvs_shared_points st) (tvs_headers st) (repeat (0%Q, 0%Q) (Z.to_nat np))) as F.
  destruct (contributions g np shared inst (tvs_shared_points st) (tvs_headers st)) as [cs| | |] eqn:Ec;
    rewrite F in H; cbn [bind] in H; try discriminate.
  injection H as <-.
  exists st, cs. split; [try reflexivity; exact Es|]. split; [try reflexivity; exact Ec|].
  pose proof (contributions_lengths g np shared inst _ _ cs Hnp Ec) as Ls.
  assert (Ls' : Forall (fun c => length (snd c) = length (repeat (0%Q, 0%Q) (Z.to_nat np))) cs).
  { eapply Forall_impl; [|exact Ls]. cbv beta. intros c Hc. rewrite repeat_length. exact Hc. }
  split.
  - destruct cs as [|c cs']; [cbn [fold_left]; apply repeat_length|].
    destruct (fold_contributions_nth (c :: cs') (repeat (0%Q, 0%Q) (Z.to_nat np)) 0 Ls') as (L & _ & _).
    + rewrite repeat_length. subst np. lia.
    + rewrite L. apply repeat_length.
  - intros k Hk.
    assert (Hk' : (k < length (repeat (0%Q, 0%Q) (Z.to_nat np)))%nat).
    { destruct cs as [|c cs']; [exact Hk|].
      destruct (fold_contributions_nth (c :: cs') (repeat (0%Q, 0%Q) (Z.to_nat np)) 0 Ls') as (L & _ & _).
      - first [exact (eq_ind _ (fun n => (k < n)%nat) Hk _ L) | rewrite repeat_length; subst np; lia].
      - first [exact (eq_ind _ (fun n => (k < n)%nat) Hk _ L) | rewrite repeat_length; subst np; lia]. }
    destruct (fold_contributions_nth cs (repeat (0%Q, 0%Q) (Z.to_nat np)) k Ls' Hk') as (_ & A & B).
    unfold qfst, qsnd in *. unfold qpair in *.
    rewrite nth_repeat in A, B. cbn [fst snd] in A, B.
    split; [rewrite A|rewrite B]; ring.
Qed.
