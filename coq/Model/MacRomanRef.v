(* Model/MacRomanRef.v — reference: the Mac OS Roman to Unicode mapping published by Apple / the Unicode
   Consortium (MAPPINGS/VENDORS/APPLE/ROMAN.TXT, the table also shipped as Python's `mac_roman`
   codec), bytes 0x80..0xFF in order.  Bytes 0x00..0x7F are ASCII.  Kept by hand; independent of
   src/macroman.rs.  Two entries are version dependent: 0xDB is U+20AC EURO SIGN since Mac OS 8.5
   (U+00A4 CURRENCY SIGN before), 0xF0 is the Apple logo in the private use area (U+F8FF). *)
From Coq Require Import List ZArith.
Import ListNotations.
Open Scope Z_scope.

Definition macroman_ref_upper : list Z := [
  196; 197; 199; 201; 209; 214; 220; 225;
  224; 226; 228; 227; 229; 231; 233; 232;
  234; 235; 237; 236; 238; 239; 241; 243;
  242; 244; 246; 245; 250; 249; 251; 252;
  8224; 176; 162; 163; 167; 8226; 182; 223;
  174; 169; 8482; 180; 168; 8800; 198; 216;
  8734; 177; 8804; 8805; 165; 181; 8706; 8721;
  8719; 960; 8747; 170; 186; 937; 230; 248;
  191; 161; 172; 8730; 402; 8776; 8710; 171;
  187; 8230; 160; 192; 195; 213; 338; 339;
  8211; 8212; 8220; 8221; 8216; 8217; 247; 9674;
  255; 376; 8260; 8364; 8249; 8250; 64257; 64258;
  8225; 183; 8218; 8222; 8240; 194; 202; 193;
  203; 200; 205; 206; 207; 204; 211; 212;
  63743; 210; 218; 219; 217; 305; 710; 732;
  175; 728; 729; 730; 184; 733; 731; 711
].

Definition macroman_ref (b : Z) : Z :=
  if b <? 128 then b else nth (Z.to_nat (b - 128)) macroman_ref_upper 0.
