(* Model/Gpos.v — src/gpos.rs (glyph positioning) and the GPOS subtable lookups of src/layout.rs
   (ValueFormat masking, SinglePos, PairPos, CursivePos, MarkBasePos/MarkMarkPos, MarkLigPos ::apply), the
   legacy kern lookup of src/tables/kern.rs, over the abstract lookup program of Model/Layout.v.
   Function by function after the Rust; no proofs here.  tuple = None throughout (variation deltas are 0.0).

   The accumulating additions (`info.kerning.saturating_add(..)`, `an1.x.saturating_add(..)`,
   `Distance(x1.saturating_add(x2), ..)`, `kerning.saturating_add(value)` in apply_kern) saturate at the bounds of
   the i16 / i32 field: sat_add16 / sat_add32.  They are total and the same in every build profile, hence
   combine_distance, Adjust::apply and the kern sum are plain functions (as in the Rust, where they return ()). *)
From AV Require Import Base.Prelude Gen.LayoutConsts Gen.GposConsts Model.Layout.
Open Scope Z_scope.

(* iN::saturating_add on operands that are iN values: the mathematical sum clamped to [-2^(N-1), 2^(N-1) - 1] *)
Definition sat_signed (bits : Z) (v : Z) : Z :=
  if v <? - 2 ^ (bits - 1) then - 2 ^ (bits - 1)
  else if 2 ^ (bits - 1) <=? v then 2 ^ (bits - 1) - 1
  else v.
Definition sat_add16 (a b : Z) : Z := sat_signed 16 (a + b).
Definition sat_add32 (a b : Z) : Z := sat_signed 32 (a + b).

(* ------------------------------------------------------------------ Info / Placement (gpos.rs:456-554) *)
Definition anchor := (Z * Z)%type.

Inductive placement :=
| PNone
| PDistance (dx dy : Z)
| PMarkAnchor (base : Z) (base_anchor mark_anchor : anchor)
| PMarkOverprint (base : Z)
| PCursiveAnchor (exit : Z) (rtl : bool) (exit_anchor entry_anchor : anchor).

Record info := mkInfo {
  i_id : Z;              (* glyph.glyph_index *)
  i_pos : Z;             (* glyph.liga_component_pos *)
  i_lig : bool;          (* glyph.ligature() *)
  i_kern : Z;            (* kerning : i16 *)
  i_place : placement;
  i_mark : bool          (* is_mark *)
}.

Definition iids (l : list info) : list Z := map i_id l.

Definition set_kern (x : info) (k : Z) : info := mkInfo (i_id x) (i_pos x) (i_lig x) k (i_place x) (i_mark x).
Definition set_place (x : info) (p : placement) : info := mkInfo (i_id x) (i_pos x) (i_lig x) (i_kern x) p (i_mark x).
Definition set_mark (x : info) : info := mkInfo (i_id x) (i_pos x) (i_lig x) (i_kern x) (i_place x) true.

(* Info::init_from_glyphs *)
Definition init_info (gd : option gdef) (id pos : Z) (lig : bool) : info :=
  mkInfo id pos lig 0 PNone (gdef_is_mark gd id).

Definition iget (l : list info) (i : Z) : outcome info :=
  match nth_opt l i with Some x => Ok x | None => Panic end.
Definition iset (l : list info) (i : Z) (x : info) : list info :=
  take i l ++ match drop i l with [] => [] | _ :: t => x :: t end.

(* ------------------------------------------------------------------ ValueRecord (layout.rs:1645-1833) *)
(* the four design-unit fields; the device / variation-index fields are read but yield None without a tuple *)
Record adjust := mkAdj { x_placement : Z; y_placement : Z; x_advance : Z; y_advance : Z }.

(* ValueRecord = Option<Adjust> as ValueRecord::read_dep delivers it for a record whose stored fields are v:
   None for the empty format, otherwise the fields whose bit is set, the others 0 *)
Definition bit_set (flags i : Z) : bool := negb (Z.land flags (Z.shiftl 1 i) =? 0).

Definition value_record (fmt : Z) (v : adjust) : option adjust :=
  if fmt =? 0 then None
  else Some (mkAdj (if bit_set fmt VF_X_PLACEMENT then x_placement v else 0)
                   (if bit_set fmt VF_Y_PLACEMENT then y_placement v else 0)
                   (if bit_set fmt VF_X_ADVANCE then x_advance v else 0)
                   (if bit_set fmt VF_Y_ADVANCE then y_advance v else 0)).

(* Placement::combine_distance *)
Definition combine_distance (p : placement) (x2 y2 : Z) : placement :=
  match p with
  | PNone | PMarkOverprint _ | PCursiveAnchor _ _ _ _ => PDistance x2 y2
  | PDistance x1 y1 => PDistance (sat_add32 x1 x2) (sat_add32 y1 y2)
  | PMarkAnchor i (ax, ay) an2 =>
    PMarkAnchor i (sat_add16 ax (to_signed 16 x2), sat_add16 ay (to_signed 16 y2)) an2      (* `x2 as i16` *)
  end.

(* Adjust::apply with tuple = None (x_advance_delta = 0: self.x_advance.saturating_add(0) = self.x_advance) *)
Definition adjust_apply (a : adjust) (x : info) : info :=
  if (x_placement a =? 0) && (y_placement a =? 0) then
    if negb (x_advance a =? 0) && (y_advance a =? 0) then set_kern x (sat_add16 (i_kern x) (x_advance a))
    else if negb (y_advance a =? 0) then x
    else set_kern x (sat_add16 (i_kern x) 0)
  else if y_advance a =? 0 then
    set_kern (set_place x (combine_distance (i_place x) (x_placement a) (y_placement a)))
             (sat_add16 (i_kern x) (x_advance a))
  else x.

(* ------------------------------------------------------------------ subtables *)
Inductive single_pos :=
| SinglePosF1 (cov : coverage) (fmt : Z) (v : adjust)
| SinglePosF2 (cov : coverage) (fmt : Z) (vs : list adjust).

Record pair_value := mkPV { pv_second : Z; pv_v1 : adjust; pv_v2 : adjust }.

Inductive pair_pos :=
| PairPosF1 (cov : coverage) (fmt1 fmt2 : Z) (pairsets : list (list pair_value))
| PairPosF2 (cov : coverage) (fmt1 fmt2 : Z) (cd1 cd2 : classdef) (class2_count : Z)
            (class1_records : list (list (adjust * adjust))).

Record cursive_pos := mkCurs { cp_cov : coverage; cp_records : list (option anchor * option anchor) }.  (* entry, exit *)

(* MarkBasePos, also used for MarkMarkPos *)
Record mark_base_pos := mkMB {
  mb_mark_cov : coverage; mb_base_cov : coverage; mb_class_count : Z;
  mb_marks : list (Z * anchor);                    (* mark_class, mark_anchor *)
  mb_bases : list (list (option anchor))           (* base_records[..].base_anchors[mark_class] *)
}.

Record mark_lig_pos := mkML {
  ml_mark_cov : coverage; ml_lig_cov : coverage; ml_class_count : Z;
  ml_marks : list (Z * anchor);
  ml_ligs : list (list (list (option anchor)))     (* ligature_attaches[..].component_records[..].ligature_anchors[class] *)
}.

Inductive pos_lookup :=
| LSinglePos (l : list single_pos)
| LPairPos (l : list pair_pos)
| LCursivePos (l : list cursive_pos)
| LMarkBasePos (l : list mark_base_pos)
| LMarkLigPos (l : list mark_lig_pos)
| LMarkMarkPos (l : list mark_base_pos)
| LContextPos (l : list context_lookup)
| LChainContextPos (l : list chain_context_lookup).

Record plookup := mkPLookup { pl_flag : Z; pl_mfs : option Z; pl_body : pos_lookup }.

(* `for s in subtables { if let Some(x) = s.apply(..)? { return Ok(Some(x)) } } Ok(None)` *)
Fixpoint first_sub {S A} (f : S -> outcome (option A)) (subs : list S) : outcome (option A) :=
  match subs with
  | [] => Ok None
  | s :: t => r <- f s ;; match r with Some a => Ok (Some a) | None => first_sub f t end
  end.

(* SinglePos::apply: Ok(None) both for "not covered" and for a covered glyph whose record is None *)
Definition single_pos_apply (s : single_pos) (g : Z) : outcome (option adjust) :=
  match s with
  | SinglePosF1 cov fmt v => if covers cov g then Ok (value_record fmt v) else Ok None
  | SinglePosF2 cov fmt vs =>
    match coverage_value cov g with
    | Some ci => v <- checked_nth vs ci ;; Ok (value_record fmt v)
    | None => Ok None
    end
  end.

(* the linear scan of a PairSet: first record whose second glyph matches *)
Fixpoint find_pair (g2 : Z) (l : list pair_value) : option pair_value :=
  match l with
  | [] => None
  | p :: t => if pv_second p =? g2 then Some p else find_pair g2 t
  end.

Definition pair_pos_apply (s : pair_pos) (g1 g2 : Z) : outcome (option (option adjust * option adjust)) :=
  match s with
  | PairPosF1 cov fmt1 fmt2 pairsets =>
    match coverage_value cov g1 with
    | Some ci =>
      set <- checked_nth pairsets ci ;;
      match find_pair g2 set with
      | Some p => Ok (Some (value_record fmt1 (pv_v1 p), value_record fmt2 (pv_v2 p)))
      | None => Ok None
      end
    | None => Ok None
    end
  | PairPosF2 cov fmt1 fmt2 cd1 cd2 c2count rows =>
    if covers cov g1 then
      let c1 := class_value cd1 g1 in
      let c2 := class_value cd2 g2 in
      if (c1 <? len rows) && (c2 <? c2count) then
        match nth_opt rows c1 with
        | Some row =>
          match nth_opt row c2 with                      (* class1_record.class2_records[class2_value] *)
          | Some (v1, v2) => Ok (Some (value_record fmt1 v1, value_record fmt2 v2))
          | None => Panic
          end
        | None => Panic
        end
      else Err BadIndex
    else Ok None
  end.

(* CursivePos::apply: (glyph1 exit, glyph2 entry) *)
Definition cursive_pos_apply (s : cursive_pos) (g1 g2 : Z) : outcome (option (anchor * anchor)) :=
  match coverage_value (cp_cov s) g1, coverage_value (cp_cov s) g2 with
  | Some c1, Some c2 =>
    r1 <- checked_nth (cp_records s) c1 ;;
    r2 <- checked_nth (cp_records s) c2 ;;
    match snd r1, fst r2 with
    | Some ex, Some en => Ok (Some (ex, en))
    | _, _ => Ok None
    end
  | _, _ => Ok None
  end.

(* MarkBasePos::apply: glyph1 = base, glyph2 = mark; (base anchor, mark anchor) *)
Definition mark_base_pos_apply (s : mark_base_pos) (g1 g2 : Z) : outcome (option (anchor * anchor)) :=
  match coverage_value (mb_base_cov s) g1, coverage_value (mb_mark_cov s) g2 with
  | Some bi, Some mi =>
    brec <- checked_nth (mb_bases s) bi ;;
    mrec <- checked_nth (mb_marks s) mi ;;
    let cls := fst mrec in
    if cls <? mb_class_count s then
      match nth_opt brec cls with                        (* base_record.base_anchors[mark_class] *)
      | Some (Some ba) => Ok (Some (ba, snd mrec))
      | Some None => Ok None
      | None => Panic
      end
    else Err BadIndex
  | _, _ => Ok None
  end.

Definition mark_lig_pos_apply (s : mark_lig_pos) (g1 g2 comp : Z) : outcome (option (anchor * anchor)) :=
  match coverage_value (ml_lig_cov s) g1, coverage_value (ml_mark_cov s) g2 with
  | Some li, Some mi =>
    mrec <- checked_nth (ml_marks s) mi ;;
    let cls := fst mrec in
    if cls <? ml_class_count s then
      att <- checked_nth (ml_ligs s) li ;;
      if comp <? len att then
        match nth_opt att comp with
        | Some crec =>
          match nth_opt crec cls with
          | Some (Some la) => Ok (Some (la, snd mrec))
          | Some None => Ok None
          | None => Panic
          end
        | None => Panic
        end
      else Ok None
    else Err BadIndex
  | _, _ => Ok None
  end.

(* ------------------------------------------------------------------ per-pair actions (gpos.rs:712-831) *)
Definition singlepos (subs : list single_pos) (x : info) : outcome info :=
  r <- first_sub (fun s => single_pos_apply s (i_id x)) subs ;;
  match r with Some adj => Ok (adjust_apply adj x) | None => Ok x end.

Definition update_at (f : info -> outcome info) (l : list info) (i : Z) : outcome (list info) :=
  x <- iget l i ;; x' <- f x ;; Ok (iset l i x').

Definition pairpos (subs : list pair_pos) (i1 i2 : Z) (l : list info) : outcome (list info) :=
  x1 <- iget l i1 ;; x2 <- iget l i2 ;;
  r <- first_sub (fun s => pair_pos_apply s (i_id x1) (i_id x2)) subs ;;
  match r with
  | Some (a1, a2) =>
    l1 <- match a1 with Some a => update_at (fun x => Ok (adjust_apply a x)) l i1 | None => Ok l end ;;
    match a2 with Some a => update_at (fun x => Ok (adjust_apply a x)) l1 i2 | None => Ok l1 end
  | None => Ok l
  end.

Definition cursivepos (subs : list cursive_pos) (i1 i2 : Z) (flag : Z) (l : list info) : outcome (list info) :=
  x1 <- iget l i1 ;; x2 <- iget l i2 ;;
  r <- first_sub (fun s => cursive_pos_apply s (i_id x1) (i_id x2)) subs ;;
  match r with
  | Some (anchor1, anchor2) => Ok (iset l i1 (set_place x1 (PCursiveAnchor i2 (get_rtl flag) anchor2 anchor1)))
  | None => Ok l
  end.

Definition attach_mark (l : list info) (i1 i2 : Z) (x2 : info) (r : option (anchor * anchor)) : list info :=
  match r with
  | Some (anchor1, anchor2) => iset l i2 (set_mark (set_place x2 (PMarkAnchor i1 anchor1 anchor2)))
  | None => l
  end.

Definition markbasepos (subs : list mark_base_pos) (i1 i2 : Z) (l : list info) : outcome (list info) :=
  x1 <- iget l i1 ;; x2 <- iget l i2 ;;
  r <- first_sub (fun s => mark_base_pos_apply s (i_id x1) (i_id x2)) subs ;;
  Ok (attach_mark l i1 i2 x2 r).

Definition markligpos (subs : list mark_lig_pos) (i1 i2 : Z) (l : list info) : outcome (list info) :=
  x1 <- iget l i1 ;; x2 <- iget l i2 ;;
  r <- first_sub (fun s => mark_lig_pos_apply s (i_id x1) (i_id x2) (i_pos x2)) subs ;;
  Ok (attach_mark l i1 i2 x2 r).

(* ------------------------------------------------------------------ iteration strategies (gpos.rs:632-710) *)
Definition action := list info -> outcome (list info).

(* forall_glyphs_match: `for i in 0..infos.len()`, n = glyphs still to visit *)
Fixpoint forall_glyphs_match (n : nat) (mt : match_type) (gd : option gdef) (f : Z -> action) (l : list info) (i : Z)
  : outcome (list info) :=
  match n with
  | O => Ok l
  | S n' =>
    x <- iget l i ;;
    l' <- (if match_glyph mt gd (i_id x) then f i l else Ok l) ;;
    forall_glyphs_match n' mt gd f l' (i + 1)
  end.

(* forall_glyph_pairs_match: `while let Some(i2) = find_next(i1)`; every round advances i1, |infos| rounds at most *)
Fixpoint pairs_loop (fuel : nat) (mt : match_type) (gd : option gdef) (f : Z -> Z -> action) (l : list info) (i1 : Z)
  : outcome (list info) :=
  match fuel with
  | O => Err OtherErr
  | S fuel' =>
    match find_next mt gd (iids l) i1 with
    | Some i2 => l' <- f i1 i2 l ;; pairs_loop fuel' mt gd f l' i2
    | None => Ok l
    end
  end.

Definition forall_glyph_pairs_match (mt : match_type) (gd : option gdef) (f : Z -> Z -> action) (l : list info)
  : outcome (list info) :=
  match find_first mt gd (iids l) with
  | Some i1 => pairs_loop (S (length l)) mt gd f l i1
  | None => Ok l
  end.

Definition is_mark_at (l : list info) (i : Z) : bool :=
  match nth_opt l i with Some x => i_mark x | None => false end.

(* inner `for j in i + 1..infos.len()` of forall_base_mark_glyph_pairs: Some j = `i = j; continue 'outer` *)
Fixpoint bm_inner (n : nat) (f : Z -> Z -> action) (l : list info) (i j : Z) : outcome (list info * option Z) :=
  match n with
  | O => Ok (l, None)
  | S n' =>
    l' <- f i j l ;;
    if negb (is_mark_at l' j) then Ok (l', Some j) else bm_inner n' f l' i (j + 1)
  end.

Fixpoint bm_outer (fuel : nat) (f : Z -> Z -> action) (l : list info) (i : Z) : outcome (list info) :=
  match fuel with
  | O => Err OtherErr
  | S fuel' =>
    if i + 1 <? len l then
      if negb (is_mark_at l i) then
        '(l', nx) <- bm_inner (Z.to_nat (len l - (i + 1))) f l i (i + 1) ;;
        match nx with
        | Some j => bm_outer fuel' f l' j
        | None => bm_outer fuel' f l' (i + 1)
        end
      else bm_outer fuel' f l (i + 1)
    else Ok l
  end.

Definition forall_base_mark_glyph_pairs (f : Z -> Z -> action) (l : list info) : outcome (list info) :=
  bm_outer (S (length l)) f l 0.

(* forall_mark_mark_glyph_pairs: for every mark i, the run of marks that follows it *)
Fixpoint mm_inner (n : nat) (f : Z -> Z -> action) (l : list info) (i j : Z) : outcome (list info) :=
  match n with
  | O => Ok l
  | S n' =>
    if negb (is_mark_at l j) then Ok l
    else
      xi <- iget l i ;; xj <- iget l j ;;
      l' <- (if (i_pos xi =? i_pos xj) || (i_lig xi || i_lig xj) then f i j l else Ok l) ;;
      mm_inner n' f l' i (j + 1)
  end.

Fixpoint mm_outer (n : nat) (f : Z -> Z -> action) (l : list info) (i : Z) : outcome (list info) :=
  match n with
  | O => Ok l
  | S n' =>
    if i + 1 <? len l then
      l' <- (if is_mark_at l i then mm_inner (Z.to_nat (len l - (i + 1))) f l i (i + 1) else Ok l) ;;
      mm_outer n' f l' (i + 1)
    else Ok l
  end.

Definition forall_mark_mark_glyph_pairs (f : Z -> Z -> action) (l : list info) : outcome (list info) :=
  mm_outer (length l) f l 0.

(* ------------------------------------------------------------------ contextual positioning (gpos.rs:833-974) *)
Definition get_plookup (lookups : list plookup) (index : Z) : outcome plookup := checked_nth lookups index.

(* apply_pos: the sequence position is located with the NESTED lookup's match type *)
Definition apply_pos (lookups : list plookup) (gd : option gdef) (pos_index lookup_index : Z)
  (l : list info) (index : Z) : outcome (list info) :=
  lk <- get_plookup lookups lookup_index ;;
  let mt := from_lookup_flag (pl_flag lk) (pl_mfs lk) in
  match find_nth mt gd (iids l) index (Z.to_nat pos_index) with
  | None => Ok l
  | Some i1 =>
    match pl_body lk with
    | LSinglePos subs => update_at (singlepos subs) l i1
    | LPairPos subs =>
      match find_next mt gd (iids l) i1 with Some i2 => pairpos subs i1 i2 l | None => Ok l end
    | LCursivePos subs =>
      match find_next mt gd (iids l) i1 with Some i2 => cursivepos subs i1 i2 (pl_flag lk) l | None => Ok l end
    | LMarkBasePos subs =>
      match find_prev mt_ignore_marks gd (iids l) i1 with Some b => markbasepos subs b i1 l | None => Ok l end
    | LMarkLigPos subs =>
      match find_prev mt_ignore_marks gd (iids l) i1 with Some b => markligpos subs b i1 l | None => Ok l end
    | LMarkMarkPos subs =>
      match find_prev mt gd (iids l) i1 with Some b => markbasepos subs b i1 l | None => Ok l end
    | LContextPos _ => Ok l
    | LChainContextPos _ => Ok l
    end
  end.

Fixpoint apply_pos_context (lookups : list plookup) (gd : option gdef) (recs : lookup_records)
  (i : Z) (l : list info) : outcome (list info) :=
  match recs with
  | [] => Ok l
  | (pi, li) :: t => l' <- apply_pos lookups gd pi li l i ;; apply_pos_context lookups gd t i l'
  end.

Definition contextpos (lookups : list plookup) (gd : option gdef) (mt : match_type)
  (subs : list context_lookup) (i : Z) (l : list info) : outcome (list info) :=
  x <- iget l i ;;
  r <- first_sub (fun s => context_lookup_info s (i_id x) (fun mc => mc_matches gd mt mc (iids l) i)) subs ;;
  match r with Some pos => apply_pos_context lookups gd (snd pos) i l | None => Ok l end.

Definition chaincontextpos (lookups : list plookup) (gd : option gdef) (mt : match_type)
  (subs : list chain_context_lookup) (i : Z) (l : list info) : outcome (list info) :=
  x <- iget l i ;;
  r <- first_sub (fun s => chain_context_lookup_info s (i_id x) (fun mc => mc_matches gd mt mc (iids l) i)) subs ;;
  match r with Some pos => apply_pos_context lookups gd (snd pos) i l | None => Ok l end.

(* ------------------------------------------------------------------ gpos_apply_lookup (gpos.rs:256-334) *)
Definition gpos_apply_lookup (lookups : option (list plookup)) (gd : option gdef) (lookup_index : Z)
  (l : list info) : outcome (list info) :=
  match lookups with
  | None => Ok l
  | Some lks =>
    lk <- get_plookup lks lookup_index ;;
    let mt := from_lookup_flag (pl_flag lk) (pl_mfs lk) in
    match pl_body lk with
    | LSinglePos subs => forall_glyphs_match (length l) mt gd (fun i l => update_at (singlepos subs) l i) l 0
    | LPairPos subs => forall_glyph_pairs_match mt gd (fun i1 i2 l => pairpos subs i1 i2 l) l
    | LCursivePos subs =>
      forall_glyph_pairs_match mt_ignore_marks gd (fun i1 i2 l => cursivepos subs i1 i2 (pl_flag lk) l) l
    | LMarkBasePos subs => forall_base_mark_glyph_pairs (fun i1 i2 l => markbasepos subs i1 i2 l) l
    | LMarkLigPos subs => forall_base_mark_glyph_pairs (fun i1 i2 l => markligpos subs i1 i2 l) l
    | LMarkMarkPos subs => forall_mark_mark_glyph_pairs (fun i1 i2 l => markbasepos subs i1 i2 l) l
    | LContextPos subs => forall_glyphs_match (length l) mt gd (fun i l => contextpos lks gd mt subs i l) l 0
    | LChainContextPos subs => forall_glyphs_match (length l) mt gd (fun i l => chaincontextpos lks gd mt subs i l) l 0
    end
  end.

(* ------------------------------------------------------------------ kern table (tables/kern.rs, gpos.rs:213-246) *)
Inductive kern_data :=
| KernF0 (pairs : list (Z * Z * Z))                         (* left, right, value — sorted by (left << 16) | right *)
| KernF2 (lfirst : Z) (lvals : list Z) (rfirst : Z) (rvals : list Z) (array : list Z).   (* array = kerning bytes *)

Record kern_subtable := mkKern { k_coverage : Z; k_data : kern_data }.

(* binary_search_by(search_key): on a table sorted by key this is the pair with that key (std's binary search
   is not modelled; the generator emits sorted, duplicate-free format 0 tables) *)
Fixpoint kern0_find (key : Z) (pairs : list (Z * Z * Z)) : option Z :=
  match pairs with
  | [] => None
  | (lf, rt, v) :: t => if lf * 65536 + rt =? key then Some v else kern0_find key t
  end.

(* ClassTable::get *)
Definition class_table_get (first : Z) (vals : list Z) (g : Z) : option Z :=
  if g <? first then None else nth_opt vals (g - first).

(* ReadScope::new(kerning_array).offset(l + r).read::<I16Be>().ok() *)
Definition kern2_read (array : list Z) (o : Z) : option Z :=
  if o + 2 <=? len array then Some (to_signed 16 (nthZ array o * 256 + nthZ array (o + 1))) else None.

Definition kern_lookup (d : kern_data) (lf rt : Z) : option Z :=
  match d with
  | KernF0 pairs => kern0_find (lf * 65536 + rt) pairs
  | KernF2 lfirst lvals rfirst rvals array =>
    match class_table_get lfirst lvals lf with
    | Some lc => match class_table_get rfirst rvals rt with
                 | Some rc => kern2_read array (lc + rc)
                 | None => None
                 end
    | None => None
    end
  end.

Definition kern_is_horizontal (c : Z) : bool := negb (Z.land c KERN_HORIZONTAL =? 0).
Definition kern_is_minimum (c : Z) : bool := negb (Z.land c KERN_MINIMUM =? 0).
Definition kern_is_cross_stream (c : Z) : bool := negb (Z.land c KERN_CROSS_STREAM =? 0).
Definition kern_is_override (c : Z) : bool := negb (Z.land c KERN_OVERRIDE =? 0).

(* the `for sub_table in kern.sub_tables()` accumulation for one pair; kerning : i16 *)
Fixpoint kern_pair (subs : list kern_subtable) (lf rt : Z) (kerning : Z) : Z :=
  match subs with
  | [] => kerning
  | s :: t =>
    if negb (kern_is_horizontal (k_coverage s)) || kern_is_cross_stream (k_coverage s) then kern_pair t lf rt kerning
    else match kern_lookup (k_data s) lf rt with
         | Some v =>
           kern_pair t lf rt (if kern_is_override (k_coverage s) then v
                              else if kern_is_minimum (k_coverage s) then Z.min kerning v
                              else sat_add16 kerning v)
         | None => kern_pair t lf rt kerning
         end
  end.

(* apply_kern: left.kerning = kerning for every adjacent pair (no glyph is skipped) *)
Fixpoint apply_kern (subs : list kern_subtable) (l : list info) : outcome (list info) :=
  match l with
  | x :: ((y :: _) as t) =>
    t' <- apply_kern subs t ;;
    Ok (set_kern x (kern_pair subs (i_id x) (i_id y) 0) :: t')
  | _ => Ok l
  end.

(* apply_fallback; `nsm` = unicodes_are_marks for each glyph (Unicode general category, supplied by the caller) *)
Fixpoint fallback_marks (l : list info) (i base : Z) : list info :=
  match l with
  | [] => []
  | x :: t =>
    if i_mark x then set_place x (PMarkOverprint base) :: fallback_marks t (i + 1) base
    else x :: fallback_marks t (i + 1) i
  end.

Definition apply_fallback (kern : option (list kern_subtable)) (nsm : list bool) (l : list info)
  : outcome (list info) :=
  l1 <- match kern with Some k => apply_kern k l | None => Ok l end ;;
  let l2 := map (fun p => if negb (i_mark (fst p)) && snd p then set_mark (fst p) else fst p) (combine l1 nsm) in
  match l2 with
  | [] => Ok []
  | x :: t => Ok (x :: fallback_marks t 1 0)
  end.

(* ------------------------------------------------------------------ feature application (gpos.rs:31-181) *)
Record playout := mkPLayout {
  pt_scripts : option (list (Z * (option (list Z) * list (Z * list Z))));   (* tag, (default langsys, [(tag, langsys)]) *)
  pt_features : option (list (Z * list Z));
  pt_lookups : option (list plookup)
}.

Fixpoint passoc {A} (k : Z) (l : list (Z * A)) : option A :=
  match l with [] => None | (k', v) :: t => if k' =? k then Some v else passoc k t end.

Definition pfind_script_or_default (t : playout) (tag : Z) :=
  match pt_scripts t with
  | Some l => match passoc tag l with Some s => Some s | None => passoc TAG_DFLT l end
  | None => None
  end.

Definition pfind_langsys_or_default (s : option (list Z) * list (Z * list Z)) (lang : option Z) : option (list Z) :=
  match lang with
  | Some tg => match passoc tg (snd s) with Some l => Some l | None => fst s end
  | None => fst s
  end.

Fixpoint pfind_feature_in (features : list (Z * list Z)) (indices : list Z) (tag : Z) : outcome (option (list Z)) :=
  match indices with
  | [] => Ok None
  | fi :: t =>
    rec <- checked_nth features fi ;;
    if fst rec =? tag then Ok (Some (snd rec)) else pfind_feature_in features t tag
  end.

Definition pfind_langsys_feature (t : playout) (ls : list Z) (tag : Z) : outcome (option (list Z)) :=
  match pt_features t with Some fl => pfind_feature_in fl ls tag | None => Ok None end.

(* lookup_indices.sort_unstable() followed by dedup(): insertion into a strictly increasing list *)
Fixpoint insert_sorted (k : Z) (l : list Z) : list Z :=
  match l with
  | [] => [k]
  | x :: t => if k <? x then k :: l else if k =? x then l else x :: insert_sorted k t
  end.
Definition sort_dedup (l : list Z) : list Z := fold_left (fun acc k => insert_sorted k acc) l [].

Fixpoint apply_lookup_list (t : playout) (gd : option gdef) (idx : list Z) (l : list info) : outcome (list info) :=
  match idx with
  | [] => Ok l
  | li :: rest => l' <- gpos_apply_lookup (pt_lookups t) gd li l ;; apply_lookup_list t gd rest l'
  end.

Fixpoint apply_features (t : playout) (gd : option gdef) (kern : option (list kern_subtable))
  (ls : list Z) (features : list Z) (l : list info) : outcome (list info) :=
  match features with
  | [] => Ok l
  | tag :: rest =>
    ft <- pfind_langsys_feature t ls tag ;;
    l' <- match ft with
          | Some idx => apply_lookup_list t gd (sort_dedup idx) l
          | None => match kern with
                    | Some k => if tag =? TAG_KERN_FALLBACK then apply_kern k l else Ok l
                    | None => Ok l
                    end
          end ;;
    apply_features t gd kern ls rest l'
  end.

(* gpos::apply for scripts of ScriptType::Default, Features::Custom, tuple = None *)
Definition base_features_default (kerning : bool) : list Z :=
  if kerning then BASE_FEATURES_KERNING else BASE_FEATURES_NO_KERNING.

Definition gpos_apply (t : playout) (gd : option gdef) (kern : option (list kern_subtable)) (kerning : bool)
  (custom : list Z) (script_tag : Z) (lang : option Z) (l : list info) : outcome (list info) :=
  match pfind_script_or_default t script_tag with
  | None => Ok l
  | Some s =>
    match pfind_langsys_or_default s lang with
    | None => Ok l
    | Some ls =>
      l1 <- apply_features t gd kern ls (base_features_default kerning) l ;;
      apply_features t gd kern ls custom l1
    end
  end.

(* ------------------------------------------------------------------ abstract image of the parser *)
Definition fmt_parses (fmt : Z) : bool := fmt <=? 255.
Definition single_pos_parses (s : single_pos) : bool :=
  match s with SinglePosF1 c f _ => coverage_parses c && fmt_parses f | SinglePosF2 c f _ => coverage_parses c && fmt_parses f end.
Definition pair_pos_parses (s : pair_pos) : bool :=
  match s with
  | PairPosF1 c f1 f2 _ => coverage_parses c && fmt_parses f1 && fmt_parses f2
  | PairPosF2 c f1 f2 _ _ _ _ => coverage_parses c && fmt_parses f1 && fmt_parses f2
  end.
Definition cursive_pos_parses (s : cursive_pos) : bool := coverage_parses (cp_cov s).
Definition mark_base_parses (s : mark_base_pos) : bool := coverage_parses (mb_mark_cov s) && coverage_parses (mb_base_cov s).
Definition mark_lig_parses (s : mark_lig_pos) : bool := coverage_parses (ml_mark_cov s) && coverage_parses (ml_lig_cov s).

Definition pbody_parse (b : pos_lookup) : pos_lookup :=
  match b with
  | LSinglePos l => LSinglePos (filter single_pos_parses l)
  | LPairPos l => LPairPos (filter pair_pos_parses l)
  | LCursivePos l => LCursivePos (filter cursive_pos_parses l)
  | LMarkBasePos l => LMarkBasePos (filter mark_base_parses l)
  | LMarkLigPos l => LMarkLigPos (filter mark_lig_parses l)
  | LMarkMarkPos l => LMarkMarkPos (filter mark_base_parses l)
  | LContextPos l => LContextPos (filter context_parses l)
  | LChainContextPos l => LChainContextPos (filter chain_parses l)
  end.

Definition playout_parse (t : playout) : playout :=
  mkPLayout (pt_scripts t) (pt_features t)
    (match pt_lookups t with
     | Some l => Some (map (fun k => mkPLookup (pl_flag k) (pl_mfs k) (pbody_parse (pl_body k))) l)
     | None => None
     end).
