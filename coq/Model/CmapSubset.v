(* Model/CmapSubset.v — executable model of the cmap part of the subsetter, function by function
   after the Rust:
     src/tables/cmap/subset.rs  Character::{new, existence, as_u32}, MappingsToKeep::{new,
                                update_to_new_ids}, legacy_symbol_char_code_to_unicode,
                                CmapSubtableFormat4Segment::{new, add},
                                owned::CmapSubtableFormat4::{from_mappings, add_segment},
                                owned::CmapSubtableFormat12::from_mappings,
                                owned::EncodingRecord::from_mappings
     src/tables/cmap.rs         owned::Cmap::write, owned::CmapSubtable::write (formats 0, 4, 12),
                                Format4Calculator
     src/subset.rs              create_cmap_table, and the cmap path of subset / subset_ttf
     src/tables/glyf/subset.rs  SubsetGlyf::new_id (position in the glyph id list)
   Built on Model/Cmap.v: the builders produce the same [subtable] values that [parse] returns.
   [mode] matters in three places only (u16/u32 `+ 1` and `2 * seg_count` in default arithmetic).
   No proofs in this file. *)
From AV Require Import Base.Prelude Gen.CmapPrefs Model.MacRoman Model.Cmap.
Open Scope Z_scope.

(* ------------------------------------------------------------------------------------------- *)
(* Character, CharExistence *)

Inductive character := CUnicode (c : Z) | CSymbol (c : Z).
Inductive existence := XMacRoman | XBmp | XAstral | XDivine.

Definition rank (e : existence) : Z :=
  match e with XMacRoman => 1 | XBmp => 2 | XAstral => 3 | XDivine => 4 end.

(* Character::as_u32 *)
Definition char_code (ch : character) : Z := match ch with CUnicode c => c | CSymbol c => c end.

(* Character::existence *)
Definition existence_of (ch : character) : existence :=
  match ch with
  | CUnicode c => if is_macroman c then XMacRoman else if c <=? 65535 then XBmp else XAstral
  | CSymbol _ => XDivine
  end.

(* #[derive(Ord)]: Unicode(_) < Symbol(_), then by the value *)
Definition char_ltb (a b : character) : bool :=
  match a, b with
  | CUnicode x, CUnicode y => x <? y
  | CUnicode _, CSymbol _ => true
  | CSymbol _, CUnicode _ => false
  | CSymbol x, CSymbol y => x <? y
  end.
Definition char_eqb (a b : character) : bool :=
  match a, b with
  | CUnicode x, CUnicode y => x =? y
  | CSymbol x, CSymbol y => x =? y
  | _, _ => false
  end.

(* Character::new(ch, encoding); Big5 (encoding_rs) is not modelled *)
Definition character_new (ch : Z) (enc : encoding) : option character :=
  match enc with
  | EUnicode => if is_char ch then Some (CUnicode ch) else None
  | ESymbol => Some (CSymbol ch)
  | EAppleRoman =>
      match macroman_to_char (ch mod 256) with        (* `ch as u8` *)
      | Some u => Some (CUnicode u)
      | None => None
      end
  | EBig5 => None
  end.

(* BTreeMap<Character, u16>::insert on the sorted association list *)
Fixpoint bt_insert (k : character) (v : Z) (l : list (character * Z)) : list (character * Z) :=
  match l with
  | [] => [(k, v)]
  | (k', v') :: t =>
      if char_eqb k k' then (k, v) :: t
      else if char_ltb k k' then (k, v) :: l
      else (k', v') :: bt_insert k v t
  end.

(* ------------------------------------------------------------------------------------------- *)
(* MappingsToKeep::new *)

Inductive cmap_target := TUnrestricted | TMacRoman.

(* fn legacy_symbol_char_code_to_unicode(ch, first_char): the inverse of Font's
   legacy_symbol_char_code, char::from_u32((ch + 0x20) - first_char) in checked u32 arithmetic *)
Definition legacy_symbol_char_code_to_unicode (ch first : Z) : option Z :=
  let u := ch + 32 - first in
  if (ch + 32 <=? 4294967295) && (0 <=? u) && is_char u then Some u else None.

Definition output_char (enc : encoding) (symbol_first_char : option Z) (ch : Z) : option character :=
  match match symbol_first_char with
        | Some first => legacy_symbol_char_code_to_unicode ch first
        | None => None
        end with
  | Some u => Some (CUnicode u)
  | None => character_new ch enc
  end.

Definition existence_max (a b : existence) : existence := if rank a <? rank b then b else a.

(* the body of the closure passed to mappings_fn *)
Definition keep_step (enc : encoding) (symbol_first_char : option Z) (glyph_ids : list Z)
           (target : cmap_target) (st : list (character * Z) * existence) (p : Z * Z)
  : list (character * Z) * existence :=
  let '(ch, gid) := p in
  let '(kept, plane) := st in
  if negb (gid =? 0) && existsb (Z.eqb gid) glyph_ids then
    match output_char enc symbol_first_char ch with
    | None => st
    | Some oc =>
        match target with
        | TMacRoman =>
            if rank (existence_of oc) <=? rank XMacRoman then (bt_insert oc gid kept, plane) else st
        | TUnrestricted => (bt_insert oc gid kept, existence_max plane (existence_of oc))
        end
    end
  else st.

(* [os2] is the result of reading OS/2 when it is consulted: Ok (Some usFirstCharIndex), Ok None
   when the font has no OS/2 table, Err when the table does not parse *)
Definition mappings_to_keep_new (cmap : list Z) (os2 : outcome (option Z)) (glyph_ids : list Z)
           (target : cmap_target) : outcome (list (character * Z) * existence) :=
  recs <- parse_cmap cmap ;;
  match find_good_cmap_subtable recs with
  | None => Err UnsuitableCmap
  | Some (enc, r) =>
      st <- parse (slice_from cmap (er_offset r)) ;;
      symbol_first_char <-
        (match enc, target with
         | ESymbol, TMacRoman =>
             o <- os2 ;; Ok (Some (match o with Some f => f | None => 32 end))
         | _, _ => Ok None
         end) ;;
      match enc with
      | EBig5 => Err NotImplemented
      | _ =>
          let '(pairs, status) := mappings st in
          _ <- status ;;
          let '(kept, plane) :=
            fold_left (keep_step enc symbol_first_char glyph_ids target) pairs ([], XMacRoman) in
          if len kept <=? 65535 then Ok (kept, plane) else Err LimitExceeded
      end
  end.

(* SubsetGlyf::new_id: the position of the old id in the glyph id list (no duplicates), 0 if absent *)
Fixpoint index_of (g : Z) (ids : list Z) (i : Z) : option Z :=
  match ids with
  | [] => None
  | x :: t => if x =? g then Some i else index_of g t (i + 1)
  end.
Definition new_id (glyph_ids : list Z) (old : Z) : Z :=
  match index_of old glyph_ids 0 with Some i => i | None => 0 end.

(* MappingsToKeep::update_to_new_ids *)
Definition update_to_new_ids (glyph_ids : list Z) (kept : list (character * Z)) : list (character * Z) :=
  map (fun p => (fst p, new_id glyph_ids (snd p))) kept.

(* ------------------------------------------------------------------------------------------- *)
(* format 4 builder.  Vectors that are only pushed to are kept in reverse (push = cons) so that the
   extracted model is linear; [rev] restores the order where the Rust reads them. *)

Record segment := { sg_start : Z; sg_end : Z; sg_rgids : list Z (* glyph_ids, reversed *); sg_consec : bool }.

(* CmapSubtableFormat4Segment::new *)
Definition seg_new (start gid : Z) : segment :=
  {| sg_start := start; sg_end := start; sg_rgids := [gid]; sg_consec := true |}.

(* u16 `prev + 1` in default arithmetic *)
Definition succ_u16 (m : mode) (v : Z) : outcome Z :=
  if v + 1 <=? 65535 then Ok (v + 1) else match m with Debug => Panic | Release => Ok 0 end.

(* glyph_ids.len() >= 4 *)
Definition at_least_4 (l : list Z) : bool :=
  match l with _ :: _ :: _ :: _ :: _ => true | _ => false end.

(* CmapSubtableFormat4Segment::add: Some sg' = the pair was added, None = start a new segment *)
Definition seg_add (m : mode) (sg : segment) (ch gid : Z) : outcome (option segment) :=
  let gap := Z.max 0 (Z.max 0 (ch - sg_end sg) - 1) in        (* saturating_sub twice *)
  let should_remain_compact := sg_consec sg && at_least_4 (sg_rgids sg) in
  if (0 <? gap) && should_remain_compact then Ok None
  else if gap <? 4 then
    if gap =? 0 then
      next <- succ_u16 m (hd 0 (sg_rgids sg)) ;;                 (* glyph_ids.last() *)
      Ok (Some {| sg_start := sg_start sg; sg_end := ch; sg_rgids := gid :: sg_rgids sg;
                  sg_consec := sg_consec sg && (next =? gid) |})
    else
      Ok (Some {| sg_start := sg_start sg; sg_end := ch;
                  sg_rgids := gid :: repeat 0 (Z.to_nat gap) ++ sg_rgids sg;
                  sg_consec := false |})
  else Ok None.

(* the loop of from_mappings; the segments handed to add_segment, in order *)
Fixpoint split_segments (m : mode) (sg : segment) (rest : list (Z * Z)) : outcome (list segment) :=
  match rest with
  | [] => Ok [sg]
  | (ch, gid) :: t =>
      r <- seg_add m sg ch gid ;;
      match r with
      | Some sg' => split_segments m sg' t
      | None => more <- split_segments m (seg_new ch gid) t ;; Ok (sg :: more)
      end
  end.

(* the table under construction: the five vectors in reverse, their lengths, and for every
   id_range_offset whether its index was pushed to id_range_offset_fixup_indices *)
(* List.rev in linear time (Coq's [rev] is quadratic when extracted); frev l = rev l by rev_alt *)
Definition frev {A} (l : list A) : list A := rev_append l [].

Record f4acc := { a_rstarts : list Z; a_rends : list Z; a_rdeltas : list Z; a_rros : list (bool * Z);
                  a_rgids : list Z; a_nsegs : Z; a_ngids : Z }.

(* owned::CmapSubtableFormat4::add_segment *)
Definition add_segment (t : f4acc) (sg : segment) : f4acc :=
  if sg_consec sg then
    {| a_rstarts := sg_start sg mod 65536 :: a_rstarts t;          (* `as u16` *)
       a_rends := sg_end sg mod 65536 :: a_rends t;
       (* (i32::from(first) - start as i32 % 0x10000) as i16 *)
       a_rdeltas := to_signed 16 (last (sg_rgids sg) 0 - sg_start sg) :: a_rdeltas t;
       a_rros := (false, 0) :: a_rros t;
       a_rgids := a_rgids t;
       a_nsegs := a_nsegs t + 1;
       a_ngids := a_ngids t |}
  else
    {| a_rstarts := sg_start sg mod 65536 :: a_rstarts t;
       a_rends := sg_end sg mod 65536 :: a_rends t;
       a_rdeltas := 0 :: a_rdeltas t;
       a_rros := (true, a_ngids t mod 65536) :: a_rros t;          (* `glyph_id_array.len() as u16` *)
       a_rgids := sg_rgids sg ++ a_rgids t;
       a_nsegs := a_nsegs t + 1;
       a_ngids := a_ngids t + len (sg_rgids sg) |}.

(* the fix-up pass: id_range_offset := 2 * (num_segments + id_range_offset - index) *)
Fixpoint fixup_ros (num_segments : Z) (ros : list (bool * Z)) (index : Z) : outcome (list Z) :=
  match ros with
  | [] => Ok []
  | (true, ro) :: t =>
      let count := num_segments + ro - index in
      if 2 * count <=? 65535 then
        more <- fixup_ros num_segments t (index + 1) ;; Ok (2 * count :: more)
      else Err LimitExceeded
  | (false, ro) :: t => more <- fixup_ros num_segments t (index + 1) ;; Ok (ro :: more)
  end.

Definition f4_empty : f4acc :=
  {| a_rstarts := []; a_rends := []; a_rdeltas := []; a_rros := []; a_rgids := []; a_nsegs := 0; a_ngids := 0 |}.

(* owned::CmapSubtableFormat4::from_mappings; [M] = (as_u32 of the character, new glyph id) in map order *)
Definition f4_from_mappings (m : mode) (M : list (Z * Z)) : outcome subtable :=
  match M with
  | [] => Panic                                                      (* unwrap on None *)
  | (c0, g0) :: rest =>
      segs <- split_segments m (seg_new c0 g0) rest ;;
      let t := fold_left add_segment (segs ++ [seg_new 65535 0]) f4_empty in
      ros <- fixup_ros (a_nsegs t) (frev (a_rros t)) 0 ;;
      Ok (F4 0 (frev (a_rends t)) (frev (a_rstarts t)) (frev (a_rdeltas t)) ros (frev (a_rgids t)))
  end.

(* ------------------------------------------------------------------------------------------- *)
(* format 12 builder *)

Definition succ_u32 (m : mode) (v : Z) : outcome Z :=
  if v + 1 <=? 4294967295 then Ok (v + 1) else match m with Debug => Panic | Release => Ok 0 end.

(* the loop of CmapSubtableFormat12::from_mappings *)
Fixpoint f12_groups (m : mode) (seg : seq_group) (prev_gid : Z) (rest : list (Z * Z))
  : outcome (list seq_group) :=
  match rest with
  | [] => Ok [seg]
  | (ch, gid) :: t =>
      next_ch <- succ_u32 m (g_end seg) ;;
      (* `ch == end + 1 && gid == prev_gid + 1`: the second operand is only evaluated when the first holds *)
      extend <- (if ch =? next_ch then (next_gid <- succ_u16 m prev_gid ;; Ok (gid =? next_gid)) else Ok false) ;;
      if extend then
        f12_groups m {| g_start := g_start seg; g_end := g_end seg + 1; g_gid := g_gid seg |} gid t
      else
        more <- f12_groups m {| g_start := ch; g_end := ch; g_gid := gid |} gid t ;;
        Ok (seg :: more)
  end.

Definition f12_from_mappings (m : mode) (M : list (Z * Z)) : outcome subtable :=
  match M with
  | [] => Panic
  | (c0, g0) :: rest =>
      groups <- f12_groups m {| g_start := c0; g_end := c0; g_gid := g0 |} g0 rest ;;
      Ok (F12 0 groups)
  end.

(* ------------------------------------------------------------------------------------------- *)
(* format 0 (Mac Roman byte table) and the choice of format *)

Fixpoint set_nth (l : list Z) (i : nat) (v : Z) : list Z :=
  match l, i with
  | [], _ => []
  | _ :: t, O => v :: t
  | x :: t, S k => x :: set_nth t k v
  end.

(* the MacRoman arm of EncodingRecord::from_mappings: glyph_id_array[char_to_macroman(ch)] = gid *)
Fixpoint f0_fill (arr : list Z) (M : list (character * Z)) : outcome (list Z) :=
  match M with
  | [] => Ok arr
  | (CUnicode u, gid) :: t =>
      match char_to_macroman u with
      | Some b => f0_fill (set_nth arr (Z.to_nat b) gid) t
      | None => Panic                                                (* unwrap *)
      end
  | (CSymbol _, _) :: _ => Panic                                     (* unreachable! *)
  end.

Record encoding_record := { r_platform : Z; r_encoding : Z; r_subtable : subtable }.

Definition as_pairs (M : list (character * Z)) : list (Z * Z) := map (fun p => (char_code (fst p), snd p)) M.

(* owned::EncodingRecord::from_mappings.  A Mac Roman byte table can only hold glyph ids up to 255;
   otherwise the Unicode BMP format 4 sub-table is written (fix of F8). *)
Definition encoding_record_from_mappings (m : mode) (M : list (character * Z)) (plane : existence)
  : outcome encoding_record :=
  let bmp :=
    st <- f4_from_mappings m (as_pairs M) ;;
    Ok {| r_platform := 0; r_encoding := 3; r_subtable := st |} in
  match plane with
  | XMacRoman =>
      if forallb (fun p => snd p <=? 255) M then
        arr <- f0_fill (repeat 0 256) M ;;
        Ok {| r_platform := 1; r_encoding := 0; r_subtable := F0 0 arr |}
      else bmp
  | XBmp => bmp
  | XAstral =>
      st <- f12_from_mappings m (as_pairs M) ;;
      Ok {| r_platform := 0; r_encoding := 4; r_subtable := st |}
  | XDivine =>
      st <- f4_from_mappings m (as_pairs M) ;;
      Ok {| r_platform := 3; r_encoding := 0; r_subtable := st |}
  end.

(* ------------------------------------------------------------------------------------------- *)
(* the owned writers *)

Definition w16 (v : Z) : list Z := be_bytes 2 (v mod 65536).
Definition w32 (v : Z) : list Z := be_bytes 4 (v mod 4294967296).
Definition w16s (l : list Z) : list Z := flat_map w16 l.

(* Format4Calculator *)
Definition search_range (seg_count : Z) : Z := 2 * 2 ^ Z.log2 seg_count.
Definition entry_selector (seg_count : Z) : Z := Z.log2 seg_count.
Definition range_shift (seg_count : Z) : Z := 2 * seg_count - search_range seg_count.

Definition write_group (g : seq_group) : list Z := w32 (g_start g) ++ w32 (g_end g) ++ w32 (g_gid g).

(* owned::CmapSubtable::write for the formats the subsetter emits *)
Definition write_subtable (m : mode) (st : subtable) : outcome (list Z) :=
  match st with
  | F0 language gids =>
      Ok (w16 0 ++ w16 (3 * 2 + len gids) ++ w16 language ++ gids)
  | F4 language ends starts deltas ros gids =>
      let seg_count := len starts in
      if 65535 <? seg_count then Err BadValue                        (* u16::try_from(len) *)
      else if 32768 <=? seg_count then
        (* 2 * seg_count overflows u16: panic in debug; in release the wrapped header is written and
           the length check below fails because 16 + 8 * seg_count > 65535 *)
        match m with Debug => Panic | Release => Err BadValue end
      else
        let body := w16 language ++ w16 (2 * seg_count) ++ w16 (search_range seg_count) ++
                    w16 (entry_selector seg_count) ++ w16 (range_shift seg_count) ++
                    w16s ends ++ w16 0 ++ w16s starts ++ w16s deltas ++ w16s ros ++ w16s gids in
        let length := 4 + len body in
        if length <=? 65535 then Ok (w16 4 ++ w16 length ++ body) else Err BadValue
  | F12 language groups =>
      let length := 16 + 12 * len groups in
      if (length <=? 4294967295) && (len groups <=? 4294967295)
      then Ok (w16 12 ++ w16 0 ++ w32 length ++ w32 language ++ w32 (len groups) ++ flat_map write_group groups)
      else Err BadValue
  | _ => Err NotImplemented
  end.

(* owned::Cmap::write with the single record create_cmap_table builds *)
Definition write_cmap (m : mode) (r : encoding_record) : outcome (list Z) :=
  sub <- write_subtable m (r_subtable r) ;;
  Ok (w16 0 ++ w16 1 ++ w16 (r_platform r) ++ w16 (r_encoding r) ++ w32 12 ++ sub).

(* ------------------------------------------------------------------------------------------- *)
(* the cmap path of subset() / prince::subset(): source cmap table -> cmap table of the subset font *)

Definition build_cmap (m : mode) (M : list (character * Z)) (plane : existence) : outcome (list Z) :=
  r <- encoding_record_from_mappings m M plane ;;
  write_cmap m r.

Definition subset_cmap (m : mode) (cmap : list Z) (os2 : outcome (option Z)) (glyph_ids : list Z)
           (target : cmap_target) : outcome (list Z) :=
  '(kept, plane) <- mappings_to_keep_new cmap os2 glyph_ids target ;;
  build_cmap m (update_to_new_ids glyph_ids kept) plane.
