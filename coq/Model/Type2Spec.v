(* Model/Type2Spec.v -- the Type 2 charstring specification (Adobe Technical Note #5177), written
   independently of the interpreter's control flow:
     * a path is a list of primitives rmoveto / rlineto / rrcurveto folded over the current point;
       a moveto closes the open contour, the end of the charstring closes it;
     * every operator is DEFINED by its expansion into primitives (section 4.1 of the note);
     * hint operators and the width expand to nothing;
     * a program is an optional width and a list of operators; its bytes are any of the valid
       encodings of the operands followed by the operator bytes.
   No proofs here. *)
From AV Require Import Base.Prelude Gen.Type2Consts Model.Type2.
Open Scope Z_scope.

(* ---------- paths ---------- *)
Inductive prim : Type :=
| PMove (dx dy : Z) | PLine (dx dy : Z) | PCurve (dx1 dy1 dx2 dy2 dx3 dy3 : Z).

(* current point, "a contour is open", commands so far *)
Fixpoint run_prims (x y : Z) (o : bool) (ps : list prim) : Z * Z * bool * list cmd :=
  match ps with
  | [] => (x, y, o, [])
  | PMove dx dy :: r =>
    let '(xf, yf, of, c) := run_prims (x + dx) (y + dy) true r in
    (xf, yf, of, (if o then [Close] else []) ++ MoveTo (x + dx) (y + dy) :: c)
  | PLine dx dy :: r =>
    let '(xf, yf, of, c) := run_prims (x + dx) (y + dy) o r in
    (xf, yf, of, LineTo (x + dx) (y + dy) :: c)
  | PCurve a b c d e f :: r =>
    let x1 := x + a in let y1 := y + b in
    let x2 := x1 + c in let y2 := y1 + d in
    let x3 := x2 + e in let y3 := y2 + f in
    let '(xf, yf, of, cs) := run_prims x3 y3 o r in
    (xf, yf, of, CurveTo x1 y1 x2 y2 x3 y3 :: cs)
  end.

Definition path_of (ps : list prim) : list cmd :=
  let '(_, _, o, c) := run_prims 0 0 false ps in c ++ (if o then [Close] else []).

(* ---------- operators ---------- *)
Definition c4 : Type := (Z * Z * Z * Z)%type.
Definition c6 : Type := (Z * Z * Z * Z * Z * Z)%type.

Inductive sop : Type :=
| SRMove (dx dy : Z) | SHMove (dx : Z) | SVMove (dy : Z)
| SRLine (l : list (Z * Z))
| SHLine (l : list Z) | SVLine (l : list Z)
| SRRCurve (l : list c6)
| SHHCurve (dy1 : option Z) (l : list c4)
| SVVCurve (dx1 : option Z) (l : list c4)
| SHVCurve (l : list c4) (last : option Z)
| SVHCurve (l : list c4) (last : option Z)
| SRCurveLine (l : list c6) (dx dy : Z)
| SRLineCurve (l : list (Z * Z)) (c : c6)
| SFlex (c1 c2 : c6) (fd : Z)
| SHFlex (dx1 dx2 dy2 dx3 dx4 dx5 dx6 : Z)
| SHFlex1 (dx1 dy1 dx2 dy2 dx3 dx4 dx5 dy5 dx6 : Z)
| SFlex1 (dx1 dy1 dx2 dy2 dx3 dy3 dx4 dy4 dx5 dy5 d6 : Z)
| SHStem (l : list (Z * Z)) | SVStem (l : list (Z * Z))
| SHStemHM (l : list (Z * Z)) | SVStemHM (l : list (Z * Z))
| SHintMask (l : list (Z * Z)) (mask : list Z)       (* l: the implicit vstem operands *)
| SCntrMask (l : list (Z * Z)) (mask : list Z).

Definition line_prim (d : Z * Z) : prim := PLine (fst d) (snd d).
Definition curve_prim (c : c6) : prim :=
  let '(a, b, c', d, e, f) := c in PCurve a b c' d e f.

Fixpoint alt_prims (horiz : bool) (l : list Z) : list prim :=
  match l with
  | [] => []
  | d :: r => (if horiz then PLine d 0 else PLine 0 d) :: alt_prims (negb horiz) r
  end.

(* hhcurveto: dy1? {dxa dxb dyb dxc}+ ; vvcurveto: dx1? {dya dxb dyb dyc}+ *)
Definition hh_prim (dy1 : Z) (c : c4) : prim := let '(a, b, c', d) := c in PCurve a dy1 b c' d 0.
Definition vv_prim (dx1 : Z) (c : c4) : prim := let '(a, b, c', d) := c in PCurve dx1 a b c' 0 d.
Definition oz (o : option Z) : Z := match o with Some v => v | None => 0 end.
Definition first_rest (f : Z -> c4 -> prim) (d : option Z) (l : list c4) : list prim :=
  match l with [] => [] | c :: r => f (oz d) c :: map (f 0) r end.

(* hvcurveto / vhcurveto: curves that alternately start horizontal/vertical and end
   vertical/horizontal; the optional last operand is the missing coordinate of the final end point *)
Fixpoint hv_prims (horiz : bool) (l : list c4) (last : option Z) : list prim :=
  match l with
  | [] => []
  | (d1, d2, d3, d4) :: r =>
    let f := match r with [] => oz last | _ => 0 end in
    (if horiz then PCurve d1 0 d2 d3 f d4 else PCurve 0 d1 d2 d3 d4 f) :: hv_prims (negb horiz) r last
  end.

Definition expand (o : sop) : list prim :=
  match o with
  | SRMove dx dy => [PMove dx dy]
  | SHMove dx => [PMove dx 0]
  | SVMove dy => [PMove 0 dy]
  | SRLine l => map line_prim l
  | SHLine l => alt_prims true l
  | SVLine l => alt_prims false l
  | SRRCurve l => map curve_prim l
  | SHHCurve d l => first_rest hh_prim d l
  | SVVCurve d l => first_rest vv_prim d l
  | SHVCurve l last => hv_prims true l last
  | SVHCurve l last => hv_prims false l last
  | SRCurveLine l dx dy => map curve_prim l ++ [PLine dx dy]
  | SRLineCurve l c => map line_prim l ++ [curve_prim c]
  | SFlex c1 c2 _ => [curve_prim c1; curve_prim c2]
  | SHFlex dx1 dx2 dy2 dx3 dx4 dx5 dx6 =>
    [PCurve dx1 0 dx2 dy2 dx3 0; PCurve dx4 0 dx5 (- dy2) dx6 0]
  | SHFlex1 dx1 dy1 dx2 dy2 dx3 dx4 dx5 dy5 dx6 =>
    [PCurve dx1 dy1 dx2 dy2 dx3 0; PCurve dx4 0 dx5 dy5 dx6 (- (dy1 + dy2 + dy5))]
  | SFlex1 dx1 dy1 dx2 dy2 dx3 dy3 dx4 dy4 dx5 dy5 d6 =>
    let dx := dx1 + dx2 + dx3 + dx4 + dx5 in
    let dy := dy1 + dy2 + dy3 + dy4 + dy5 in
    [PCurve dx1 dy1 dx2 dy2 dx3 dy3;
     if Z.abs dy <? Z.abs dx then PCurve dx4 dy4 dx5 dy5 d6 (- dy) else PCurve dx4 dy4 dx5 dy5 (- dx) d6]
  | SHStem _ | SVStem _ | SHStemHM _ | SVStemHM _ | SHintMask _ _ | SCntrMask _ _ => []
  end.

(* ---------- operands and operator bytes, in charstring order ---------- *)
Definition flat2 (l : list (Z * Z)) : list Z := flat_map (fun p => [fst p; snd p]) l.
Definition flat4 (l : list c4) : list Z := flat_map (fun c => let '(a, b, c', d) := c in [a; b; c'; d]) l.
Definition args6 (c : c6) : list Z := let '(a, b, c', d, e, f) := c in [a; b; c'; d; e; f].
Definition flat6 (l : list c6) : list Z := flat_map args6 l.
Definition olist (o : option Z) : list Z := match o with Some v => [v] | None => [] end.

Definition args_of (o : sop) : list Z :=
  match o with
  | SRMove dx dy => [dx; dy]
  | SHMove dx => [dx]
  | SVMove dy => [dy]
  | SRLine l => flat2 l
  | SHLine l | SVLine l => l
  | SRRCurve l => flat6 l
  | SHHCurve d l | SVVCurve d l => olist d ++ flat4 l
  | SHVCurve l last | SVHCurve l last => flat4 l ++ olist last
  | SRCurveLine l dx dy => flat6 l ++ [dx; dy]
  | SRLineCurve l c => flat2 l ++ args6 c
  | SFlex c1 c2 fd => args6 c1 ++ args6 c2 ++ [fd]
  | SHFlex a b c d e f g => [a; b; c; d; e; f; g]
  | SHFlex1 a b c d e f g h i => [a; b; c; d; e; f; g; h; i]
  | SFlex1 a b c d e f g h i j k => [a; b; c; d; e; f; g; h; i; j; k]
  | SHStem l | SVStem l | SHStemHM l | SVStemHM l | SHintMask l _ | SCntrMask l _ => flat2 l
  end.

(* operator bytes (hintmask / cntrmask carry their mask bytes) *)
Definition opbytes (o : sop) : list Z :=
  match o with
  | SRMove _ _ => [21] | SHMove _ => [22] | SVMove _ => [4]
  | SRLine _ => [5] | SHLine _ => [6] | SVLine _ => [7]
  | SRRCurve _ => [8]
  | SHHCurve _ _ => [27] | SVVCurve _ _ => [26]
  | SHVCurve _ _ => [31] | SVHCurve _ _ => [30]
  | SRCurveLine _ _ _ => [24] | SRLineCurve _ _ => [25]
  | SFlex _ _ _ => [12; 35] | SHFlex _ _ _ _ _ _ _ => [12; 34]
  | SHFlex1 _ _ _ _ _ _ _ _ _ => [12; 36] | SFlex1 _ _ _ _ _ _ _ _ _ _ _ => [12; 37]
  | SHStem _ => [1] | SVStem _ => [3] | SHStemHM _ => [18] | SVStemHM _ => [23]
  | SHintMask _ m => 19 :: m | SCntrMask _ m => 20 :: m
  end.

Definition is_move (o : sop) : bool :=
  match o with SRMove _ _ | SHMove _ | SVMove _ => true | _ => false end.
Definition is_hint (o : sop) : bool :=
  match o with
  | SHStem _ | SVStem _ | SHStemHM _ | SVStemHM _ | SHintMask _ _ | SCntrMask _ _ => true
  | _ => false
  end.
(* the stem hints the operator declares (for the masks: the implicit vstem operands) *)
Definition hint_pairs (o : sop) : list (Z * Z) :=
  match o with
  | SHStem l | SVStem l | SHStemHM l | SVStemHM l | SHintMask l _ | SCntrMask l _ => l
  | _ => []
  end.
Definition stems_of (o : sop) : Z := len (hint_pairs o).
Definition mask_of (o : sop) : option (list Z) :=
  match o with SHintMask _ m | SCntrMask _ m => Some m | _ => None end.

(* the operand-count shape each operator requires (the lists the syntax leaves open) *)
Definition shape_ok (o : sop) : bool :=
  match o with
  | SRLine l => negb (len l =? 0)
  | SHLine l | SVLine l => negb (len l =? 0)
  | SRRCurve l => negb (len l =? 0)
  | SHHCurve _ l | SVVCurve _ l => negb (len l =? 0)
  | SHVCurve l _ | SVHCurve l _ => negb (len l =? 0)
  | SRCurveLine l _ _ => negb (len l =? 0)
  | SRLineCurve l _ => negb (len l =? 0)
  | SHStem l | SVStem l | SHStemHM l | SVStemHM l => negb (len l =? 0)
  | _ => true
  end.

(* ---------- number encodings (section 3.2 of the note) ---------- *)
Inductive encodes : list Z -> Z -> Prop :=
| enc_int1 : forall n, -107 <= n <= 107 -> encodes [n + 139] (of_int n)
| enc_int2 : forall n, 108 <= n <= 1131 ->
    encodes [(n - 108) / 256 + 247; (n - 108) mod 256] (of_int n)
| enc_int3 : forall n, -1131 <= n <= -108 ->
    encodes [(- n - 108) / 256 + 251; (- n - 108) mod 256] (of_int n)
| enc_short : forall n, -32768 <= n <= 32767 ->
    encodes [28; (n mod 65536) / 256; n mod 256] (of_int n)
| enc_fixed : forall raw, -2147483648 <= raw <= 2147483647 ->
    encodes (255 :: be_bytes 4 (raw mod 4294967296)) (of_fixed raw).

(* ---------- well-formed programs ----------
   ops_wf scans the operators keeping: the stack limit, whether a moveto has been seen (segments
   need a current contour), the number of stem hints declared so far (a mask has
   ceil(stems/8) bytes, counting the operands that precede the mask itself as vstems). *)
Fixpoint ops_wf (maxargs : Z) (moved : bool) (nstems : Z) (ops : list sop) : Prop :=
  match ops with
  | [] => True
  | o :: r =>
    shape_ok o = true /\ len (args_of o) <= maxargs /\
    (is_move o = false -> is_hint o = false -> moved = true) /\
    (match mask_of o with Some m => len m = (nstems + stems_of o + 7) / 8 | None => True end) /\
    nstems + stems_of o + 7 < 4294967296 /\
    ops_wf maxargs (moved || is_move o) (nstems + stems_of o) r
  end.

(* bytes of an operator list: every operand in any valid encoding, then the operator *)
Inductive enc_ops : list sop -> list Z -> Prop :=
| enc_ops_nil : enc_ops [] []
| enc_ops_cons : forall o r bss tail,
    Forall2 encodes bss (args_of o) -> enc_ops r tail ->
    enc_ops (o :: r) (concat bss ++ opbytes o ++ tail).

(* the optional width operand in front *)
Inductive enc_width : option Z -> list Z -> Prop :=
| enc_width_none : enc_width None []
| enc_width_some : forall w bs, encodes bs w -> enc_width (Some w) bs.

(* a well-formed program: operators as above, starting with no contour and no hints; when a width
   is present the first operator still fits the operand stack *)
Definition prog_wf (maxargs : Z) (w : option Z) (ops : list sop) : Prop :=
  ops_wf maxargs false 0 ops /\
  match w, ops with
  | Some _, o :: _ => len (args_of o) + 1 <= maxargs
  | _, _ => True
  end.

(* the path the specification assigns to a program *)
Definition prog_path (ops : list sop) : list cmd := path_of (flat_map expand ops).

(* the contour discipline a sink may rely on: (MoveTo segment* Close)* *)
Fixpoint contours_ok (opened : bool) (c : list cmd) : bool :=
  match c with
  | [] => negb opened
  | MoveTo _ _ :: r => negb opened && contours_ok true r
  | Close :: r => opened && contours_ok false r
  | _ :: r => opened && contours_ok opened r
  end.
