(* Model/Cache.v — the memoisation layer of allsorts (property C03), function by function after the Rust.
   No proofs here.  Tables and constants come from Gen/CacheSites.v (regenerated from the source).

   1. generic memo step `query` (lookup by key, else compute, store, return) and histories
   2. LazyLoad<T>::get_or_load                          src/font.rs
   3. ReadScope::read_cache, LookupList::lookup_cache_* src/binary/read.rs, src/layout.rs
   4. the GSUB feature caches                           src/gsub.rs, src/layout.rs
        get_supported_features / features_supported / get_lookups_cache_index over an abstract GSUB table
        (find_script_or_default, find_langsys_or_default, FeatureVariations::matches, substitute,
        find_langsys_feature, build_lookups_default, make_supported_features_mask)
   5. the glyph-lookup layer of Font                    src/font.rs
        GlyphCache, lookup_glyph_index, map_unicode_to_glyph (Unicode cmap), lookup_glyph_index_with_variation,
        resolve_default_presentation, embedded_images / has_embedded_images, set_embedded_image_filter *)
From AV Require Import Base.Prelude Gen.CacheSites.
Open Scope Z_scope.

(* ------------------------------------------------------------------------------------------------ *)
(** * 1. generic memoisation *)

Section Memo.
  Context {A K V : Type}.
  Variable keqb : K -> K -> bool.
  Variable f : A -> V.             (* the memoised computation *)
  Variable key_of : A -> K.        (* the key the implementation derives from the arguments *)
  Variable cacheable : A -> bool.  (* arguments for which the cache is consulted and filled *)
  Variable keep : V -> bool.       (* values that are stored (an Err is returned without being stored) *)

  Fixpoint mfind (k : K) (st : list (K * V)) : option V :=
    match st with
    | [] => None
    | (k', v) :: r => if keqb k k' then Some v else mfind k r
    end.

  Definition query (st : list (K * V)) (a : A) : V * list (K * V) :=
    if cacheable a then
      match mfind (key_of a) st with
      | Some v => (v, st)
      | None => let v := f a in (v, if keep v then (key_of a, v) :: st else st)
      end
    else (f a, st).

  Fixpoint run (st : list (K * V)) (h : list A) : list (K * V) :=
    match h with
    | [] => st
    | a :: r => run (snd (query st a)) r
    end.
End Memo.

(* programs over a memo table: any computation that touches the table only through `query` *)
Inductive prog (A V R : Type) : Type :=
| Ret (r : R)
| Ask (a : A) (k : V -> prog A V R).
Arguments Ret {A V R} r.
Arguments Ask {A V R} a k.

Section Prog.
  Context {A K V R : Type}.
  Variable keqb : K -> K -> bool.
  Variable f : A -> V.
  Variable key_of : A -> K.
  Variable cacheable : A -> bool.
  Variable keep : V -> bool.

  Fixpoint exec (p : prog A V R) (st : list (K * V)) : R * list (K * V) :=
    match p with
    | Ret r => (r, st)
    | Ask a k => let '(v, st') := query keqb f key_of cacheable keep st a in exec (k v) st'
    end.

  (* the same program with every query answered by f directly *)
  Fixpoint pure_eval (p : prog A V R) : R :=
    match p with
    | Ret r => r
    | Ask a k => pure_eval (k (f a))
    end.

  Fixpoint exec_all (ps : list (prog A V R)) (st : list (K * V)) : list (K * V) :=
    match ps with
    | [] => st
    | p :: r => exec_all r (snd (exec p st))
    end.
End Prog.

(* ------------------------------------------------------------------------------------------------ *)
(** * 2. LazyLoad (src/font.rs) *)

Inductive lazy (T : Type) : Type :=
| NotLoaded
| Loaded (v : option T).
Arguments NotLoaded {T}.
Arguments Loaded {T} v.

(* fn get_or_load(&mut self, do_load) -> Result<Option<T>, ParseError>; `do_load()?` leaves the slot untouched *)
Definition get_or_load {T} (slot : lazy T) (do_load : outcome (option T)) : outcome (option T) * lazy T :=
  match slot with
  | Loaded v => (Ok v, slot)
  | NotLoaded =>
      match do_load with
      | Ok data => (Ok data, Loaded data)
      | e => (e, NotLoaded)
      end
  end.

(* ------------------------------------------------------------------------------------------------ *)
(** * 3. ReadCache and the per-lookup vector (src/binary/read.rs, src/layout.rs) *)

Fixpoint zfind {T} (k : Z) (m : list (Z * T)) : option T :=
  match m with
  | [] => None
  | (k', v) :: r => if k =? k' then Some v else zfind k r
  end.

(* ReadScope::read_cache: the scope is identified by its base; `read` parses a T at that base *)
Definition read_cache {T} (read : Z -> outcome T) (cache : list (Z * T)) (base : Z) : outcome T * list (Z * T) :=
  match zfind base cache with
  | Some t => (Ok t, cache)
  | None =>
      match read base with
      | Ok t => (Ok t, (base, t) :: cache)
      | e => (e, cache)
      end
  end.

Fixpoint set_nth {T} (l : list T) (n : nat) (x : T) : list T :=
  match l, n with
  | [], _ => []
  | _ :: r, O => x :: r
  | y :: r, S k => y :: set_nth r k x
  end.

(* LookupList::lookup_cache_gsub / lookup_cache_gpos: lookup_vec.resize(i + 1, None) when too short *)
Definition lookup_cache_get {T} (read : Z -> outcome T) (vec : list (option T)) (i : Z)
  : outcome T * list (option T) :=
  let vec := if len vec <=? i then vec ++ repeat None (Z.to_nat (i + 1 - len vec)) else vec in
  match nth_opt vec i with
  | Some (Some t) => (Ok t, vec)
  | Some None =>
      match read i with
      | Ok t => (Ok t, set_nth vec (Z.to_nat i) (Some t))
      | e => (e, vec)
      end
  | None => (Panic, vec)          (* lookup_vec[lookup_index] out of bounds: not reachable after the resize *)
  end.

(* ------------------------------------------------------------------------------------------------ *)
(** * 4. GSUB feature caches (src/gsub.rs, src/layout.rs) *)

Definition langsys := list Z.                       (* feature indices *)
Record script := mk_script { s_tag : Z; s_default : option langsys; s_langs : list (Z * langsys) }.
(* ConditionSet: offset 0 = universal; otherwise conditions (axis index, min, max), raw F2Dot14 *)
Inductive conds := CUniversal | CSet (l : list (Z * Z * Z)).
(* FeatureTableSubstitution of a record: offset 0 = NoSubstitution; otherwise (feature index, lookup indices) *)
Inductive substs := SNone | STable (l : list (Z * list Z)).
Record gsub := mk_gsub {
  g_features : list (Z * list Z);                    (* FeatureList: (tag, lookup indices) *)
  g_scripts : list script;
  g_fvars : option (list (conds * substs))           (* FeatureVariations records *)
}.

(* FeatureTableSubstitution<'a> as handed to the shaping code: the offset identifies the table *)
Inductive fts := FNoSubst | FTable (offset : Z) (l : list (Z * list Z)).

(* ScriptList::find_script *)
Fixpoint find_script (scripts : list script) (tag : Z) : option script :=
  match scripts with
  | [] => None
  | s :: r => if s_tag s =? tag then Some s else find_script r tag
  end.

(* LayoutTable::find_script_or_default *)
Definition find_script_or_default (g : gsub) (tag : Z) : option script :=
  match find_script (g_scripts g) tag with
  | Some s => Some s
  | None => find_script (g_scripts g) TAG_DFLT
  end.

(* ScriptTable::find_langsys *)
Fixpoint find_langsys (recs : list (Z * langsys)) (tag : Z) : option langsys :=
  match recs with
  | [] => None
  | (t, ls) :: r => if t =? tag then Some ls else find_langsys r tag
  end.

(* ScriptTable::find_langsys_or_default *)
Definition find_langsys_or_default (s : script) (lang : option Z) : option langsys :=
  match lang with
  | Some tag => match find_langsys (s_langs s) tag with Some ls => Some ls | None => s_default s end
  | None => s_default s
  end.

(* ConditionTable::matches (format 1): tuple.get(axis) within [min, max] *)
Definition condition_matches (tuple : list Z) (c : Z * Z * Z) : bool :=
  let '(axis, mn, mx) := c in
  match nth_opt tuple axis with
  | Some v => (mn <=? v) && (v <=? mx)
  | None => false
  end.

Definition condset_matches (tuple : list Z) (c : conds) : bool :=
  match c with
  | CUniversal => true
  | CSet l => forallb (condition_matches tuple) l
  end.

(* FeatureVariationsOwned::matches: the first record whose condition set matches; the model identifies the
   substitution table of record i by the offset i + 1 (distinct records, distinct tables) *)
Fixpoint fv_matches (recs : list (conds * substs)) (i : Z) (tuple : list Z) : option fts :=
  match recs with
  | [] => None
  | (c, s) :: r =>
      if condset_matches tuple c then
        Some (match s with SNone => FNoSubst | STable l => FTable (i + 1) l end)
      else fv_matches r (i + 1) tuple
  end.

(* LayoutTable::feature_variations *)
Definition feature_variations (g : gsub) (tuple : option (list Z)) : option fts :=
  match tuple, g_fvars g with
  | Some t, Some recs => fv_matches recs 0 t
  | _, _ => None
  end.

(* FeatureTableSubstitution::cache_key *)
Definition fts_cache_key (f : fts) : option Z :=
  match f with FNoSubst => None | FTable off _ => Some off end.

(* FeatureTableSubstitution::substitute: records are scanned in order; a larger feature index stops the scan *)
Fixpoint substitute_scan (l : list (Z * list Z)) (fidx : Z) : option (list Z) :=
  match l with
  | [] => None
  | (i, lk) :: r => if i =? fidx then Some lk else if fidx <? i then None else substitute_scan r fidx
  end.

Definition substitute (f : fts) (fidx : Z) : option (list Z) :=
  match f with FNoSubst => None | FTable _ l => substitute_scan l fidx end.

(* FeatureList::nth_feature_record *)
Definition nth_feature_record (g : gsub) (i : Z) : outcome (Z * list Z) :=
  match nth_opt (g_features g) i with Some r => Ok r | None => Err BadIndex end.

(* LayoutTable::find_langsys_feature: the first feature of the LangSys with that tag, substituted when the
   feature index occurs in the feature table substitution *)
Fixpoint find_langsys_feature_loop (g : gsub) (idx : list Z) (tag : Z) (fv : fts) : outcome (option (list Z)) :=
  match idx with
  | [] => Ok None
  | fi :: r =>
      rec <- nth_feature_record g fi ;;
      if fst rec =? tag then
        Ok (Some (match substitute fv fi with Some lk => lk | None => snd rec end))
      else find_langsys_feature_loop g r tag fv
  end.

Definition find_langsys_feature (g : gsub) (ls : langsys) (tag : Z) (fv : option fts) : outcome (option (list Z)) :=
  find_langsys_feature_loop g ls tag (match fv with Some f => f | None => FNoSubst end).

(* BTreeMap<usize, u32>::insert: ordered by key, a later insert replaces the value *)
Fixpoint bt_insert (m : list (Z * Z)) (k v : Z) : list (Z * Z) :=
  match m with
  | [] => [(k, v)]
  | (k', v') :: r =>
      if k <? k' then (k, v) :: m
      else if k =? k' then (k, v) :: r
      else (k', v') :: bt_insert r k v
  end.

Definition bt_insert_all (m : list (Z * Z)) (lookups : list Z) (tag : Z) : list (Z * Z) :=
  fold_left (fun acc lk => bt_insert acc lk tag) lookups m.

(* FeatureMask::contains *)
Definition mask_contains (m other : Z) : bool := Z.land m other =? other.

(* build_lookups_default: for every (mask, tag) of FEATURE_MASKS contained in the requested mask *)
Fixpoint build_lookups_loop (g : gsub) (ls : langsys) (mask : Z) (fv : option fts)
         (table : list (Z * Z)) (acc : list (Z * Z)) : outcome (list (Z * Z)) :=
  match table with
  | [] => Ok acc
  | (fm, ftag) :: r =>
      if mask_contains mask fm then
        ft <- find_langsys_feature g ls ftag fv ;;
        match ft with
        | Some lookups => build_lookups_loop g ls mask fv r (bt_insert_all acc lookups ftag)
        | None =>
            if ftag =? TAG_VRT2 then
              ft2 <- find_langsys_feature g ls TAG_VERT fv ;;
              match ft2 with
              | Some lookups => build_lookups_loop g ls mask fv r (bt_insert_all acc lookups TAG_VERT)
              | None => build_lookups_loop g ls mask fv r acc
              end
            else build_lookups_loop g ls mask fv r acc
        end
      else build_lookups_loop g ls mask fv r acc
  end.

Definition build_lookups_default (g : gsub) (ls : langsys) (mask : Z) (fv : option fts) : outcome (list (Z * Z)) :=
  build_lookups_loop g ls mask fv FEATURE_MASKS [].

(* FeatureMask::from_tag *)
Fixpoint from_tag_loop (t : list (Z * Z)) (tag : Z) : Z :=
  match t with
  | [] => 0
  | (tg, m) :: r => if tg =? tag then m else from_tag_loop r tag
  end.
Definition from_tag (tag : Z) : Z := from_tag_loop FROM_TAG tag.

(* make_supported_features_mask (feature_by_index = nth_feature_record when a FeatureList is present) *)
Fixpoint make_supported_features_mask (g : gsub) (idx : list Z) (acc : Z) : outcome Z :=
  match idx with
  | [] => Ok acc
  | fi :: r =>
      rec <- nth_feature_record g fi ;;
      make_supported_features_mask g r (Z.lor acc (from_tag (fst rec)))
  end.

(* the three RefCells of LayoutCacheData that the feature code uses *)
Record lcache := mk_lcache {
  c_supported : list ((Z * option Z) * Z);                       (* (script, lang) -> mask bits *)
  c_index : list ((Z * option Z * Z * option Z) * Z);            (* (script, lang, mask, fts key) -> index *)
  c_lookups : list (list (Z * Z))                                (* cached_lookups *)
}.

(* new_layout_cache: cached_lookups = vec![Vec::new()] *)
Definition new_lcache : lcache := mk_lcache [] [] [[]].

Definition optz_eqb (a b : option Z) : bool :=
  match a, b with
  | Some x, Some y => x =? y
  | None, None => true
  | _, _ => false
  end.

Definition skey_eqb (a b : Z * option Z) : bool := (fst a =? fst b) && optz_eqb (snd a) (snd b).
Definition ikey_eqb (a b : Z * option Z * Z * option Z) : bool :=
  let '(s1, l1, m1, f1) := a in
  let '(s2, l2, m2, f2) := b in
  (s1 =? s2) && optz_eqb l1 l2 && (m1 =? m2) && optz_eqb f1 f2.

(* the value computed in the Vacant arm of get_supported_features *)
Definition supported_features_load (g : gsub) (script_tag : Z) (lang : option Z) : outcome Z :=
  match find_script_or_default g script_tag with
  | Some s =>
      match find_langsys_or_default s lang with
      | Some ls => make_supported_features_mask g ls 0
      | None => Ok 0
      end
  | None => Ok 0
  end.

(* get_supported_features: FeatureMask::from_bits_truncate of the stored bits on a hit *)
Definition get_supported_features (g : gsub) (c : lcache) (script_tag : Z) (lang : option Z) : outcome Z * lcache :=
  match mfind skey_eqb (script_tag, lang) (c_supported c) with
  | Some bits => (Ok (Z.land bits MASK_ALL), c)
  | None =>
      match supported_features_load g script_tag lang with
      | Ok m => (Ok m, mk_lcache (((script_tag, lang), m) :: c_supported c) (c_index c) (c_lookups c))
      | e => (e, c)
      end
  end.

(* features_supported *)
Definition features_supported (g : gsub) (c : lcache) (script_tag : Z) (lang : option Z) (mask : Z)
  : outcome bool * lcache :=
  let '(r, c') := get_supported_features g c script_tag lang in
  (m <- r ;; Ok (mask_contains m mask), c').

(* get_lookups_cache_index *)
Definition get_lookups_cache_index (g : gsub) (c : lcache) (script_tag : Z) (lang : option Z)
           (fv : option fts) (mask : Z) : outcome Z * lcache :=
  let key := (script_tag, lang, mask, match fv with Some f => fts_cache_key f | None => None end) in
  match mfind ikey_eqb key (c_index c) with
  | Some index => (Ok index, c)
  | None =>
      match find_script_or_default g script_tag with
      | Some s =>
          match find_langsys_or_default s lang with
          | Some ls =>
              match build_lookups_default g ls mask fv with
              | Ok lookups =>
                  let index := len (c_lookups c) in
                  (Ok index, mk_lcache (c_supported c) ((key, index) :: c_index c) (c_lookups c ++ [lookups]))
              | Err e => (Err e, c)
              | Panic => (Panic, c)
              | OOB => (OOB, c)
              end
          | None => (Ok 0, mk_lcache (c_supported c) ((key, 0) :: c_index c) (c_lookups c))
          end
      | None => (Ok 0, mk_lcache (c_supported c) ((key, 0) :: c_index c) (c_lookups c))
      end
  end.

(* what the callers do with the index: &gsub_cache.cached_lookups.borrow()[index] *)
Definition cached_lookups_at (c : lcache) (index : Z) : outcome (list (Z * Z)) :=
  match nth_opt (c_lookups c) index with Some l => Ok l | None => Panic end.

(* operations of the correspondence harness on one LayoutCache *)
Inductive lop :=
| LI (script : Z) (lang : option Z) (tuple : option (list Z)) (mask : Z)
| SF (script : Z) (lang : option Z) (mask : Z).
Inductive lres := RLookups (l : list (Z * Z)) | RBool (b : bool).

Definition l_step (g : gsub) (c : lcache) (op : lop) : outcome lres * lcache :=
  match op with
  | LI script lang tuple mask =>
      let '(r, c') := get_lookups_cache_index g c script lang (feature_variations g tuple) mask in
      (i <- r ;; l <- cached_lookups_at c' i ;; Ok (RLookups l), c')
  | SF script lang mask =>
      let '(r, c') := features_supported g c script lang mask in
      (b <- r ;; Ok (RBool b), c')
  end.

Fixpoint l_run (g : gsub) (c : lcache) (ops : list lop) : list (outcome lres) :=
  match ops with
  | [] => []
  | op :: r => let '(res, c') := l_step g c op in res :: l_run g c' r
  end.

(* the specification: what each operation returns on a freshly parsed table — no state *)
Definition lookups_spec (g : gsub) (script : Z) (lang : option Z) (tuple : option (list Z)) (mask : Z)
  : outcome (list (Z * Z)) :=
  match find_script_or_default g script with
  | Some s =>
      match find_langsys_or_default s lang with
      | Some ls => build_lookups_default g ls mask (feature_variations g tuple)
      | None => Ok []
      end
  | None => Ok []
  end.

Definition l_spec (g : gsub) (op : lop) : outcome lres :=
  match op with
  | LI script lang tuple mask => l <- lookups_spec g script lang tuple mask ;; Ok (RLookups l)
  | SF script lang mask => m <- supported_features_load g script lang ;; Ok (RBool (mask_contains m mask))
  end.

(* ------------------------------------------------------------------------------------------------ *)
(** * 5. the glyph-lookup layer of Font (src/font.rs) *)

(* what is fixed when the Font is constructed *)
Record font_static := mk_font_static {
  f_cmap : list (Z * Z);          (* Unicode cmap subtable: character -> glyph (map_glyph gives 0 otherwise) *)
  f_emoji : list Z;               (* characters with Emoji_Presentation *)
  f_flags : Z;                    (* glyph_table_flags *)
  f_parses : Z                    (* image tables (GlyphTableFlags bits) whose loader succeeds *)
}.

Inductive images := ImgSvg | ImgEmbedded | ImgSbix.

Record font_state := mk_font_state {
  st_glyph_cache : option (Z * Z);        (* GlyphCache: (glyph index, selector) of U+25CC *)
  st_images : lazy images;                (* embedded_images slot *)
  st_filter : Z                           (* embedded_image_filter *)
}.

Definition font_new : font_state := mk_font_state None NotLoaded DEFAULT_IMAGE_FILTER.

Definition VS15 : Z := 15.
Definition VS16 : Z := 16.
Inductive presentation := Required | NotRequired.

(* GlyphCache::get / put *)
Definition glyph_cache_get (c : option (Z * Z)) (ch : Z) : option (Z * Z) :=
  if ch =? DOTTED_CIRCLE then c else None.
Definition glyph_cache_put (c : option (Z * Z)) (ch g vs : Z) : outcome (option (Z * Z)) :=
  if ch =? DOTTED_CIRCLE then
    match c with Some _ => Panic (* "duplicate entry" *) | None => Ok (Some (g, vs)) end
  else Ok c.

Definition flags_contain (flags f : Z) : bool := Z.land flags f =? f.

(* the closure of embedded_images: the first table of SVG, CBDT, SBIX, EBDT that the filter lets through *)
Definition images_load (fs : font_static) (filter : Z) : outcome (option images) :=
  let tables_to_check := Z.land (f_flags fs) filter in
  let load (bit : Z) (v : images) := if flags_contain (f_parses fs) bit then Ok (Some v) else Err Eof in
  if flags_contain tables_to_check GTF_SVG then load GTF_SVG ImgSvg
  else if flags_contain tables_to_check GTF_CBDT then load GTF_CBDT ImgEmbedded
  else if flags_contain tables_to_check GTF_SBIX then load GTF_SBIX ImgSbix
  else if flags_contain tables_to_check GTF_EBDT then load GTF_EBDT ImgEmbedded
  else Ok None.

(* fn embedded_images *)
Definition embedded_images (fs : font_static) (st : font_state) : outcome (option images) * font_state :=
  let '(r, slot) := get_or_load (st_images st) (images_load fs (st_filter st)) in
  (r, mk_font_state (st_glyph_cache st) slot (st_filter st)).

(* fn has_embedded_images *)
Definition has_embedded_images (fs : font_static) (st : font_state) : bool * font_state :=
  let '(r, st') := embedded_images fs st in
  (match r with Ok (Some _) => true | _ => false end, st').

(* fn has_glyph_outlines *)
Definition has_glyph_outlines (fs : font_static) : bool :=
  negb (Z.land (f_flags fs) OUTLINE_FLAGS =? 0).

(* fn set_embedded_image_filter *)
Definition set_embedded_image_filter (st : font_state) (flags : Z) : font_state :=
  mk_font_state (st_glyph_cache st)
                (if flags =? st_filter st then st_images st else NotLoaded)
                flags.

(* fn map_glyph *)
Definition map_glyph (fs : font_static) (ch : Z) : Z :=
  match zfind ch (f_cmap fs) with Some g => g | None => 0 end.

(* fn lookup_glyph_index_with_variation: `||` and `&&` evaluate has_embedded_images only for VS16 *)
Definition lookup_glyph_index_with_variation (fs : font_static) (st : font_state) (ch : Z)
           (mp : presentation) (vs : Z) : Z * font_state :=
  match mp with
  | Required =>
      if vs =? VS16 then
        let '(b, st') := has_embedded_images fs st in
        (if b then map_glyph fs ch else 0, st')
      else if (vs =? VS15) && has_glyph_outlines fs then (map_glyph fs ch, st)
      else (0, st)
  | NotRequired => (map_glyph fs ch, st)
  end.

(* fn resolve_default_presentation *)
Definition resolve_default_presentation (fs : font_static) (ch : Z) (vs : option Z) : Z :=
  match vs with
  | Some v => v
  | None => if existsb (Z.eqb ch) (f_emoji fs) then VS16 else VS15
  end.

(* fn map_unicode_to_glyph, Encoding::Unicode *)
Definition map_unicode_to_glyph (fs : font_static) (st : font_state) (ch : Z) (mp : presentation)
           (vs : option Z) : (Z * Z) * font_state :=
  let used := resolve_default_presentation fs ch vs in
  let '(g, st') := lookup_glyph_index_with_variation fs st ch mp used in
  ((g, used), st').

(* fn lookup_glyph_index *)
Definition lookup_glyph_index (fs : font_static) (st : font_state) (ch : Z) (mp : presentation)
           (vs : option Z) : outcome (Z * Z) * font_state :=
  let cached_path := match mp, vs with NotRequired, None => true | _, _ => false end in
  if negb cached_path then
    let '(r, st') := map_unicode_to_glyph fs st ch mp vs in (Ok r, st')
  else
    match glyph_cache_get (st_glyph_cache st) ch with
    | Some r => (Ok r, st)
    | None =>
        let '((g, used), st') := map_unicode_to_glyph fs st ch mp vs in
        match glyph_cache_put (st_glyph_cache st') ch g used with
        | Ok gc => (Ok (g, used), mk_font_state gc (st_images st') (st_filter st'))
        | Err e => (Err e, st')
        | Panic => (Panic, st')
        | OOB => (OOB, st')
        end
    end.

(* operations of the correspondence harness on one Font *)
Inductive gop :=
| GLookup (ch : Z) (mp : presentation) (vs : option Z)
| GFilter (flags : Z)
| GHasImages
| GImage        (* Font::lookup_glyph_image on a font whose image tables have no strikes / documents *)
| GShape.       (* Font::shape: looks up DOTTED_CIRCLE with (NotRequired, None) before anything else *)
Inductive gres := GGlyph (g vs : Z) | GUnit | GBool (b : bool) | GNoImage.

Definition g_step (fs : font_static) (st : font_state) (op : gop) : outcome gres * font_state :=
  match op with
  | GLookup ch mp vs =>
      let '(r, st') := lookup_glyph_index fs st ch mp vs in
      (p <- r ;; Ok (GGlyph (fst p) (snd p)), st')
  | GFilter flags => (Ok GUnit, set_embedded_image_filter st flags)
  | GHasImages => let '(b, st') := has_embedded_images fs st in (Ok (GBool b), st')
  | GImage => let '(r, st') := embedded_images fs st in (_ <- r ;; Ok GNoImage, st')   (* `self.embedded_images()?` *)
  | GShape =>
      let '(r, st') := lookup_glyph_index fs st DOTTED_CIRCLE NotRequired None in
      (_ <- r ;; Ok GUnit, st')
  end.

Fixpoint g_run (fs : font_static) (st : font_state) (ops : list gop) : list (outcome gres) :=
  match ops with
  | [] => []
  | op :: r => let '(res, st') := g_step fs st op in res :: g_run fs st' r
  end.

(* the specification: a pure function of the arguments and the current filter setting *)
Definition images_spec (fs : font_static) (filter : Z) : bool :=
  match images_load fs filter with Ok (Some _) => true | _ => false end.

Definition glyph_spec (fs : font_static) (filter : Z) (ch : Z) (mp : presentation) (vs : option Z) : Z * Z :=
  let used := resolve_default_presentation fs ch vs in
  let g :=
    match mp with
    | NotRequired => map_glyph fs ch
    | Required =>
        if used =? VS16 then (if images_spec fs filter then map_glyph fs ch else 0)
        else if (used =? VS15) && has_glyph_outlines fs then map_glyph fs ch
        else 0
    end in
  (g, used).

Definition g_spec (fs : font_static) (filter : Z) (op : gop) : outcome gres :=
  match op with
  | GLookup ch mp vs => let '(g, u) := glyph_spec fs filter ch mp vs in Ok (GGlyph g u)
  | GFilter _ => Ok GUnit
  | GHasImages => Ok (GBool (images_spec fs filter))
  | GImage => _ <- images_load fs filter ;; Ok GNoImage
  | GShape => Ok GUnit
  end.

(* the filter in force when each operation runs *)
Fixpoint g_spec_run (fs : font_static) (filter : Z) (ops : list gop) : list (outcome gres) :=
  match ops with
  | [] => []
  | op :: r =>
      g_spec fs filter op ::
      g_spec_run fs (match op with GFilter fl => fl | _ => filter end) r
  end.
