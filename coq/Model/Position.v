(* Model/Position.v — src/glyph_position.rs: GlyphLayout::glyph_positions for horizontal layout
   (vertical = false), adjust_cursive_connections, adjust_cursive_chain, position_marks, sum_advance.
   Function by function after the Rust; no proofs here.  The font enters only through the advance width of a
   glyph id (`advs`, the hmtx advances; a glyph id beyond the table has advance 0 as glyph_info::advance says).
   i32 arithmetic is exact here: every operand is a sum of at most |run| 16/17-bit quantities. *)
From AV Require Import Base.Prelude Model.Layout Model.Gpos.
Open Scope Z_scope.

Record gpos_pos := mkPos {
  hori_advance : Z; vert_advance : Z; x_offset : Z; y_offset : Z;
  cursive_attachment : option Z
}.

Definition pos_default : gpos_pos := mkPos 0 0 0 0 None.

Inductive direction := LeftToRight | RightToLeft.

Definition pget (ps : list gpos_pos) (i : Z) : outcome gpos_pos :=
  match nth_opt ps i with Some p => Ok p | None => Panic end.
Definition pset (ps : list gpos_pos) (i : Z) (p : gpos_pos) : list gpos_pos :=
  take i ps ++ match drop i ps with [] => [] | _ :: t => p :: t end.

(* Font::horizontal_advance *)
Definition glyph_adv (advs : list Z) (g : Z) : Z :=
  match nth_opt advs g with Some a => a | None => 0 end.

(* GlyphPosition::update / update_advance *)
Definition pos_update (p : gpos_pos) (h v x y : Z) : gpos_pos := mkPos h v x y (cursive_attachment p).
Definition pos_update_advance (p : gpos_pos) (h v : Z) : gpos_pos := mkPos h v (x_offset p) (y_offset p) (cursive_attachment p).
Definition set_y (p : gpos_pos) (y : Z) : gpos_pos := mkPos (hori_advance p) (vert_advance p) (x_offset p) y (cursive_attachment p).
Definition set_x (p : gpos_pos) (x : Z) : gpos_pos := mkPos (hori_advance p) (vert_advance p) x (y_offset p) (cursive_attachment p).
Definition set_hori (p : gpos_pos) (h : Z) : gpos_pos := mkPos h (vert_advance p) (x_offset p) (y_offset p) (cursive_attachment p).
Definition set_att (p : gpos_pos) (a : Z) : gpos_pos := mkPos (hori_advance p) (vert_advance p) (x_offset p) (y_offset p) (Some a).

(* first loop of glyph_positions: (positions, has_marks, has_cursive_connection) *)
Fixpoint first_pass (advs : list Z) (infos : list info) (todo : list info) (i : Z) (ps : list gpos_pos) (hm hc : bool)
  : outcome (list gpos_pos * bool * bool) :=
  match todo with
  | [] => Ok (ps, hm, hc)
  | x :: rest =>
    let h := glyph_adv advs (i_id x) + i_kern x in
    p <- pget ps i ;;
    match i_place x with
    | PNone => first_pass advs infos rest (i + 1) (pset ps i (pos_update p h 0 0 0)) hm hc
    | PDistance dx dy => first_pass advs infos rest (i + 1) (pset ps i (pos_update p h 0 dx dy)) hm hc
    | PMarkAnchor b (bx, by_) (mx, my) =>
      match nth_opt infos b with
      | Some _ =>
        first_pass advs infos rest (i + 1) (pset ps i (pos_update p h 0 (bx - mx) (by_ - my))) true hc
      | None => Err BadIndex
      end
    | PMarkOverprint b =>
      match nth_opt infos b with
      | Some _ => first_pass advs infos rest (i + 1) (pset ps i (pos_update_advance p 0 0)) true hc
      | None => Err BadIndex
      end
    | PCursiveAnchor e _ _ _ =>
      match nth_opt infos e with
      | Some _ =>
        if 65536 <=? i then Err BadValue                       (* u16::try_from(i)? *)
        else
          pe <- pget ps e ;;
          let ps1 := pset ps e (set_att pe i) in
          p1 <- pget ps1 i ;;
          first_pass advs infos rest (i + 1) (pset ps1 i (mkPos h 0 (x_offset p1) (y_offset p1) (cursive_attachment p1))) hm true
      | None => Err BadIndex
      end
    end
  end.

(* adjust_cursive_chain (bounded: a chain cannot be longer than the run) *)
Fixpoint adjust_cursive_chain (fuel : nat) (delta : Z) (index : Z) (ps : list gpos_pos) : outcome (list gpos_pos) :=
  match fuel with
  | O => Ok ps
  | S fuel' =>
    p <- pget ps index ;;
    let ps' := pset ps index (set_y p (y_offset p + delta)) in
    match cursive_attachment p with
    | Some nx => adjust_cursive_chain fuel' delta nx ps'
    | None => Ok ps'
    end
  end.

Fixpoint adjust_cursive_connections (dir : direction) (todo : list info) (i : Z) (ps : list gpos_pos) : outcome (list gpos_pos) :=
  match todo with
  | [] => Ok ps
  | x :: rest =>
    match i_place x with
    | PCursiveAnchor e rtl_flag (exx, exy) (enx, eny) =>
      let '(first, second) := if i <? e then (i, e) else (e, i) in
      pf <- pget ps first ;;
      let ps1 := pset ps first (set_hori pf (match dir with LeftToRight => enx | RightToLeft => hori_advance pf + enx end)) in
      let dy := exy - eny in
      if rtl_flag then
        pf1 <- pget ps1 first ;; psnd <- pget ps1 second ;;
        let ps2 := pset ps1 first (set_y pf1 (y_offset pf1 + (dy + y_offset psnd))) in
        pf2 <- pget ps2 first ;;
        ps3 <- match cursive_attachment pf2 with
               | Some lk => adjust_cursive_chain (length ps2) dy lk ps2
               | None => Ok ps2
               end ;;
        adjust_cursive_connections dir rest (i + 1) ps3
      else
        pf1 <- pget ps1 first ;; psnd <- pget ps1 second ;;
        let ps2 := pset ps1 second (set_y psnd (y_offset psnd + (y_offset pf1 - dy))) in
        adjust_cursive_connections dir rest (i + 1) ps2
    | _ => adjust_cursive_connections dir rest (i + 1) ps
    end
  end.

(* sum_advance(positions.get(a..b)): None (hence 0) unless a <= b <= len *)
Definition sum_hori (ps : list gpos_pos) (a b : Z) : Z :=
  if (a <=? b) && (b <=? len ps) then fold_left (fun acc p => acc + hori_advance p) (take (b - a) (drop a ps)) 0 else 0.
Definition sum_vert (ps : list gpos_pos) (a b : Z) : Z :=
  if (a <=? b) && (b <=? len ps) then fold_left (fun acc p => acc + vert_advance p) (take (b - a) (drop a ps)) 0 else 0.

Fixpoint position_marks (dir : direction) (todo : list info) (i : Z) (ps : list gpos_pos) : outcome (list gpos_pos) :=
  match todo with
  | [] => Ok ps
  | x :: rest =>
    match i_place x with
    | PMarkAnchor b _ _ =>
      bp <- pget ps b ;;
      let '(ho, vo) := match dir with
                       | LeftToRight => (sum_hori ps b i, sum_vert ps b i)
                       | RightToLeft => (sum_hori ps i b, sum_vert ps i b)
                       end in
      p <- pget ps i ;;
      let x1 := x_offset p + x_offset bp in
      let y1 := y_offset p + y_offset bp in
      let p' := match dir with
                | LeftToRight => set_y (set_x p (x1 - ho)) (y1 - vo)
                | RightToLeft => set_y (set_x p (x1 + ho)) (y1 + vo)
                end in
      position_marks dir rest (i + 1) (pset ps i p')
    | PMarkOverprint b =>
      bp <- pget ps b ;; p <- pget ps i ;;
      position_marks dir rest (i + 1) (pset ps i (set_y (set_x p (x_offset bp)) (y_offset bp)))
    | _ => position_marks dir rest (i + 1) ps
    end
  end.

Definition glyph_positions (advs : list Z) (dir : direction) (infos : list info) : outcome (list gpos_pos) :=
  '(ps, hm, hc) <- first_pass advs infos infos 0 (map (fun _ => pos_default) infos) false false ;;
  ps1 <- (if hc then adjust_cursive_connections dir infos 0 ps else Ok ps) ;;
  if hm then position_marks dir infos 0 ps1 else Ok ps1.
