(* Model/DepSize.v — what the encoded size of each of the crate's dependent records IS (from the OpenType / CBLC /
   SVG / STAT / ItemVariationStore record layouts, i.e. what the record's own read_dep consumes), independent of
   the `size()` formulas (those are regenerated into Gen/DepSizes.v), and ReadCtxt::read_array_dep driven with the
   regenerated formula as the stride.  No proofs here. *)
From Coq Require Import ZArith List.
From AV Require Import Base.Prelude Model.DepSizeExpr Gen.DepSizes.
Import ListNotations.
Open Scope Z_scope.

Definition a0 (a : list Z) := nth 0 a 0.
Definition a1 (a : list Z) := nth 1 a 0.
Definition a2 (a : list Z) := nth 2 a 0.

Definition lib_spec_size (r : librec) (a : list Z) : Z :=
  match r with
  | L_AxisValue => 2 + 4                       (* uint16 axisIndex, Fixed value *)
  | L_VariationRegion => a0 a * (3 * 2)        (* axisCount x (start, peak, end : F2DOT14) *)
  | L_SVGDocumentRecord => 2 + 2 + 4 + 4
  | L_BitmapSize => 4 * 4 + 12 + 12 + 2 + 2 + 1 + 1 + 1 + 1
  | L_SbitLineMetrics => 12
  | L_BigGlyphMetrics => 8
  | L_ScriptRecord => 4 + 2
  | L_FeatureRecord => 4 + 2
  | L_LangSysRecord => 4 + 2
  | L_ValueRecord => vf_size (a0 a)
  | L_PairValueRecord => 2 + vf_size (a0 a) + vf_size (a1 a)
  | L_Class2Record => vf_size (a0 a) + vf_size (a1 a)
  | L_Class1Record => a0 a * (vf_size (a1 a) + vf_size (a2 a))
  | L_EntryExitRecord => 2 + 2
  | L_BaseRecord => a0 a * 2
  | L_MarkRecord => 2 + 2
  | L_ComponentRecord => a0 a * 2
  end.

(* the usize-typed count arguments (class2Count, markClassCount) come from a uint16 in every caller; the
   statement needs only that the encoded size itself is a usize *)
Definition lib_args_ok (r : librec) (a : list Z) : bool :=
  args_ok (lib_arg_tys r) a && (lib_spec_size r a <? USIZE).

(* ReadCtxt::read_array_dep::<T>(n, args) on a cursor with `avail` bytes left:
     let stride = T::size(args); let size = length.checked_mul(stride).ok_or(BadEof)?; self.read_scope(size)?
   result: (stride, outcome of the window: Ok bytes taken = cursor advance | Err Eof) *)
Definition lib_read_array_dep (m : mode) (r : librec) (a : list Z) (n avail : Z) : outcome (Z * outcome Z) :=
  stride <- seval m a (lib_size_expr r) ;;
  Ok (stride, (size <- cmul n stride ;; if size <=? avail then Ok size else Err Eof)).

(* ReadArray::read_item(i) of that array cuts scope.offset_length(i * stride, stride) and runs read_dep in it:
   the item is readable iff the record's encoded size fits the stride *)
Definition lib_item_fits (r : librec) (a : list Z) (stride : Z) : bool := lib_spec_size r a <=? stride.
