(* Model/CmapSpec.v — what the OpenType specification ("cmap — Character to Glyph Index Mapping
   Table") says a sub-table of format 0, 4, 6, 10, 12 assigns to a character code, as a relation
   over the *parsed fields*, written from the text of the specification and not from the
   implementation's loops or index arithmetic.  Also the documented sub-table preference list and
   the well-formedness conditions the specification imposes.  No proofs in this file. *)
From AV Require Import Base.Prelude Gen.CmapPrefs Model.Cmap.
Open Scope Z_scope.

(* ------------------------------------------------------------------------------------------- *)
(* Format 4 ("Segment mapping to delta values").

   "You search for the first endCode that is greater than or equal to the character code you want
    to map.  If the corresponding startCode is less than or equal to the character code, then you
    use the corresponding idDelta and idRangeOffset to map the character code to a glyph index
    (otherwise, the missingGlyph is returned)."

   "If the idRangeOffset value for the segment is not 0, the mapping of character codes relies on
    glyphIdArray.  The character code offset from startCode is added to the idRangeOffset value.
    This sum is used as an offset from the current location within idRangeOffset itself to index
    out the correct glyphIdArray value.  [...]
        glyphId = *(idRangeOffset[i]/2 + (c - startCode[i]) + &idRangeOffset[i])
    If the value obtained from the indexing operation is not 0 (which indicates missingGlyph),
    idDelta[i] is added to it to get the glyph index.  The idDelta arithmetic is modulo 65536."

   "If the idRangeOffset is 0, the idDelta value is added directly to the character code offset
    (i.e. idDelta[i] + c) to get the corresponding glyph index.  Again, the idDelta arithmetic is
    modulo 65536."

   The idRangeOffset array is immediately followed by glyphIdArray, so "&idRangeOffset[i]" is word
   i of the word sequence  idRangeOffset ++ glyphIdArray  and the addressed word is word
   i + idRangeOffset[i]/2 + (c - startCode[i])  of that sequence.  The specification only gives
   the address a meaning when idRangeOffset[i] is even and the word lies in glyphIdArray.
   One documented deviation is part of this specification: idRangeOffset = 0xFFFF is read as 0
   (Fontographer wrote that in the final segment; same allowance as AFDKO's ttread). *)

Definition words (ros gids : list Z) : list Z := ros ++ gids.

Inductive f4_glyph (ros gids : list Z) (i ro delta start c : Z) : Z -> Prop :=
| G4_delta :
    ro = 0 \/ ro = 65535 ->
    f4_glyph ros gids i ro delta start c ((c + delta) mod 65536)
| G4_array_missing :
    ro <> 0 -> ro <> 65535 -> Z.even ro = true ->
    len ros <= i + ro / 2 + (c - start) ->
    get (words ros gids) (i + ro / 2 + (c - start)) = Some 0 ->
    f4_glyph ros gids i ro delta start c 0
| G4_array :
    forall w,
    ro <> 0 -> ro <> 65535 -> Z.even ro = true ->
    len ros <= i + ro / 2 + (c - start) ->
    get (words ros gids) (i + ro / 2 + (c - start)) = Some w -> w <> 0 ->
    f4_glyph ros gids i ro delta start c ((w + delta) mod 65536).

(* segment i is the first one whose endCode is >= c, and its startCode is <= c *)
Definition f4_segment (ends starts deltas ros : list Z) (c i e s dl ro : Z) : Prop :=
  get ends i = Some e /\ get starts i = Some s /\ get deltas i = Some dl /\ get ros i = Some ro /\
  c <= e /\ (forall j e', 0 <= j < i -> get ends j = Some e' -> e' < c) /\
  s <= c.

(* ------------------------------------------------------------------------------------------- *)
(* assigns st c g: "sub-table st maps character code c to glyph g" *)

Inductive assigns : subtable -> Z -> Z -> Prop :=
(* Format 0: "glyphIdArray[256]: an array that maps character codes to glyph index values"
   (gids has exactly 256 entries in every F0 that [parse] or the owned type can produce) *)
| A0 : forall l gids c g,
    get gids c = Some g -> assigns (F0 l gids) c g
(* Format 4 *)
| A4 : forall l ends starts deltas ros gids c i e s dl ro g,
    0 <= c <= 65535 ->
    f4_segment ends starts deltas ros c i e s dl ro ->
    f4_glyph ros gids i ro dl s c g ->
    assigns (F4 l ends starts deltas ros gids) c g
(* Format 6 ("Trimmed table mapping"): "firstCode, entryCount, glyphIdArray[entryCount]: array of
   glyph index values for character codes in the range" *)
| A6 : forall l first gids c g,
    first <= c < first + len gids -> get gids (c - first) = Some g -> assigns (F6 l first gids) c g
(* Format 10 ("Trimmed array"): same with 32-bit startCharCode, numChars *)
| A10 : forall l start gids c g,
    start <= c < start + len gids -> get gids (c - start) = Some g -> assigns (F10 l start gids) c g
(* Format 12 ("Segmented coverage"): "startCharCode, endCharCode, startGlyphID: glyph index
   corresponding to the starting character code"; subsequent codes map to subsequent glyphs *)
| A12 : forall l groups grp c,
    In grp groups -> g_start grp <= c <= g_end grp ->
    assigns (F12 l groups) c (g_gid grp + (c - g_start grp)).

(* "unmapped characters map to glyph 0" *)
Definition unassigned (st : subtable) (c : Z) : Prop := forall g, ~ assigns st c g.

(* ------------------------------------------------------------------------------------------- *)
(* well-formedness the specification asks of the producer *)

(* every field fits the width it is stored in (what [parse] produces) *)
Definition u16 (v : Z) : Prop := 0 <= v <= 65535.
Definition u32 (v : Z) : Prop := 0 <= v <= 4294967295.
Definition i16 (v : Z) : Prop := -32768 <= v <= 32767.

Definition in_range (st : subtable) : Prop :=
  match st with
  | F0 _ gids => Forall (fun g => 0 <= g <= 255) gids /\ len gids = 256
  | F2 _ _ _ _ => True
  | F4 _ ends starts deltas ros gids =>
      Forall u16 ends /\ Forall u16 starts /\ Forall i16 deltas /\ Forall u16 ros /\ Forall u16 gids
  | F6 _ first gids => u16 first /\ Forall u16 gids /\ len gids <= 65535
  | F10 _ start gids => u32 start /\ Forall u16 gids /\ len gids <= 4294967295
  | F12 _ groups => Forall (fun g => u32 (g_start g) /\ u32 (g_end g) /\ u32 (g_gid g)) groups
  end.

(* Format 4: "segments are sorted in order of increasing endCode values"; segments do not overlap.
   What the conformance proof needs of that is only that the start codes do not decrease. *)
Fixpoint nondecreasing (l : list Z) : Prop :=
  match l with
  | [] => True
  | x :: t => (forall y, In y t -> x <= y) /\ nondecreasing t
  end.

(* Format 12: "groups must be sorted by increasing startCharCode; a group's endCharCode must be
   less than the startCharCode of the following group" -- what matters is that no two groups
   share a character code. *)
Fixpoint groups_disjoint (gs : list seq_group) : Prop :=
  match gs with
  | [] => True
  | g :: t => (forall h, In h t -> g_end g < g_start h \/ g_end h < g_start g) /\ groups_disjoint t
  end.

Definition well_formed (st : subtable) : Prop :=
  match st with
  | F4 _ _ starts _ _ _ => nondecreasing starts
  | F12 _ groups => groups_disjoint groups
  | _ => True
  end.

(* the full OpenType conditions: format 4 segments sorted by endCode, startCode <= endCode, no
   overlap; format 12 groups sorted by startCharCode, no overlap.  [lo] is the least code the
   next segment may start at.  These imply [well_formed] and that no code is enumerated twice. *)
Fixpoint segments_ordered_from (lo : Z) (starts ends : list Z) : Prop :=
  match starts, ends with
  | s :: st, e :: et => lo <= s /\ s <= e /\ segments_ordered_from (e + 1) st et
  | [], [] => True
  | _, _ => False
  end.

Fixpoint groups_ordered_from (lo : Z) (gs : list seq_group) : Prop :=
  match gs with
  | [] => True
  | g :: t => lo <= g_start g /\ g_start g <= g_end g /\ groups_ordered_from (g_end g + 1) t
  end.

Definition strictly_well_formed (st : subtable) : Prop :=
  match st with
  | F4 _ ends starts _ _ _ => segments_ordered_from 0 starts ends
  | F12 _ groups => groups_ordered_from 0 groups
  | _ => True
  end.

(* ------------------------------------------------------------------------------------------- *)
(* what a client of the sub-table observes *)

(* the glyph Font::map_glyph reports: errors and None are the missing glyph *)
Definition glyph_of (r : outcome (option Z)) : Z :=
  match r with Ok (Some g) => g | _ => 0 end.

(* a successful single lookup *)
Definition lookup (st : subtable) (c : Z) : option Z :=
  match map_glyph st c with Ok (Some g) => Some g | _ => None end.

(* first pair with code c in an enumeration (mappings() keeps the first, `or_insert`) *)
Fixpoint first_assoc (c : Z) (l : list (Z * Z)) : option Z :=
  match l with
  | [] => None
  | (a, g) :: t => if a =? c then Some g else first_assoc c t
  end.

(* ------------------------------------------------------------------------------------------- *)
(* sub-table preference: "MS UCS-4, MS UCS-2 (BMP), Apple Unicode UCS-4, any Unicode platform
   sub-table, MS Symbol, Apple Roman, Big5" -- typed from the platform/encoding registry, not from
   the code: (platform 3, encoding 10), (3,1), (0,4), (0,any), (3,0), (1,0), (3,4). *)
Definition spec_preferences : list (query * encoding) :=
  [ (QExact 3 10, EUnicode); (QExact 3 1, EUnicode); (QExact 0 4, EUnicode); (QPlatform 0, EUnicode);
    (QExact 3 0, ESymbol); (QExact 1 0, EAppleRoman); (QExact 3 4, EBig5) ].

Definition matches (q : query) (r : enc_rec) : Prop :=
  match q with
  | QExact p e => er_platform r = p /\ er_encoding r = e
  | QPlatform p => er_platform r = p
  end.

(* r is the first record of the table that satisfies q *)
Definition first_match (q : query) (recs : list enc_rec) (r : enc_rec) : Prop :=
  exists pre post, recs = pre ++ r :: post /\ matches q r /\ forall x, In x pre -> ~ matches q x.

(* (enc, r) is the selection: some preference p_k = (q, enc) has r as its first match and no
   earlier preference matches any record *)
Definition selected (prefs : list (query * encoding)) (recs : list enc_rec)
           (enc : encoding) (r : enc_rec) : Prop :=
  exists before q after,
    prefs = before ++ (q, enc) :: after /\ first_match q recs r /\
    forall q' e' x, In (q', e') before -> In x recs -> ~ matches q' x.

(* the selection the documented list prescribes, executable (used by the correspondence judge) *)
Definition spec_find_good (recs : list enc_rec) : option (encoding * enc_rec) :=
  find_good_in spec_preferences recs.

(* ------------------------------------------------------------------------------------------- *)
(* Format 2 ("High-byte mapping through table"), for the codes the format defines:

   "subHeaderKeys[256]: array that maps high bytes to subHeaders: value is subHeader index x 8."
   A byte i with subHeaderKeys[i] = 0 is a one-byte code and uses subHeader 0; otherwise i is the
   first byte of a two-byte code and the second byte is mapped through subHeader subHeaderKeys[i]/8.
   "firstCode and entryCount specify a subrange [...] Any byte values outside of this subrange are
    mapped to glyph index 0 (missing glyph).  The offset of the byte within this subrange is then used
    as index into a corresponding subarray of glyphIdArray.  This subarray is also of length
    entryCount.  The value of the idRangeOffset is the number of bytes past the actual location of
    the idRangeOffset word where the glyphIdArray element corresponding to firstCode appears.
    Finally, if the value obtained from the subarray is not 0 (which indicates the missing glyph),
    you should add idDelta to it in order to get the glyphIndex.  The idDelta arithmetic is modulo
    65536."

   [scope] is the byte sequence that starts at subHeader 0 (sub-headers, then glyphIdArray): the
   idRangeOffset word of subHeader k is at byte 8k+6 of it. *)

Definition word_at (scope : list Z) (off : Z) : option Z :=
  if (0 <=? off) && (off + 2 <=? len scope) then Some (be_val (take 2 (drop off scope))) else None.

(* sub-header k serves code c with second (or only) byte lo *)
Definition f2_selects (keys : list Z) (c lo k : Z) : Prop :=
  lo = c mod 256 /\
  ((c / 256 = 0 /\ get keys lo = Some 0 /\ k = 0) \/
   (c / 256 <> 0 /\ get keys (c / 256) = Some (8 * k) /\ k <> 0)).

Inductive f2_assigns (keys : list Z) (headers : list sub_header) (scope : list Z) : Z -> Z -> Prop :=
| A2_subrange : forall c lo k sh w,
    0 <= c <= 65535 -> f2_selects keys c lo k -> get headers k = Some sh ->
    sh_first sh <= lo < sh_first sh + sh_count sh ->
    (* the whole sub-array of entryCount words lies inside the table *)
    8 * k + 6 + sh_ro sh + 2 * sh_count sh <= len scope ->
    word_at scope (8 * k + 6 + sh_ro sh + 2 * (lo - sh_first sh)) = Some w ->
    f2_assigns keys headers scope c (if w =? 0 then 0 else (w + sh_delta sh) mod 65536)
| A2_outside : forall c lo k sh,
    0 <= c <= 65535 -> f2_selects keys c lo k -> get headers k = Some sh ->
    ~ (sh_first sh <= lo < sh_first sh + sh_count sh) ->
    f2_assigns keys headers scope c 0.
