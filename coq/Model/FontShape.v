(* Model/FontShape.v — the substitution half of `Font::shape` (src/font.rs): which tables of the font reach
   `gsub::apply`.  No proofs.  A table of the font is absent, present-but-unreadable or present; `Font::shape`
   loads GSUB, GPOS, GDEF, morx, kern in this order through `check_set_err` (the FIRST error is kept, the table
   counts as absent, shaping goes on), then calls `gsub::apply` with the font's GSUB, the font's GDEF, the glyph
   count of maxp and the caller's script / language / features / tuple.  The call itself is the parameter
   `apply` (gsub_apply_custom, gsub_apply_default and their `_v` variants of Model/Gsub.v, Model/FeatureVariations.v
   all have this shape once script, language, features and tuple are fixed). *)
From AV Require Import Base.Prelude Model.Layout Model.Gsub.
Open Scope Z_scope.

Inductive table_state (A : Type) : Type :=
| TAbsent | TUnreadable (e : err) | TPresent (a : A).
Arguments TAbsent {A}. Arguments TUnreadable {A} e. Arguments TPresent {A} a.

Record font := mkFont {
  ft_gsub : table_state layout_table;
  ft_gpos : table_state unit;            (* GPOS: only its presence / readability matters here *)
  ft_gdef : table_state gdef;
  ft_morx : table_state unit;
  ft_kern : table_state unit;
  ft_num_glyphs : Z                      (* maxp.numGlyphs *)
}.

(* check_set_err(res, &mut err): T::default() (= None) on error *)
Definition loaded {A} (t : table_state A) : option A :=
  match t with TPresent a => Some a | _ => None end.

Definition load_error {A} (t : table_state A) : option err :=
  match t with TUnreadable e => Some e | _ => None end.

Definition first_err (a b : option err) : option err :=
  match a with Some e => Some e | None => b end.

(* the errors of the five loads, in the order of the source *)
Definition table_errors (f : font) : option err :=
  first_err (load_error (ft_gsub f)) (first_err (load_error (ft_gpos f)) (first_err (load_error (ft_gdef f))
    (first_err (load_error (ft_morx f)) (load_error (ft_kern f))))).

(* the GDEF handed to gsub::apply (and to gpos): the font's, whatever else the font holds *)
Definition shape_gdef (f : font) : option gdef := loaded (ft_gdef f).

Section Shape.
  (* gsub::apply with script / language / features / tuple fixed: table, GDEF, num_glyphs, glyphs *)
  Variable apply : layout_table -> option gdef -> Z -> list glyph -> outcome (list glyph).

  (* the glyphs that go on to positioning, and the error Font::shape reports (None = Ok).  `Err` = the
     substitution failed (the run is then in an unspecified intermediate state), reported unless a table error
     came first. *)
  Definition font_shape_subst (f : font) (gs : list glyph) : outcome (option err * list glyph) :=
    match loaded (ft_gsub f) with
    | Some t =>
      match apply t (shape_gdef f) (ft_num_glyphs f) gs with
      | Ok gs' => Ok (table_errors f, gs')
      | Err e => Err (match table_errors f with Some e0 => e0 | None => e end)
      | Panic => Panic
      | OOB => OOB
      end
    | None => Ok (table_errors f, gs)     (* no (readable) GSUB: nothing is substituted (morx aside) *)
    end.
End Shape.
