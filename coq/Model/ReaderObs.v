(* Model/ReaderObs.v — the rest of the public surface of src/binary/read.rs, function by function,
   and the operation machine of C14 extended so that every public operation is observed:

     ReadScope::{base, data, read, read_dep, read_cache}, ReadScopeOwned::{new, scope},
     ReadCtxt::read_array_dep, ReadArray over ReadFixedSizeDep items (items of size 0 included):
     {len, is_empty, read_item, iter_res, read_to_vec, size_hint of iter_res, Debug, check_index},
     ReadArrayCow::{len, is_empty, get_item, read_item, iter, size_hint, check_index, Debug}.

   Model/Reader.v (shared with other properties) is left untouched: its machine `rstep` is the core
   of the one below.  After every step the machine also reports the *position* of the scope variable
   (ReadScope::base) and of the cursor (ReadCtxt::scope().base()), because base is the key under
   which ReadScope::read_cache memoises.  No proofs in this file. *)
From AV Require Import Base.Prelude Gen.ReaderPrims Model.Reader Model.ReaderExt.
Open Scope Z_scope.

(* ---------------------------------------------------------------------------------------------
   ReadScope *)

(* ReadScope::read::<T>()  =  self.ctxt().read::<T>() *)
Definition scope_read (t : ty) (s : scope) : outcome (list Z) :=
  '(v, _) <- read_ty t (ctxt_new s) ;; Ok v.

(* ReadScope::read_dep::<T>(args) for the dependent record type of the harness: args is the list of
   fields, read_dep reads them one after the other with the checked readers (`ctxt.read_u16be()?` …) *)
Definition scope_read_dep (t : ty) (s : scope) : outcome (list Z) :=
  '(v, _) <- read_seq t (ctxt_new s) ;; Ok v.

(* ReadScopeOwned::new(scope).scope(): copies the bytes, keeps the position *)
Definition scope_owned (s : scope) : scope := {| base := base s; data := data s |}.

(* ---------------------------------------------------------------------------------------------
   ReadCache<T>: HashMap<usize, Rc<T>> keyed by ReadScope::base; one cache per element type, here
   one association list whose keys carry the type *)
Definition prim_code (p : prim) : Z :=
  match p with
  | PU8 => 0 | PI8 => 1 | PU16 => 2 | PI16 => 3 | PU24 => 4 | PU32 => 5 | PI32 => 6 | PU64 => 7 | PI64 => 8
  end.
Definition ty_eqb (a b : ty) : bool := zlist_eqb (map prim_code a) (map prim_code b).

Record centry := { ce_ty : ty; ce_key : Z; ce_val : list Z }.
Definition cache := list centry.

Fixpoint cache_find (t : ty) (k : Z) (ch : cache) : option (list Z) :=
  match ch with
  | [] => None
  | e :: r => if ty_eqb (ce_ty e) t && (ce_key e =? k) then Some (ce_val e) else cache_find t k r
  end.

(* ReadScope::read_cache::<T>(&mut cache): Occupied => the stored value, Vacant => read, store on Ok *)
Definition read_cache (t : ty) (s : scope) (ch : cache) : outcome (list Z) * cache :=
  match cache_find t (base s) ch with
  | Some v => (Ok v, ch)
  | None =>
      match scope_read t s with
      | Ok v => (Ok v, {| ce_ty := t; ce_key := base s; ce_val := v |} :: ch)
      | Err e => (Err e, ch)
      | Panic => (Panic, ch)
      | OOB => (OOB, ch)
      end
  end.

(* ---------------------------------------------------------------------------------------------
   arrays of ReadFixedSizeDep items.  The element type is the dependent record above:
   size(args) = ty_size args, which is 0 for the empty record. *)

(* ReadCtxt::read_array_dep *)
Definition read_array_dep (m : mode) (t : ty) (c : ctxt) (n : Z) : outcome (rarray * ctxt) :=
  let stride := ty_size t in
  sz <- cmul n stride ;;
  '(s, c') <- read_scope m c sz ;;
  Ok ({| a_sc := s; a_len := n; a_stride := stride; a_ty := t |}, c').

(* ReadArray::read_item with T::read_dep = the field-by-field reader *)
Definition dep_read_item (m : mode) (a : rarray) (i : Z) : outcome (list Z) :=
  if i <? a_len a then
    let size := ty_size (a_ty a) in
    o <- umul m i (a_stride a) ;;
    match offset_length m (a_sc a) o size with
    | Ok s => '(v, _) <- read_seq (a_ty a) (ctxt_new s) ;; Ok v
    | Err _ => Panic   (* .unwrap() *)
    | Panic => Panic
    | OOB => OOB
    end
  else Err BadIndex.

(* ReadArrayDepIter::next, `cap` times from index i (what `.take(cap)` sees) *)
Fixpoint dep_iter_take (cap : nat) (m : mode) (a : rarray) (i : Z) : list (outcome (list Z)) :=
  match cap with
  | O => []
  | S k => if i <? a_len a then dep_read_item m a i :: dep_iter_take k m a (i + 1) else []
  end.

(* `for res in iter { let t = res?; vec.push(t) }` / collect::<Result<Vec<_>, _>>() *)
Fixpoint collect_res (l : list (outcome (list Z))) : outcome (list (list Z)) :=
  match l with
  | [] => Ok []
  | x :: r => v <- x ;; vs <- collect_res r ;; Ok (v :: vs)
  end.

(* the harness pulls at most ITER_CAP items out of an iterator, and calls read_to_vec (which
   preallocates `length` items) only on arrays of at most VEC_CAP items *)
Definition ITER_CAP : Z := 1000.
Definition VEC_CAP : Z := 4096.

(* ReadArrayDepIter::size_hint / ReadArrayCowIter::size_hint of an iterator over n items after
   min(k, ITER_CAP) calls of next *)
Definition res_size_hint (n k : Z) : Z :=
  let idx := Z.min (Z.min k ITER_CAP) n in
  if idx <? n then n - idx else 0.

(* CheckIndex for ReadArray / ReadArrayCow *)
Definition check_index (n i : Z) : outcome (list Z) := if i <? n then Ok [] else Err BadIndex.

(* ---------------------------------------------------------------------------------------------
   ReadArrayCow<T> = Owned(Vec<T::HostType>) | Borrowed(ReadArray<T>) *)
Inductive cow := CowBorrowed (a : rarray) | CowOwned (items : list (list Z)).

(* Vec::get *)
Definition vec_get {A} (v : list A) (i : Z) : option A :=
  if (0 <=? i) && (i <? len v) then nth_error v (Z.to_nat i) else None.

Definition cow_len (c : cow) : Z :=
  match c with CowBorrowed a => a_len a | CowOwned v => len v end.
(* ReadArrayCow::get_item *)
Definition cow_get (m : mode) (c : cow) (i : Z) : outcome (option (list Z)) :=
  match c with
  | CowBorrowed a => arr_get m a i
  | CowOwned v => Ok (vec_get v i)
  end.
(* ReadArrayCow::read_item *)
Definition cow_read_item (m : mode) (c : cow) (i : Z) : outcome (list Z) :=
  match c with
  | CowBorrowed a => arr_read_item m a i
  | CowOwned v => match vec_get v i with Some x => Ok x | None => Err BadIndex end
  end.
(* ReadArrayCowIter::next: `let item = self.array.get_item(self.index)?; self.index += 1` *)
Fixpoint cow_collect (fuel : nat) (m : mode) (c : cow) (i : Z) : outcome (list (list Z)) :=
  match fuel with
  | O => Ok []
  | S f =>
      r <- cow_get m c i ;;
      match r with
      | None => Ok []
      | Some v => rest <- cow_collect f m c (i + 1) ;; Ok (v :: rest)
      end
  end.
Definition cow_fuel (c : cow) : nat :=
  match c with CowBorrowed a => S (length (data (a_sc a))) | CowOwned v => S (length v) end.
Definition cow_to_vec (m : mode) (c : cow) : outcome (list (list Z)) := cow_collect (cow_fuel c) m c 0.

(* the two ways the harness makes a ReadArrayCow from the array variable *)
Definition cow_of (m : mode) (owned : bool) (a : rarray) : outcome cow :=
  if owned then v <- arr_to_vec m a ;; Ok (CowOwned v) else Ok (CowBorrowed a).

Inductive cowop := CLen | CGet (i : Z) | CReadItem (i : Z) | CIter | CHint (k : Z) | CCheckIndex (i : Z).

Definition cow_step (m : mode) (c : cow) (o : cowop) : outcome (list Z) :=
  match o with
  | CLen => Ok [cow_len c; if cow_len c =? 0 then 1 else 0]
  | CGet i => r <- cow_get m c i ;; Ok (opt_list r)
  | CReadItem i => cow_read_item m c i
  | CIter => r <- cow_to_vec m c ;; Ok (len r :: concat r)   (* also what Debug prints *)
  | CHint k => Ok [res_size_hint (cow_len c) k]
  | CCheckIndex i => check_index (cow_len c) i
  end.

(* ---------------------------------------------------------------------------------------------
   the extended machine: the core state of Model/Reader.v, a dependent-array variable, the cache *)
Inductive xop :=
| XCore (o : op)
| XScopeData                         (* scp.data() *)
| XScopeRead (t : ty)                (* scp.read::<T>() *)
| XScopeReadDep (t : ty)             (* scp.read_dep::<Rec>(t) *)
| XReadCache (t : ty)                (* scp.read_cache::<T>(&mut cache_T) *)
| XOwned                             (* scp = ReadScopeOwned::new(scp).scope() *)
| XReadArrayDep (t : ty) (n : Z)     (* darr = cur.read_array_dep::<Rec>(n, t)? *)
| XDepLen
| XDepReadItem (i : Z)
| XDepIter                           (* darr.iter_res().take(ITER_CAP) *)
| XDepReadToVec                      (* darr.read_to_vec() when len <= VEC_CAP *)
| XDepHint (k : Z)
| XDepDebug                          (* format!("{:?}", darr) when len <= ITER_CAP *)
| XDepCheckIndex (i : Z)
| XArrDebug                          (* format!("{:?}", arr) *)
| XArrCheckIndex (i : Z)
| XArrIterResHint (k : Z)            (* arr.iter_res() advanced k times, size_hint *)
| XCow (owned : bool) (o : cowop).

Record xstate := { core : rstate; darr : rarray; cch : cache }.

Definition empty_dep_array : rarray := {| a_sc := scope_new []; a_len := 0; a_stride := 0; a_ty := [] |}.
Definition xinit (d : list Z) : xstate := {| core := rinit d; darr := empty_dep_array; cch := [] |}.

Definition with_core (st : xstate) (r : rstate) := {| core := r; darr := darr st; cch := cch st |}.
Definition with_darr (st : xstate) (a : rarray) := {| core := core st; darr := a; cch := cch st |}.
Definition with_cch (st : xstate) (c : cache) := {| core := core st; darr := darr st; cch := c |}.

(* n items followed by their fields: what the harness prints for an iteration *)
Definition counted (r : list (list Z)) : list Z := len r :: concat r.

Definition dep_iter_obs (m : mode) (a : rarray) : outcome (list Z) :=
  r <- collect_res (dep_iter_take (Z.to_nat ITER_CAP) m a 0) ;; Ok (counted r).

(* Debug for ReadArray walks iter_res to its end whatever the formatter says, so the harness asks for
   it only on arrays of at most ITER_CAP items *)
Definition dep_debug_obs (m : mode) (a : rarray) : outcome (list Z) :=
  if a_len a <=? ITER_CAP then dep_iter_obs m a else Ok [-1].

Definition dep_read_to_vec (m : mode) (a : rarray) : outcome (list Z) :=
  if a_len a <=? VEC_CAP then
    r <- collect_res (dep_iter_take (Z.to_nat (a_len a)) m a 0) ;; Ok (counted r)
  else Ok [-1].

Definition xstep (m : mode) (st : xstate) (o : xop) : xstate * outcome (list Z) :=
  match o with
  | XCore c => let '(r, out) := rstep m (core st) c in (with_core st r, out)
  | XScopeData => (st, Ok (data (scp (core st))))
  | XScopeRead t => (st, scope_read t (scp (core st)))
  | XScopeReadDep t => (st, scope_read_dep t (scp (core st)))
  | XReadCache t =>
      let '(out, ch) := read_cache t (scp (core st)) (cch st) in (with_cch st ch, out)
  | XOwned => (with_core st (with_scp (core st) (scope_owned (scp (core st)))), Ok [])
  | XReadArrayDep t n =>
      match read_array_dep m t (cur (core st)) n with
      | Ok (a, c) => (with_darr (with_core st (with_cur (core st) c)) a, Ok [a_len a])
      | Err e => (st, Err e) | Panic => (st, Panic) | OOB => (st, OOB) end
  | XDepLen => (st, Ok [a_len (darr st); if a_len (darr st) =? 0 then 1 else 0])
  | XDepReadItem i => (st, dep_read_item m (darr st) i)
  | XDepIter => (st, dep_iter_obs m (darr st))
  | XDepReadToVec => (st, dep_read_to_vec m (darr st))
  | XDepHint k => (st, Ok [res_size_hint (a_len (darr st)) k])
  | XDepDebug => (st, dep_debug_obs m (darr st))
  | XDepCheckIndex i => (st, check_index (a_len (darr st)) i)
  | XArrDebug => (st, r <- arr_read_to_vec m (arr (core st)) ;; Ok (concat r))
  | XArrCheckIndex i => (st, check_index (a_len (arr (core st))) i)
  | XArrIterResHint k => (st, Ok [res_size_hint (a_len (arr (core st))) k])
  | XCow owned c => (st, w <- cow_of m owned (arr (core st)) ;; cow_step m w c)
  end.

(* what a caller can observe of the positions after a step:
   cur.scope().data().len(), cur.scope().base(), scp.base(), scp.data().len() *)
Definition positions (m : mode) (st : xstate) : list Z :=
  let r := core st in
  [ remaining m (cur r);
    match ctxt_scope m (cur r) with Ok s => base s | _ => -1 end;
    base (scp r);
    dlen (scp r) ].

Fixpoint xrun (m : mode) (st : xstate) (ops : list xop) : list (outcome (list Z) * list Z) :=
  match ops with
  | [] => []
  | o :: r => let '(st', out) := xstep m st o in (out, positions m st') :: xrun m st' r
  end.
