(* Model/Reader.v — executable model of src/binary/read.rs (ReadScope, ReadCtxt, ReadArray,
   iterators, binary search).  The unsafe primitives come from Gen/ReaderPrims.v, which the
   translator regenerates from the Rust source on every run.  No proofs in this file. *)
From AV Require Import Base.Prelude Gen.ReaderPrims.
Open Scope Z_scope.

Record scope := { base : Z; data : list Z }.
Record ctxt := { sc : scope; off : Z }.
Definition dlen (s : scope) : Z := len (data s).

(* ReadScope::new *)
Definition scope_new (d : list Z) : scope := {| base := 0; data := d |}.

(* ReadScope::offset *)
Definition scope_offset (m : mode) (s : scope) (o : Z) : outcome scope :=
  b <- wadd (base s) o ;;
  Ok {| base := b; data := slice_from (data s) o |}.

(* ReadScope::offset_length *)
Definition offset_length (m : mode) (s : scope) (o l : Z) : outcome scope :=
  if (o <? dlen s) || (l =? 0) then
    let d := slice_from (data s) o in
    if l <=? len d then
      b <- wadd (base s) o ;;
      Ok {| base := b; data := take l d |}
    else Err Eof
  else Err BadOffset.

(* ReadScope::ctxt / ReadCtxt::new *)
Definition ctxt_new (s : scope) : ctxt := {| sc := s; off := 0 |}.
(* ReadCtxt::scope *)
Definition ctxt_scope (m : mode) (c : ctxt) : outcome scope := scope_offset m (sc c) (off c).
(* ReadCtxt::bytes_available *)
Definition bytes_available (c : ctxt) : bool := off c <? dlen (sc c).

(* ReadCtxt::check_avail *)
Definition check_avail (c : ctxt) (n : Z) : bool :=
  match checked_add (off c) n with
  | Some e => e <=? dlen (sc c)
  | None => false
  end.

(* the nine `unsafe fn read_unchecked_*`: OOB iff one of the dereferenced indices (as extracted
   from the source) lies outside the slice *)
Definition in_slice (c : ctxt) (k : Z) : bool := (0 <=? off c + k) && (off c + k <? dlen (sc c)).
Definition read_unchecked (p : prim) (c : ctxt) : outcome (Z * ctxt) :=
  if forallb (in_slice c) (unchecked_idx p) then
    Ok (unchecked_val p (fun k => nthZ (data (sc c)) (off c + k)),
        {| sc := sc c; off := off c + unchecked_adv p |})
  else OOB.

(* pub fn read_u8 … read_i64be: check_avail(N)? then the unchecked primitive *)
Definition read_prim (p : prim) (c : ctxt) : outcome (Z * ctxt) :=
  if check_avail c (checked_avail p) then read_unchecked p c else Err Eof.

(* ReadUnchecked types: primitives and tuples of them (flattened) *)
Definition ty := list prim.
Definition ty_size (t : ty) : Z := fold_right (fun p a => prim_size p + a) 0 t.

Fixpoint read_unchecked_ty (t : ty) (c : ctxt) : outcome (list Z * ctxt) :=
  match t with
  | [] => Ok ([], c)
  | p :: r =>
      '(v, c1) <- read_unchecked p c ;;
      '(vs, c2) <- read_unchecked_ty r c1 ;;
      Ok (v :: vs, c2)
  end.

(* impl<T: ReadUnchecked> ReadBinary for T — ctxt.read::<T>() *)
Definition read_ty (t : ty) (c : ctxt) : outcome (list Z * ctxt) :=
  if check_avail c (ty_size t) then read_unchecked_ty t c else Err Eof.

(* ReadCtxt::read_scope *)
Definition read_scope (m : mode) (c : ctxt) (l : Z) : outcome (scope * ctxt) :=
  match offset_length m (sc c) (off c) l with
  | Ok s => o' <- uadd m (off c) l ;; Ok (s, {| sc := sc c; off := o' |})
  | Err _ => Err Eof
  | Panic => Panic
  | OOB => OOB
  end.

(* ReadCtxt::read_slice *)
Definition read_slice (m : mode) (c : ctxt) (l : Z) : outcome (list Z * ctxt) :=
  '(s, c') <- read_scope m c l ;; Ok (data s, c').

Record rarray := { a_sc : scope; a_len : Z; a_stride : Z; a_ty : ty }.

(* ReadCtxt::read_array *)
Definition read_array (m : mode) (t : ty) (c : ctxt) (n : Z) : outcome (rarray * ctxt) :=
  sz <- cmul n (ty_size t) ;;
  '(s, c') <- read_scope m c sz ;;
  Ok ({| a_sc := s; a_len := n; a_stride := ty_size t; a_ty := t |}, c').

(* ReadCtxt::read_array_stride *)
Definition read_array_stride (m : mode) (t : ty) (c : ctxt) (n stride : Z) : outcome (rarray * ctxt) :=
  if stride <? ty_size t then Err BadValue
  else
    sz <- cmul n stride ;;
    '(s, c') <- read_scope m c sz ;;
    Ok ({| a_sc := s; a_len := n; a_stride := stride; a_ty := t |}, c').

(* ReadCtxt::read_array_upto_hack *)
Definition read_array_upto_hack (m : mode) (t : ty) (c : ctxt) (n : Z) : outcome (rarray * ctxt) :=
  avail <- usub m (dlen (sc c)) (off c) ;;
  if ty_size t =? 0 then Panic
  else
    let max_length := avail / ty_size t in
    read_array m t c (Z.min n max_length).

Fixpoint find_nibble (n : Z) (l : list Z) (i : Z) : option Z :=
  match l with
  | [] => None
  | b :: r => if (Z.shiftr b 4 =? n) || (Z.land b 15 =? n) then Some i else find_nibble n r (i + 1)
  end.

(* ReadCtxt::read_until_nibble *)
Definition read_until_nibble (m : mode) (c : ctxt) (n : Z) : outcome (list Z * ctxt) :=
  if off c <=? dlen (sc c) then
    match find_nibble n (drop (off c) (data (sc c))) 0 with
    | None => Err Eof
    | Some e => e1 <- uadd m e 1 ;; read_slice m c e1
    end
  else Panic.

(* ReadArray::get_item *)
Definition arr_get (m : mode) (a : rarray) (i : Z) : outcome (option (list Z)) :=
  if i <? a_len a then
    o <- umul m i (a_stride a) ;;
    match offset_length m (a_sc a) o (a_stride a) with
    | Ok s => '(v, _) <- read_unchecked_ty (a_ty a) (ctxt_new s) ;; Ok (Some v)
    | Err _ => Panic   (* .unwrap() *)
    | Panic => Panic
    | OOB => OOB
    end
  else Ok None.

(* ReadArray::read_item *)
Definition arr_read_item (m : mode) (a : rarray) (i : Z) : outcome (list Z) :=
  if i <? a_len a then
    let size := ty_size (a_ty a) in
    o <- umul m i (a_stride a) ;;
    match offset_length m (a_sc a) o size with
    | Ok s => '(v, _) <- read_ty (a_ty a) (ctxt_new s) ;; Ok v
    | Err _ => Panic
    | Panic => Panic
    | OOB => OOB
    end
  else Err BadIndex.

(* ReadArray::last *)
Definition arr_last (m : mode) (a : rarray) : outcome (option (list Z)) :=
  if a_len a <? 1 then Ok None else arr_get m a (a_len a - 1).

(* ReadArrayIter::next (index is the iterator's state) *)
Definition iter_next (m : mode) (s : scope) (stride : Z) (t : ty) (idx : Z)
  : outcome (option (list Z)) :=
  o <- umul m idx stride ;;
  s' <- scope_offset m s o ;;
  let c := ctxt_new s' in
  if check_avail c stride then
    '(v, _) <- read_unchecked_ty t c ;; Ok (Some v)
  else Ok None.

Fixpoint iter_collect (fuel : nat) (m : mode) (s : scope) (stride : Z) (t : ty) (idx : Z)
  : outcome (list (list Z)) :=
  match fuel with
  | O => Ok []    (* unreachable for fuel > number of items; see Proofs *)
  | S f =>
      r <- iter_next m s stride t idx ;;
      match r with
      | None => Ok []
      | Some v => rest <- iter_collect f m s stride t (idx + 1) ;; Ok (v :: rest)
      end
  end.

(* ReadArray::iter().collect() / to_vec *)
Definition arr_to_vec (m : mode) (a : rarray) : outcome (list (list Z)) :=
  iter_collect (S (length (data (a_sc a)))) m (a_sc a) (a_stride a) (a_ty a) 0.

(* ReadArrayIter::size_hint *)
Definition iter_size_hint (a : rarray) : outcome Z :=
  if a_stride a =? 0 then Panic else Ok (dlen (a_sc a) / a_stride a).

(* ReadArray::iter_res().collect::<Result<Vec<_>,_>>() / read_to_vec.
   Fuel: every successful read_item i needs i*size + size <= dlen, so at most dlen+1 items can
   succeed; if the fuel runs out while i < len, item i lies beyond the window and the
   `.unwrap()` in read_item panics — hence Panic, not a value. *)
Fixpoint read_items_from (fuel : nat) (m : mode) (a : rarray) (i : Z) : outcome (list (list Z)) :=
  if a_len a <=? i then Ok []
  else match fuel with
       | O => Panic
       | S f => v <- arr_read_item m a i ;; vs <- read_items_from f m a (i + 1) ;; Ok (v :: vs)
       end.
Definition arr_read_to_vec (m : mode) (a : rarray) : outcome (list (list Z)) :=
  read_items_from (S (S (length (data (a_sc a))))) m a 0.

(* ReadArray::binary_search_by with the comparator `|v| first_component(v).cmp(&key)` *)
Inductive bsres := Found (i : Z) | NotFound (i : Z).
Definition cmp_key (key : Z) (v : list Z) : comparison := Z.compare (hd 0 v) key.
Fixpoint bsearch (fuel : nat) (m : mode) (a : rarray) (f : list Z -> comparison)
  (size left right : Z) : outcome bsres :=
  match fuel with
  | O => Panic  (* out of fuel: excluded by bsearch_fuel_suffices *)
  | S fu =>
      if left <? right then
        let mid := left + size / 2 in
        o <- umul m mid (a_stride a) ;;
        match offset_length m (a_sc a) o (a_stride a) with
        | Ok s =>
            '(v, _) <- read_unchecked_ty (a_ty a) (ctxt_new s) ;;
            match f v with
            | Lt => bsearch fu m a f (right - (mid + 1)) (mid + 1) right
            | Gt => bsearch fu m a f (mid - left) left mid
            | Eq => Ok (Found mid)
            end
        | Err _ => Panic
        | Panic => Panic
        | OOB => OOB
        end
      else Ok (NotFound left)
  end.
(* fuel: len+1 for genuine windows; arrays whose length exceeds their window (only possible after
   a wrapped length*stride in release builds) halve a 64-bit size at most 64 times *)
Definition arr_binary_search (m : mode) (a : rarray) (f : list Z -> comparison) : outcome bsres :=
  let fuel := if a_len a <=? dlen (a_sc a) then S (Z.to_nat (a_len a)) else 130%nat in
  bsearch fuel m a f (a_len a) 0 (a_len a).

(* -------------------------------------------------------------------------------------------
   The operation machine used by the invariant theorem and by the correspondence harness:
   one ReadScope variable, one ReadCtxt variable, one ReadArray variable. *)
Inductive op :=
| OScopeOffset (o : Z)              (* scp = scp.offset(o) *)
| OScopeOffsetLength (o l : Z)      (* scp = scp.offset_length(o, l)? *)
| OCtxt                             (* cur = scp.ctxt() *)
| OCtxtScope                        (* scp = cur.scope() *)
| OBytesAvailable
| ORead (p : prim)                  (* cur.read_u16be() … *)
| OReadTy (t : ty)                  (* cur.read::<T>() *)
| OReadScope (l : Z)                (* scp = cur.read_scope(l)? *)
| OReadSlice (l : Z)
| OReadUntilNibble (n : Z)
| OReadArray (t : ty) (n : Z)       (* arr = cur.read_array::<T>(n)? *)
| OReadArrayStride (t : ty) (n stride : Z)
| OReadArrayUpto (t : ty) (n : Z)
| OArrLen
| OArrGet (i : Z)
| OArrReadItem (i : Z)
| OArrLast
| OArrToVec
| OArrSizeHint
| OArrReadToVec
| OArrSearch (key : Z).

Record rstate := { scp : scope; cur : ctxt; arr : rarray }.

Definition empty_array : rarray := {| a_sc := scope_new []; a_len := 0; a_stride := 1; a_ty := [PU8] |}.
Definition rinit (d : list Z) : rstate :=
  {| scp := scope_new d; cur := ctxt_new (scope_new d); arr := empty_array |}.

Definition with_scp (st : rstate) (s : scope) := {| scp := s; cur := cur st; arr := arr st |}.
Definition with_cur (st : rstate) (c : ctxt) := {| scp := scp st; cur := c; arr := arr st |}.
Definition with_arr (st : rstate) (a : rarray) := {| scp := scp st; cur := cur st; arr := a |}.

Definition opt_list (o : option (list Z)) : list Z :=
  match o with None => [0] | Some v => 1 :: v end.
Definition bs_list (r : bsres) : list Z := match r with Found i => [1; i] | NotFound i => [0; i] end.

(* step returns the new state (unchanged on Err: all failing reads leave no effect) and the
   observable output of the call *)
Definition rstep (m : mode) (st : rstate) (o : op) : rstate * outcome (list Z) :=
  match o with
  | OScopeOffset x =>
      match scope_offset m (scp st) x with
      | Ok s => (with_scp st s, Ok [dlen s])
      | Err e => (st, Err e) | Panic => (st, Panic) | OOB => (st, OOB) end
  | OScopeOffsetLength x l =>
      match offset_length m (scp st) x l with
      | Ok s => (with_scp st s, Ok [dlen s])
      | Err e => (st, Err e) | Panic => (st, Panic) | OOB => (st, OOB) end
  | OCtxt => (with_cur st (ctxt_new (scp st)), Ok [])
  | OCtxtScope =>
      match ctxt_scope m (cur st) with
      | Ok s => (with_scp st s, Ok [dlen s])
      | Err e => (st, Err e) | Panic => (st, Panic) | OOB => (st, OOB) end
  | OBytesAvailable => (st, Ok [if bytes_available (cur st) then 1 else 0])
  | ORead p =>
      match read_prim p (cur st) with
      | Ok (v, c) => (with_cur st c, Ok [v])
      | Err e => (st, Err e) | Panic => (st, Panic) | OOB => (st, OOB) end
  | OReadTy t =>
      match read_ty t (cur st) with
      | Ok (v, c) => (with_cur st c, Ok v)
      | Err e => (st, Err e) | Panic => (st, Panic) | OOB => (st, OOB) end
  | OReadScope l =>
      match read_scope m (cur st) l with
      | Ok (s, c) => (with_scp (with_cur st c) s, Ok [dlen s])
      | Err e => (st, Err e) | Panic => (st, Panic) | OOB => (st, OOB) end
  | OReadSlice l =>
      match read_slice m (cur st) l with
      | Ok (d, c) => (with_cur st c, Ok d)
      | Err e => (st, Err e) | Panic => (st, Panic) | OOB => (st, OOB) end
  | OReadUntilNibble n =>
      match read_until_nibble m (cur st) n with
      | Ok (d, c) => (with_cur st c, Ok d)
      | Err e => (st, Err e) | Panic => (st, Panic) | OOB => (st, OOB) end
  | OReadArray t n =>
      match read_array m t (cur st) n with
      | Ok (a, c) => (with_arr (with_cur st c) a, Ok [a_len a])
      | Err e => (st, Err e) | Panic => (st, Panic) | OOB => (st, OOB) end
  | OReadArrayStride t n s =>
      match read_array_stride m t (cur st) n s with
      | Ok (a, c) => (with_arr (with_cur st c) a, Ok [a_len a])
      | Err e => (st, Err e) | Panic => (st, Panic) | OOB => (st, OOB) end
  | OReadArrayUpto t n =>
      match read_array_upto_hack m t (cur st) n with
      | Ok (a, c) => (with_arr (with_cur st c) a, Ok [a_len a])
      | Err e => (st, Err e) | Panic => (st, Panic) | OOB => (st, OOB) end
  | OArrLen => (st, Ok [a_len (arr st)])
  | OArrGet i => (st, r <- arr_get m (arr st) i ;; Ok (opt_list r))
  | OArrReadItem i => (st, arr_read_item m (arr st) i)
  | OArrLast => (st, r <- arr_last m (arr st) ;; Ok (opt_list r))
  | OArrToVec => (st, r <- arr_to_vec m (arr st) ;; Ok (concat r))
  | OArrSizeHint => (st, r <- iter_size_hint (arr st) ;; Ok [r])
  | OArrReadToVec => (st, r <- arr_read_to_vec m (arr st) ;; Ok (concat r))
  | OArrSearch key => (st, r <- arr_binary_search m (arr st) (cmp_key key) ;; Ok (bs_list r))
  end.

(* what a caller can observe of the cursor: ctxt.scope().data().len() (-1 if that call panics) *)
Definition remaining (m : mode) (c : ctxt) : Z :=
  match ctxt_scope m c with Ok s => dlen s | _ => -1 end.

(* run a whole program, collecting outputs and the observable cursor after each step *)
Fixpoint rrun (m : mode) (st : rstate) (ops : list op) : list (outcome (list Z) * Z) :=
  match ops with
  | [] => []
  | o :: r => let '(st', out) := rstep m st o in (out, remaining m (cur st')) :: rrun m st' r
  end.
