(* Model/GlyfSpec.v — declarative specification of TrueType outlines, written from the OpenType
   `glyf` chapter and independent of the implementation's control flow (no indices, no iterator,
   no Gen constants):
     * expand: the cyclic expansion of a contour — an on-curve midpoint is implied between every
       cyclically adjacent pair of off-curve points;
     * path_of_rotation: reading an expanded contour, started at an on-curve point, as
       move / line / quadratic / close;  trace: the points a command list passes through;
     * the packed flag/coordinate *encoder*: every legal way to write a point list
       (short / same / long per axis, sign bit of a zero short delta, run-length grouping of equal
       flags with any split, reserved bits);
     * component transforms: x' = xscale x + scale10 y + dx, y' = scale01 x + yscale y + dy.
   Also extracted: the correspondence judge decides the property with expand / path_of_rotation.
   No proofs in this file. *)
From AV Require Import Base.Prelude.
From Coq Require Import QArith.
Open Scope Z_scope.

(* ---------------------------------------------------------------------------------------------- *)
(* contours                                                                                        *)

Definition spoint := (bool * (Z * Z))%type.          (* (on-curve, (x, y)) in font units *)

(* a point of the expanded contour, in HALF units *)
Record epoint := { e_implied : bool; e_on : bool; e_pos : Z * Z }.

Definition e_orig (p : spoint) : epoint :=
  {| e_implied := false; e_on := fst p; e_pos := (2 * fst (snd p), 2 * snd (snd p)) |}.
Definition e_mid (p q : spoint) : epoint :=
  {| e_implied := true; e_on := true;
     e_pos := (fst (snd p) + fst (snd q), snd (snd p) + snd (snd q)) |}.

(* implied point after p when its cyclic successor is q *)
Definition implied_between (p q : spoint) : list epoint :=
  if negb (fst p) && negb (fst q) then [e_mid p q] else [].

Fixpoint expand_from (first : spoint) (l : list spoint) : list epoint :=
  match l with
  | [] => []
  | p :: r =>
    let q := match r with [] => first | q :: _ => q end in
    e_orig p :: implied_between p q ++ expand_from first r
  end.

Definition expand (c : list spoint) : list epoint :=
  match c with [] => [] | p :: _ => expand_from p c end.

Definition rotl {A} (k : nat) (l : list A) : list A := skipn k l ++ firstn k l.

(* drawing commands over a coordinate type A (the OutlineSink calls; cubic curves never occur) *)
Inductive cmd (A : Type) : Type :=
| Move (p : A) | Line (p : A) | Quad (c p : A) | Close.
Arguments Move {A} p. Arguments Line {A} p. Arguments Quad {A} c p. Arguments Close {A}.
Definition pcmd := cmd (Z * Z).

(* reading the points after the start point o: an on-curve point ends a straight segment, an
   off-curve point followed by an on-curve point a quadratic; a trailing off-curve point curves back
   to o; a trailing on-curve point leaves the closing straight edge to `close` *)
Fixpoint read_segments (o : Z * Z) (l : list epoint) : option (list pcmd) :=
  match l with
  | [] => Some []
  | p :: r =>
    if e_on p then option_map (cons (Line (e_pos p))) (read_segments o r)
    else match r with
         | [] => Some [Quad (e_pos p) o]
         | q :: r' =>
           if e_on q then option_map (cons (Quad (e_pos p) (e_pos q))) (read_segments o r')
           else None
         end
  end.

Definition path_of_rotation (l : list epoint) : option (list pcmd) :=
  match l with
  | [] => None
  | o :: r =>
    if e_on o then option_map (fun b => Move (e_pos o) :: b ++ [Close]) (read_segments (e_pos o) r)
    else None
  end.

(* the (on-curve?, position) sequence a list of segment commands passes through *)
Fixpoint trace (l : list pcmd) : list (bool * (Z * Z)) :=
  match l with
  | [] => []
  | Move p :: r => (true, p) :: trace r
  | Line p :: r => (true, p) :: trace r
  | Quad c p :: r => (false, c) :: (true, p) :: trace r
  | Close :: r => trace r
  end.

Definition is_segment (c : pcmd) : bool :=
  match c with Line _ | Quad _ _ => true | _ => false end.

Definition untag (e : epoint) : bool * (Z * Z) := (e_on e, e_pos e).

(* all paths the property allows for a contour: one per on-curve starting point of the expansion *)
Definition contour_paths (c : list spoint) : list (list pcmd) :=
  let e := expand c in
  flat_map (fun k => match path_of_rotation (rotl k e) with Some p => [p] | None => [] end)
           (seq 0 (length e)).

(* ---------------------------------------------------------------------------------------------- *)
(* the packed encoding of a point list                                                             *)

Inductive dkind := DShort | DSame | DLong.
(* the free choices of an encoder for one point *)
Record pchoice := { ch_x : dkind; ch_y : dkind;
                    ch_xzero_pos : bool; ch_yzero_pos : bool;   (* sign bit of a zero short delta *)
                    ch_reserved : Z }.                          (* bits 6 and 7: 0..3 *)

Definition delta_legal (k : dkind) (d : Z) : bool :=
  match k with
  | DShort => (-255 <=? d) && (d <=? 255)
  | DSame => d =? 0
  | DLong => (-32768 <=? d) && (d <=? 32767)
  end.

(* (short bit, same-or-positive bit) *)
Definition delta_bits (k : dkind) (zero_pos : bool) (d : Z) : bool * bool :=
  match k with
  | DShort => (true, (0 <? d) || ((d =? 0) && zero_pos))
  | DSame => (false, true)
  | DLong => (false, false)
  end.

Definition delta_bytes (k : dkind) (d : Z) : list Z :=
  match k with
  | DShort => [Z.abs d]
  | DSame => []
  | DLong => let w := d mod 65536 in [w / 256; w mod 256]
  end.

Definition b2z (b : bool) : Z := if b then 1 else 0.

Definition flag_byte (on : bool) (ch : pchoice) (dx dy : Z) : Z :=
  let '(xs, xp) := delta_bits (ch_x ch) (ch_xzero_pos ch) dx in
  let '(ys, yp) := delta_bits (ch_y ch) (ch_yzero_pos ch) dy in
  b2z on + 2 * b2z xs + 4 * b2z ys + 16 * b2z xp + 32 * b2z yp + 64 * ch_reserved ch.

Definition choice_legal (ch : pchoice) (dx dy : Z) : bool :=
  delta_legal (ch_x ch) dx && delta_legal (ch_y ch) dy &&
  (0 <=? ch_reserved ch) && (ch_reserved ch <=? 3).

(* deltas of a point list against the previous point, the first against (0, 0) *)
Fixpoint deltas (px py : Z) (pts : list spoint) : list (Z * Z) :=
  match pts with
  | [] => []
  | (_, (x, y)) :: r => (x - px, y - py) :: deltas x y r
  end.

Definition in_i16 (v : Z) : bool := (-32768 <=? v) && (v <=? 32767).
Definition point_ok (p : spoint) : bool := in_i16 (fst (snd p)) && in_i16 (snd (snd p)).

(* one logical flag byte per point *)
Fixpoint point_flags (pts : list spoint) (chs : list pchoice) (ds : list (Z * Z)) : list Z :=
  match pts, chs, ds with
  | (on, _) :: pr, ch :: cr, (dx, dy) :: dr => flag_byte on ch dx dy :: point_flags pr cr dr
  | _, _, _ => []
  end.

Fixpoint x_bytes (chs : list pchoice) (ds : list (Z * Z)) : list Z :=
  match chs, ds with
  | ch :: cr, (dx, _) :: dr => delta_bytes (ch_x ch) dx ++ x_bytes cr dr
  | _, _ => []
  end.
Fixpoint y_bytes (chs : list pchoice) (ds : list (Z * Z)) : list Z :=
  match chs, ds with
  | ch :: cr, (_, dy) :: dr => delta_bytes (ch_y ch) dy ++ y_bytes cr dr
  | _, _ => []
  end.

Fixpoint choices_legal (chs : list pchoice) (ds : list (Z * Z)) : bool :=
  match chs, ds with
  | ch :: cr, (dx, dy) :: dr => choice_legal ch dx dy && choices_legal cr dr
  | [], [] => true
  | _, _ => false
  end.

(* run-length grouping: a group (n, rep) covers n + 1 consecutive points that carry the same flag
   byte; rep = written once with REPEAT_FLAG and the count n, otherwise written n + 1 times *)
Definition group := (nat * bool)%type.

Fixpoint all_eq (f : Z) (l : list Z) : bool :=
  match l with [] => true | g :: r => (g =? f) && all_eq f r end.

Fixpoint groups_ok (fl : list Z) (gs : list group) : bool :=
  match gs with
  | [] => match fl with [] => true | _ => false end
  | (n, rep) :: gr =>
    match fl with
    | [] => false
    | f :: _ =>
      (Nat.leb (S n) (length fl)) && (Nat.leb n 255) &&
      all_eq f (firstn (S n) fl) && groups_ok (skipn (S n) fl) gr
    end
  end.

Fixpoint flag_bytes (fl : list Z) (gs : list group) : list Z :=
  match gs with
  | [] => []
  | (n, rep) :: gr =>
    match fl with
    | [] => []
    | f :: _ =>
      (if rep then [f + 8; Z.of_nat n] else repeat f (S n)) ++ flag_bytes (skipn (S n) fl) gr
    end
  end.

(* the flag / x / y sections of a simple glyph for the given choices *)
Definition encode_points (pts : list spoint) (chs : list pchoice) (gs : list group) : list Z :=
  let ds := deltas 0 0 pts in
  flag_bytes (point_flags pts chs ds) gs ++ x_bytes chs ds ++ y_bytes chs ds.

Definition encoding_legal (pts : list spoint) (chs : list pchoice) (gs : list group) : bool :=
  let ds := deltas 0 0 pts in
  forallb point_ok pts && choices_legal chs ds && groups_ok (point_flags pts chs ds) gs.

(* ---------------------------------------------------------------------------------------------- *)
(* component transforms (OpenType glyf, composite glyph description)                               *)

Inductive sscale := NoScale | Uniform (s : Z) | XYScale (xs ys : Z)
                  | TwoByTwo (xscale scale01 scale10 yscale : Z).          (* raw F2Dot14 *)

Definition f2d14 (v : Z) : Q := Qmake v 16384.

(* x' = a x + c y + dx ; y' = b x + d y + dy   with (a, b, c, d) = (xscale, scale01, scale10, yscale) *)
Definition spec_transform (s : sscale) (dx dy : Z) (p : Q * Q) : Q * Q :=
  let '(a, b, c, d) :=
    match s with
    | NoScale => (1, 0, 0, 1)%Q
    | Uniform s => (f2d14 s, 0, 0, f2d14 s)%Q
    | XYScale xs ys => (f2d14 xs, 0, 0, f2d14 ys)%Q
    | TwoByTwo a b c d => (f2d14 a, f2d14 b, f2d14 c, f2d14 d)
    end in
  (a * fst p + c * snd p + inject_Z dx, b * fst p + d * snd p + inject_Z dy)%Q.

(* ---------------------------------------------------------------------------------------------- *)
(* the simple glyph description as a whole (OpenType glyf, "Simple Glyph Description")             *)

Definition be16 (v : Z) : list Z := let w := v mod 65536 in [w / 256; w mod 256].

(* endPtsOfContours: index of the last point of each contour *)
Fixpoint end_points (start : Z) (cs : list (list spoint)) : list Z :=
  match cs with
  | [] => []
  | c :: r => (start + len c - 1) :: end_points (start + len c) r
  end.

Definition simple_glyph_bytes (cs : list (list spoint)) (bbox instr : list Z)
           (chs : list pchoice) (gs : list group) : list Z :=
  be16 (len cs) ++ bbox ++ flat_map be16 (end_points 0 cs) ++ be16 (len instr) ++ instr ++
  encode_points (concat cs) chs gs.

Definition simple_glyph_legal (cs : list (list spoint)) (bbox instr : list Z)
           (chs : list pchoice) (gs : list group) : bool :=
  forallb (fun c => negb (len c =? 0)) cs && (len cs <=? 32767) && (len (concat cs) <=? 65536) &&
  (len bbox =? 8) && (len instr <=? 65535) && encoding_legal (concat cs) chs gs.
