(* Model/GposBytes.v — byte level: ValueFormat::read, ValueFormat::size and ValueRecord::read_dep of
   src/layout.rs on top of the reader model (Model/Reader.v).  The order, signedness and flag bit of the eight
   fields come from Gen/GposConsts.v (VR_FIELDS, regenerated from read_dep on every run).  No proofs here. *)
From AV Require Import Base.Prelude Gen.GposConsts Model.Reader Model.Layout Model.Gpos.
Open Scope Z_scope.

(* ValueFormat::read *)
Definition value_format_read (c : ctxt) : outcome (Z * ctxt) :=
  '(v, c') <- read_prim PU16 c ;;
  if v <=? VF_MAX then Ok (v, c') else Err BadValue.

(* ValueFormat::size: `for i in 0..8 { if ith_bit_set(self.0, i) { num_fields += 1 } } num_fields * size::U16` *)
Definition value_format_size (fmt : Z) : Z :=
  2 * fold_left (fun acc i => if bit_set fmt i then acc + 1 else acc) (range 0 (Z.to_nat VF_SIZE_BITS)) 0.

(* read_variation_index_at_offset: a NULL offset is None; otherwise three u16 are read at table_scope + offset
   (the result only matters with a variation tuple, which this model does not have) *)
Definition read_device (m : mode) (table : scope) (offset : Z) : outcome unit :=
  if 0 <? offset then
    s <- scope_offset m table offset ;;
    '(_, c1) <- read_prim PU16 (ctxt_new s) ;;
    '(_, c2) <- read_prim PU16 c1 ;;
    '(_, _) <- read_prim PU16 c2 ;;
    Ok tt
  else Ok tt.

(* the eight conditional reads of ValueRecord::read_dep, in source order; a field whose flag is clear is 0 *)
Fixpoint read_fields (m : mode) (table : scope) (fields : list (Z * bool)) (fmt : Z) (c : ctxt) : outcome (list Z * ctxt) :=
  match fields with
  | [] => Ok ([], c)
  | (bit, signed) :: t =>
    if bit_set fmt bit then
      '(v, c1) <- read_prim (if signed then PI16 else PU16) c ;;
      _ <- (if signed then Ok tt else read_device m table v) ;;
      '(vs, c2) <- read_fields m table t fmt c1 ;;
      Ok (v :: vs, c2)
    else
      '(vs, c2) <- read_fields m table t fmt c ;;
      Ok (0 :: vs, c2)
  end.

Definition value_record_read (m : mode) (table : scope) (fmt : Z) (c : ctxt) : outcome (option adjust * ctxt) :=
  if fmt =? 0 then Ok (None, c)
  else
    '(vs, c') <- read_fields m table VR_FIELDS fmt c ;;
    match vs with
    | xp :: yp :: xa :: ya :: _ => Ok (Some (mkAdj xp yp xa ya), c')
    | _ => Panic
    end.
