(* Model/SeacSpec.v -- specification of the charset (glyph -> SID, TN5176 section 13) and of the seac
   form of endchar (TN5177 appendix C: `adx ady bchar achar endchar` draws the glyph StandardEncoding
   names by bchar, then the glyph named by achar moved by (adx, ady)).  Written independently of the
   interpreter's lookup functions: a charset is the list of the SIDs of glyph 1, glyph 2, ...; a
   range (first, nLeft) stands for the nLeft + 1 SIDs first, first + 1, ..., first + nLeft.
   No proofs here. *)
From AV Require Import Base.Prelude Gen.Type2Consts Model.Type2 Model.Type2Spec.
Open Scope Z_scope.

(* ---------- charsets ---------- *)
Definition range_sids (r : Z * Z) : list Z := range (fst r) (Z.to_nat (snd r + 1)).
Definition ranges_sids (rs : list (Z * Z)) : list Z := flat_map range_sids rs.

(* first and nLeft are unsigned fields *)
Definition ranges_wf (rs : list (Z * Z)) : Prop := Forall (fun r => 0 <= fst r /\ 0 <= snd r) rs.

(* sid lies in the range (first, nLeft) *)
Definition in_range (r : Z * Z) (sid : Z) : Prop := fst r <= sid <= fst r + snd r.

(* the SID of glyph 1, glyph 2, ...  (ISOAdobe: glyph id = SID for the SIDs 1..228; the Expert
   charsets are tables of the specification that are not transcribed here) *)
Definition ISO_ADOBE_NAMES : list Z := range 1 228.
Definition charset_names (cs : charset) : option (list Z) :=
  match cs with
  | CsISOAdobe => Some ISO_ADOBE_NAMES
  | CsCustom sids => Some sids
  | CsRanges rs => Some (ranges_sids rs)
  | CsExpert | CsExpertSubset => None
  end.

(* the unsigned fields of the charset data; a font has at most 65535 glyphs (u16 count of the
   CharStrings INDEX), so a charset lists at most 65534 *)
Definition charset_wf (cs : charset) : Prop :=
  match cs with
  | CsCustom sids => len sids <= 65534
  | CsRanges rs => ranges_wf rs /\ len (ranges_sids rs) <= 65534
  | _ => True
  end.

(* glyph g is the glyph the name sid designates: .notdef for SID 0, else the first glyph that
   carries the name *)
Definition names_glyph (names : list Z) (sid g : Z) : Prop :=
  (sid = 0 /\ g = 0) \/
  (sid <> 0 /\ 1 <= g /\ nth_opt names (g - 1) = Some sid /\
   forall g', 1 <= g' < g -> nth_opt names (g' - 1) <> Some sid).

(* ---------- seac ---------- *)
Definition shift_cmd (dx dy : Z) (c : cmd) : cmd :=
  match c with
  | MoveTo x y => MoveTo (x + dx) (y + dy)
  | LineTo x y => LineTo (x + dx) (y + dy)
  | CurveTo x1 y1 x2 y2 x y => CurveTo (x1 + dx) (y1 + dy) (x2 + dx) (y2 + dy) (x + dx) (y + dy)
  | Close => Close
  end.

(* the outline of an accented character: the base, then the accent displaced by (adx, ady) *)
Definition seac_path (adx ady : Z) (base accent : list sop) : list cmd :=
  prog_path base ++ map (shift_cmd adx ady) (prog_path accent).

(* the bytes of a plain glyph: optional width, operators, endchar *)
Definition glyph_bytes (w : option Z) (ops : list sop) (bytes : list Z) : Prop :=
  exists wb body, bytes = wb ++ body ++ [14] /\ enc_width w wb /\ enc_ops ops body /\
                  prog_wf CFF_MAX_OPERANDS w ops.
