(* Model/Cff2Instance.v -- instancing of CFF2 charstrings (property C12):
     src/cff/cff2.rs   StackValue, impl From<f32> for StackValue (regenerated: Gen/Cff2InstConsts.v),
                       impl From<StackValue> for f32, impl WriteBinary for StackValue (the constants
                       of the integer arms are regenerated), write_stack,
                       CharStringInstancer::visit (operands of the stack, then the operator)
     src/tables.rs     impl From<f32> for Fixed (the joining operator is regenerated)
   and the bridge from the exact region scalars of Model/Variation.v to the CFF2 charstring
   interpreter of Model/Type2.v (property C18), which the end-to-end judge of C12 evaluates on the
   variable source charstrings and on the charstrings of the instance.
   Numbers: as in Model/Type2.v a value is the numerator of an exact rational over UNIT = 2^48.
   The implementation blends in f32; this model converts the exact blended value.
   No proofs here. *)
From AV Require Import Base.Prelude Gen.Type2Consts Gen.Cff2InstConsts Model.Type2 Model.Type2Spec.
From AV Require Model.Variation.
From Coq Require Import QArith Qround.
Open Scope Z_scope.

(* ---------- exact scalars for the charstring interpreter ---------- *)
(* floor (q * 2^32): Type2's blend takes scalars as numerators over SDEN *)
Definition q_to_sden (q : Q) : Z := Qfloor (Qmult q (inject_Z SDEN)).

Definition region_scalar_z (axes : list (Z * Z * Z)) (tuple : list Z) : option Z :=
  match Variation.region_scalar axes tuple with
  | Some q => Some (q_to_sden q)
  | None => None
  end.

(* cff2::scalars: the scalar of every region an ItemVariationData lists (None: bad region index) *)
Fixpoint cff2_scalars (regions : list (list (Z * Z * Z))) (tuple : list Z) (idxs : list Z)
  : option (list (option Z)) :=
  match idxs with
  | [] => Some []
  | i :: r =>
    match nth_opt regions i, cff2_scalars regions tuple r with
    | Some axes, Some l => Some (region_scalar_z axes tuple :: l)
    | _, _ => None
    end
  end.

(* ---------- StackValue ---------- *)
Inductive sv : Type := SInt (n : Z) | SFixed (raw : Z).

(* impl From<StackValue> for f32 *)
Definition sv_value (v : sv) : Z :=
  match v with SInt n => of_int n | SFixed raw => of_fixed raw end.

(* Int holds an i16, Fixed an i32 *)
Definition sv_wf (v : sv) : Prop :=
  match v with
  | SInt n => -32768 <= n <= 32767
  | SFixed raw => -2147483648 <= raw <= 2147483647
  end.

(* f32 primitives on exact values *)
Definition is_whole (v : Z) : bool := v mod UNIT =? 0.                    (* fract() == 0.0 *)
Definition trunc_v (v : Z) : Z := Z.quot v UNIT * UNIT.                   (* trunc() *)
Definition floor_v (v : Z) : Z := (v / UNIT) * UNIT.                      (* floor() *)
Definition ceil_v (v : Z) : Z := - ((- v) / UNIT) * UNIT.                 (* ceil() *)
(* round(): half away from zero *)
Definition round_v (v : Z) : Z := Z.sgn v * ((2 * Z.abs v + UNIT) / (2 * UNIT)) * UNIT.
(* `as i16`: toward zero, saturating *)
Definition cast_i16 (v : Z) : Z := Z.max (-32768) (Z.min 32767 (Z.quot v UNIT)).

(* impl From<f32> for Fixed: sign, |value|, fraction * 65536 rounded (half away from zero), the
   integer part shifted left 16 and joined with the fraction (fixed_combine is regenerated), times
   the sign; i32 arithmetic is not modelled: the theorems keep |value| below 32768 *)
Definition fixed_from (v : Z) : Z :=
  let sign := if v <? 0 then -1 else 1 in
  let a := Z.abs v in
  let fract := (2 * (a mod UNIT) + SDEN) / (2 * SDEN) in
  let int := a / UNIT in
  fixed_combine int fract * sign.

(* impl From<f32> for StackValue (the expression is regenerated from the source) *)
Definition sv_from (v : Z) : sv :=
  sv_from_expr SInt SFixed is_whole cast_i16 round_v trunc_v floor_v ceil_v fixed_from v.

(* ---------- impl WriteBinary for StackValue ---------- *)
Definition enc_sv (v : sv) : list Z :=
  match v with
  | SInt n =>
    if (SV_INT1_LO <=? n) && (n <=? SV_INT1_HI) then [n + SV_INT1_ADD]
    else if (SV_INT2_LO <=? n) && (n <=? SV_INT2_HI) then
      let m := n - SV_INT2_SUB in [Z.shiftr m 8 + SV_INT2_LEAD; m mod 256]
    else if (SV_INT3_LO <=? n) && (n <=? SV_INT3_HI) then
      let m := - n - SV_INT3_SUB in [Z.shiftr m 8 + SV_INT3_LEAD; m mod 256]
    else
      (* I16Be *)
      [SV_SHORT_INT; (n mod 65536) / 256; n mod 256]
  | SFixed raw => SV_FIXED_16_16 :: be_bytes 4 (raw mod 4294967296)
  end.

(* write_stack *)
Definition write_stack (stack : list sv) : list Z := flat_map enc_sv stack.

(* CharStringInstancer::visit for the operators it copies: the stack, then the operator bytes
   (two-byte operators behind the escape byte; hintmask / cntrmask followed by their mask bytes,
   which reach the instancer through hint_data) *)
Definition inst_emit (o : sop) (stack : list sv) : list Z := write_stack stack ++ opbytes o.

(* a sequence of visits *)
Fixpoint inst_emit_all (visits : list (sop * list sv)) : list Z :=
  match visits with
  | [] => []
  | (o, stack) :: r => inst_emit o stack ++ inst_emit_all r
  end.

(* the operator the interpreter of the instance will see for a visit: the same operator with the
   values of the emitted operands as its arguments *)
Definition visit_ok (v : sop * list sv) : Prop :=
  Forall sv_wf (snd v) /\ map sv_value (snd v) = args_of (fst v).

(* ---------- helpers of the end-to-end judge (driver) ---------- *)
Definition cff2_env (m : mode) (gsubrs : list (list Z)) (fds : list (option (list (list Z))))
  (fdsel : list Z) (glyphs : list (list Z)) (gid : Z) (variable : bool) (vsdef : list Z)
  (scalars : list (option (list (option Z)))) : env :=
  mkEnv m KCFF2 false gsubrs fds fdsel glyphs gid CsISOAdobe variable vsdef scalars.

Definition glyph_cmds (e : env) : cres (list cmd) :=
  s <~ interp_glyph e ;; COk (out s).
