(* Model/Woff2.v — executable model of src/woff2.rs, src/woff2/collection.rs and the parts of
   src/tables/glyf.rs, src/tables/loca.rs, src/tables.rs that WOFF2 decoding runs through.
   Function by function after the Rust.  The coordinate table, the known-tag table and the
   straight-line triplet arithmetic (XYTriplet::dx / dy) come from Gen/Woff2Lut.v, which
   translators/tr_woff2.py regenerates from the Rust source on every run.  No proofs here.

   Reader abstraction.  A ReadCtxt is modelled by the list of bytes that remain in its window:
   C14 (Props/C14.v: C14_read_exact, C14_subscope_window, C14_no_oob) proves that the typed
   reads return the big-endian value at the cursor and advance by the size, or fail with Eof
   exactly when fewer bytes remain, and that sub-scopes expose exactly their window. *)
From AV Require Import Base.Prelude Gen.Woff2Lut.
Open Scope Z_scope.

Definition stream := list Z.

(* ---------------------------------------------------------------- primitive reads *)
Definition rd_u8 (s : stream) : outcome (Z * stream) :=
  match s with b :: r => Ok (b, r) | _ => Err Eof end.
Definition rd_i8 (s : stream) : outcome (Z * stream) :=
  match s with b :: r => Ok (to_signed 8 b, r) | _ => Err Eof end.
Definition rd_u16 (s : stream) : outcome (Z * stream) :=
  match s with a :: b :: r => Ok (a * 256 + b, r) | _ => Err Eof end.
Definition rd_i16 (s : stream) : outcome (Z * stream) :=
  match s with a :: b :: r => Ok (to_signed 16 (a * 256 + b), r) | _ => Err Eof end.
Definition rd_u32 (s : stream) : outcome (Z * stream) :=
  match s with
  | a :: b :: c :: d :: r => Ok (((a * 256 + b) * 256 + c) * 256 + d, r)
  | _ => Err Eof
  end.
(* ReadCtxt::read_slice(n) (also read_array::<U8>(n)): n is a usize.  split_at walks the list
   once (Proofs: split_at s n = Some (take n s, drop n s) iff n <= len s). *)
Fixpoint split_at (s : stream) (n : Z) : option (list Z * stream) :=
  if n <=? 0 then Some ([], s)
  else match s with
       | [] => None
       | b :: r => match split_at r (n - 1) with Some (a, t) => Some (b :: a, t) | None => None end
       end.
Definition rd_slice (n : Z) (s : stream) : outcome (list Z * stream) :=
  match split_at s n with Some r => Ok r | None => Err Eof end.
(* read_array::<T>(n) with T::SIZE = sz, every item decoded by rd *)
Fixpoint rd_items {A} (rd : stream -> outcome (A * stream)) (n : nat) (s : stream)
  : outcome (list A * stream) :=
  match n with
  | O => Ok ([], s)
  | S k => '(v, s1) <- rd s ;; '(vs, s2) <- rd_items rd k s1 ;; Ok (v :: vs, s2)
  end.
(* read_array::<U16Be>(n) / ::<I16Be>(n): the bounds check is made once for n*2 bytes *)
Definition rd_array16 (rd : stream -> outcome (Z * stream)) (n : Z) (s : stream)
  : outcome (list Z * stream) :=
  if n * 2 <=? len s then rd_items rd (Z.to_nat n) s else Err Eof.
(* ReadScope::offset_length *)
Definition offset_length (d : list Z) (o l : Z) : outcome (list Z) :=
  if (o <? len d) || (l =? 0) then
    let r := slice_from d o in
    if l <=? len r then Ok (take l r) else Err Eof
  else Err BadOffset.

(* ---------------------------------------------------------------- 255UInt16, UIntBase128 *)
(* impl ReadBinary for PackedU16 *)
Definition read_packed_u16 (s : stream) : outcome (Z * stream) :=
  '(code, s1) <- rd_u8 s ;;
  if code =? 253 then rd_u16 s1
  else if code =? 254 then '(v, s2) <- rd_u8 s1 ;; Ok (v + lowest_ucode * 2, s2)
  else if code =? 255 then '(v, s2) <- rd_u8 s1 ;; Ok (v + lowest_ucode, s2)
  else Ok (code, s1).

(* impl ReadBinary for U32Base128: the `for i in 0..5` loop; n = iterations left *)
Fixpoint base128_loop (n : nat) (first : bool) (accum : Z) (s : stream) : outcome (Z * stream) :=
  match n with
  | O => Err BadValue                      (* sequence exceeds 5 bytes *)
  | S k =>
      '(byte, s1) <- rd_u8 s ;;
      if first && (byte =? 128) then Err BadValue          (* leading zeros *)
      else if negb (Z.land accum 4261412864 =? 0) then Err BadValue   (* 0xFE000000: << 7 would overflow *)
      else
        let accum' := Z.lor (Z.shiftl accum 7 mod 2 ^ 32) (Z.land byte 127) in
        if Z.land byte 128 =? 0 then Ok (accum', s1) else base128_loop k false accum' s1
  end.
Definition read_base128 (s : stream) : outcome (Z * stream) := base128_loop 5 true 0 s.

(* ---------------------------------------------------------------- glyph records *)
Record bbox := { bb_xmin : Z; bb_ymin : Z; bb_xmax : Z; bb_ymax : Z }.
Record point := { p_on : bool; p_x : Z; p_y : Z }.
Record simple_glyph := {
  sg_bbox : bbox; sg_end_pts : list Z; sg_instr : list Z; sg_points : list point }.
Record component := {
  c_flags : Z; c_gid : Z; c_arg1 : Z; c_arg2 : Z; c_scale : list Z }.
Inductive glyph :=
| GEmpty
| GSimple (g : simple_glyph)
| GComposite (bb : bbox) (comps : list component) (instr : list Z)
| GPresent (nc : Z) (raw : list Z).      (* GlyfRecord::Present: an unparsed slice of a plain glyf *)

(* BoundingBox: ReadFrom ((I16Be, I16Be), (I16Be, I16Be)) = x_min, y_min, x_max, y_max *)
Definition read_bbox (s : stream) : outcome (bbox * stream) :=
  match s with
  | a :: b :: c :: d :: e :: f :: g :: h :: r =>
      Ok ({| bb_xmin := to_signed 16 (a * 256 + b); bb_ymin := to_signed 16 (c * 256 + d);
             bb_xmax := to_signed 16 (e * 256 + f); bb_ymax := to_signed 16 (g * 256 + h) |}, r)
  | _ => Err Eof
  end.

(* BoundingBox::from_points — assert!(points.len() > 0); not reached with an empty list from the
   WOFF2 decoder (Proofs/Woff2Total.v: a decoded simple glyph has at least one point) *)
Definition bbox_add (b : bbox) (p : point) : bbox :=
  {| bb_xmin := Z.min (p_x p) (bb_xmin b); bb_ymin := Z.min (p_y p) (bb_ymin b);
     bb_xmax := Z.max (p_x p) (bb_xmax b); bb_ymax := Z.max (p_y p) (bb_ymax b) |}.
Definition bbox_from_points (pts : list point) : outcome bbox :=
  match pts with
  | [] => Panic
  | p :: _ =>
      Ok (fold_left bbox_add pts
            {| bb_xmin := p_x p; bb_ymin := p_y p; bb_xmax := p_x p; bb_ymax := p_y p |})
  end.

(* BitSlice::get *)
Definition bit_get (d : list Z) (i : Z) : option bool :=
  if len d * 8 <=? i then None
  else
    let mask := 2 ^ (8 - i mod 8 - 1) in
    Some (Z.land (nthZ d (i / 8)) mask =? mask).

(* ---------------------------------------------------------------- transformed glyf table *)
Record tglyf := {
  tg_num_glyphs : Z; tg_index_format : Z;
  tg_ncontour : stream; tg_npoints : stream; tg_flags : stream; tg_glyphs : stream;
  tg_composite : stream; tg_bitmap : list Z; tg_bbox : stream; tg_instr : stream }.

(* impl ReadBinary for TransformedGlyphTable *)
Definition read_tglyf (s : stream) : outcome tglyf :=
  '(_version, s) <- rd_u32 s ;;
  '(num_glyphs, s) <- rd_u16 s ;;
  '(index_format, s) <- rd_u16 s ;;
  '(n_contour_size, s) <- rd_u32 s ;;
  '(n_points_size, s) <- rd_u32 s ;;
  '(flag_size, s) <- rd_u32 s ;;
  '(glyph_size, s) <- rd_u32 s ;;
  '(composite_size, s) <- rd_u32 s ;;
  '(bbox_size, s) <- rd_u32 s ;;
  '(instruction_size, s) <- rd_u32 s ;;
  '(ncontour, s) <- rd_slice n_contour_size s ;;
  '(npoints, s) <- rd_slice n_points_size s ;;
  '(flags, s) <- rd_slice flag_size s ;;
  '(glyphs, s) <- rd_slice glyph_size s ;;
  '(composite, s) <- rd_slice composite_size s ;;
  (* 4 * ((usize::from(num_glyphs) + 31) / 32) *)
  let bitmap_len := 4 * ((num_glyphs + 31) / 32) in
  '(bitmap, s) <- rd_slice bitmap_len s ;;
  (* bbox_stream_size.checked_sub(bbox_bitmap_length).ok_or(ParseError::BadEof)? *)
  rest <- (if bitmap_len <=? bbox_size then Ok (bbox_size - bitmap_len) else Err Eof) ;;
  '(bboxs, s) <- rd_slice rest s ;;
  '(instr, s) <- rd_slice instruction_size s ;;
  Ok {| tg_num_glyphs := num_glyphs; tg_index_format := index_format;
        tg_ncontour := ncontour; tg_npoints := npoints; tg_flags := flags; tg_glyphs := glyphs;
        tg_composite := composite; tg_bitmap := bitmap; tg_bbox := bboxs; tg_instr := instr |}.

(* the seven cursors the per-glyph loop advances *)
Record gstreams := {
  s_nc : stream; s_np : stream; s_fl : stream; s_gl : stream;
  s_comp : stream; s_bbox : stream; s_ins : stream }.

(* Woff2GlyfTable::compute_end_pts_of_contours: n_points: u16,
   n_points = n_points.checked_add(n_contours).ok_or(ParseError::BadValue)?  and
   n_points.checked_sub(1).ok_or(ParseError::BadValue) *)
Fixpoint end_pts_loop (n : nat) (np : stream) (n_points : Z)
  : outcome (list Z * Z * stream) :=
  match n with
  | O => Ok ([], n_points, np)
  | S k =>
      '(c, np1) <- read_packed_u16 np ;;
      n1 <- (if n_points + c <=? 65535 then Ok (n_points + c) else Err BadValue) ;;
      e <- (if 1 <=? n1 then Ok (n1 - 1) else Err BadValue) ;;
      '(rest, tot, np2) <- end_pts_loop k np1 n1 ;;
      Ok (e :: rest, tot, np2)
  end.
Definition compute_end_pts (np : stream) (number_of_contours : Z)
  : outcome (list Z * Z * stream) :=
  end_pts_loop (Z.to_nat number_of_contours) np 0.

(* the fold in decode_coordinates: data <<= 8 (u32: high bits fall off); data |= byte *)
Definition coord_data (bytes : list Z) : Z :=
  fold_left (fun d b => Z.lor ((d * 256) mod 2 ^ 32) b) bytes 0.

(* WoffFlag::xy_triplet: COORD_LUT[usize::from(flag & 0x7F)] *)
Definition xy_triplet (flag : Z) : outcome xytriplet :=
  match nth_error coord_lut (Z.to_nat (Z.land flag 127)) with
  | Some t => Ok t
  | None => Panic
  end.

(* the `for flag in flags.iter()` loop of decode_simple_glyph (step 3);
   prev_point.0.wrapping_add(point.0) is i16 addition modulo 2^16 in every build *)
Fixpoint decode_points (m : mode) (flags : list Z) (gl : stream) (px py : Z)
  : outcome (list point * stream) :=
  match flags with
  | [] => Ok ([], gl)
  | f :: fs =>
      t <- xy_triplet f ;;
      '(bytes, gl1) <- rd_slice (byte_count t) gl ;;
      let data := coord_data bytes in
      dx <- xy_dx m t data ;;
      dy <- xy_dy m t data ;;
      let x := to_signed 16 (px + dx) in
      let y := to_signed 16 (py + dy) in
      '(rest, gl2) <- decode_points m fs gl1 x y ;;
      Ok ({| p_on := Z.land f 128 =? 0; p_x := x; p_y := y |} :: rest, gl2)
  end.

(* Woff2GlyfTable::decode_simple_glyph; the bounding box is filled in by the caller *)
Definition decode_simple_glyph (m : mode) (st : gstreams) (number_of_contours : Z)
  : outcome (list Z * list Z * list point * gstreams) :=
  '(end_pts, n_points, np) <- compute_end_pts (s_np st) number_of_contours ;;
  '(flags, fl) <- rd_slice n_points (s_fl st) ;;
  '(points, gl) <- decode_points m flags (s_gl st) 0 0 ;;
  '(instruction_length, gl) <- read_packed_u16 gl ;;
  '(instructions, ins) <- rd_slice instruction_length (s_ins st) ;;
  Ok (end_pts, instructions, points,
      {| s_nc := s_nc st; s_np := np; s_fl := fl; s_gl := gl;
         s_comp := s_comp st; s_bbox := s_bbox st; s_ins := ins |}).

(* CompositeGlyphFlag::from_bits_truncate keeps the 12 defined bits *)
Definition comp_flag_mask : Z := 8175.   (* 0x1FEF *)

(* CompositeGlyphArgument::read_dep *)
Definition read_comp_arg (flags : Z) (s : stream) : outcome (Z * stream) :=
  match negb (Z.land flags 1 =? 0), negb (Z.land flags 2 =? 0) with
  | true, true => rd_i16 s
  | true, false => rd_u16 s
  | false, true => rd_i8 s
  | false, false => rd_u8 s
  end.

(* CompositeGlyphComponent::read_dep *)
Definition read_component (flags : Z) (s : stream) : outcome (component * stream) :=
  '(gid, s) <- rd_u16 s ;;
  '(a1, s) <- read_comp_arg flags s ;;
  '(a2, s) <- read_comp_arg flags s ;;
  '(scale, s) <-
     (if negb (Z.land flags 8 =? 0) then rd_items rd_i16 1 s
      else if negb (Z.land flags 64 =? 0) then rd_items rd_i16 2 s
      else if negb (Z.land flags 128 =? 0) then rd_items rd_i16 4 s
      else Ok ([], s)) ;;
  Ok ({| c_flags := flags; c_gid := gid; c_arg1 := a1; c_arg2 := a2; c_scale := scale |}, s).

(* impl ReadBinary for CompositeGlyphs: loop until MORE_COMPONENTS is clear.  Every iteration
   consumes at least six bytes, so fuel = remaining length + 1 is never exhausted. *)
Fixpoint read_components (fuel : nat) (s : stream) (have_instr : bool)
  : outcome (list component * bool * stream) :=
  match fuel with
  | O => Panic
  | S k =>
      '(raw, s) <- rd_u16 s ;;
      let flags := Z.land raw comp_flag_mask in
      '(c, s) <- read_component flags s ;;
      let hi := have_instr || negb (Z.land flags 256 =? 0) in
      if negb (Z.land flags 32 =? 0) then
        '(cs, hi', s') <- read_components k s hi ;; Ok (c :: cs, hi', s')
      else Ok ([c], hi, s)
  end.
Definition read_composite_glyphs (s : stream) : outcome (list component * bool * stream) :=
  read_components (S (length s)) s false.

(* one iteration of the `for i in 0..num_glyphs` loop of Woff2GlyfTable::read_dep *)
Definition decode_glyph (m : mode) (bitmap : list Z) (i : Z) (st : gstreams)
  : outcome (glyph * gstreams) :=
  '(number_of_contours, nc) <- rd_i16 (s_nc st) ;;
  let st := {| s_nc := nc; s_np := s_np st; s_fl := s_fl st; s_gl := s_gl st;
               s_comp := s_comp st; s_bbox := s_bbox st; s_ins := s_ins st |} in
  if number_of_contours =? 0 then Ok (GEmpty, st)
  else if number_of_contours =? -1 then
    '(comps, have_instr, comp) <- read_composite_glyphs (s_comp st) ;;
    '(instruction_length, gl) <-
       (if have_instr then read_packed_u16 (s_gl st) else Ok (0, s_gl st)) ;;
    '(instructions, ins) <- rd_slice instruction_length (s_ins st) ;;
    match bit_get bitmap i with
    | Some true =>
        '(bb, bbs) <- read_bbox (s_bbox st) ;;
        Ok (GComposite bb comps instructions,
            {| s_nc := s_nc st; s_np := s_np st; s_fl := s_fl st; s_gl := gl;
               s_comp := comp; s_bbox := bbs; s_ins := ins |})
    | _ => Err BadIndex
    end
  else if 0 <? number_of_contours then
    '(end_pts, instructions, points, st) <- decode_simple_glyph m st number_of_contours ;;
    match bit_get bitmap i with
    | Some true =>
        '(bb, bbs) <- read_bbox (s_bbox st) ;;
        Ok (GSimple {| sg_bbox := bb; sg_end_pts := end_pts; sg_instr := instructions;
                       sg_points := points |},
            {| s_nc := s_nc st; s_np := s_np st; s_fl := s_fl st; s_gl := s_gl st;
               s_comp := s_comp st; s_bbox := bbs; s_ins := s_ins st |})
    | Some false =>
        bb <- bbox_from_points points ;;
        Ok (GSimple {| sg_bbox := bb; sg_end_pts := end_pts; sg_instr := instructions;
                       sg_points := points |}, st)
    | None => Err BadIndex
    end
  else Err BadValue.

Fixpoint decode_glyphs (m : mode) (bitmap : list Z) (n : nat) (i : Z) (st : gstreams)
  : outcome (list glyph) :=
  match n with
  | O => Ok []
  | S k =>
      '(g, st1) <- decode_glyph m bitmap i st ;;
      gs <- decode_glyphs m bitmap k (i + 1) st1 ;;
      Ok (g :: gs)
  end.

(* Woff2GlyfTable::read_dep, transformed branch *)
Definition read_woff2_glyf (m : mode) (s : stream) : outcome (list glyph) :=
  t <- read_tglyf s ;;
  decode_glyphs m (tg_bitmap t) (Z.to_nat (tg_num_glyphs t)) 0
    {| s_nc := tg_ncontour t; s_np := tg_npoints t; s_fl := tg_flags t; s_gl := tg_glyphs t;
       s_comp := tg_composite t; s_bbox := tg_bbox t; s_ins := tg_instr t |}.

(* ---------------------------------------------------------------- plain glyf through loca *)
(* GlyfTable::read_dep: one record per pair of consecutive loca offsets.  The workaround branch
   (record extends beyond the table: parse the glyph without a length limit) runs the general
   TrueType glyph parser, which belongs to C15; it is reported as NotImplemented here and the
   correspondence generator never produces it. *)
Fixpoint glyf_records (d : list Z) (offs : list Z) : outcome (list glyph) :=
  match offs with
  | a :: ((b :: _) as rest) =>
      g <- (if b <? a then Err BadOffset
            else if b - a =? 0 then Ok GEmpty
            else match offset_length d a (b - a) with
                 | Ok raw => '(nc, _) <- rd_i16 raw ;; Ok (GPresent nc raw)
                 | Err Eof => Err NotImplemented
                 | Err e => Err e
                 | Panic => Panic
                 | OOB => OOB
                 end) ;;
      gs <- glyf_records d rest ;;
      Ok (g :: gs)
  | _ => Ok []
  end.
Definition read_plain_glyf (d : list Z) (offs : list Z) : outcome (list glyph) :=
  if len offs <? 2 then Err BadIndex else glyf_records d offs.

(* LocaTable::read_dep + LocaOffsets::iter: the offsets as u32 values *)
Definition read_loca (d : list Z) (num_glyphs : Z) (long : bool) : outcome (list Z) :=
  if long then
    (if (num_glyphs + 1) * 4 <=? len d
     then '(v, _) <- rd_items rd_u32 (Z.to_nat (num_glyphs + 1)) d ;; Ok v else Err Eof)
  else
    '(v, _) <- rd_array16 rd_u16 (num_glyphs + 1) d ;; Ok (map (fun x => x * 2) v).

(* ---------------------------------------------------------------- hmtx *)
(* xMin of a record, as the lsb reconstruction uses it: glyph.bounding_box().x_min or 0;
   for an unparsed record the xMin field of the glyph header (bytes 2..4) *)
Definition glyph_xmin (g : glyph) : outcome Z :=
  match g with
  | GEmpty => Ok 0
  | GSimple sg => Ok (bb_xmin (sg_bbox sg))
  | GComposite bb _ _ => Ok (bb_xmin bb)
  | GPresent _ raw => '(x, _) <- rd_i16 (drop 2 raw) ;; Ok x
  end.
Fixpoint glyph_xmins (gs : list glyph) : outcome (list Z) :=
  match gs with
  | [] => Ok []
  | g :: r => x <- glyph_xmin g ;; xs <- glyph_xmins r ;; Ok (x :: xs)
  end.

Fixpoint zip {A B} (a : list A) (b : list B) : list (A * B) :=
  match a, b with x :: a', y :: b' => (x, y) :: zip a' b' | _, _ => [] end.

(* Woff2HmtxTable::read_dep, transformed branch: (h_metrics as (advance, lsb), left_side_bearings) *)
Definition read_woff2_hmtx (glyf : list glyph) (num_glyphs num_h_metrics : Z) (s : stream)
  : outcome (list (Z * Z) * list Z) :=
  '(raw, s) <- rd_u8 s ;;
  let flags := Z.land raw 3 in
  '(advance, s) <- rd_array16 rd_u16 num_h_metrics s ;;
  '(lsb, s) <-
     (if Z.land flags 1 =? 0 then rd_array16 rd_i16 num_h_metrics s
      else xs <- glyph_xmins glyf ;; Ok (xs, s)) ;;
  if num_glyphs <? num_h_metrics then Err BadIndex
  else
    '(lsbs, s) <-
       (if Z.land flags 2 =? 0 then rd_array16 rd_i16 (num_glyphs - num_h_metrics) s
        (* as the code stands: xMin of ALL glyphs from glyph 0 (numGlyphs entries), not of the glyphs
           from numberOfHMetrics on.  Known finding C11-hmtx-lsb-absent: the one-line repair
           `.skip(num_h_metrics)` contradicts the pinned test test_woff2_transformed_hmtx_table. *)
        else xs <- glyph_xmins glyf ;; Ok (xs, s)) ;;
    Ok (map (fun p => (snd p, fst p)) (zip lsb advance), lsbs).

(* HmtxTable::read_dep (plain) *)
Definition read_plain_hmtx (num_glyphs num_h_metrics : Z) (s : stream)
  : outcome (list (Z * Z) * list Z) :=
  if num_h_metrics * 4 <=? len s then
    '(hm, s) <- rd_items (fun s => '(a, s) <- rd_u16 s ;; '(l, s) <- rd_i16 s ;; Ok ((a, l), s))
                  (Z.to_nat num_h_metrics) s ;;
    '(lsbs, s) <- rd_array16 rd_i16 (Z.max 0 (num_glyphs - num_h_metrics)) s ;;
    Ok (hm, lsbs)
  else Err Eof.

(* ---------------------------------------------------------------- writers (binary/write.rs) *)
Definition wr_u16 (v : Z) : list Z := [(v / 256) mod 256; v mod 256].
Definition wr_i16 (v : Z) : list Z := wr_u16 (v mod 65536).
Definition wr_u32 (v : Z) : list Z :=
  [(v / 16777216) mod 256; (v / 65536) mod 256; (v / 256) mod 256; v mod 256].
Definition wr_bbox (b : bbox) : list Z :=
  wr_i16 (bb_xmin b) ++ wr_i16 (bb_ymin b) ++ wr_i16 (bb_xmax b) ++ wr_i16 (bb_ymax b).

(* HmtxTable::write *)
Definition write_hmtx (h : list (Z * Z) * list Z) : list Z :=
  flat_map (fun p => wr_u16 (fst p) ++ wr_i16 (snd p)) (fst h) ++ flat_map wr_i16 (snd h).

(* the delta loops of SimpleGlyph::write: i16::try_from(i32::from(x) - i32::from(prev_x))?, a
   WriteError (canonicalised as OtherErr) when two consecutive points are more than an i16 apart;
   the arithmetic mode plays no role any more *)
Fixpoint write_deltas (m : mode) (vs : list Z) (prev : Z) : outcome (list Z) :=
  match vs with
  | [] => Ok []
  | v :: r =>
      d <- (if (-32768 <=? v - prev) && (v - prev <=? 32767) then Ok (v - prev) else Err OtherErr) ;;
      rest <- write_deltas m r v ;; Ok (wr_i16 d ++ rest)
  end.

Definition comp_arg_bytes (flags v : Z) : list Z :=
  if negb (Z.land flags 1 =? 0) then wr_i16 v else [v mod 256].

(* CompositeGlyphComponent::write *)
Definition write_component (c : component) : list Z :=
  wr_u16 (c_flags c) ++ wr_u16 (c_gid c) ++ comp_arg_bytes (c_flags c) (c_arg1 c)
  ++ comp_arg_bytes (c_flags c) (c_arg2 c) ++ flat_map wr_i16 (c_scale c).

(* Glyph::write / ReadScope::write for an unparsed record *)
Definition write_glyph (m : mode) (g : glyph) : outcome (list Z) :=
  match g with
  | GEmpty => Ok []
  | GPresent _ raw => Ok raw
  | GSimple sg =>
      xs <- write_deltas m (map p_x (sg_points sg)) 0 ;;
      ys <- write_deltas m (map p_y (sg_points sg)) 0 ;;
      Ok (wr_i16 (to_signed 16 (len (sg_end_pts sg))) ++ wr_bbox (sg_bbox sg)
          ++ flat_map wr_u16 (sg_end_pts sg)
          ++ wr_u16 (len (sg_instr sg)) ++ sg_instr sg
          ++ map (fun p => if p_on p then 1 else 0) (sg_points sg) ++ xs ++ ys)
  | GComposite bb comps instr =>
      Ok (wr_i16 (-1) ++ wr_bbox bb ++ flat_map write_component comps
          ++ (if existsb (fun c => negb (Z.land (c_flags c) 256 =? 0)) comps
              then wr_u16 (len instr) ++ instr else []))
  end.

(* GlyfTable::write_dep: glyf bytes and the loca offsets; word padding in the short format *)
Fixpoint write_glyf (m : mode) (short : bool) (gs : list glyph) (pos : Z)
  : outcome (list Z * list Z) :=
  match gs with
  | [] => Ok ([], [pos])
  | g :: r =>
      b <- write_glyph m g ;;
      let b := if short && negb (len b mod 2 =? 0) then b ++ [0] else b in
      '(rest, offs) <- write_glyf m short r (pos + len b) ;;
      Ok (b ++ rest, pos :: offs)
  end.

(* owned::LocaTable::write_dep: None = WriteError::BadValue *)
Definition write_loca (short : bool) (offs : list Z) : option (list Z) :=
  if short then
    if 65535 <? last offs 0 / 2 then None
    else if existsb (fun o => Z.land o 1 =? 1) offs then None
    else Some (flat_map (fun o => wr_u16 (o / 2)) offs)
  else Some (flat_map wr_u32 offs).

(* ---------------------------------------------------------------- WOFF2 header and directories *)
Record dir_entry := { e_tag : Z; e_offset : Z; e_orig_length : Z; e_transform_length : option Z }.

(* TableDirectoryEntry::read_dep *)
Definition read_dir_entry (offset : Z) (s : stream) : outcome (dir_entry * stream) :=
  '(flags, s) <- rd_u8 s ;;
  '(tag, s) <-
     (if Z.land flags bits_0_to_5 =? 63 then rd_u32 s
      else match nth_error known_table_tags (Z.to_nat (Z.land flags bits_0_to_5)) with
           | Some t => Ok (t, s)
           | None => Panic
           end) ;;
  let version := Z.shiftr (Z.land flags 192) 6 in
  '(orig_length, s) <- read_base128 s ;;
  let is_gl := (tag =? tag_glyf) || (tag =? tag_loca) in
  '(tl, s) <-
     (if (version =? 3) && is_gl then Ok (None, s)
      else if is_gl || ((version =? 1) && (tag =? tag_hmtx)) then
        '(v, s) <- read_base128 s ;; Ok (Some v, s)
      else if version =? 0 then Ok (None, s)
      else '(v, s) <- read_base128 s ;; Ok (Some v, s)) ;;
  Ok ({| e_tag := tag; e_offset := offset; e_orig_length := orig_length;
         e_transform_length := tl |}, s).

(* TableDirectoryEntry::length *)
Definition entry_length (e : dir_entry) : Z :=
  match e_transform_length e with Some l => l | None => e_orig_length e end.

(* Woff2Font::read_table_directory: offsets are the running sum of the lengths *)
Fixpoint read_table_directory (n : nat) (offset : Z) (s : stream)
  : outcome (list dir_entry * stream) :=
  match n with
  | O => Ok ([], s)
  | S k =>
      '(e, s) <- read_dir_entry offset s ;;
      '(es, s) <- read_table_directory k (offset + entry_length e) s ;;
      Ok (e :: es, s)
  end.

Record woff2_header := { h_flavor : Z; h_num_tables : Z; h_total_compressed_size : Z }.

(* impl ReadBinary for Woff2Header *)
Definition read_header (s : stream) : outcome (woff2_header * stream) :=
  '(signature, s) <- rd_u32 s ;;
  if signature =? woff2_magic then
    '(flavor, s) <- rd_u32 s ;;
    '(_length, s) <- rd_u32 s ;;
    '(num_tables, s) <- rd_u16 s ;;
    '(reserved, s) <- rd_u16 s ;;
    if reserved =? 0 then
      '(_total_sfnt_size, s) <- rd_u32 s ;;
      '(total_compressed_size, s) <- rd_u32 s ;;
      '(_major, s) <- rd_u16 s ;;
      '(_minor, s) <- rd_u16 s ;;
      '(_meta_offset, s) <- rd_u32 s ;;
      '(_meta_length, s) <- rd_u32 s ;;
      '(_meta_orig_length, s) <- rd_u32 s ;;
      '(_priv_offset, s) <- rd_u32 s ;;
      '(_priv_length, s) <- rd_u32 s ;;
      Ok ({| h_flavor := flavor; h_num_tables := num_tables;
             h_total_compressed_size := total_compressed_size |}, s)
    else Err BadValue
  else Err BadVersion.

(* collection::FontEntry / collection::Directory: the table indices of every member font *)
Definition read_font_entry (s : stream) : outcome (list Z * stream) :=
  '(num_tables, s) <- read_packed_u16 s ;;
  '(_flavor, s) <- rd_u32 s ;;
  rd_items read_packed_u16 (Z.to_nat num_tables) s.
Definition read_collection_directory (s : stream) : outcome (list (list Z) * stream) :=
  '(_version, s) <- rd_u32 s ;;
  '(num_fonts, s) <- read_packed_u16 s ;;
  rd_items read_font_entry (Z.to_nat num_fonts) s.

Record woff2_font := {
  f_flavor : Z; f_dir : list dir_entry; f_coll : option (list (list Z)); f_block : list Z }.

(* impl ReadBinary for Woff2Font, up to the compressed stream; `block` is the decompressed
   table data (Brotli itself is outside the model) *)
Definition read_font_prefix (s : stream) : outcome (woff2_header * list dir_entry * option (list (list Z)) * stream) :=
  '(h, s) <- read_header s ;;
  '(dir, s) <- read_table_directory (Z.to_nat (h_num_tables h)) 0 s ;;
  '(coll, s) <-
     (if h_flavor h =? ttcf_magic then '(c, s) <- read_collection_directory s ;; Ok (Some c, s)
      else Ok (None, s)) ;;
  Ok (h, dir, coll, s).

(* FontEntry::table_entries: indices outside the directory are skipped (flat_map over get) *)
Definition member_entries (dir : list dir_entry) (idx : list Z) : list dir_entry :=
  flat_map (fun i => match nth_opt dir i with Some e => [e] | None => [] end) idx.

(* Woff2TableProvider::table_directory; None = index outside the collection *)
Definition font_entries (f : woff2_font) (index : Z) : option (list dir_entry) :=
  match f_coll f with
  | Some c => match nth_opt c index with Some idx => Some (member_entries (f_dir f) idx) | None => None end
  | None => Some (f_dir f)
  end.

(* Woff2Font::find_table_entry *)
Definition find_entry (f : woff2_font) (tag index : Z) : option dir_entry :=
  match font_entries f index with
  | Some es => find (fun e => e_tag e =? tag) es
  | None => None
  end.

(* TableDirectoryEntry::read_table *)
Definition entry_data (f : woff2_font) (e : dir_entry) : outcome (list Z) :=
  offset_length (f_block f) (e_offset e) (entry_length e).

(* read_table!(woff, tag, T, index) up to the typed read *)
Definition table_bytes (f : woff2_font) (tag index : Z) : outcome (list Z) :=
  match find_entry f tag index with
  | Some e => entry_data f e
  | None => Err MissingValue
  end.

(* HeadTable::read / write: 54 bytes, magic checked, macStyle truncated to its 7 defined bits,
   indexToLocFormat must be 0 or 1; checkSumAdjustment is written as a zero placeholder *)
Definition read_head (d : list Z) : outcome (list Z * bool) :=
  if len d <? 16 then Err Eof
  else if negb (be_val (take 4 (drop 12 d)) =? 1594834165) then Err BadValue   (* 0x5F0F3CF5 *)
  else if len d <? 52 then Err Eof
  else
    let fmt := to_signed 16 (be_val (take 2 (drop 50 d))) in
    if negb ((fmt =? 0) || (fmt =? 1)) then Err BadValue
    else if len d <? 54 then Err Eof
    else Ok (take 54 d, fmt =? 1).
Definition write_head (h : list Z) (long : bool) : list Z :=
  take 8 h ++ [0; 0; 0; 0] ++ take 32 (drop 12 h)
  ++ wr_u16 (Z.land (be_val (take 2 (drop 44 h))) 127) ++ take 4 (drop 46 h)
  ++ wr_u16 (if long then 1 else 0) ++ take 2 (drop 52 h).

(* MaxpTable::read: numGlyphs; a version 1.0 table must carry its 26 further bytes *)
Definition read_maxp (d : list Z) : outcome Z :=
  '(version, s) <- rd_u32 d ;;
  '(num_glyphs, s) <- rd_u16 s ;;
  if version =? 65536 then (if 26 <=? len s then Ok num_glyphs else Err Eof) else Ok num_glyphs.

(* HheaTable::read: numberOfHMetrics; majorVersion = 1 and metricDataFormat = 0 are checked *)
Definition read_hhea (d : list Z) : outcome Z :=
  '(major, s) <- rd_u16 d ;;
  '(_minor, s) <- rd_u16 s ;;
  if major =? 1 then
    '(_, s) <- rd_slice 28 s ;;
    '(fmt, s) <- rd_i16 s ;;
    if fmt =? 0 then '(n, _) <- rd_u16 s ;; Ok n else Err BadValue
  else Err BadValue.

Definition is_some {A} (o : option A) : bool := match o with Some _ => true | None => false end.
Definition entry_transformed (o : option dir_entry) : bool :=
  match o with Some e => is_some (e_transform_length e) | None => false end.

(* "Add remaining tables": first entry of each tag wins, reconstructed tags are skipped *)
Fixpoint add_remaining (f : woff2_font) (es : list dir_entry) (acc : list (Z * list Z))
  : outcome (list (Z * list Z)) :=
  match es with
  | [] => Ok acc
  | e :: r =>
      if existsb (fun p => fst p =? e_tag e) acc then add_remaining f r acc
      else d <- entry_data f e ;; add_remaining f r (acc ++ [(e_tag e, d)])
  end.

(* Woff2TableProvider::new: the table map as an association list (reconstructed tables first).
   Err OtherErr stands for a WriteError. *)
Definition table_provider (m : mode) (f : woff2_font) (index : Z) : outcome (list (Z * list Z)) :=
  let hmtx_entry := find_entry f tag_hmtx index in
  let glyf_entry := find_entry f tag_glyf index in
  let hmtx_t := entry_transformed hmtx_entry in
  let glyf_t := entry_transformed glyf_entry in
  rebuilt <-
    (if hmtx_t || glyf_t then
       match glyf_entry with
       | None => Err MissingValue
       | Some ge =>
           glyf_table <- entry_data f ge ;;
           hd <- table_bytes f tag_head index ;;
           '(head, long) <- read_head hd ;;
           md <- table_bytes f tag_maxp index ;;
           num_glyphs <- read_maxp md ;;
           hh <- table_bytes f tag_hhea index ;;
           num_h_metrics <- read_hhea hh ;;
           match find_entry f tag_loca index with
           | None => Err MissingValue
           | Some le =>
               loca_table <- entry_data f le ;;
               loca <- (if is_some (e_transform_length le) then Ok []
                        else read_loca loca_table num_glyphs long) ;;
               glyf <- (if is_some (e_transform_length ge) then read_woff2_glyf m glyf_table
                        else read_plain_glyf glyf_table loca) ;;
               hm <- (if hmtx_t then
                        match hmtx_entry with
                        | None => Err MissingValue
                        | Some he =>
                            hmtx_table <- entry_data f he ;;
                            h <- read_woff2_hmtx glyf num_glyphs num_h_metrics hmtx_table ;;
                            Ok [(tag_hmtx, write_hmtx h)]
                        end
                      else Ok []) ;;
               '(glyf_bytes, offs) <- write_glyf m (negb long) glyf 0 ;;
               let long' := long || (65535 <? last offs 0 / 2) in
               match write_loca (negb long') offs with
               | None => Err OtherErr
               | Some loca_bytes =>
                   Ok (hm ++ [(tag_glyf, glyf_bytes); (tag_head, write_head head long');
                              (tag_loca, loca_bytes)])
               end
           end
       end
     else Ok []) ;;
  match font_entries f index with
  | None => Err BadIndex
  | Some es => add_remaining f es rebuilt
  end.

(* whole pipeline from the bytes before the compressed stream and the decompressed block *)
Definition woff2_tables (m : mode) (prefix block : list Z) (index : Z)
  : outcome (list dir_entry * list (Z * list Z)) :=
  '(h, dir, coll, rest) <- read_font_prefix prefix ;;
  (* the compressed stream follows the directories immediately; anything else is not a Brotli
     stream of `block` (the harness canonicalises that case to CompressionError) *)
  if negb (len rest =? 0) then Err CompressionError else
  let f := {| f_flavor := h_flavor h; f_dir := dir; f_coll := coll; f_block := block |} in
  t <- table_provider m f index ;;
  Ok (dir, t).
