(* Model/MacRoman.v — src/macroman.rs: char_to_macroman / macroman_to_char / is_macroman over the
   tables regenerated from the source (Gen/MacRomanTables.v).  No proofs in this file. *)
From AV Require Import Base.Prelude Gen.MacRomanTables.
Open Scope Z_scope.

(* Rust `match` takes the first arm whose pattern matches *)
Fixpoint assoc (k : Z) (l : list (Z * Z)) : option Z :=
  match l with
  | [] => None
  | (a, b) :: t => if a =? k then Some b else assoc k t
  end.

(* pub fn char_to_macroman(chr: char) -> Option<u8>; chr is a Unicode scalar value *)
Definition char_to_macroman (c : Z) : option Z :=
  if c <? c2m_bound then Some c else assoc c c2m_arms.

(* pub fn macroman_to_char(macroman: u8) -> Option<char> *)
Definition macroman_to_char (b : Z) : option Z :=
  if (m2c_lo <=? b) && (b <=? m2c_hi) then Some b else assoc b m2c_arms.

Definition is_macroman (c : Z) : bool :=
  match char_to_macroman c with Some _ => true | None => false end.

(* a Rust `char`: Unicode scalar value *)
Definition is_char (c : Z) : bool :=
  ((0 <=? c) && (c <? 55296)) || ((57344 <=? c) && (c <? 1114112)).
