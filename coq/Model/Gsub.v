(* Model/Gsub.v — src/gsub.rs (glyph substitution) over the abstract lookup program of Model/Layout.v,
   function by function after the Rust.  No proofs here.

   usize arithmetic that depends on the build profile (`start + length`, `i += ..`, `length -= ..`) goes
   through uadd/usub of Base/Prelude.v: Panic in Debug, wrap in Release.  Loops that are `while` in the Rust
   carry a fuel argument; running out of fuel yields `Err OtherErr`, which no Rust path produces — the proofs
   show it is never returned for the fuel the entry points pass (Proofs/GsubProofs.v: *_fuel_ok). *)
From AV Require Import Base.Prelude Gen.LayoutConsts Model.Layout.
Open Scope Z_scope.

(* ------------------------------------------------------------------ RawGlyph<()> *)
Record glyph := mkGlyph {
  g_id : Z;                 (* glyph_index *)
  g_chars : list Z;         (* unicodes *)
  g_pos : Z;                (* liga_component_pos *)
  g_origin : option Z;      (* glyph_origin: Some c = Char(c), None = Direct *)
  g_lig : bool;             (* flags: LIGATURE *)
  g_dup : bool;             (* flags: MULTI_SUBST_DUP *)
  g_vert : bool;            (* flags: IS_VERT_ALT *)
  g_rest : Z                (* the remaining flag bits and the variation selector: only ever copied *)
}.

Definition ids (gs : list glyph) : list Z := map g_id gs.

Definition set_id (g : glyph) (id : Z) : glyph :=
  mkGlyph id (g_chars g) (g_pos g) None (g_lig g) (g_dup g) (g_vert g) (g_rest g).
Definition set_vert (g : glyph) : glyph :=
  mkGlyph (g_id g) (g_chars g) (g_pos g) (g_origin g) (g_lig g) (g_dup g) true (g_rest g).
Definition set_pos (g : glyph) (p : Z) : glyph :=
  mkGlyph (g_id g) (g_chars g) p (g_origin g) (g_lig g) (g_dup g) (g_vert g) (g_rest g).

(* ------------------------------------------------------------------ list surgery on Vec<RawGlyph> *)
(* glyphs[i] *)
Definition gget (gs : list glyph) (i : Z) : outcome glyph :=
  match nth_opt gs i with Some g => Ok g | None => Panic end.
(* glyphs[i] = g  (i in range at every use) *)
Definition gset (gs : list glyph) (i : Z) (g : glyph) : list glyph :=
  take i gs ++ match drop i gs with [] => [] | _ :: t => g :: t end.
Definition gremove (gs : list glyph) (i : Z) : list glyph :=
  take i gs ++ match drop i gs with [] => [] | _ :: t => t end.
Definition ginsert (gs : list glyph) (i : Z) (g : glyph) : list glyph :=
  take i gs ++ g :: drop i gs.

(* ------------------------------------------------------------------ subtables (layout.rs:1366-1642) *)
Inductive single_subst :=
| SingleF1 (cov : coverage) (delta : Z)             (* delta_glyph_index : i16 *)
| SingleF2 (cov : coverage) (subst : list Z).

Record multiple_subst := mkMulti { ms_cov : coverage; ms_seqs : list (list Z) }.
Record alternate_subst := mkAlt { as_cov : coverage; as_sets : list (list Z) }.
Record ligature := mkLig { lig_glyph : Z; lig_comps : list Z }.
Record ligature_subst := mkLigS { ls_cov : coverage; ls_sets : list (list ligature) }.
Record reverse_chain := mkRev { rc_cov : coverage; rc_back : list coverage; rc_look : list coverage; rc_subst : list Z }.

Inductive subst_lookup :=
| LSingle (l : list single_subst)
| LMultiple (l : list multiple_subst)
| LAlternate (l : list alternate_subst)
| LLigature (l : list ligature_subst)
| LContext (l : list context_lookup)
| LChain (l : list chain_context_lookup)
| LReverse (l : list reverse_chain).

Record lookup := mkLookup { lk_flag : Z; lk_mfs : option Z; lk_body : subst_lookup }.

(* SingleSubst::apply_glyph *)
Definition single_apply_glyph (s : single_subst) (g : Z) : outcome (option Z) :=
  match s with
  | SingleF1 cov delta => if covers cov g then Ok (Some ((g + delta) mod 65536)) else Ok None
  | SingleF2 cov subst =>
    match coverage_value cov g with
    | Some ci => x <- checked_nth subst ci ;; Ok (Some x)
    | None => Ok None
    end
  end.

(* MultipleSubst / AlternateSubst / LigatureSubst ::apply_glyph *)
Definition cov_indexed {A} (cov : coverage) (items : list A) (g : Z) : outcome (option A) :=
  match coverage_value cov g with
  | Some ci => x <- checked_nth items ci ;; Ok (Some x)
  | None => Ok None
  end.

(* `for s in subtables { if let Some(x) = s.apply_glyph(g)? { return Ok(Some(x)) } } Ok(None)` *)
Fixpoint first_subtable {S A} (f : S -> outcome (option A)) (subs : list S) : outcome (option A) :=
  match subs with
  | [] => Ok None
  | s :: t => r <- f s ;; match r with Some a => Ok (Some a) | None => first_subtable f t end
  end.

Definition singlesubst_would_apply (subs : list single_subst) (g : glyph) : outcome (option Z) :=
  first_subtable (fun s => single_apply_glyph s (g_id g)) subs.

Definition singlesubst (subs : list single_subst) (tag : Z) (g : glyph) : outcome glyph :=
  r <- singlesubst_would_apply subs g ;;
  match r with
  | Some out =>
    let g' := set_id g out in
    Ok (if (tag =? TAG_VERT_ALT_1) || (tag =? TAG_VERT_ALT_2) then set_vert g' else g')
  | None => Ok g
  end.

Definition multiplesubst_would_apply (subs : list multiple_subst) (i : Z) (gs : list glyph) : outcome (option (list Z)) :=
  g <- gget gs i ;;
  first_subtable (fun s => cov_indexed (ms_cov s) (ms_seqs s) (g_id g)) subs.

(* the copy inserted for substitute_glyphs[j], j >= 1 *)
Definition dup_glyph (g : glyph) (id : Z) : glyph :=
  mkGlyph id (g_chars g) 0 None false true (g_vert g) (g_rest g).

(* for j in 1..n { glyphs.insert(i + j, copy) }: `g0` is glyphs[i] after its id was replaced *)
Fixpoint insert_dups (gs : list glyph) (g0 : glyph) (at_ : Z) (rest : list Z) : list glyph :=
  match rest with
  | [] => gs
  | id :: t => insert_dups (ginsert gs at_ (dup_glyph g0 id)) g0 (at_ + 1) t
  end.

(* returns (replace_count, glyphs') *)
Definition multiplesubst (subs : list multiple_subst) (i : Z) (gs : list glyph) : outcome (option Z * list glyph) :=
  r <- multiplesubst_would_apply subs i gs ;;
  match r with
  | Some seq =>
    match seq with
    | first :: rest =>
      g <- gget gs i ;;
      let g0 := set_id g first in
      Ok (Some (len seq), insert_dups (gset gs i g0) g0 (i + 1) rest)
    | [] => Ok (Some 0, gremove gs i)
    end
  | None => Ok (None, gs)
  end.

Definition alternatesubst_would_apply (subs : list alternate_subst) (g : glyph) : outcome (option (list Z)) :=
  first_subtable (fun s => cov_indexed (as_cov s) (as_sets s) (g_id g)) subs.

Definition alternatesubst (subs : list alternate_subst) (alternate : Z) (g : glyph) : outcome glyph :=
  r <- alternatesubst_would_apply subs g ;;
  match r with
  | Some set => match nth_opt set alternate with Some id => Ok (set_id g id) | None => Ok g end
  | None => Ok g
  end.

(* Ligature::matches *)
Definition ligature_matches (l : ligature) (mt : match_type) (gd : option gdef) (i : Z) (gs : list glyph) : bool :=
  match match_front mt gd (GtById (lig_comps l)) (ids gs) i with Some _ => true | None => false end.

(* first ligature of the set that matches *)
Fixpoint first_ligature (ls : list ligature) (mt : match_type) (gd : option gdef) (i : Z) (gs : list glyph) : option ligature :=
  match ls with
  | [] => None
  | l :: t => if ligature_matches l mt gd i gs then Some l else first_ligature t mt gd i gs
  end.

Definition ligaturesubst_would_apply (gd : option gdef) (subs : list ligature_subst) (mt : match_type) (i : Z) (gs : list glyph)
  : outcome (option ligature) :=
  g <- gget gs i ;;
  first_subtable (fun s =>
    r <- cov_indexed (ls_cov s) (ls_sets s) (g_id g) ;;
    match r with
    | Some set => Ok (first_ligature set mt gd i gs)
    | None => Ok None
    end) subs.

(* glyphs[i] absorbs the removed component *)
Definition absorb (g : glyph) (c : glyph) : glyph :=
  mkGlyph (g_id g) (g_chars g ++ g_chars c) (g_pos g) (g_origin g) true (g_dup g) (g_vert g) (g_rest g).

(* first loop of Ligature::apply: `todo` components still to find, looking at glyphs[index]; `matched` so far.
   Structural on the number of glyphs after `index` (fuel = |glyphs|): returns (glyphs, index, skip) *)
Fixpoint lig_collect (fuel : nat) (mt : match_type) (gd : option gdef) (gs : list glyph) (i index : Z)
  (todo : nat) (matched skip : Z) : outcome (list glyph * Z * Z) :=
  match todo with
  | O => Ok (gs, index, skip)
  | S todo' =>
    match fuel with
    | O => Err OtherErr
    | S fuel' =>
      match nth_opt gs index with
      | None => Panic                                          (* panic!("ran out of glyphs") *)
      | Some c =>
        if match_glyph mt gd (g_id c) then
          gi <- gget gs i ;;
          lig_collect fuel' mt gd (gset (gremove gs index) i (absorb gi c)) i index todo' (matched + 1) skip
        else
          lig_collect fuel' mt gd (gset gs index (set_pos c (matched mod 65536))) i (index + 1) todo (matched) (skip + 1)
      end
    end
  end.

(* second loop: trailing glyphs accepted by MatchType::marks_only get liga_component_pos = matched *)
Fixpoint lig_trailing (gd : option gdef) (l : list glyph) (matched : Z) : list glyph :=
  match l with
  | [] => []
  | c :: t =>
    if match_glyph mt_marks_only gd (g_id c) then set_pos c (matched mod 65536) :: lig_trailing gd t matched
    else c :: t
  end.

(* Ligature::apply: returns (skip, glyphs') *)
Definition ligature_apply (l : ligature) (mt : match_type) (gd : option gdef) (i : Z) (gs : list glyph)
  : outcome (Z * list glyph) :=
  '(gs1, index, skip) <- lig_collect (length gs) mt gd gs i (i + 1) (length (lig_comps l)) 0 0 ;;
  let gs2 := take index gs1 ++ lig_trailing gd (drop index gs1) (len (lig_comps l)) in
  gi <- gget gs2 i ;;
  Ok (skip, gset gs2 i (set_id gi (lig_glyph l))).

(* returns Some (removed_count, skip_count) *)
Definition ligaturesubst (gd : option gdef) (subs : list ligature_subst) (mt : match_type) (i : Z) (gs : list glyph)
  : outcome (option (Z * Z) * list glyph) :=
  r <- ligaturesubst_would_apply gd subs mt i gs ;;
  match r with
  | Some l => '(skip, gs') <- ligature_apply l mt gd i gs ;; Ok (Some (len (lig_comps l), skip), gs')
  | None => Ok (None, gs)
  end.

Definition contextsubst_would_apply (gd : option gdef) (subs : list context_lookup) (mt : match_type) (i : Z) (gs : list glyph)
  : outcome (option (match_context * lookup_records)) :=
  g <- gget gs i ;;
  first_subtable (fun s => context_lookup_info s (g_id g) (fun mc => mc_matches gd mt mc (ids gs) i)) subs.

Definition chaincontextsubst_would_apply (gd : option gdef) (subs : list chain_context_lookup) (mt : match_type) (i : Z) (gs : list glyph)
  : outcome (option (match_context * lookup_records)) :=
  g <- gget gs i ;;
  first_subtable (fun s => chain_context_lookup_info s (g_id g) (fun mc => mc_matches gd mt mc (ids gs) i)) subs.

(* ReverseChainSingleSubst::apply_glyph *)
Definition reverse_apply_glyph (s : reverse_chain) (g : Z) (f : match_context -> bool) : outcome (option Z) :=
  match coverage_value (rc_cov s) g with
  | Some ci =>
    if f (mkMC (GtByCoverage (rc_back s)) GtEmpty (GtByCoverage (rc_look s)))
    then x <- checked_nth (rc_subst s) ci ;; Ok (Some x)
    else Ok None
  | None => Ok None
  end.

Definition reversechainsinglesubst_would_apply (gd : option gdef) (subs : list reverse_chain) (mt : match_type) (i : Z) (gs : list glyph)
  : outcome (option Z) :=
  g <- gget gs i ;;
  first_subtable (fun s => reverse_apply_glyph s (g_id g) (fun mc => mc_matches gd mt mc (ids gs) i)) subs.

Definition reversechainsinglesubst (gd : option gdef) (subs : list reverse_chain) (mt : match_type) (i : Z) (gs : list glyph)
  : outcome (list glyph) :=
  r <- reversechainsinglesubst_would_apply gd subs mt i gs ;;
  match r with
  | Some out => g <- gget gs i ;; Ok (gset gs i (set_id g out))
  | None => Ok gs
  end.

(* ------------------------------------------------------------------ nested application (gsub.rs:686-820) *)
(* lookup_list.lookup_cache_gsub(cache, lookup_index)? *)
Definition get_lookup (lookups : list lookup) (index : Z) : outcome lookup := checked_nth lookups index.

(* fn checked_add(base: usize, changes: isize) -> Option<usize> (no overflow at the sizes involved) *)
Definition checked_add_isize (base changes : Z) : option Z :=
  if base + changes <? 0 then None else Some (base + changes).

(* the type of apply_subst at one recursion level:
   parent_match_type subst_index lookup_index glyphs index -> (changes, glyphs') *)
Definition apply_subst_t := match_type -> Z -> Z -> list glyph -> Z -> outcome (option Z * list glyph).

(* `for (subst_index, subst_lookup_index) in subst.lookup_array` *)
Fixpoint apply_records (rec : apply_subst_t) (mt : match_type) (recs : lookup_records) (gs : list glyph) (i : Z) (changes : Z)
  : outcome (Z * list glyph) :=
  match recs with
  | [] => Ok (changes, gs)
  | (si, li) :: t =>
    '(r, gs') <- rec mt si li gs i ;;
    apply_records rec mt t gs' i (match r with Some c => changes + c | None => changes end)
  end.

(* returns Some (input_length, changes) *)
Definition apply_subst_context (rec : apply_subst_t) (gd : option gdef) (mt : match_type)
  (subst : match_context * lookup_records) (i : Z) (gs : list glyph) : outcome (option (Z * Z) * list glyph) :=
  match find_nth mt gd (ids gs) i (Z.to_nat (gt_len (mc_input (fst subst)))) with
  | None => Ok (None, gs)
  | Some last =>
    let ln := last - i + 1 in
    '(changes, gs') <- apply_records rec mt (snd subst) gs i 0 ;;
    match checked_add_isize ln changes with
    | Some new_len => Ok (Some (new_len, changes), gs')
    | None => Ok (Some (0, changes), gs')         (* was: panic!("apply_subst_context: len < 0") — see known/C04.json *)
    end
  end.

Definition contextsubst (rec : apply_subst_t) (gd : option gdef) (subs : list context_lookup) (mt : match_type) (i : Z) (gs : list glyph)
  : outcome (option (Z * Z) * list glyph) :=
  r <- contextsubst_would_apply gd subs mt i gs ;;
  match r with
  | Some subst => apply_subst_context rec gd mt subst i gs
  | None => Ok (None, gs)
  end.

Definition chaincontextsubst (rec : apply_subst_t) (gd : option gdef) (subs : list chain_context_lookup) (mt : match_type) (i : Z) (gs : list glyph)
  : outcome (option (Z * Z) * list glyph) :=
  r <- chaincontextsubst_would_apply gd subs mt i gs ;;
  match r with
  | Some subst => apply_subst_context rec gd mt subst i gs
  | None => Ok (None, gs)
  end.

(* apply_subst with `lim` = recursion_limit *)
Fixpoint apply_subst (lim : nat) (lookups : list lookup) (gd : option gdef) (tag : Z)
  (parent_mt : match_type) (subst_index lookup_index : Z) (gs : list glyph) (index : Z) {struct lim}
  : outcome (option Z * list glyph) :=
  lk <- get_lookup lookups lookup_index ;;
  let mt := from_lookup_flag (lk_flag lk) (lk_mfs lk) in
  match find_nth parent_mt gd (ids gs) index (Z.to_nat subst_index) with
  | None => Ok (None, gs)
  | Some i =>
    if len gs <=? i then Ok (None, gs)      (* `Some(index1) if index1 < glyphs.len()` *)
    else
    match lk_body lk with
    | LSingle subs => g <- gget gs i ;; g' <- singlesubst subs tag g ;; Ok (Some 0, gset gs i g')
    | LMultiple subs =>
      '(r, gs') <- multiplesubst subs i gs ;;
      Ok (match r with Some rc => Some (rc - 1) | None => None end, gs')
    | LAlternate subs => g <- gget gs i ;; g' <- alternatesubst subs 0 g ;; Ok (Some 0, gset gs i g')
    | LLigature subs =>
      '(r, gs') <- ligaturesubst gd subs mt i gs ;;
      Ok (match r with Some (removed, _) => Some (- removed) | None => None end, gs')
    | LContext subs =>
      match lim with
      | S lim' =>
        '(r, gs') <- contextsubst (apply_subst lim' lookups gd tag) gd subs mt i gs ;;
        Ok (match r with Some (_, change) => Some change | None => None end, gs')
      | O => Err LimitExceeded
      end
    | LChain subs =>
      match lim with
      | S lim' =>
        '(r, gs') <- chaincontextsubst (apply_subst lim' lookups gd tag) gd subs mt i gs ;;
        Ok (match r with Some (_, change) => Some change | None => None end, gs')
      | O => Err LimitExceeded
      end
    | LReverse subs => gs' <- reversechainsinglesubst gd subs mt i gs ;; Ok (Some 0, gs')
    end
  end.

(* ------------------------------------------------------------------ gsub_apply_lookup (gsub.rs:286-412) *)
(* `for glyph in glyphs[start..(start + length)].iter_mut()` *)
Fixpoint map_window (f : glyph -> outcome glyph) (l : list glyph) : outcome (list glyph) :=
  match l with
  | [] => Ok []
  | g :: t => g' <- f g ;; t' <- map_window f t ;; Ok (g' :: t')
  end.

(* glyphs[start..start+length] with the slice-bounds panic; returns (before, window, after) *)
Definition window (m : mode) (gs : list glyph) (start length : Z) : outcome (list glyph * list glyph * list glyph) :=
  e <- uadd m start length ;;
  if (start <=? e) && (e <=? len gs)
  then Ok (take start gs, take (e - start) (drop start gs), drop e gs)
  else Panic.

Definition on_window (m : mode) (f : glyph -> outcome glyph) (gs : list glyph) (start length : Z) : outcome (list glyph) :=
  '(a, w, b) <- window m gs start length ;;
  w' <- map_window f w ;;
  Ok (a ++ w' ++ b).

Fixpoint multiple_loop (fuel : nat) (m : mode) (mt : match_type) (gd : option gdef) (subs : list multiple_subst)
  (gs : list glyph) (start i length : Z) : outcome (list glyph * Z) :=
  match fuel with
  | O => Err OtherErr
  | S fuel' =>
    e <- uadd m start length ;;
    if i <? e then
      g <- gget gs i ;;
      if match_glyph mt gd (g_id g) then
        '(r, gs') <- multiplesubst subs i gs ;;
        match r with
        | Some rc =>
          i' <- uadd m i rc ;;
          l1 <- uadd m length rc ;;
          l2 <- usub m l1 1 ;;
          multiple_loop fuel' m mt gd subs gs' start i' l2
        | None => i' <- uadd m i 1 ;; multiple_loop fuel' m mt gd subs gs' start i' length
        end
      else i' <- uadd m i 1 ;; multiple_loop fuel' m mt gd subs gs start i' length
    else Ok (gs, length)
  end.

Fixpoint ligature_loop (fuel : nat) (m : mode) (mt : match_type) (gd : option gdef) (subs : list ligature_subst)
  (gs : list glyph) (start i length : Z) : outcome (list glyph * Z) :=
  match fuel with
  | O => Err OtherErr
  | S fuel' =>
    e <- uadd m start length ;;
    if i <? e then
      g <- gget gs i ;;
      if match_glyph mt gd (g_id g) then
        '(r, gs') <- ligaturesubst gd subs mt i gs ;;
        match r with
        | Some (removed, skip) =>
          s1 <- uadd m skip 1 ;;
          i' <- uadd m i s1 ;;
          l' <- usub m length removed ;;
          ligature_loop fuel' m mt gd subs gs' start i' l'
        | None => i' <- uadd m i 1 ;; ligature_loop fuel' m mt gd subs gs' start i' length
        end
      else i' <- uadd m i 1 ;; ligature_loop fuel' m mt gd subs gs start i' length
    else Ok (gs, length)
  end.

(* shared by ContextSubst and ChainContextSubst: `step i glyphs` is contextsubst / chaincontextsubst *)
Fixpoint context_loop (fuel : nat) (m : mode) (mt : match_type) (gd : option gdef)
  (step : Z -> list glyph -> outcome (option (Z * Z) * list glyph))
  (gs : list glyph) (start i length : Z) : outcome (list glyph * Z) :=
  match fuel with
  | O => Err OtherErr
  | S fuel' =>
    e <- uadd m start length ;;
    if i <? e then
      g <- gget gs i ;;
      if match_glyph mt gd (g_id g) then
        '(r, gs') <- step i gs ;;
        match r with
        | Some (input_length, changes) =>
          i' <- uadd m i input_length ;;
          match checked_add_isize length changes with
          | Some l' => context_loop fuel' m mt gd step gs' start i' l'
          | None => Panic                                     (* checked_add(length, changes).unwrap() *)
          end
        | None => i' <- uadd m i 1 ;; context_loop fuel' m mt gd step gs' start i' length
        end
      else i' <- uadd m i 1 ;; context_loop fuel' m mt gd step gs start i' length
    else Ok (gs, length)
  end.

(* `for i in (start..start + length).rev()`: `n` positions left, the next one is start + n - 1 *)
Fixpoint reverse_loop (n : nat) (mt : match_type) (gd : option gdef) (subs : list reverse_chain)
  (gs : list glyph) (start : Z) : outcome (list glyph) :=
  match n with
  | O => Ok gs
  | S n' =>
    let i := start + Z.of_nat n' in
    g <- gget gs i ;;
    gs' <- (if match_glyph mt gd (g_id g) then reversechainsinglesubst gd subs mt i gs else Ok gs) ;;
    reverse_loop n' mt gd subs gs' start
  end.

Definition recursion_limit : nat := Z.to_nat SUBST_RECURSION_LIMIT.

(* fuel of the `while i < start + length` loops: |glyphs| - i + 1 iterations at most (proved) *)
Definition loop_fuel (gs : list glyph) : nat := S (length gs).

(* returns (glyphs', length') *)
Definition gsub_apply_lookup (m : mode) (lookups : option (list lookup)) (gd : option gdef) (lookup_index : Z)
  (tag : Z) (alternate : option Z) (gs : list glyph) (start length : Z) : outcome (list glyph * Z) :=
  match lookups with
  | None => Ok (gs, length)
  | Some lks =>
    lk <- get_lookup lks lookup_index ;;
    let mt := from_lookup_flag (lk_flag lk) (lk_mfs lk) in
    match lk_body lk with
    | LSingle subs =>
      gs' <- on_window m (fun g => if match_glyph mt gd (g_id g) then singlesubst subs tag g else Ok g) gs start length ;;
      Ok (gs', length)
    | LMultiple subs => multiple_loop (loop_fuel gs) m mt gd subs gs start start length
    | LAlternate subs =>
      let alt := match alternate with Some a => a | None => 0 end in
      gs' <- on_window m (fun g => if match_glyph mt gd (g_id g) then alternatesubst subs alt g else Ok g) gs start length ;;
      Ok (gs', length)
    | LLigature subs => ligature_loop (loop_fuel gs) m mt gd subs gs start start length
    | LContext subs =>
      context_loop (loop_fuel gs) m mt gd
        (fun i g => contextsubst (apply_subst recursion_limit lks gd tag) gd subs mt i g) gs start start length
    | LChain subs =>
      context_loop (loop_fuel gs) m mt gd
        (fun i g => chaincontextsubst (apply_subst recursion_limit lks gd tag) gd subs mt i g) gs start start length
    | LReverse subs =>
      e <- uadd m start length ;;
      gs' <- reverse_loop (Z.to_nat (e - start)) mt gd subs gs start ;;
      Ok (gs', length)
    end
  end.

(* ------------------------------------------------------------------ script / language / feature selection *)
Record langsys := mkLangSys { ls_features : list Z }.                 (* feature_indices *)
Record script := mkScript { sc_default : option langsys; sc_langs : list (Z * langsys) }.
Record layout_table := mkLayout {
  lt_scripts : option (list (Z * script));                            (* opt_script_list *)
  lt_features : option (list (Z * list Z));                           (* opt_feature_list: (tag, lookup_indices) *)
  lt_lookups : option (list lookup)                                   (* opt_lookup_list *)
}.

Fixpoint assoc {A} (k : Z) (l : list (Z * A)) : option A :=
  match l with
  | [] => None
  | (k', v) :: t => if k' =? k then Some v else assoc k t
  end.

Definition find_script_or_default (t : layout_table) (script_tag : Z) : option script :=
  match lt_scripts t with
  | Some l => match assoc script_tag l with Some s => Some s | None => assoc TAG_DFLT l end
  | None => None
  end.

Definition find_langsys_or_default (s : script) (lang : option Z) : option langsys :=
  match lang with
  | Some tg => match assoc tg (sc_langs s) with Some l => Some l | None => sc_default s end
  | None => sc_default s
  end.

(* find_langsys_feature without feature variations (tuple = None) *)
Fixpoint find_feature_in (features : list (Z * list Z)) (indices : list Z) (tag : Z) : outcome (option (list Z)) :=
  match indices with
  | [] => Ok None
  | fi :: t =>
    rec <- checked_nth features fi ;;
    if fst rec =? tag then Ok (Some (snd rec)) else find_feature_in features t tag
  end.

Definition find_langsys_feature (t : layout_table) (ls : langsys) (tag : Z) : outcome (option (list Z)) :=
  match lt_features t with
  | Some fl => find_feature_in fl (ls_features ls) tag
  | None => Ok None
  end.

(* BTreeMap<usize, u32>::insert: sorted association list, later insert replaces the value *)
Fixpoint bt_insert (k : Z) (v : Z) (mp : list (Z * Z)) : list (Z * Z) :=
  match mp with
  | [] => [(k, v)]
  | (k', v') :: t =>
    if k <? k' then (k, v) :: mp
    else if k =? k' then (k, v) :: t
    else (k', v') :: bt_insert k v t
  end.

Definition bt_extend (keys : list Z) (v : Z) (mp : list (Z * Z)) : list (Z * Z) :=
  fold_left (fun acc k => bt_insert k v acc) keys mp.

(* build_lookups_custom: (rvrn, lookups) *)
Fixpoint build_lookups_custom (t : layout_table) (ls : langsys) (feature_tags : list (Z * option Z))
  (rvrn : option (list Z)) (mp : list (Z * Z)) : outcome (option (list Z) * list (Z * Z)) :=
  match feature_tags with
  | [] => Ok (rvrn, mp)
  | (tag, _) :: rest =>
    ft <- find_langsys_feature t ls tag ;;
    match ft with
    | Some indices =>
      if tag =? TAG_EARLY then build_lookups_custom t ls rest (Some indices) mp
      else build_lookups_custom t ls rest rvrn (bt_extend indices tag mp)
    | None => build_lookups_custom t ls rest rvrn mp
    end
  end.

Fixpoint find_alternate (features_list : list (Z * option Z)) (tag : Z) : option Z :=
  match features_list with
  | [] => None
  | (tg, alt) :: t => if tg =? tag then alt else find_alternate t tag
  end.

Definition replace_missing (num_glyphs : Z) (g : glyph) : glyph :=
  if num_glyphs <=? g_id g then mkGlyph 0 [] 0 None false false false 0 else g.

(* g_rest = 0 after replacement: flags emptied and variation = None *)
Definition replace_missing_glyphs (gs : list glyph) (num_glyphs : Z) : list glyph :=
  map (replace_missing num_glyphs) gs.

Fixpoint apply_rvrn (m : mode) (t : layout_table) (gd : option gdef) (idx : list Z) (gs : list glyph) : outcome (list glyph) :=
  match idx with
  | [] => Ok gs
  | li :: rest =>
    '(gs', _) <- gsub_apply_lookup m (lt_lookups t) gd li TAG_RVRN None gs 0 (len gs) ;;
    apply_rvrn m t gd rest gs'
  end.

Fixpoint apply_lookups_custom (m : mode) (t : layout_table) (gd : option gdef) (features_list : list (Z * option Z))
  (lks : list (Z * Z)) (gs : list glyph) : outcome (list glyph) :=
  match lks with
  | [] => Ok gs
  | (li, tag) :: rest =>
    let alt := find_alternate features_list tag in
    '(gs', _) <- (if (tag =? TAG_LAST_ONLY) && negb (len gs =? 0)
                  then gsub_apply_lookup m (lt_lookups t) gd li tag alt gs (len gs - 1) 1
                  else gsub_apply_lookup m (lt_lookups t) gd li tag alt gs 0 (len gs)) ;;
    apply_lookups_custom m t gd features_list rest gs'
  end.

(* gsub::apply with Features::Custom and tuple = None *)
Definition gsub_apply_custom (m : mode) (t : layout_table) (gd : option gdef) (script_tag : Z) (lang : option Z)
  (features_list : list (Z * option Z)) (num_glyphs : Z) (gs : list glyph) : outcome (list glyph) :=
  gs' <- match find_script_or_default t script_tag with
         | Some s =>
           match find_langsys_or_default s lang with
           | Some ls =>
             '(rvrn, lks) <- build_lookups_custom t ls features_list None [] ;;
             gs1 <- match rvrn with Some idx => apply_rvrn m t gd idx gs | None => Ok gs end ;;
             apply_lookups_custom m t gd features_list lks gs1
           | None => Ok gs
           end
         | None => Ok gs
         end ;;
  Ok (replace_missing_glyphs gs' num_glyphs).

(* ------------------------------------------------------------------ Features::Mask path (gsub.rs:859-935, 1402-1623) *)
(* A FeatureMask is a u64 bit set; bit numbers and the (bit, tag) table come from Gen/LayoutConsts.v. *)
Fixpoint tag_bit (tbl : list (Z * Z)) (tag : Z) : option Z :=
  match tbl with
  | [] => None
  | (tg, bit) :: t => if tg =? tag then Some bit else tag_bit t tag
  end.

(* FeatureMask::from_tag *)
Definition feature_mask_from_tag (tag : Z) : Z :=
  match tag_bit FROM_TAG tag with Some b => Z.shiftl 1 b | None => 0 end.

(* FeatureMask::remove of a single-bit flag *)
Definition mask_remove (mask bit : Z) : Z := if Z.testbit mask bit then mask - Z.shiftl 1 bit else mask.

(* make_supported_features_mask: feature_by_index(index)?.feature_tag for every feature of the language system *)
Fixpoint supported_mask (t : layout_table) (indices : list Z) (acc : Z) : outcome Z :=
  match indices with
  | [] => Ok acc
  | fi :: rest =>
    rec <- match lt_features t with Some fl => checked_nth fl fi | None => Err BadIndex end ;;
    supported_mask t rest (Z.lor acc (feature_mask_from_tag (fst rec)))
  end.

(* get_supported_features (the cache is per LayoutCache and only memoises) *)
Definition get_supported_features (t : layout_table) (script_tag : Z) (lang : option Z) : outcome Z :=
  match find_script_or_default t script_tag with
  | Some s => match find_langsys_or_default s lang with
              | Some ls => supported_mask t (ls_features ls) 0
              | None => Ok 0
              end
  | None => Ok 0
  end.

(* build_lookups_default: FEATURE_MASKS order, BTreeMap keyed by lookup index, vrt2 falls back to vert *)
Fixpoint build_lookups_default (t : layout_table) (ls : langsys) (mask : Z) (tbl : list (Z * Z)) (mp : list (Z * Z))
  : outcome (list (Z * Z)) :=
  match tbl with
  | [] => Ok mp
  | (bit, tag) :: rest =>
    if Z.testbit mask bit then
      ft <- find_langsys_feature t ls tag ;;
      match ft with
      | Some idx => build_lookups_default t ls mask rest (bt_extend idx tag mp)
      | None =>
        if tag =? TAG_MASK_FALLBACK_FROM then
          ft2 <- find_langsys_feature t ls TAG_MASK_FALLBACK_TO ;;
          match ft2 with
          | Some idx => build_lookups_default t ls mask rest (bt_extend idx TAG_MASK_FALLBACK_TO mp)
          | None => build_lookups_default t ls mask rest mp
          end
        else build_lookups_default t ls mask rest mp
      end
    else build_lookups_default t ls mask rest mp
  end.

(* get_lookups_cache_index + cached_lookups[index]: index 0 is the empty list *)
Definition lookups_for_mask (t : layout_table) (script_tag : Z) (lang : option Z) (mask : Z) : outcome (list (Z * Z)) :=
  match find_script_or_default t script_tag with
  | Some s => match find_langsys_or_default s lang with
              | Some ls => build_lookups_default t ls mask FEATURE_MASKS []
              | None => Ok []
              end
  | None => Ok []
  end.

(* gsub_apply_lookups_impl: the window length is threaded from lookup to lookup *)
Fixpoint gsub_apply_lookups_impl (m : mode) (t : layout_table) (gd : option gdef) (lks : list (Z * Z))
  (gs : list glyph) (start length : Z) : outcome (list glyph * Z) :=
  match lks with
  | [] => Ok (gs, length)
  | (li, tag) :: rest =>
    '(gs', l') <- gsub_apply_lookup m (lt_lookups t) gd li tag None gs start length ;;
    gsub_apply_lookups_impl m t gd rest gs' start l'
  end.

(* strip_joiners *)
Definition strip_joiners (gs : list glyph) : list glyph :=
  filter (fun g => match g_origin g with
                   | Some c => negb ((c =? JOINER_1) || (c =? JOINER_2))
                   | None => true
                   end) gs.

(* gsub::apply with Features::Mask, tuple = None, a script of ScriptType::Default.  The FRAC split
   (gsub_apply_lookups_frac) is not modelled: a mask that still contains it yields Err NotImplemented here. *)
Definition gsub_apply_default (m : mode) (t : layout_table) (gd : option gdef) (script_tag : Z) (lang : option Z)
  (mask : Z) (num_glyphs : Z) (gs : list glyph) : outcome (list glyph) :=
  let mask1 := mask_remove mask MASK_BIT_REMOVED in
  supported <- get_supported_features t script_tag lang ;;
  let mask2 := Z.land mask1 supported in
  if Z.testbit mask2 MASK_BIT_SPLIT then Err NotImplemented
  else
    lks <- lookups_for_mask t script_tag lang mask2 ;;
    '(gs', _) <- gsub_apply_lookups_impl m t gd lks gs 0 (len gs) ;;
    Ok (replace_missing_glyphs (strip_joiners gs') num_glyphs).

(* ------------------------------------------------------------------ abstract image of the parser (read_subtables) *)
Definition single_parses (s : single_subst) : bool :=
  match s with SingleF1 c _ => coverage_parses c | SingleF2 c _ => coverage_parses c end.
Definition multiple_parses (s : multiple_subst) : bool := coverage_parses (ms_cov s).
Definition alternate_parses (s : alternate_subst) : bool :=
  coverage_parses (as_cov s) && forallb (fun set => negb (len set =? 0)) (as_sets s).
Definition ligature_parses (s : ligature_subst) : bool := coverage_parses (ls_cov s).
Definition reverse_parses (s : reverse_chain) : bool :=
  coverage_parses (rc_cov s) && forallb coverage_parses (rc_back s) && forallb coverage_parses (rc_look s)
  && (coverage_glyph_count (rc_cov s) =? len (rc_subst s)).

(* read_subtables drops the subtables that fail to parse *)
Definition body_parse (b : subst_lookup) : subst_lookup :=
  match b with
  | LSingle l => LSingle (filter single_parses l)
  | LMultiple l => LMultiple (filter multiple_parses l)
  | LAlternate l => LAlternate (filter alternate_parses l)
  | LLigature l => LLigature (filter ligature_parses l)
  | LContext l => LContext (filter context_parses l)
  | LChain l => LChain (filter chain_parses l)
  | LReverse l => LReverse (filter reverse_parses l)
  end.

Definition lookup_parse (l : lookup) : lookup := mkLookup (lk_flag l) (lk_mfs l) (body_parse (lk_body l)).

Definition layout_parse (t : layout_table) : layout_table :=
  mkLayout (lt_scripts t) (lt_features t)
           (match lt_lookups t with Some l => Some (map lookup_parse l) | None => None end).
