(* Model/GlyfLoca.v — how a glyf table is cut into per-glyph records ("for every glyph in a glyf table"):
     src/tables/loca.rs   LocaTable::read_dep, LocaOffsets::{len, get, iter}
     src/tables/glyf.rs   GlyfTable::read_dep (tuple_windows over the offsets, checked_sub, offset_length,
                          the contour count read of every present record, the over-long-record workaround)
     src/binary/read.rs   ReadScope::{offset, offset_length}
   written function by function after the code.  The multiplier of the short format and the shapes
   of iter()/get()/read_dep come from Gen/LocaConsts.v (regenerated from the source).
   All offsets are u32 values widened to usize: no arithmetic of this file can leave 64 bits, so Z is exact.
   No proofs in this file. *)
From AV Require Import Base.Prelude Gen.GlyfConsts Gen.LocaConsts Model.GlyfSpec Model.GlyfOutline.
From Coq Require Import QArith.
Open Scope Z_scope.

Inductive locfmt := LShort | LLong.

Fixpoint u32s (n : nat) (bs : list Z) : list Z :=
  match n, bs with
  | S k, a :: b :: c :: d :: r => (((a * 256 + b) * 256 + c) * 256 + d) :: u32s k r
  | _, _ => []
  end.

(* LocaTable::read_dep: read_array of num_glyphs + 1 entries (all-or-nothing), then LocaOffsets::iter:
   get(i) for every i < len; a short entry is widened to u32 and then multiplied (2 * 65535 fits) *)
Definition loca_offsets (fmt : locfmt) (num_glyphs : Z) (loca : list Z) : outcome (list Z) :=
  let n := num_glyphs + 1 in
  match fmt with
  | LShort => '(sl, _) <- rd_slice (2 * n) loca ;;
              Ok (map (fun v => v * LOCA_SHORT_MULT) (u16s (Z.to_nat n) sl))
  | LLong => '(sl, _) <- rd_slice (4 * n) loca ;; Ok (u32s (Z.to_nat n) sl)
  end.

(* one window (start, end) of GlyfTable::read_dep.  The result is the byte string the record is later
   parsed from: the slice loca describes, or — when that slice runs past the end of the table — all
   the bytes from `start` on, provided a glyph parses there (the record is then parsed eagerly) *)
Definition record_of (glyf : list Z) (s e : Z) : outcome (list Z) :=
  if e <? s then Err BadOffset                                   (* end.checked_sub(start) = None *)
  else if e =? s then Ok []                                      (* Some(0): GlyfRecord::empty() *)
  else
    (* ReadScope::offset_length(start, length), length > 0 *)
    if s <? len glyf then
      let data := slice_from glyf s in
      if e - s <=? len data then
        let sc := take (e - s) data in
        '(_, _) <- rd_i16 sc ;; Ok sc                             (* scope.read::<I16Be>()? *)
      else
        _ <- read_glyph data ;; Ok data                           (* ctxt.scope().offset(start).read::<Glyph>() *)
    else Err BadOffset.

(* .tuple_windows().map(..).collect::<Result<Vec<_>, _>>(): the first error in glyph order wins *)
Fixpoint records_of (glyf : list Z) (offs : list Z) : outcome table :=
  match offs with
  | s :: ((e :: _) as r) =>
    g <- record_of glyf s e ;;
    t <- records_of glyf r ;;
    Ok (g :: t)
  | _ => Ok []
  end.

Definition glyf_load (glyf : list Z) (offs : list Z) : outcome table :=
  if len offs <? 2 then Err BadIndex else records_of glyf offs.

(* LocaTable::read_dep followed by GlyfTable::read_dep *)
Definition glyf_table (fmt : locfmt) (num_glyphs : Z) (loca glyf : list Z) : outcome table :=
  offs <- loca_offsets fmt num_glyphs loca ;;
  glyf_load glyf offs.

(* ... followed by OutlineBuilder::visit *)
Definition visit_glyf (fmt : locfmt) (num_glyphs : Z) (loca glyf : list Z) (gid : Z)
  : outcome (list (cmd (Q * Q))) :=
  t <- glyf_table fmt num_glyphs loca glyf ;;
  insts <- visit_outline comp_xform VISIT_FUEL t gid x_id DEPTH_START ;;
  Ok (render insts).

(* ---------------------------------------------------------------------------------------------- *)
(* specification side: how a font compiler lays a glyf table out (no Gen constants)                *)

(* the offsets of consecutive records starting at `start` *)
Fixpoint offsets_of (start : Z) (gs : list (list Z)) : list Z :=
  match gs with
  | [] => [start]
  | g :: r => start :: offsets_of (start + len g) r
  end.

Definition be32 (v : Z) : list Z := [v / 16777216 mod 256; v / 65536 mod 256; v / 256 mod 256; v mod 256].

(* the loca table of the OpenType specification: short = offset / 2 as uint16, long = offset as uint32 *)
Definition encode_loca (fmt : locfmt) (offs : list Z) : list Z :=
  match fmt with
  | LShort => flat_map (fun o => be16 (o / 2)) offs
  | LLong => flat_map be32 offs
  end.

Definition offset_legal (fmt : locfmt) (o : Z) : bool :=
  match fmt with
  | LShort => (0 <=? o) && (o <=? 131070) && (o mod 2 =? 0)
  | LLong => (0 <=? o) && (o <? 4294967296)
  end.

(* a layout the specification allows: at least one glyph; every record is empty or holds at least
   its contour count; every offset is expressible in the format (short: even and at most 2 * 65535) *)
Definition layout_legal (fmt : locfmt) (pre : list Z) (gs : list (list Z)) : bool :=
  negb (len gs =? 0) &&
  forallb (fun g => (len g =? 0) || (2 <=? len g)) gs &&
  forallb (offset_legal fmt) (offsets_of (len pre) gs).
