(* Model/GsubSpec.v — declarative description of what one GSUB lookup does to a glyph run, written as a
   left-to-right scan over the glyphs and NOT after the index/length bookkeeping of gsub_apply_lookup.
   Definitions only; Proofs/GsubProofs.v shows that the model of the Rust loops computes exactly these. *)
From AV Require Import Base.Prelude Gen.LayoutConsts Model.Layout Model.LayoutSpec Model.Gsub.
Open Scope Z_scope.

(* per-glyph effect, with errors (an index past a coverage-indexed array is ParseError::BadIndex) *)
Fixpoint flat_map_out {A B} (f : A -> outcome (list B)) (l : list A) : outcome (list B) :=
  match l with
  | [] => Ok []
  | x :: t => a <- f x ;; b <- flat_map_out f t ;; Ok (a ++ b)
  end.

(* ---- type 1 / type 3: a glyph the lookup does not skip is replaced by what the FIRST subtable covering it
   prescribes; everything else is untouched *)
Definition single_spec (mt : match_type) (gd : option gdef) (subs : list single_subst) (tag : Z) (g : glyph) : outcome glyph :=
  if match_glyph mt gd (g_id g) then singlesubst subs tag g else Ok g.

Definition alternate_spec (mt : match_type) (gd : option gdef) (subs : list alternate_subst) (alt : Z) (g : glyph) : outcome glyph :=
  if match_glyph mt gd (g_id g) then alternatesubst subs alt g else Ok g.

(* ---- type 2: the glyph becomes the sequence; the first output keeps the glyph's record (with the new id),
   the others are copies that carry the same characters, flagged MULTI_SUBST_DUP; the empty sequence deletes *)
Definition multi_expand (subs : list multiple_subst) (g : glyph) : outcome (list glyph) :=
  r <- first_subtable (fun s => cov_indexed (ms_cov s) (ms_seqs s) (g_id g)) subs ;;
  match r with
  | Some (first :: rest) => Ok (set_id g first :: map (dup_glyph (set_id g first)) rest)
  | Some [] => Ok []
  | None => Ok [g]
  end.

Definition multiple_spec (mt : match_type) (gd : option gdef) (subs : list multiple_subst) (g : glyph) : outcome (list glyph) :=
  if match_glyph mt gd (g_id g) then multi_expand subs g else Ok [g].
