(* Model/GsubSpec.v — declarative description of what one GSUB lookup does to a glyph run, written as a
   left-to-right scan over the glyphs and NOT after the index/length bookkeeping of gsub_apply_lookup.
   Definitions only; Proofs/GsubProofs.v shows that the model of the Rust loops computes exactly these. *)
From AV Require Import Base.Prelude Gen.LayoutConsts Model.Layout Model.LayoutSpec Model.Gsub.
Open Scope Z_scope.

(* per-glyph effect, with errors (an index past a coverage-indexed array is ParseError::BadIndex) *)
Fixpoint flat_map_out {A B} (f : A -> outcome (list B)) (l : list A) : outcome (list B) :=
  match l with
  | [] => Ok []
  | x :: t => a <- f x ;; b <- flat_map_out f t ;; Ok (a ++ b)
  end.

(* ---- type 1 / type 3: a glyph the lookup does not skip is replaced by what the FIRST subtable covering it
   prescribes; everything else is untouched *)
Definition single_spec (mt : match_type) (gd : option gdef) (subs : list single_subst) (tag : Z) (g : glyph) : outcome glyph :=
  if match_glyph mt gd (g_id g) then singlesubst subs tag g else Ok g.

Definition alternate_spec (mt : match_type) (gd : option gdef) (subs : list alternate_subst) (alt : Z) (g : glyph) : outcome glyph :=
  if match_glyph mt gd (g_id g) then alternatesubst subs alt g else Ok g.

(* ---- type 2: the glyph becomes the sequence; the first output keeps the glyph's record (with the new id),
   the others are copies that carry the same characters, flagged MULTI_SUBST_DUP; the empty sequence deletes *)
Definition multi_expand (subs : list multiple_subst) (g : glyph) : outcome (list glyph) :=
  r <- first_subtable (fun s => cov_indexed (ms_cov s) (ms_seqs s) (g_id g)) subs ;;
  match r with
  | Some (first :: rest) => Ok (set_id g first :: map (dup_glyph (set_id g first)) rest)
  | Some [] => Ok []
  | None => Ok [g]
  end.

Definition multiple_spec (mt : match_type) (gd : option gdef) (subs : list multiple_subst) (g : glyph) : outcome (list glyph) :=
  if match_glyph mt gd (g_id g) then multi_expand subs g else Ok [g].

(* ---- type 4 (ligature).  At a glyph g the lookup does not skip:
   * a ligature (ligature glyph, component ids) is APPLICABLE when the ids of the first |components| glyphs
     after g that the lookup does not skip are exactly the components (skipped glyphs are transparent);
   * the first subtable whose coverage contains g decides the ligature set, the first applicable ligature of
     that set wins; an earlier subtable whose set has no applicable ligature lets the next subtable try;
   * applying it: g takes the ligature glyph id and the LIGATURE flag, the characters of the absorbed
     components are appended to g's in order, the skipped glyphs that stood between components stay in place
     (liga_component_pos := number of components absorbed before them), the glyphs directly after the last
     component that `marks_only` accepts get liga_component_pos := |components|;
   * the scan resumes after the kept skipped glyphs. *)
Definition lig_applicable (mt : match_type) (gd : option gdef) (l : ligature) (rest : list glyph) : bool :=
  prefix_check (map EId (lig_comps l)) (unskipped mt gd (ids rest)).

Definition lig_choose (mt : match_type) (gd : option gdef) (subs : list ligature_subst) (g : glyph) (rest : list glyph)
  : outcome (option ligature) :=
  first_subtable (fun s =>
    r <- cov_indexed (ls_cov s) (ls_sets s) (g_id g) ;;
    match r with
    | Some set => Ok (find (fun l => lig_applicable mt gd l rest) set)
    | None => Ok None
    end) subs.

(* absorb the first n unskipped glyphs of `rest` into acc: (acc', kept skipped glyphs, remaining glyphs) *)
Fixpoint lig_absorb (mt : match_type) (gd : option gdef) (rest : list glyph) (n : nat) (acc : glyph) (matched : Z)
  {struct rest} : glyph * list glyph * list glyph :=
  match n with
  | O => (acc, [], rest)
  | S n' =>
    match rest with
    | [] => (acc, [], [])
    | c :: rest' =>
      if match_glyph mt gd (g_id c) then lig_absorb mt gd rest' n' (absorb acc c) (matched + 1)
      else match lig_absorb mt gd rest' n acc matched with
           | (a, kept, rem) => (a, set_pos c (matched mod 65536) :: kept, rem)
           end
    end
  end.

(* fuel only bounds the recursion (the continuation is a sublist, not a structural subterm): S |l| suffices *)
Fixpoint lig_scan (fuel : nat) (mt : match_type) (gd : option gdef) (subs : list ligature_subst) (l : list glyph)
  : outcome (list glyph) :=
  match fuel with
  | O => Err OtherErr
  | S f =>
    match l with
    | [] => Ok []
    | g :: rest =>
      if match_glyph mt gd (g_id g) then
        r <- lig_choose mt gd subs g rest ;;
        match r with
        | Some lig =>
          match lig_absorb mt gd rest (length (lig_comps lig)) g 0 with
          | (acc, kept, rem) =>
            t <- lig_scan f mt gd subs (lig_trailing gd rem (len (lig_comps lig))) ;;
            Ok (set_id acc (lig_glyph lig) :: kept ++ t)
          end
        | None => t <- lig_scan f mt gd subs rest ;; Ok (g :: t)
        end
      else t <- lig_scan f mt gd subs rest ;; Ok (g :: t)
    end
  end.

(* ---- types 5 and 6 (contextual) over the whole run, without the start/length bookkeeping.
   `step i glyphs` is contextsubst / chaincontextsubst at position i: None = no rule matched there; Some (n, _) =
   a rule matched, its nested lookups were applied, and n is the number of glyphs that the matched input
   sequence now spans in the run — counted from i up to and including its LAST input glyph, so glyphs the lookup
   skips that lie between input glyphs are part of it (C04_context_resume_position) — adjusted by the change of
   the glyph count.  The scan resumes right after that span; nothing of the consumed sequence is offered to the
   lookup again. *)
Fixpoint ctx_scan (fuel : nat) (mt : match_type) (gd : option gdef)
  (step : Z -> list glyph -> outcome (option (Z * Z) * list glyph)) (gs : list glyph) (i : Z) : outcome (list glyph) :=
  match fuel with
  | O => Err OtherErr
  | S f =>
    if i <? len gs then
      g <- gget gs i ;;
      if match_glyph mt gd (g_id g) then
        '(r, gs') <- step i gs ;;
        match r with
        | Some (n, _) => ctx_scan f mt gd step gs' (i + n)
        | None => ctx_scan f mt gd step gs' (i + 1)
        end
      else ctx_scan f mt gd step gs (i + 1)
    else Ok gs
  end.
