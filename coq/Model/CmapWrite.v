(* Model/CmapWrite.v — executable model of the cmap writers of allsorts (C15):
     src/tables/cmap.rs   impl WriteBinary<&Self> for CmapSubtable        (borrowed: formats 0, 4, 6, 10, 12;
                                                                            format 2 -> NotImplemented)
                          CmapSubtable::to_owned
                          owned::CmapSubtable::write                       (formats 0, 4, 6, 10, 12)
                          owned::Cmap::write, owned::EncodingRecord        (header, encoding records with
                                                                            back-patched offsets, sub-tables)
                          Format4Calculator::{new, seg_count_x2, search_range, entry_selector, range_shift}
                          Cmap::read + sub-table lookup through `scope.offset(record.offset)`
   Built on the C06 reader model (Model/Cmap.v: [subtable], [parse], [parse_cmap]) and on the byte
   encoders of the C08 writer model (Model/CmapSubset.v: [w16], [w32], [w16s], [write_group]); neither
   file is changed.  C08's [write_subtable] covers formats 0/4/12 of the owned writer as the
   subsetter reaches them; this file has every format of both writers, the general table with any
   number of records, and follows the repaired Format4Calculator (fix 3bafcbb: no segment / more
   than 32767 segments).  Proofs/CmapRoundtrip.v proves the two models agree where both apply.

   The borrowed and the owned sub-table writer are the same function of the parsed fields: their
   bodies differ only in `<&ReadArray>::write(ctxt, a)` vs `ctxt.write_vec::<T, _>(a)` and in
   `*field` vs `field` — tr_layouts.py compares the two texts after that substitution on every run
   and extracts the placeholder / back-patch shape of every length field.
   The placeholders are modelled by their effect on a fresh WriteBuffer: `length` is
   `ctxt.bytes_written() - start` at the end, converted with u16/u32::try_from.
   No proofs in this file. *)
From AV Require Import Base.Prelude Gen.CmapPrefs Gen.GlyfCmapShapes Model.MacRoman Model.Cmap Model.CmapSubset.
Open Scope Z_scope.

Definition fit_u16 (v : Z) : outcome Z := if (0 <=? v) && (v <=? 65535) then Ok v else Err BadValue.
Definition fit_u32 (v : Z) : outcome Z := if (0 <=? v) && (v <=? 4294967295) then Ok v else Err BadValue.

(* ------------------------------------------------------------------------------------------- *)
(* Format4Calculator (as repaired)                                                               *)

(* Format4Calculator::new: u16::try_from(len)?, then seg_count > u16::MAX / 2 -> BadValue
   (the limit is regenerated from the source: Gen/GlyfCmapShapes.v) *)
Definition calc_new (seg_count : Z) : outcome Z :=
  n <- fit_u16 seg_count ;;
  if cmw_max_segments <? n then Err BadValue else Ok n.

(* search_range: 0 for no segment, else 2 * 2^floor(log2 seg_count) (f64 log2 in the Rust; exact on
   1..32767) *)
Definition calc_search_range (n : Z) : Z := if n =? 0 then 0 else 2 * 2 ^ Z.log2 n.
(* entry_selector: log2(search_range / 2) as u16; (-inf) as u16 = 0 *)
Definition calc_entry_selector (n : Z) : Z := Z.log2 n.
Definition calc_range_shift (n : Z) : Z := 2 * n - calc_search_range n.

(* ------------------------------------------------------------------------------------------- *)
(* sub-tables                                                                                    *)

(* impl WriteBinary<&Self> for CmapSubtable (fresh buffer, so `start` = 0).  The same function is
   owned::CmapSubtable::write on the owned value with the same fields. *)
Definition sub_write (st : subtable) : outcome (list Z) :=
  match st with
  | F0 language gids =>
      length <- fit_u16 (3 * 2 + len gids) ;;
      Ok (w16 0 ++ w16 length ++ w16 language ++ gids)
  | F2 _ _ _ _ => Err NotImplemented
  | F4 language ends starts deltas ros gids =>
      n <- calc_new (len starts) ;;
      let body := w16 language ++ w16 (2 * n) ++ w16 (calc_search_range n) ++
                  w16 (calc_entry_selector n) ++ w16 (calc_range_shift n) ++
                  w16s ends ++ w16 0 ++ w16s starts ++ w16s deltas ++ w16s ros ++ w16s gids in
      length <- fit_u16 (4 + len body) ;;
      Ok (w16 4 ++ w16 length ++ body)
  | F6 language first gids =>
      count <- fit_u16 (len gids) ;;
      let body := w16 language ++ w16 first ++ w16 count ++ w16s gids in
      length <- fit_u16 (4 + len body) ;;
      Ok (w16 6 ++ w16 length ++ body)
  | F10 language start gids =>
      count <- fit_u32 (len gids) ;;
      let body := w32 language ++ w32 start ++ w32 count ++ w16s gids in
      length <- fit_u32 (8 + len body) ;;
      Ok (w16 10 ++ w16 0 ++ w32 length ++ body)
  | F12 language groups =>
      count <- fit_u32 (len groups) ;;
      let body := w32 language ++ w32 count ++ flat_map write_group groups in
      length <- fit_u32 (8 + len body) ;;
      Ok (w16 12 ++ w16 0 ++ w32 length ++ body)
  end.

(* zip into `[0_u8; 256]` *)
Fixpoint pad_to (n : nat) (l : list Z) : list Z :=
  match n with
  | O => []
  | S k => match l with [] => 0 :: pad_to k [] | x :: r => x :: pad_to k r end
  end.

(* CmapSubtable::to_owned: None for format 2; format 0 copies into a 256-byte array *)
Definition to_owned (st : subtable) : option subtable :=
  match st with
  | F0 language gids => Some (F0 language (pad_to 256 gids))
  | F2 _ _ _ _ => None
  | _ => Some st
  end.

(* ------------------------------------------------------------------------------------------- *)
(* the cmap table                                                                                *)

Record crec := { cr_platform : Z; cr_encoding : Z; cr_sub : subtable }.

(* the second loop of owned::Cmap::write: offset = u32::try_from(bytes_written - start)?, then the
   sub-table; [pos] = bytes written so far *)
Fixpoint write_subs (pos : Z) (recs : list crec) : outcome (list Z * list Z) :=
  match recs with
  | [] => Ok ([], [])
  | r :: rest =>
      off <- fit_u32 pos ;;
      sub <- sub_write (cr_sub r) ;;
      '(offs, bytes) <- write_subs (pos + len sub) rest ;;
      Ok (off :: offs, sub ++ bytes)
  end.

Fixpoint write_records (recs : list crec) (offs : list Z) : list Z :=
  match recs, offs with
  | r :: rest, o :: os => w16 (cr_platform r) ++ w16 (cr_encoding r) ++ w32 o ++ write_records rest os
  | _, _ => []
  end.

(* owned::Cmap::write (fresh buffer) *)
Definition cmap_write (recs : list crec) : outcome (list Z) :=
  n <- fit_u16 (len recs) ;;
  '(offs, subs) <- write_subs (4 + 8 * len recs) recs ;;
  Ok (w16 0 ++ w16 n ++ write_records recs offs ++ subs).

(* Cmap::read, then every record's sub-table: cmap.scope.offset(record.offset).read::<CmapSubtable>() *)
Fixpoint read_subs (d : list Z) (recs : list enc_rec) : outcome (list (enc_rec * subtable)) :=
  match recs with
  | [] => Ok []
  | r :: rest =>
      st <- parse (slice_from d (er_offset r)) ;;
      tl <- read_subs d rest ;;
      Ok ((r, st) :: tl)
  end.

Definition cmap_read_all (d : list Z) : outcome (list (enc_rec * subtable)) :=
  recs <- parse_cmap d ;; read_subs d recs.

(* parsed table -> owned::Cmap (None when a sub-table is format 2) *)
Fixpoint owned_records (l : list (enc_rec * subtable)) : option (list crec) :=
  match l with
  | [] => Some []
  | (r, st) :: rest =>
      match to_owned st, owned_records rest with
      | Some o, Some tl => Some ({| cr_platform := er_platform r; cr_encoding := er_encoding r; cr_sub := o |} :: tl)
      | _, _ => None
      end
  end.
