(* Model/PreprocessRef.v — reference tables for property C17, typed by hand from Unicode (UnicodeData.txt
   decompositions and combining classes), UTR #53 (modifier combining marks), the Microsoft USE
   vowel-constraint list and the OpenType script tags.  Nothing here is derived from the allsorts source.
   Data and lookup functions only, no proofs: Proofs/PreprocessTop.v proves the generated tables equal to
   these, and the judge of the correspondence check (ocaml/c17/drv.ml) decides the property with them. *)
From AV Require Import Base.Prelude Gen.PreprocessTables Model.Preprocess.
From Coq Require String Ascii.
Open Scope Z_scope.

Module RefTags.
Import String Ascii.
Fixpoint tag_of_string_acc (s : String.string) (acc : Z) : Z :=
  match s with
  | String.EmptyString => acc
  | String.String a rest => tag_of_string_acc rest (acc * 256 + Z.of_nat (Ascii.nat_of_ascii a))
  end.
Definition tag_of_string (s : String.string) : Z := tag_of_string_acc s 0.

(* OpenType script tags and the shaping model each one gets *)
Definition REF_ACTIONS : list (Z * action) := Eval vm_compute in
  [(tag_of_string "arab"%string, ActArabic);
   (tag_of_string "latn"%string, ActSort); (tag_of_string "cyrl"%string, ActSort); (tag_of_string "grek"%string, ActSort);
   (tag_of_string "deva"%string, ActIndic); (tag_of_string "beng"%string, ActIndic); (tag_of_string "guru"%string, ActIndic);
   (tag_of_string "gujr"%string, ActIndic); (tag_of_string "orya"%string, ActIndic); (tag_of_string "taml"%string, ActIndic);
   (tag_of_string "telu"%string, ActIndic); (tag_of_string "knda"%string, ActIndic); (tag_of_string "mlym"%string, ActIndic);
   (tag_of_string "sinh"%string, ActIndic);
   (tag_of_string "khmr"%string, ActKhmer);
   (tag_of_string "mymr"%string, ActNone); (tag_of_string "mym2"%string, ActNone);
   (tag_of_string "syrc"%string, ActSort);
   (tag_of_string "thai"%string, ActThaiLao); (tag_of_string "lao "%string, ActThaiLao)].
Definition ref_action (tag : Z) : action :=
  match assoc_z tag REF_ACTIONS with Some a => a | None => ActSort end.

Definition REF_BENGALI_TAG : Z := Eval vm_compute in tag_of_string "beng"%string.
Definition REF_KANNADA_TAG : Z := Eval vm_compute in tag_of_string "knda"%string.
(* tags used by the examples of Props/C17.v *)
Definition TAG_ARAB : Z := Eval vm_compute in tag_of_string "arab"%string.
Definition TAG_LATN : Z := Eval vm_compute in tag_of_string "latn"%string.
Definition TAG_THAI : Z := Eval vm_compute in tag_of_string "thai"%string.
Definition TAG_DEVA : Z := Eval vm_compute in tag_of_string "deva"%string.
Definition TAG_KHMR : Z := Eval vm_compute in tag_of_string "khmr"%string.
Definition TAG_MYMR : Z := Eval vm_compute in tag_of_string "mymr"%string.
End RefTags.
Export RefTags.

(* the modified combining class of a canonical combining class:
   - Hebrew points (ccc 10..26) in the order of the SBL Hebrew manual,
   - ccc 84, 91 (Telugu length marks) -> 4, 5 and ccc 103 (Thai SARA U, UU) -> 3,
   - every other class in use unchanged, classes not in use 0 *)
Definition REF_HEBREW : list Z := [22; 15; 16; 17; 23; 18; 19; 20; 21; 14; 24; 12; 25; 13; 10; 11; 26].
Definition REF_UNCHANGED : list Z :=
  [0; 1; 6; 7; 8; 9; 27; 28; 29; 30; 31; 32; 33; 34; 35; 36; 107; 118; 122; 129; 130; 132;
   202; 214; 216; 218; 220; 222; 224; 226; 228; 230; 232; 233; 234; 240].
Definition ref_mcc (ccc : Z) : Z :=
  if (10 <=? ccc) && (ccc <=? 26) then nth (Z.to_nat (ccc - 10)) REF_HEBREW 0
  else if ccc =? 84 then 4 else if ccc =? 91 then 5 else if ccc =? 103 then 3
  else if mem_z ccc REF_UNCHANGED then ccc else 0.

(* UTR #53, modifier combining marks *)
Definition REF_MCM : list Z :=
  [0x0654; 0x0655; 0x0658; 0x06DC; 0x06E3; 0x06E7; 0x06E8; 0x08CA; 0x08CB; 0x08CD; 0x08CE; 0x08CF;
   0x08D3; 0x08F3].
(* Arabic shadda: ccc 33; MCM steps: first class 230 (above), then class 220 (below) *)
Definition REF_SHADDA_CLASS : Z := 33.
Definition REF_ARABIC_STEPS : list Z := [230; 220].

(* UnicodeData: <compat> decompositions of SARA AM *)
Definition REF_AM : list (Z * (Z * Z)) := [(0x0E33, (0x0E4D, 0x0E32)); (0x0EB3, (0x0ECD, 0x0EB2))].
(* Thai and Lao above-base marks (opentype-shaping-documents, Thai/Lao) *)
Definition REF_ABOVEBASE : list Z :=
  [0x0E31; 0x0E34; 0x0E35; 0x0E36; 0x0E37; 0x0E47; 0x0E48; 0x0E49; 0x0E4A; 0x0E4B; 0x0E4C; 0x0E4D; 0x0E4E;
   0x0EB1; 0x0EB4; 0x0EB5; 0x0EB6; 0x0EB7; 0x0EBB; 0x0EC8; 0x0EC9; 0x0ECA; 0x0ECB; 0x0ECC; 0x0ECD].

(* UnicodeData: full canonical decompositions of the two- and three-part Indic vowel signs *)
Definition REF_MATRA : list (Z * list Z) :=
  [(0x09CB, [0x09C7; 0x09BE]); (0x09CC, [0x09C7; 0x09D7]);
   (0x0B48, [0x0B47; 0x0B56]); (0x0B4B, [0x0B47; 0x0B3E]); (0x0B4C, [0x0B47; 0x0B57]);
   (0x0BCA, [0x0BC6; 0x0BBE]); (0x0BCB, [0x0BC7; 0x0BBE]); (0x0BCC, [0x0BC6; 0x0BD7]);
   (0x0C48, [0x0C46; 0x0C56]);
   (0x0CC0, [0x0CBF; 0x0CD5]); (0x0CC7, [0x0CC6; 0x0CD5]); (0x0CC8, [0x0CC6; 0x0CD6]);
   (0x0CCA, [0x0CC6; 0x0CC2]); (0x0CCB, [0x0CC6; 0x0CC2; 0x0CD5]);
   (0x0D4A, [0x0D46; 0x0D3E]); (0x0D4B, [0x0D47; 0x0D3E]); (0x0D4C, [0x0D46; 0x0D57]);
   (0x0DDA, [0x0DD9; 0x0DCA]); (0x0DDC, [0x0DD9; 0x0DCF]); (0x0DDD, [0x0DD9; 0x0DCF; 0x0DCA]);
   (0x0DDE, [0x0DD9; 0x0DDF])].
(* UnicodeData: 09DF = 09AF 09BC *)
Definition REF_YA : Z := 0x09AF.
Definition REF_NUKTA : Z := 0x09BC.
Definition REF_YYA : Z := 0x09DF.
(* Kannada RA, VIRAMA, ZERO WIDTH JOINER *)
Definition REF_KANNADA_PREFIX : list Z := [0x0CB0; 0x0CCD; 0x200D].
(* Khmer split vowels: the pre-base part U+17C1 goes in front, the vowel itself stays *)
Definition REF_KHMER_VOWELS : list Z := [0x17BE; 0x17BF; 0x17C0; 0x17C4; 0x17C5].
Definition REF_KHMER_PREBASE : Z := 0x17C1.
Definition REF_DOTTED_CIRCLE : Z := 0x25CC.

(* Microsoft "Creating and supporting OpenType fonts for the Universal Shaping Engine":
   independent vowel + dependent vowel constraints, grouped by the first character *)
Definition REF_VOWEL_PAIRS : list (Z * list Z) :=
  [(0x0905, [0x093A; 0x093B; 0x093E; 0x0945; 0x0946; 0x0949; 0x094A; 0x094B; 0x094C; 0x094F; 0x0956; 0x0957]);
   (0x0906, [0x093A; 0x0945; 0x0946; 0x0947; 0x0948]);
   (0x0909, [0x0941]);
   (0x090F, [0x0945; 0x0946; 0x0947]);
   (0x0985, [0x09BE]); (0x098B, [0x09C3]); (0x098C, [0x09E2]);
   (0x0A05, [0x0A3E; 0x0A48; 0x0A4C]); (0x0A72, [0x0A3F; 0x0A40; 0x0A47]); (0x0A73, [0x0A41; 0x0A42; 0x0A4B]);
   (0x0A85, [0x0ABE; 0x0AC5; 0x0AC7; 0x0AC8; 0x0AC9; 0x0ACB; 0x0ACC]); (0x0AC5, [0x0ABE]);
   (0x0B05, [0x0B3E]); (0x0B0F, [0x0B57]); (0x0B13, [0x0B57]);
   (0x0C12, [0x0C4C; 0x0C55]); (0x0C3F, [0x0C55]); (0x0C46, [0x0C55]); (0x0C4A, [0x0C55]);
   (0x0C89, [0x0CBE]); (0x0C8B, [0x0CBE]); (0x0C92, [0x0CCC]);
   (0x0D07, [0x0D57]); (0x0D09, [0x0D57]); (0x0D0E, [0x0D46]); (0x0D12, [0x0D3E; 0x0D57]);
   (0x0D85, [0x0DCF; 0x0DD0; 0x0DD1]); (0x0D8B, [0x0DDF]); (0x0D8D, [0x0DD8]); (0x0D8F, [0x0DDF]);
   (0x0D91, [0x0DCA; 0x0DD9; 0x0DDA; 0x0DDC; 0x0DDD]); (0x0D94, [0x0DDF])].
(* Devanagari reph (RA, VIRAMA) followed by LETTER I *)
Definition REF_VOWEL_TRIPLES : list (Z * Z * Z) := [(0x0930, 0x094D, 0x0907)].

Definition ref_vowel_constraint (c1 c2 : Z) : insert_constraint :=
  match assoc_z c1 REF_VOWEL_PAIRS with
  | Some l => if mem_z c2 l then ICBetween else ICNone
  | None =>
    match find (fun t => (fst (fst t) =? c1) && (snd (fst t) =? c2)) REF_VOWEL_TRIPLES with
    | Some t => ICMaybeAfter (snd t)
    | None => ICNone
    end
  end.


(* the expansions the property allows, by the reference tables *)
Definition ref_expand_am (c : Z) : list Z :=
  match assoc_z c REF_AM with Some (a, b) => [a; b] | None => [c] end.
Definition ref_expand_matra (c : Z) : list Z :=
  match assoc_z c REF_MATRA with Some parts => parts | None => [c] end.
Definition ref_expand_khmer (c : Z) : list Z :=
  if mem_z c REF_KHMER_VOWELS then [REF_KHMER_PREBASE; c] else [c].
Definition ref_is_mcm (c : Z) : bool := mem_z c REF_MCM.
Definition ref_is_abovebase (c : Z) : bool := mem_z c REF_ABOVEBASE.
