(* Model/CffDict.v — executable model of CFF DICT reading and writing (src/cff.rs):
   Op::read with operator validation (Operator::try_from), integer_to_offset, Dict::read_dep,
   DictDefault / DictDelta::get, Operand::write, Operator::write, Dict::write_dep.
   The operator codes, the TryFrom table, the per-kind default tables, the integer_to_offset
   operator sets, MAX_OPERANDS and the byte constants come from Gen/CffDictTables.v and
   Gen/TableLayouts.v, regenerated from the Rust on every run (translators/tr_cffdict.py also
   checks that the functions modelled here by hand still have the text they were written after).
   No proofs in this file. *)
From AV Require Import Base.Prelude Gen.ReaderPrims Model.Reader Model.ReaderExt Model.TableLayout
  Gen.TableLayouts Model.Tables Model.Cff Gen.CffDictTables.
Open Scope Z_scope.

(* an operator is its `as u16` value: 0..=24 (not 12) or 12 * 256 + second byte *)
Definition entry : Type := Z * list operand.
Definition dict : Type := list entry.

Fixpoint assoc {B} (k : Z) (l : list (Z * B)) : option B :=
  match l with
  | [] => None
  | (k', v) :: r => if k =? k' then Some v else assoc k r
  end.

(* const fn op2 *)
Definition op2 (b1 : Z) : Z := 12 * 256 + b1.

(* Operator::try_from(u16), as the discriminant of the variant it returns *)
Definition operator_try_from (v : Z) : option Z := assoc v operator_try_from_table.

(* ---------- Op::read, complete: Model.Cff.op_read classifies the first byte(s); here the operator is
   validated the way the Rust does: one-byte codes through `try_into().unwrap()` (a code that
   TryFrom rejects would panic), `12 b1` through `op2(b1).try_into()?` (BadValue). *)
Inductive dop :=
| DOperator (code : Z)
| DOperand (o : operand).

Definition dict_op_read (c : ctxt) : outcome (dop * ctxt) :=
  '(r, c') <- op_read c ;;
  match r with
  | OpInt v => Ok (DOperand (OInt v), c')
  | OpReal d => Ok (DOperand (OReal d), c')
  | OpOperator b0 =>
      match operator_try_from b0 with Some o => Ok (DOperator o, c') | None => Panic end
  | OpOperator2 b1 =>
      match operator_try_from (op2 b1) with Some o => Ok (DOperator o, c') | None => Err BadValue end
  end.

(* ---------- integer_to_offset: arms in source order *)
Definition integer_to_offset (op : Z) (ops : list operand) : list operand :=
  match ops with
  | [OInt v] =>
      if (op =? ito_guard_op) && (ito_guard_min <? v) then [OOff v]
      else if mem_z op ito_single_ops then [OOff v]
      else ops
  | [OInt l; OInt o] => if mem_z op ito_pair_ops then [OOff l; OOff o] else ops
  | _ => ops
  end.

(* ---------- Dict::read_dep.  `rops` is the operand vector, most recent first.  Every Op::read
   consumes at least one byte, so `remaining bytes + 1` iterations always suffice; running out of
   fuel is reported as Panic and proved unreachable (dict_read_refines). *)
Fixpoint dict_read_loop (fuel : nat) (c : ctxt) (maxo : Z) (rops : list operand) : outcome dict :=
  if bytes_available c then
    match fuel with
    | O => Panic
    | S f =>
        '(r, c') <- dict_op_read c ;;
        match r with
        | DOperator o =>
            rest <- dict_read_loop f c' maxo [] ;;
            Ok ((o, integer_to_offset o (rev rops)) :: rest)
        | DOperand x =>
            if maxo <? len (x :: rops) then Err LimitExceeded       (* operands.len() > max_operands *)
            else dict_read_loop f c' maxo (x :: rops)
        end
    end
  else Ok [].

Definition dict_read (c : ctxt) (maxo : Z) : outcome dict :=
  dict_read_loop (S (length (data (sc c)))) c maxo [].

(* ---------- derived PartialEq on Operand / Real, slice equality (lengths included) *)
Definition operand_eqb (a b : operand) : bool :=
  match a, b with
  | OInt x, OInt y => x =? y
  | OOff x, OOff y => x =? y
  | OReal x, OReal y => zlist_eqb x y
  | _, _ => false
  end.
Fixpoint operands_eqb (a b : list operand) : bool :=
  match a, b with
  | [], [] => true
  | x :: a', y :: b' => operand_eqb x y && operands_eqb a' b'
  | _, _ => false
  end.

(* T::default(op).map(|defaults| defaults == operands).unwrap_or(false) *)
Definition is_default (defs : list (Z * list operand)) (op : Z) (ops : list operand) : bool :=
  match assoc op defs with
  | Some d => operands_eqb d ops
  | None => false
  end.

(* DictDelta::get: the first entry for the operator *)
Definition delta_get (delta : dict) (op : Z) : option (list operand) := assoc op delta.

(* ---------- Operand::write, Operator::write *)
Definition operand_write (o : operand) : list Z :=
  match o with
  | OInt v => operand_int_write v
  | OOff v => operand_offset_write v
  | OReal bs => cffw_real_b0 :: bs
  end.
Definition operands_write (ops : list operand) : list Z := concat (map operand_write ops).

Definition operator_write (op : Z) : list Z :=
  if operator_wide_above <? op then write_prim PU16 op else write_prim PU8 op.   (* `value as u8` *)

Definition entry_write (e : entry) : list Z := operands_write (snd e) ++ operator_write (fst e).

(* ---------- Dict::write_dep: what gets written for each entry (the delta's operands, nothing when
   the operands equal the default, else the entry's own), then the bytes *)
Fixpoint dict_written (defs : list (Z * list operand)) (d : dict) (delta : dict) : dict :=
  match d with
  | [] => []
  | (op, ops) :: r =>
      match delta_get delta op with
      | Some dops => (op, dops) :: dict_written defs r delta
      | None => if is_default defs op ops then dict_written defs r delta
                else (op, ops) :: dict_written defs r delta
      end
  end.

Definition dict_write (defs : list (Z * list operand)) (d : dict) (delta : dict) : list Z :=
  concat (map entry_write (dict_written defs d delta)).

(* the value returned: ctxt.bytes_written() - offset, `written` bytes being in the buffer before *)
Definition dict_write_dep (written : Z) (defs : list (Z * list operand)) (d : dict) (delta : dict)
  : outcome (list Z * Z) :=
  let b := dict_write defs d delta in
  Ok (b, (written + len b) - written).

(* ---------- the six DICT kinds *)
Inductive dict_kind := KTop | KFont | KPrivate | KTop2 | KFont2 | KPrivate2.
Definition kind_defaults (k : dict_kind) : list (Z * list operand) :=
  match k with
  | KTop => top_dict_default | KFont => font_dict_default | KPrivate => private_dict_default
  | KTop2 => cff2_top_dict_default | KFont2 => cff2_font_dict_default | KPrivate2 => cff2_private_dict_default
  end.
Definition kind_max_operands (k : dict_kind) : Z :=
  match k with
  | KTop | KFont | KPrivate => cff_max_operands
  | _ => cff2_max_operands
  end.
