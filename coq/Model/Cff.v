(* Model/Cff.v — executable model of the CFF DICT operand encoder/decoder and of the INDEX
   writer/reader (src/cff.rs: Operand::write, Op::read, offset_size, serialise_offset_array,
   owned::write_index_body, IndexU16/IndexU32 write, read_index, lookup_offset_index,
   Index::read_object).  The numeric constants of the encoding come from Gen/TableLayouts.v
   (regenerated from the Rust on every run).  No proofs in this file. *)
From AV Require Import Base.Prelude Gen.ReaderPrims Model.Reader Model.ReaderExt Model.TableLayout Gen.TableLayouts Model.Tables.
Open Scope Z_scope.

Definition between (lo v hi : Z) : bool := (lo <=? v) && (v <=? hi).

(* ---------- Operand::write, the Integer arm.  `as u8` = mod 256, `>> 8` = floor division,
   `as i16` = to_signed 16.  Arms in source order. *)
Definition operand_int_write (v : Z) : list Z :=
  if between cffw_small_lo v cffw_small_hi then [(v + cffw_small_bias) mod 256]
  else if between cffw_pos_lo v cffw_pos_hi then
    let w := v - cffw_pos_sub in [(w / 256 + cffw_pos_b0) mod 256; w mod 256]
  else if between cffw_neg_lo v cffw_neg_hi then
    let w := - v - cffw_neg_sub in [(w / 256 + cffw_neg_b0) mod 256; w mod 256]
  else if between cffw_i16_lo v cffw_i16_hi then cffw_i16_b0 :: write_prim PI16 (to_signed 16 v)
  else cffw_i32_b0 :: write_prim PI32 v.

(* Operand::Offset: always the 5-byte form *)
Definition operand_offset_write (v : Z) : list Z := cffw_offset_b0 :: write_prim PI32 v.

(* ---------- Op::read.  Operators and reals are only classified (their payload is outside this model). *)
Inductive op_result :=
| OpInt (v : Z)
| OpOperator (b0 : Z)          (* one-byte operator 0..=11, 13..=24 *)
| OpOperator2 (b1 : Z)         (* 12 b1: validity of the two-byte operator is not modelled *)
| OpReal (raw : list Z).       (* bytes up to and including the one holding the 0xF nibble *)

Definition op_read (c : ctxt) : outcome (op_result * ctxt) :=
  '(b0, c1) <- read_prim PU8 c ;;
  if b0 =? 12 then '(b1, c2) <- read_prim PU8 c1 ;; Ok (OpOperator2 b1, c2)
  else if b0 <=? 24 then Ok (OpOperator b0, c1)
  else if b0 =? cffr_i16_b0 then '(n, c2) <- read_prim PI16 c1 ;; Ok (OpInt n, c2)
  else if b0 =? cffr_i32_b0 then '(n, c2) <- read_prim PI32 c1 ;; Ok (OpInt n, c2)
  else if b0 =? cffr_real_b0 then '(d, c2) <- read_until_nibble Debug c1 15 ;; Ok (OpReal d, c2)
  else if between cffr_small_lo b0 cffr_small_hi then Ok (OpInt (b0 - cffr_small_bias), c1)
  else if between cffr_pos_lo b0 cffr_pos_hi then
    '(b1, c2) <- read_prim PU8 c1 ;; Ok (OpInt ((b0 - cffr_pos_b0) * 256 + b1 + cffr_pos_add), c2)
  else if between cffr_neg_lo b0 cffr_neg_hi then
    '(b1, c2) <- read_prim PU8 c1 ;; Ok (OpInt (- (b0 - cffr_neg_b0) * 256 - b1 - cffr_neg_sub), c2)
  else Err BadValue.   (* 25..=27 | 31 | 255 *)

(* ---------- offset_size / serialise_offset_array *)
Definition offset_size (v : Z) : option Z :=
  if v <=? offset_size_max1 then Some 1
  else if v <=? offset_size_max2 then Some 2
  else if v <=? offset_size_max3 then Some 3
  else if v <=? offset_size_max4 then Some 4
  else None.

Fixpoint write_u24s (l : list Z) : outcome (list Z) :=
  match l with
  | [] => Ok []
  | o :: r => b <- write_u24 (o mod 4294967296) ;; rest <- write_u24s r ;; Ok (b ++ rest)   (* `offset as u32` then the U24 guard *)
  end.

Definition serialise_offset_array (offsets : list Z) : outcome (Z * list Z) :=
  match offsets with
  | [] => Ok (1, [])
  | _ =>
      match offset_size (last offsets 0) with
      | None => Err BadValue
      | Some 1 => Ok (1, map (fun o => o mod 256) offsets)                                   (* `offset as u8` *)
      | Some 2 => Ok (2, concat (map (fun o => write_prim PU16 (o mod 65536)) offsets))      (* `offset as u16` *)
      | Some 3 => arr <- write_u24s offsets ;; Ok (3, arr)
      | Some _ => Ok (4, concat (map (fun o => write_prim PU32 (o mod 4294967296)) offsets)) (* `offset as u32` *)
      end
  end.

(* ---------- owned INDEX writer: IndexU16::write / IndexU32::write + write_index_body *)
Fixpoint index_offsets (off : Z) (objs : list (list Z)) : list Z :=
  match objs with
  | [] => [off]
  | d :: r => off :: index_offsets (off + len d) r
  end.

Definition index_write (wide : bool) (objs : list (list Z)) : outcome (list Z) :=
  count <- (if wide then try_u32 else try_u16) (len objs) ;;
  let hdr := write_prim (if wide then PU32 else PU16) count in
  match objs with
  | [] => Ok hdr
  | _ =>
      '(off_size, arr) <- serialise_offset_array (index_offsets 1 objs) ;;   (* INDEX offsets start at 1 *)
      Ok (hdr ++ [off_size] ++ arr ++ concat objs)
  end.

(* ---------- INDEX reader *)
Record index := { ix_count : Z; ix_off_size : Z; ix_offsets : list Z; ix_data : list Z }.

(* lookup_offset_index: slicing and the fixed-size reads panic when the array is too short *)
Definition lookup_offset_index (off_size : Z) (arr : list Z) (i : Z) : outcome Z :=
  if (1 <=? off_size) && (off_size <=? 4) then
    if i * off_size + off_size <=? len arr then Ok (be_val (take off_size (drop (i * off_size) arr)))
    else Panic
  else Panic.

(* read_index *)
Definition read_index (c : ctxt) (count : Z) : outcome (index * ctxt) :=
  if 0 <? count then
    '(off_size, c1) <- read_prim PU8 c ;;
    if (off_size <? 1) || (4 <? off_size) then Err BadValue
    else
      '(arr, c2) <- read_slice Debug c1 ((count + 1) * off_size) ;;
      last <- lookup_offset_index off_size arr count ;;
      if last <? 1 then Err BadValue
      else
        '(d, c3) <- read_slice Debug c2 (last - 1) ;;
        Ok ({| ix_count := count; ix_off_size := off_size; ix_offsets := arr; ix_data := d |}, c3)
  else Ok ({| ix_count := count; ix_off_size := 1; ix_offsets := []; ix_data := [] |}, c).

(* IndexU16::read / IndexU32::read *)
Definition index_read (wide : bool) (c : ctxt) : outcome (index * ctxt) :=
  '(count, c1) <- read_prim (if wide then PU32 else PU16) c ;;
  read_index c1 count.

(* Index::read_object: `lookup(..) - 1` underflows (debug: panic; release: wraps and the slice
   panics), a start beyond end or an end beyond the data panics in the slice *)
Definition index_object (ix : index) (i : Z) : outcome (option (list Z)) :=
  if i <? ix_count ix then
    s <- lookup_offset_index (ix_off_size ix) (ix_offsets ix) i ;;
    e <- lookup_offset_index (ix_off_size ix) (ix_offsets ix) (i + 1) ;;
    if (1 <=? s) && (s <=? e) && (e - 1 <=? len (ix_data ix)) then
      Ok (Some (take (e - s) (drop (s - 1) (ix_data ix))))
    else Panic
  else Ok None.

(* Index::iter().collect() *)
Fixpoint index_objects_from (ix : index) (i : Z) (n : nat) : outcome (list (list Z)) :=
  match n with
  | O => Ok []
  | S k =>
      o <- index_object ix i ;;
      match o with
      | Some d => rest <- index_objects_from ix (i + 1) k ;; Ok (d :: rest)
      | None => Panic   (* .unwrap() *)
      end
  end.
Definition index_objects (ix : index) : outcome (list (list Z)) :=
  index_objects_from ix 0 (Z.to_nat (ix_count ix)).

(* Borrowed IndexU16::write / cff2 IndexU32::write + write_index_body.  `narrow_u32_count` models
   the count conversion of the CFF2 writer: u16::try_from before the fix, u32::try_from after. *)
Definition index_write_borrowed (wide : bool) (ix : index) : outcome (list Z) :=
  count <- (if wide then try_u32 else try_u16) (ix_count ix) ;;
  let hdr := write_prim (if wide then PU32 else PU16) count in
  if ix_count ix =? 0 then Ok hdr
  else Ok (hdr ++ [ix_off_size ix] ++ ix_offsets ix ++ ix_data ix).

(* ---------- DICT operands (enum Operand): Integer(i32), Offset(i32), Real(nibble bytes).
   The DICT model proper is Model/CffDict.v; the type lives here because the generated default
   tables (Gen/CffDictTables.v) are lists of operands. *)
Inductive operand :=
| OInt (v : Z)
| OOff (v : Z)
| OReal (bs : list Z).
