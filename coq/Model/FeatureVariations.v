(* Model/FeatureVariations.v — OpenType feature variations (src/layout.rs: LayoutTable::read header 1.1,
   FeatureVariations::read, FeatureVariationsOwned::matches, FeatureVariationRecord::{matches, condition_set,
   feature_table_substitution}, ConditionSet / ConditionSetTable / ConditionTable ::matches and ::read,
   FeatureTableSubstitutionTable::read, FeatureTableSubstitution::substitute, FeatureTable::read,
   LayoutTable::{feature_variations, find_langsys_feature}) and the way src/gsub.rs consumes them
   (build_lookups_custom, build_lookups_default, get_lookups_cache_index, apply_rvrn, gsub_apply_custom,
   gsub_apply_default), function by function after the Rust.  No proofs here.

   Unlike the lookup program (abstract, Model/Gsub.v) the FeatureVariations table is modelled on BYTES, on top of
   the reader model Model/Reader.v: the NULL-offset special cases, version checks and read errors are the
   semantics.  The script / feature / lookup lists stay abstract (`layout_table`); the FeatureVariations table is
   the value `option fv_table` that LayoutTable::read stores in `opt_feature_variations`.

   A `ReadArray` is a bounds-checked window; the Rust iterates it lazily (`.iter()`), the model collects it where
   it is read (`arr_to_vec`): the same bytes are decoded either way.  `Tuple<'_>` is the list of the raw i16
   values of its F2Dot14 entries (F2Dot14 derives Ord on the raw value). *)
From AV Require Import Base.Prelude Gen.LayoutConsts Model.Reader Model.Layout Model.Gsub.
Open Scope Z_scope.

Definition tuple := list Z.

(* Tuple::get(index: u16) = self.0.get(usize::from(index)).copied() *)
Definition tuple_get (t : tuple) (i : Z) : option Z := nth_opt t i.

(* ------------------------------------------------------------------ ConditionTable *)
Inductive condition :=
| CondUnknown
| CondF1 (axis_index filter_min filter_max : Z).      (* u16, F2Dot14 raw, F2Dot14 raw *)

(* impl ReadBinary for ConditionTable: `match format { 1 => Format1(ctxt.read::<ConditionFormat1>()?), _ => Unknown }`;
   ConditionFormat1 is ReadFrom<(U16Be, F2Dot14, F2Dot14)>: one bounds check for the six bytes *)
Definition condition_read (c : ctxt) : outcome condition :=
  '(format, c1) <- read_prim PU16 c ;;
  if format =? FV_CONDITION_FORMAT_AXIS_RANGE then
    '(v, _) <- read_ty [PU16; PI16; PI16] c1 ;;
    match v with
    | [a; mn; mx] => Ok (CondF1 a mn mx)
    | _ => Panic                                       (* unreachable: read_ty returns one value per component *)
    end
  else Ok CondUnknown.

(* ConditionTable::matches: Unknown => false; an axis the tuple does not have => false;
   (min..=max).contains(&value): an empty range (min > max) contains nothing *)
Definition condition_matches (cd : condition) (t : tuple) : bool :=
  match cd with
  | CondUnknown => false
  | CondF1 a mn mx =>
    match tuple_get t a with
    | Some v => (mn <=? v) && (v <=? mx)
    | None => false
    end
  end.

(* ------------------------------------------------------------------ ConditionSet *)
Record cond_set_table := mkCST { cs_scope : scope; cs_offsets : list Z }.

(* impl ReadBinary for ConditionSetTable *)
Definition condition_set_table_read (m : mode) (c : ctxt) : outcome cond_set_table :=
  sc <- ctxt_scope m c ;;
  '(count, c1) <- read_prim PU16 c ;;
  '(arr, _) <- read_array m [PU32] c1 count ;;
  offs <- arr_to_vec m arr ;;
  Ok (mkCST sc (map (hd 0) offs)).

(* ConditionSetTable::matches:
   offsets.iter().map(|o| scope.offset(o).read::<ConditionTable>()).all(|t| t.map(|t| t.matches(tuple)).unwrap_or(false))
   — `all` stops at the first false; an unreadable condition table counts as false *)
Fixpoint conditions_all (m : mode) (sc : scope) (offs : list Z) (t : tuple) : outcome bool :=
  match offs with
  | [] => Ok true
  | o :: rest =>
    s <- scope_offset m sc o ;;
    match condition_read (ctxt_new s) with
    | Ok cd => if condition_matches cd t then conditions_all m sc rest t else Ok false
    | Err _ => Ok false
    | Panic => Panic
    | OOB => OOB
    end
  end.

Inductive cond_set := CSUniversal | CSSet (tb : cond_set_table).

(* ConditionSet::matches *)
Definition cond_set_matches (m : mode) (cs : cond_set) (t : tuple) : outcome bool :=
  match cs with
  | CSUniversal => Ok true
  | CSSet tb => conditions_all m (cs_scope tb) (cs_offsets tb) t
  end.

(* ------------------------------------------------------------------ FeatureTableSubstitution *)
Inductive ft_subst :=
| FSNone                                              (* FeatureTableSubstitution::NoSubstitution *)
| FSTable (sc : scope) (recs : list (Z * Z)).         (* substitution_scope, (feature_index, alternate_feature_offset) *)

(* impl ReadBinary for FeatureTableSubstitutionTable *)
Definition fts_table_read (m : mode) (c : ctxt) : outcome ft_subst :=
  sc <- ctxt_scope m c ;;
  '(major, c1) <- read_prim PU16 c ;;
  if negb (major =? FV_SUBST_MAJOR) then Err BadVersion
  else
    '(_, c2) <- read_prim PU16 c1 ;;
    '(count, c3) <- read_prim PU16 c2 ;;
    '(arr, _) <- read_array m [PU16; PU32] c3 count ;;
    recs <- arr_to_vec m arr ;;
    Ok (FSTable sc (map (fun v => (nthZ v 0, nthZ v 1)) recs)).

(* FeatureTableSubstitution::cache_key *)
Definition fts_cache_key (s : ft_subst) : option Z :=
  match s with FSNone => None | FSTable sc _ => Some (base sc) end.

(* impl ReadBinary for FeatureTable: feature params offset, lookup index count, lookup indices *)
Definition feature_table_read (m : mode) (c : ctxt) : outcome (list Z) :=
  '(_, c1) <- read_prim PU16 c ;;
  '(n, c2) <- read_prim PU16 c1 ;;
  '(arr, _) <- read_array m [PU16] c2 n ;;
  v <- arr_to_vec m arr ;;
  Ok (map (hd 0) v).

(* the search loop of FeatureTableSubstitution::substitute:
     for rec in substitutions { if rec.feature_index == fi { found; break } else if rec.feature_index > fi { break } } *)
Fixpoint substitution_record (recs : list (Z * Z)) (fi : Z) : option (Z * Z) :=
  match recs with
  | [] => None
  | r :: rest =>
    if fst r =? fi then Some r
    else if fi <? fst r then None
    else substitution_record rest fi
  end.

(* FeatureTableSubstitution::substitute: the alternate feature table's lookup indices; `.read::<FeatureTable>().ok()` *)
Definition fts_substitute (m : mode) (s : ft_subst) (fi : Z) : outcome (option (list Z)) :=
  match s with
  | FSNone => Ok None
  | FSTable sc recs =>
    match substitution_record recs fi with
    | None => Ok None
    | Some r =>
      s' <- scope_offset m sc (snd r) ;;
      match feature_table_read m (ctxt_new s') with
      | Ok ft => Ok (Some ft)
      | Err _ => Ok None
      | Panic => Panic
      | OOB => OOB
      end
    end
  end.

(* ------------------------------------------------------------------ FeatureVariationRecord *)
(* FeatureVariationRecord::condition_set: offset 0 = no table = universal condition *)
Definition record_condition_set (m : mode) (sc : scope) (cs_off : Z) : outcome cond_set :=
  if cs_off =? 0 then Ok CSUniversal
  else
    s <- scope_offset m sc cs_off ;;
    tb <- condition_set_table_read m (ctxt_new s) ;;
    Ok (CSSet tb).

(* FeatureVariationRecord::feature_table_substitution: offset 0 = no table = no substitutions are made *)
Definition record_substitution (m : mode) (sc : scope) (sub_off : Z) : outcome ft_subst :=
  if sub_off =? 0 then Ok FSNone
  else
    s <- scope_offset m sc sub_off ;;
    fts_table_read m (ctxt_new s).

(* `self.condition_set(scope)?.matches(tuple)` *)
Definition record_condition (m : mode) (sc : scope) (r : Z * Z) (t : tuple) : outcome bool :=
  cs <- record_condition_set m sc (fst r) ;;
  cond_set_matches m cs t.

(* FeatureVariationRecord::matches *)
Definition record_matches (m : mode) (sc : scope) (r : Z * Z) (t : tuple) : outcome (option ft_subst) :=
  b <- record_condition m sc r t ;;
  if b then s <- record_substitution m sc (snd r) ;; Ok (Some s)
  else Ok None.

(* ------------------------------------------------------------------ FeatureVariations *)
Record fv_table := mkFV { fv_scope : scope; fv_records : list (Z * Z) }.   (* (condition_set_offset, feature_table_substitution_offset) *)

(* impl ReadBinary for FeatureVariations (+ FeatureVariationsOwned: records.to_vec()) *)
Definition feature_variations_read (m : mode) (c : ctxt) : outcome fv_table :=
  sc <- ctxt_scope m c ;;
  '(major, c1) <- read_prim PU16 c ;;
  if negb (major =? FV_MAJOR) then Err BadVersion
  else
    '(_, c2) <- read_prim PU16 c1 ;;
    '(count, c3) <- read_prim PU32 c2 ;;
    '(arr, _) <- read_array m [PU32; PU32] c3 count ;;
    recs <- arr_to_vec m arr ;;
    Ok (mkFV sc (map (fun v => (nthZ v 0, nthZ v 1)) recs)).

(* FeatureVariationsOwned::matches:
     match rec.matches(scope, tuple) { s @ Ok(Some(_)) => return s, Ok(None) | Err(BadVersion) => continue, e @ Err(_) => return e } *)
Fixpoint fv_matches (m : mode) (sc : scope) (recs : list (Z * Z)) (t : tuple) : outcome (option ft_subst) :=
  match recs with
  | [] => Ok None
  | r :: rest =>
    match record_matches m sc r t with
    | Ok (Some s) => Ok (Some s)
    | Ok None => fv_matches m sc rest t
    | Err BadVersion => fv_matches m sc rest t
    | Err e => Err e
    | Panic => Panic
    | OOB => OOB
    end
  end.

(* LayoutTable::feature_variations *)
Definition feature_variations (m : mode) (fv : option fv_table) (tu : option tuple) : outcome (option ft_subst) :=
  match tu, fv with
  | Some t, Some f => fv_matches m (fv_scope f) (fv_records f) t
  | _, _ => Ok None
  end.

(* LayoutTable::read, the version / feature-variations part: major version, minor version and the three list
   offsets are read (the lists themselves are the abstract `layout_table`); major must be 1; a minor version
   above 0 has the 32-bit featureVariationsOffset, 0 = no table *)
Definition layout_read_fv (m : mode) (table_data : list Z) : outcome (option fv_table) :=
  let table := scope_new table_data in
  '(major, c1) <- read_prim PU16 (ctxt_new table) ;;
  '(minor, c2) <- read_prim PU16 c1 ;;
  '(_, c3) <- read_prim PU16 c2 ;;
  '(_, c4) <- read_prim PU16 c3 ;;
  '(_, c5) <- read_prim PU16 c4 ;;
  if negb (major =? LAYOUT_MAJOR) then Err BadVersion
  else if 0 <? minor then
    '(off, _) <- read_prim PU32 c5 ;;
    if 0 <? off then
      s <- scope_offset m table off ;;
      fv <- feature_variations_read m (ctxt_new s) ;;
      Ok (Some fv)
    else Ok None
  else Ok None.

(* ------------------------------------------------------------------ consumers in layout.rs / gsub.rs *)
(* LayoutTable::find_langsys_feature:
     let fv = feature_variations.unwrap_or(&NoSubstitution);
     for fi in langsys.feature_indices { rec = nth_feature_record(fi)?; if rec.tag == tag {
        return Ok(Some(fv.substitute(fi).map(Owned).unwrap_or(Borrowed(&rec.feature_table)))) } } *)
Fixpoint find_feature_in_v (m : mode) (s : ft_subst) (features : list (Z * list Z)) (indices : list Z) (tag : Z)
  : outcome (option (list Z)) :=
  match indices with
  | [] => Ok None
  | fi :: t =>
    rec <- checked_nth features fi ;;
    if fst rec =? tag then
      alt <- fts_substitute m s fi ;;
      Ok (Some (match alt with Some a => a | None => snd rec end))
    else find_feature_in_v m s features t tag
  end.

Definition find_langsys_feature_v (m : mode) (t : layout_table) (ls : langsys) (tag : Z) (fv : option ft_subst)
  : outcome (option (list Z)) :=
  let s := match fv with Some s => s | None => FSNone end in
  match lt_features t with
  | Some fl => find_feature_in_v m s fl (ls_features ls) tag
  | None => Ok None
  end.

(* build_lookups_custom *)
Fixpoint build_lookups_custom_v (m : mode) (t : layout_table) (ls : langsys) (fv : option ft_subst)
  (feature_tags : list (Z * option Z)) (rvrn : option (list Z)) (mp : list (Z * Z))
  : outcome (option (list Z) * list (Z * Z)) :=
  match feature_tags with
  | [] => Ok (rvrn, mp)
  | (tag, _) :: rest =>
    ft <- find_langsys_feature_v m t ls tag fv ;;
    match ft with
    | Some indices =>
      if tag =? TAG_EARLY then build_lookups_custom_v m t ls fv rest (Some indices) mp
      else build_lookups_custom_v m t ls fv rest rvrn (bt_extend indices tag mp)
    | None => build_lookups_custom_v m t ls fv rest rvrn mp
    end
  end.

(* gsub_apply_custom with a variation tuple *)
Definition gsub_apply_custom_v (m : mode) (t : layout_table) (fvt : option fv_table) (gd : option gdef)
  (script_tag : Z) (lang : option Z) (features_list : list (Z * option Z)) (tu : option tuple)
  (num_glyphs : Z) (gs : list glyph) : outcome (list glyph) :=
  gs' <- match find_script_or_default t script_tag with
         | Some s =>
           match find_langsys_or_default s lang with
           | Some ls =>
             fv <- feature_variations m fvt tu ;;
             '(rvrn, lks) <- build_lookups_custom_v m t ls fv features_list None [] ;;
             gs1 <- match rvrn with Some idx => apply_rvrn m t gd idx gs | None => Ok gs end ;;
             apply_lookups_custom m t gd features_list lks gs1
           | None => Ok gs
           end
         | None => Ok gs
         end ;;
  Ok (replace_missing_glyphs gs' num_glyphs).

(* build_lookups_default *)
Fixpoint build_lookups_default_v (m : mode) (t : layout_table) (ls : langsys) (fv : option ft_subst) (mask : Z)
  (tbl : list (Z * Z)) (mp : list (Z * Z)) : outcome (list (Z * Z)) :=
  match tbl with
  | [] => Ok mp
  | (bit, tag) :: rest =>
    if Z.testbit mask bit then
      ft <- find_langsys_feature_v m t ls tag fv ;;
      match ft with
      | Some idx => build_lookups_default_v m t ls fv mask rest (bt_extend idx tag mp)
      | None =>
        if tag =? TAG_MASK_FALLBACK_FROM then
          ft2 <- find_langsys_feature_v m t ls TAG_MASK_FALLBACK_TO fv ;;
          match ft2 with
          | Some idx => build_lookups_default_v m t ls fv mask rest (bt_extend idx TAG_MASK_FALLBACK_TO mp)
          | None => build_lookups_default_v m t ls fv mask rest mp
          end
        else build_lookups_default_v m t ls fv mask rest mp
      end
    else build_lookups_default_v m t ls fv mask rest mp
  end.

(* get_lookups_cache_index + cached_lookups[index] on a fresh cache: a pure function of
   (script, language, mask, substitution); the key component FeatureTableSubstitution::cache_key only memoises *)
Definition lookups_for_mask_v (m : mode) (t : layout_table) (script_tag : Z) (lang : option Z) (fv : option ft_subst)
  (mask : Z) : outcome (list (Z * Z)) :=
  match find_script_or_default t script_tag with
  | Some s => match find_langsys_or_default s lang with
              | Some ls => build_lookups_default_v m t ls fv mask FEATURE_MASKS []
              | None => Ok []
              end
  | None => Ok []
  end.

(* gsub.rs apply_rvrn: the lookups of the mask FeatureMask::RVRN over the whole run *)
Definition apply_rvrn_default (m : mode) (t : layout_table) (gd : option gdef) (script_tag : Z) (lang : option Z)
  (fv : option ft_subst) (gs : list glyph) : outcome (list glyph) :=
  lks <- lookups_for_mask_v m t script_tag lang fv (Z.shiftl 1 MASK_BIT_RVRN) ;;
  '(gs', _) <- gsub_apply_lookups_impl m t gd lks gs 0 (len gs) ;;
  Ok gs'.

(* gsub_apply_default with a variation tuple, scripts of ScriptType::Default, no FRAC split (as gsub_apply_default
   of Model/Gsub.v).  `if tuple.is_some() { apply_rvrn(..)? }` runs whether or not a record matched. *)
Definition gsub_apply_default_v (m : mode) (t : layout_table) (fvt : option fv_table) (gd : option gdef)
  (script_tag : Z) (lang : option Z) (mask : Z) (tu : option tuple) (num_glyphs : Z) (gs : list glyph)
  : outcome (list glyph) :=
  fv <- feature_variations m fvt tu ;;
  gs0 <- match tu with
         | Some _ => apply_rvrn_default m t gd script_tag lang fv gs
         | None => Ok gs
         end ;;
  let mask1 := mask_remove mask MASK_BIT_REMOVED in
  supported <- get_supported_features t script_tag lang ;;
  let mask2 := Z.land mask1 supported in
  if Z.testbit mask2 MASK_BIT_SPLIT then Err NotImplemented
  else
    lks <- lookups_for_mask_v m t script_tag lang fv mask2 ;;
    '(gs', _) <- gsub_apply_lookups_impl m t gd lks gs0 0 (len gs0) ;;
    Ok (replace_missing_glyphs (strip_joiners gs') num_glyphs).

(* ------------------------------------------------------------------ the Mask path without a FeatureVariations table *)
(* apply_rvrn / gsub_apply_default when no substitution is in force (feature_variations = None): what
   `tuple.is_some()` alone changes is that the lookups of the mask FeatureMask::RVRN run first *)
Definition apply_rvrn_mask (m : mode) (t : layout_table) (gd : option gdef) (script_tag : Z) (lang : option Z)
  (gs : list glyph) : outcome (list glyph) :=
  lks <- lookups_for_mask t script_tag lang (Z.shiftl 1 MASK_BIT_RVRN) ;;
  '(gs', _) <- gsub_apply_lookups_impl m t gd lks gs 0 (len gs) ;;
  Ok gs'.

Definition gsub_apply_default_t (m : mode) (t : layout_table) (gd : option gdef) (script_tag : Z) (lang : option Z)
  (mask : Z) (has_tuple : bool) (num_glyphs : Z) (gs : list glyph) : outcome (list glyph) :=
  gs0 <- (if has_tuple then apply_rvrn_mask m t gd script_tag lang gs else Ok gs) ;;
  gsub_apply_default m t gd script_tag lang mask num_glyphs gs0.
