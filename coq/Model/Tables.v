(* Model/Tables.v — executable model of the sfnt table readers/writers C15 is anchored in
   (src/tables.rs, src/tables/os2.rs, src/post.rs, src/tables/loca.rs, src/tables/glyf.rs).
   Straight-line parts come from Gen/TableLayouts.v (regenerated from the Rust on every run) and are
   interpreted by Model/TableLayout.v; the variable-size structure around them is written here, function
   by function after the Rust.  No proofs in this file. *)
From AV Require Import Base.Prelude Gen.ReaderPrims Model.Reader Model.ReaderExt Model.TableLayout Gen.TableLayouts.
Open Scope Z_scope.

(* ---------- integer conversions used by the writers: u16::try_from(x)? etc. -> WriteError::BadValue *)
Definition try_u8 (v : Z) : outcome Z := if (0 <=? v) && (v <=? 255) then Ok v else Err BadValue.
Definition try_u16 (v : Z) : outcome Z := if (0 <=? v) && (v <=? 65535) then Ok v else Err BadValue.
Definition try_u32 (v : Z) : outcome Z := if (0 <=? v) && (v <=? 4294967295) then Ok v else Err BadValue.
(* U24Be::write *)
Definition write_u24 (v : Z) : outcome (list Z) :=
  if v >? u24_max then Err BadValue else Ok (be_bytes 3 v).

(* primitive types of a straight-line reader, in order (the ReadType tuple of a ReadFrom impl) *)
Fixpoint rprims (its : list ritem) : list prim :=
  match its with
  | [] => []
  | RRead _ p _ :: r => p :: rprims r
  | REnum _ p _ :: r => p :: rprims r
  | RTrunc _ p _ :: r => p :: rprims r
  | _ :: r => rprims r
  end.

Definition table_ctxt (d : list Z) : ctxt := ctxt_new (scope_new d).

(* ---------- head, hhea, post header, the ReadFrom records: the layouts as they are *)
Definition layout_read (rl : list ritem) (d : list Z) : outcome (list Z) :=
  '(vs, _) <- read_items rl [] (table_ctxt d) ;; Ok vs.
Definition layout_write (fill : bool) (wl : list witem) (vs : list Z) : list Z := write_items fill wl vs.

(* ---------- maxp.  MaxpTable = (num_glyphs, version1_sub_table) *)
Definition maxp := (Z * option (list Z))%type.

(* MaxpTable::read *)
Definition maxp_read (c : ctxt) : outcome (maxp * ctxt) :=
  '(hv, c1) <- read_items maxp_header_read [] c ;;
  let version := nth 0 hv 0 in
  let num_glyphs := nth 1 hv 0 in
  if version =? maxp_v1_version then
    '(sv, c2) <- read_items maxp_v1_read [] c1 ;; Ok ((num_glyphs, Some sv), c2)
  else Ok ((num_glyphs, None), c1).

(* MaxpTable::write *)
Definition maxp_write (t : maxp) : list Z :=
  match snd t with
  | Some sv => write_items false maxp_header_write_v1 [fst t] ++ write_items false maxp_v1_write sv
  | None => write_items false maxp_header_write_v05 [fst t]
  end.

(* ---------- hmtx.  HmtxTable = (h_metrics : list [advance; lsb], left_side_bearings) *)
Definition long_hor_metric_ty : ty := rprims long_hor_metric_read.
Definition hmtx := (list (list Z) * list Z)%type.

(* HmtxTable::read_dep; the arrays are lazy in Rust, iterating them decodes the same items *)
Definition hmtx_read (c : ctxt) (num_glyphs num_h_metrics : Z) : outcome (hmtx * ctxt) :=
  '(hm, c1) <- read_records long_hor_metric_ty c num_h_metrics ;;
  '(ls, c2) <- read_records [PI16] c1 (Z.max 0 (num_glyphs - num_h_metrics)) ;;   (* saturating_sub *)
  Ok ((hm, map (fun r => hd 0 r) ls), c2).

(* HmtxTable::write: ReadArrayCow::write of both arrays *)
Definition hmtx_write (t : hmtx) : list Z :=
  concat (map (write_items false long_hor_metric_write) (fst t)) ++ concat (map (write_prim PI16) (snd t)).

(* ---------- loca *)
(* LocaTable::read_dep + LocaOffsets::iter: fmt 0 = Short (stored value * 2), 1 = Long *)
Definition loca_read (c : ctxt) (num_glyphs fmt : Z) : outcome (list Z * ctxt) :=
  if fmt =? 0 then
    '(rs, c1) <- read_records [PU16] c (num_glyphs + 1) ;;
    Ok (map (fun r => hd 0 r * loca_short_divisor) rs, c1)
  else
    '(rs, c1) <- read_records [PU32] c (num_glyphs + 1) ;;
    Ok (map (fun r => hd 0 r) rs, c1).

(* loca::owned::LocaTable::write_dep, the loop of the short branch *)
Fixpoint loca_write_short (offs : list Z) : outcome (list Z) :=
  match offs with
  | [] => Ok []
  | o :: r =>
      if Z.land o 1 =? 1 then Err BadValue
      else
        s <- try_u16 (o / loca_short_divisor) ;;
        rest <- loca_write_short r ;;
        Ok (write_prim PU16 s ++ rest)
  end.

Definition loca_write (fmt : Z) (offs : list Z) : outcome (list Z) :=
  if fmt =? 0 then
    if (match offs with [] => false | _ => last offs 0 / 2 >? 65535 end) then Err BadValue
    else loca_write_short offs
  else Ok (concat (map (write_prim PU32) offs)).

(* ---------- name (borrowed): string_storage bytes, name records, optional langtag records *)
Record name_table := { nt_storage : list Z; nt_records : list (list Z); nt_langtags : option (list (list Z)) }.
Definition name_record_ty : ty := rprims name_record_read.
Definition langtag_record_ty : ty := rprims langtag_record_read.

(* NameTable::read *)
Definition name_read (c : ctxt) : outcome (name_table * ctxt) :=
  scope <- ctxt_scope Debug c ;;
  '(format, c1) <- read_prim PU16 c ;;
  if 1 <? format then Err BadValue
  else
    '(count, c2) <- read_prim PU16 c1 ;;
    '(string_offset, c3) <- read_prim PU16 c2 ;;
    storage <- scope_offset Debug scope string_offset ;;
    '(recs, c4) <- read_records name_record_ty c3 count ;;
    if 0 <? format then
      '(lcount, c5) <- read_prim PU16 c4 ;;
      '(lts, c6) <- read_records langtag_record_ty c5 lcount ;;
      Ok ({| nt_storage := data storage; nt_records := recs; nt_langtags := Some lts |}, c6)
    else Ok ({| nt_storage := data storage; nt_records := recs; nt_langtags := None |}, c4).

(* NameTable::write into a context that already holds `written` bytes (0 for a fresh buffer):
   the string offset placeholder receives ctxt.bytes_written(), i.e. an absolute position *)
Definition name_write (written : Z) (n : name_table) : outcome (list Z) :=
  let format := match nt_langtags n with Some _ => 1 | None => 0 end in
  count <- try_u16 (len (nt_records n)) ;;
  let recs := concat (map (write_items false name_record_write) (nt_records n)) in
  lt <- match nt_langtags n with
        | Some l => lc <- try_u16 (len l) ;;
                    Ok (write_prim PU16 lc ++ concat (map (write_items false langtag_record_write) l))
        | None => Ok []
        end ;;
  so <- try_u16 (written + 6 + len recs + len lt) ;;
  Ok (write_prim PU16 format ++ write_prim PU16 count ++ write_prim PU16 so ++ recs ++ lt ++ nt_storage n).

(* ---------- name (owned): records (platform, encoding, language, name_id, string), langtag strings *)
Definition owned_record := (list Z * list Z)%type.   (* ([platform; encoding; language; name_id], string) *)

(* owned::NameTable::try_from(&NameTable) *)
Fixpoint name_strings (storage : scope) (recs : list (list Z)) (li oi : nat) : outcome (list (list Z)) :=
  match recs with
  | [] => Ok []
  | r :: rest =>
      s <- offset_length Debug storage (nth oi r 0) (nth li r 0) ;;
      ss <- name_strings storage rest li oi ;;
      Ok (data s :: ss)
  end.

Definition name_to_owned (n : name_table) : outcome (list owned_record * list (list Z)) :=
  let st := scope_new (nt_storage n) in
  strs <- name_strings st (nt_records n) 4%nat 5%nat ;;
  lts <- match nt_langtags n with
         | Some l => name_strings st l 0%nat 1%nat
         | None => Ok []
         end ;;
  Ok (combine (map (firstn 4) (nt_records n)) strs, lts).

(* owned::NameTable::write.  Pass 1 writes the fixed part with placeholders (every length goes
   through u16::try_from); pass 2 appends the strings, back-patching each offset through
   u16::try_from(bytes_written - string_start). *)
Fixpoint owned_records_fixed (recs : list owned_record) (off : Z) : outcome (list Z * Z) :=
  match recs with
  | [] => Ok ([], off)
  | (ids, s) :: rest =>
      l <- try_u16 (len s) ;;
      '(bs, off') <- owned_records_fixed rest (off + len s) ;;
      Ok (write_items false name_record_write (ids ++ [l; off]) ++ bs, off')
  end.
Fixpoint owned_langtags_fixed (lts : list (list Z)) (off : Z) : outcome (list Z * Z) :=
  match lts with
  | [] => Ok ([], off)
  | s :: rest =>
      l <- try_u16 (len s) ;;
      '(bs, off') <- owned_langtags_fixed rest (off + len s) ;;
      Ok (write_items false langtag_record_write [l; off] ++ bs, off')
  end.
(* the offsets that pass 2 converts, in order; the first one that does not fit is the error *)
Fixpoint offsets_fit (strs : list (list Z)) (off : Z) : bool :=
  match strs with
  | [] => true
  | s :: rest => (off <=? 65535) && offsets_fit rest (off + len s)
  end.

Definition name_owned_write (written : Z) (recs : list owned_record) (lts : list (list Z)) : outcome (list Z) :=
  let format := match lts with [] => 0 | _ => 1 end in
  count <- try_u16 (len recs) ;;
  '(rb, off1) <- owned_records_fixed recs 0 ;;
  lc <- match lts with [] => Ok [] | _ => c <- try_u16 (len lts) ;; Ok (write_prim PU16 c) end ;;
  '(lb, _) <- owned_langtags_fixed lts off1 ;;
  string_start <- try_u16 (written + 6 + len rb + len lc + len lb) ;;
  if offsets_fit (map snd recs ++ lts) 0 then
    Ok (write_prim PU16 format ++ write_prim PU16 count ++ write_prim PU16 string_start ++ rb ++ lc ++ lb
        ++ concat (map snd recs) ++ concat lts)
  else Err BadValue.

(* ---------- OS/2 *)
Record os2 := { o_base : list Z; o_v0 : option (list Z); o_v1 : option (list Z);
                o_v2 : option (list Z); o_v5 : option (list Z) }.

Definition read_opt (cond : bool) (rl : list ritem) (c : ctxt) : outcome (option (list Z) * ctxt) :=
  if cond then '(v, c') <- read_items rl [] c ;; Ok (Some v, c') else Ok (None, c).

(* Os2::read_dep *)
Definition os2_read (c : ctxt) (table_size : Z) : outcome (os2 * ctxt) :=
  '(b, c1) <- read_items os2_base_read [] c ;;
  let version := hd 0 b in
  '(v0, c2) <- read_opt (os2_v0_min_size <=? table_size) os2_version0_read c1 ;;
  '(v1, c3) <- read_opt (os2_v1_min_version <=? version) os2_version1_read c2 ;;
  '(v2, c4) <- read_opt (os2_v2_min_version <=? version) os2_version2to4_read c3 ;;
  '(v5, c5) <- read_opt (os2_v5_min_version <=? version) os2_version5_read c4 ;;
  Ok ({| o_base := b; o_v0 := v0; o_v1 := v1; o_v2 := v2; o_v5 := v5 |}, c5).

Definition write_opt (wl : list witem) (o : option (list Z)) : list Z :=
  match o with Some v => write_items false wl v | None => [] end.

(* the version number Os2::write puts on the wire *)
Definition os2_write_version (t : os2) : Z :=
  match o_v5 t, o_v2 t, o_v1 t with
  | Some _, _, _ => os2_wver_v5
  | None, Some _, _ => os2_wver_v2
  | None, None, Some _ => os2_wver_v1
  | None, None, None => os2_wver_v0
  end.

(* Os2::write *)
Definition os2_write (t : os2) : list Z :=
  write_items false os2_base_write (os2_write_version t :: tl (o_base t))
  ++ write_opt os2_version0_write (o_v0 t) ++ write_opt os2_version1_write (o_v1 t)
  ++ write_opt os2_version2to4_write (o_v2 t) ++ write_opt os2_version5_write (o_v5 t).

(* ---------- post: PascalString::write *)
Definition pascal_write (s : list Z) : outcome (list Z) :=
  if len s <=? pascal_string_max then Ok (len s :: s) else Err BadValue.

(* ---------- glyf: SimpleGlyph.  coordinates = (flag bits, x, y) *)
Record simple_glyph := { sg_bbox : list Z; sg_endpts : list Z; sg_instr : list Z;
                         sg_coords : list (Z * (Z * Z)) }.
Definition ON_CURVE : Z := 1.
Definition i16_ok (v : Z) : bool := (-32768 <=? v) && (v <=? 32767).

(* the delta loops of SimpleGlyph::write after the fix (checked subtraction: a delta that does not
   fit i16 is WriteError::BadValue) *)
Fixpoint write_deltas (prev : Z) (xs : list Z) : outcome (list Z) :=
  match xs with
  | [] => Ok []
  | x :: r =>
      if i16_ok (x - prev) then rest <- write_deltas x r ;; Ok (write_prim PI16 (x - prev) ++ rest)
      else Err BadValue
  end.

(* SimpleGlyph::write *)
Definition simple_glyph_write (g : simple_glyph) : outcome (list Z) :=
  let nc := to_signed 16 (len (sg_endpts g)) in       (* `len() as i16` *)
  il <- try_u16 (len (sg_instr g)) ;;
  xs <- write_deltas 0 (map (fun c => fst (snd c)) (sg_coords g)) ;;
  ys <- write_deltas 0 (map (fun c => snd (snd c)) (sg_coords g)) ;;
  Ok (write_prim PI16 nc ++ write_items false bounding_box_write (sg_bbox g)
      ++ concat (map (write_prim PU16) (sg_endpts g)) ++ write_prim PU16 il ++ sg_instr g
      ++ map (fun c => Z.land (fst c) ON_CURVE) (sg_coords g) ++ xs ++ ys).

(* the flag loop of SimpleGlyph::read_dep: `while coordinates.len() < n` — a repeat count may
   overshoot n; the surplus entries are dropped after the loop *)
Fixpoint read_flags (fuel : nat) (c : ctxt) (have want : Z) : outcome (list Z * ctxt) :=
  if want <=? have then Ok ([], c)
  else match fuel with
       | O => Panic   (* unreachable: every iteration adds at least one entry *)
       | S f =>
           '(fl, c1) <- read_prim PU8 c ;;
           let fl := Z.land fl 63 in                    (* from_bits_truncate *)
           if Z.land fl 8 =? 8 then
             '(cnt, c2) <- read_prim PU8 c1 ;;
             '(rest, c3) <- read_flags f c2 (have + cnt + 1) want ;;
             Ok (repeat fl (Z.to_nat (cnt + 1)) ++ rest, c3)
           else
             '(rest, c2) <- read_flags f c1 (have + 1) want ;; Ok (fl :: rest, c2)
       end.

(* one coordinate delta: short (u8 with sign bit), same (0) or i16 *)
Definition read_delta (c : ctxt) (fl short same : Z) : outcome (Z * ctxt) :=
  if Z.land fl short =? short then
    '(v, c1) <- read_prim PU8 c ;; Ok (if Z.land fl same =? same then v else - v, c1)
  else if Z.land fl same =? same then Ok (0, c)
  else read_prim PI16 c.

Fixpoint read_deltas (c : ctxt) (fls : list Z) (short same : Z) : outcome (list Z * ctxt) :=
  match fls with
  | [] => Ok ([], c)
  | fl :: r => '(d, c1) <- read_delta c fl short same ;; '(ds, c2) <- read_deltas c1 r short same ;; Ok (d :: ds, c2)
  end.

(* prev + delta: checked_add(..).ok_or(ParseError::LimitExceeded) since fix a464744 (the mode
   parameter is kept for the callers' signatures) *)
Definition add_i16 (m : mode) (a b : Z) : outcome Z :=
  if i16_ok (a + b) then Ok (a + b) else Err LimitExceeded.

(* the y loop of read_dep: read the y delta of a point, then resolve both deltas against the
   previous point (x first) *)
Fixpoint read_ys_resolve (m : mode) (c : ctxt) (px py : Z) (fls dxs : list Z)
  : outcome (list (Z * (Z * Z)) * ctxt) :=
  match fls, dxs with
  | fl :: fr, dx :: xr =>
      '(dy, c1) <- read_delta c fl 4 32 ;;
      x <- add_i16 m px dx ;;
      y <- add_i16 m py dy ;;
      '(rest, c2) <- read_ys_resolve m c1 x y fr xr ;;
      Ok ((fl, (x, y)) :: rest, c2)
  | _, _ => Ok ([], c)
  end.

(* SimpleGlyph::read_dep (after Glyph::read has taken number_of_contours >= 0) *)
Definition simple_glyph_read (m : mode) (c : ctxt) (number_of_contours : Z) : outcome (simple_glyph * ctxt) :=
  '(bbox, c1) <- read_ty (rprims bounding_box_read) c ;;
  '(eps, c2) <- read_records [PU16] c1 number_of_contours ;;
  let endpts := map (fun r => hd 0 r) eps in
  '(il, c3) <- read_prim PU16 c2 ;;
  '(instr, c4) <- read_slice m c3 il ;;
  let n := match endpts with [] => 0 | _ => last endpts 0 + 1 end in
  '(fls0, c5) <- read_flags (S (Z.to_nat n)) c4 0 n ;;
  let fls := firstn (Z.to_nat n) fls0 in                 (* coordinates.truncate(number_of_coordinates) *)
  '(dxs, c6) <- read_deltas c5 fls 2 16 ;;
  '(coords, c7) <- read_ys_resolve m c6 0 0 fls dxs ;;
  Ok ({| sg_bbox := bbox; sg_endpts := endpts; sg_instr := instr; sg_coords := coords |}, c7).

(* Glyph::read restricted to simple glyphs (composite: not modelled) *)
Definition glyph_read (m : mode) (c : ctxt) : outcome (option simple_glyph * ctxt) :=
  '(nc, c1) <- read_prim PI16 c ;;
  if 0 <=? nc then '(g, c2) <- simple_glyph_read m c1 nc ;; Ok (Some g, c2)
  else Ok (None, c1).
