(* Model/Sfnt.v — src/subset.rs FontBuilder / FontBuilderWithHead::data, src/checksum.rs,
   binary::long_align, max_power_of_2.  Table payloads are abstract byte strings (what
   add_table serialised); the head buffer carries zeros at the checkSumAdjustment placeholder
   (bytes 8..12) until `data` patches it.  No proofs in this file. *)
From AV Require Import Base.Prelude Gen.ReaderPrims Gen.ContainerLayouts.
Open Scope Z_scope.

Definition HEAD_TAG : Z := 1751474532.  (* 'head' *)
Definition U32MOD : Z := 4294967296.

(* binary::long_align *)
Definition long_align (n : Z) : Z := (n + 3) / 4 * 4.

(* checksum::table_checksum: wrapping sum of the big-endian u32 words (input length multiple of 4) *)
Fixpoint word_sum (b : list Z) : Z :=
  match b with
  | b0 :: b1 :: b2 :: b3 :: r => (b0 * 16777216 + b1 * 65536 + b2 * 256 + b3) + word_sum r
  | _ => 0
  end.
Definition table_checksum (b : list Z) : outcome Z :=
  if len b mod 4 =? 0 then Ok (word_sum b mod U32MOD) else Panic.   (* assert_eq!(len % 4, 0) *)

(* max_power_of_2: 15u16.saturating_sub(num.leading_zeros()) = floor(log2 num), 0 for num = 0 *)
Definition max_power_of_2 (num : Z) : Z := if num <=? 0 then 0 else Z.log2 num.

(* BTreeMap<u32, WriteBuffer>::insert *)
Fixpoint map_insert (tag : Z) (b : list Z) (m : list (Z * list Z)) : list (Z * list Z) :=
  match m with
  | [] => [(tag, b)]
  | (t, x) :: r =>
      if tag <? t then (tag, b) :: m
      else if tag =? t then (tag, b) :: r
      else (t, x) :: map_insert tag b r
  end.

Definition pad4 (b : list Z) : list Z := b ++ repeat 0 (Z.to_nat (long_align (len b) - len b)).

Definition u16_arith (m : mode) (v : Z) : outcome Z :=
  if (0 <=? v) && (v <? 65536) then Ok v
  else match m with Debug => Panic | Release => Ok (v mod 65536) end.

(* checked_mul(..).ok_or(WriteError::BadValue) *)
Definition u16_checked (v : Z) : outcome Z :=
  if (0 <=? v) && (v <? 65536) then Ok v else Err BadValue.

(* write_offset_table *)
Definition offset_table_header (m : mode) (ver num : Z) : outcome (list Z) :=
  if 65535 <? num then Err OtherErr            (* u16::try_from(len)? *)
  else
    let n := max_power_of_2 num in
    sr <- u16_checked (2 ^ n * 16) ;;          (* (1u16 << n).checked_mul(16).ok_or(BadValue)? *)
    n16 <- u16_checked (num * 16) ;;            (* num_tables.checked_mul(16).ok_or(BadValue)? *)
    rs <- u16_arith m (n16 - sr) ;;
    Ok (be_bytes 4 ver ++ be_bytes 2 num ++ be_bytes 2 sr ++ be_bytes 2 n ++ be_bytes 2 rs).

(* write_table_directory: records and padded buffers, running offset and checksum *)
Fixpoint directory (tables : list (Z * list Z)) (offset : Z)
  : outcome (list (list Z) * list (Z * list Z) * Z) :=
  match tables with
  | [] => Ok ([], [], 0)
  | (tag, b) :: rest =>
      let padded := pad4 b in
      cs <- table_checksum padded ;;
      if (U32MOD <=? offset) || (U32MOD <=? len b) then Err OtherErr   (* u32::try_from *)
      else
        '(recs, bufs, total) <- directory rest (offset + len padded) ;;
        Ok ([tag; cs; offset; len b] :: recs, (tag, padded) :: bufs, (cs + total) mod U32MOD)
  end.

Definition enc_record (r : list Z) : list Z := concat (map (be_bytes 4) r).

(* patch 4 bytes at offset 8 of the head buffer: write_placeholder(check_sum_adjustment, v) *)
Definition patch_head (b : list Z) (v : Z) : outcome (list Z) :=
  if len b <? 12 then Panic                       (* slicing the placeholder range *)
  else Ok (firstn 8 b ++ be_bytes 4 v ++ skipn 12 b).

Fixpoint emit_tables (bufs : list (Z * list Z)) (adj : Z) : outcome (list Z) :=
  match bufs with
  | [] => Ok []
  | (tag, b) :: rest =>
      b' <- (if tag =? HEAD_TAG then patch_head b adj else Ok b) ;;
      r <- emit_tables rest adj ;;
      Ok (b' ++ r)
  end.

(* FontBuilderWithHead::data *)
Definition build_font (m : mode) (ver : Z) (tables : list (Z * list Z)) : outcome (list Z) :=
  let num := len tables in
  hdr <- offset_table_header m ver num ;;
  let table_offset := long_align (num * 16 + len hdr) in
  '(recs, bufs, total) <- directory tables table_offset ;;
  let head := hdr ++ concat (map enc_record recs) in
  if negb (long_align (len head) =? table_offset) then Panic     (* assert_eq! *)
  else
    let head := pad4 head in
    hc <- table_checksum head ;;
    let adj := (2981146554 - (hc + total)) mod U32MOD in           (* 0xB1B0AFBA *)
    body <- emit_tables bufs adj ;;
    Ok (head ++ body).

(* the builder as driven by whole_font: tables are inserted one by one *)
Definition build_from_inserts (m : mode) (ver : Z) (inserts : list (Z * list Z)) : outcome (list Z) :=
  build_font m ver (fold_left (fun acc tb => map_insert (fst tb) (snd tb) acc) inserts []).

(* ---------- the structural validity judge (OpenType spec, "Organization of an OpenType font") *)
Definition be32_at (b : list Z) (o : Z) : Z := be_val (firstn 4 (skipn (Z.to_nat o) b)).
Definition be16_at (b : list Z) (o : Z) : Z := be_val (firstn 2 (skipn (Z.to_nat o) b)).

Fixpoint parse_records (b : list Z) (o : Z) (n : nat) : list (list Z) :=
  match n with
  | O => []
  | S k => [be32_at b o; be32_at b (o + 4); be32_at b (o + 8); be32_at b (o + 12)] :: parse_records b (o + 16) k
  end.

Definition zero_adj (t : list Z) : list Z :=   (* head with checkSumAdjustment zeroed *)
  firstn 8 t ++ [0; 0; 0; 0] ++ skipn 12 t.

Fixpoint records_ok (file : list Z) (recs : list (list Z)) (prev_tag next_off : Z) : bool :=
  match recs with
  | [] => next_off =? len file
  | r :: rest =>
      let tag := nth 0 r 0 in let cs := nth 1 r 0 in let off := nth 2 r 0 in let l := nth 3 r 0 in
      let padded := firstn (Z.to_nat (long_align l)) (skipn (Z.to_nat off) file) in
      (prev_tag <? tag)                                   (* strictly ascending tags *)
      && (off =? next_off)                                (* 4-byte aligned, contiguous, no overlap *)
      && (off mod 4 =? 0)
      && (off + long_align l <=? len file)
      && forallb (Z.eqb 0) (skipn (Z.to_nat l) padded)    (* zero padding *)
      && (word_sum (if tag =? HEAD_TAG then zero_adj padded else padded) mod U32MOD =? cs)
      && records_ok file rest tag (off + long_align l)
  end.

Definition valid_sfnt (file : list Z) : bool :=
  let num := be16_at file 4 in
  let n := max_power_of_2 num in
  let recs := parse_records file 12 (Z.to_nat num) in
  (12 + 16 * num <=? len file)
  && (be16_at file 6 =? 2 ^ n * 16)                      (* searchRange *)
  && (be16_at file 8 =? n)                               (* entrySelector *)
  && (be16_at file 10 =? num * 16 - 2 ^ n * 16)          (* rangeShift *)
  && records_ok file recs (-1) (12 + 16 * num)
  && (len file mod 4 =? 0)
  && (word_sum file mod U32MOD =? 2981146554).           (* whole-file checksum 0xB1B0AFBA *)
