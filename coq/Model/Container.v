(* Model/Container.v — OpenType / TrueType-collection / WOFF containers
   (src/tables.rs OpenTypeFont, TTCHeader, OffsetTable, TableRecord; src/font_data.rs FontData;
   src/woff.rs WoffFont) on top of the reader model.  Layouts and magic numbers come from
   Gen/ContainerLayouts.v (regenerated from the source).  No proofs in this file. *)
From AV Require Import Base.Prelude Gen.ReaderPrims Model.Reader Model.ReaderExt Gen.ContainerLayouts.
Open Scope Z_scope.

Definition is_sfnt_magic (v : Z) : bool :=
  (v =? TTF_MAGIC) || (v =? TRUE_MAGIC) || (v =? CFF_MAGIC).

Record offset_table := { ot_version : Z; ot_records : list (list Z) }.  (* record = [tag; checksum; offset; length] *)

(* impl ReadBinary for OffsetTable *)
Definition read_offset_table (c : ctxt) : outcome (offset_table * ctxt) :=
  '(ver, c1) <- read_prim (hd PU32 offset_table_header_ty) c ;;
  if is_sfnt_magic ver then
    '(hdr, c2) <- read_seq (tl offset_table_header_ty) c1 ;;
    '(recs, c3) <- read_records table_record_ty c2 (hd 0 hdr) ;;
    Ok ({| ot_version := ver; ot_records := recs |}, c3)
  else Err BadVersion.

Inductive otdata := Single (ot : offset_table) | Collection (offsets : list Z).

(* impl ReadBinary for TTCHeader *)
Definition read_ttc_header (c : ctxt) : outcome (list Z * ctxt) :=
  '(tag, c1) <- read_prim (hd PU32 ttc_header_ty) c ;;
  if tag =? TTCF_MAGIC then
    '(v, c2) <- read_seq (firstn 2 (tl ttc_header_ty)) c1 ;;
    let major := hd 0 v in
    if (major =? 1) || (major =? 2) then
      '(nf, c3) <- read_seq (skipn 2 (tl ttc_header_ty)) c2 ;;
      '(offs, c4) <- read_records [PU32] c3 (hd 0 nf) ;;
      Ok (map (hd 0) offs, c4)
    else Err BadValue
  else Err BadVersion.

(* impl ReadBinary for OpenTypeFont (ctxt at the start of scope s) *)
Definition read_opentype (s : scope) : outcome otdata :=
  let c := ctxt_new s in
  '(magic, _) <- read_prim PU32 c ;;
  if is_sfnt_magic magic then
    '(ot, _) <- read_offset_table c ;; Ok (Single ot)
  else if magic =? TTCF_MAGIC then
    '(offs, _) <- read_ttc_header c ;; Ok (Collection offs)
  else Err BadVersion.

(* ReadArray::get_item on the offsets array: None beyond the end (the length test comes first, so a
   huge index never becomes a unary number) *)
Definition nth_safe {A} (l : list A) (i : Z) : option A :=
  if (i <? 0) || (len l <=? i) then None else nth_error l (Z.to_nat i).

(* OpenTypeFont::offset_table(index) *)
Definition ot_member (s : scope) (d : otdata) (index : Z) : outcome offset_table :=
  match d with
  | Single ot => Ok ot
  | Collection offs =>
      match nth_safe offs index with
      | None => Err BadIndex
      | Some off =>
          s' <- scope_offset Debug s off ;;
          '(ot, _) <- read_offset_table (ctxt_new s') ;;
          Ok ot
      end
  end.

Fixpoint find_record (tag : Z) (recs : list (list Z)) : option (list Z) :=
  match recs with
  | [] => None
  | r :: rest => if hd 0 r =? tag then Some r else find_record tag rest
  end.

(* OffsetTableFontProvider::table_data *)
Definition ot_table_data (s : scope) (ot : offset_table) (tag : Z) : outcome (option (list Z)) :=
  match find_record tag (ot_records ot) with
  | None => Ok None
  | Some r =>
      t <- offset_length Debug s (nth 2 r 0) (nth 3 r 0) ;;
      Ok (Some (data t))
  end.

(* ---- WOFF *)
Record woff_font := { w_flavor : Z; w_entries : list (list Z) }.  (* entry = [tag; offset; comp; orig; checksum] *)

(* impl ReadBinary for WoffHeader + WoffFont *)
Definition read_woff (s : scope) : outcome woff_font :=
  let c := ctxt_new s in
  '(sig, c1) <- read_prim (hd PU32 woff_header_ty) c ;;
  if sig =? WOFF_MAGIC then
    '(h1, c2) <- read_seq (firstn 4 (tl woff_header_ty)) c1 ;;     (* flavor length num_tables reserved *)
    if nth 3 h1 1 =? 0 then
      '(_, c3) <- read_seq (skipn 4 (tl woff_header_ty)) c2 ;;
      '(entries, _) <- read_records woff_entry_ty c3 (nth 2 h1 0) ;;
      Ok {| w_flavor := nth 0 h1 0; w_entries := entries |}
    else Err BadValue
  else Err BadVersion.

(* WoffFont::table_data with the zlib decoder as a parameter *)
Definition woff_table_data (inflate : list Z -> option (list Z)) (s : scope) (w : woff_font) (tag : Z)
  : outcome (option (list Z)) :=
  match find_record tag (w_entries w) with
  | None => Ok None
  | Some e =>
      t <- offset_length Debug s (nth 1 e 0) (nth 2 e 0) ;;
      if negb (nth 2 e 0 =? nth 3 e 0) then
        match inflate (data t) with
        | Some b => Ok (Some b)
        | None => Err CompressionError
        end
      else Ok (Some (data t))
  end.

(* ---- FontData: what a caller observes for (file bytes, member index, list of tags queried) *)
Inductive provider := POpenType (ot : offset_table) | PWoff (w : woff_font).

Definition font_provider (s : scope) (index : Z) : outcome provider :=
  '(magic, _) <- read_prim PU32 (ctxt_new s) ;;
  if is_sfnt_magic magic || (magic =? TTCF_MAGIC) then
    d <- read_opentype s ;; ot <- ot_member s d index ;; Ok (POpenType ot)
  else if magic =? WOFF_MAGIC then
    w <- read_woff s ;; Ok (PWoff w)
  else if magic =? WOFF2_MAGIC then Err NotImplemented    (* WOFF2 is property C11 *)
  else Err BadVersion.

Definition provider_version (p : provider) : Z :=
  match p with POpenType ot => ot_version ot | PWoff w => w_flavor w end.
Definition provider_tags (p : provider) : list Z :=
  match p with POpenType ot => map (hd 0) (ot_records ot) | PWoff w => map (hd 0) (w_entries w) end.
Definition provider_table (inflate : list Z -> option (list Z)) (s : scope) (p : provider) (tag : Z)
  : outcome (option (list Z)) :=
  match p with
  | POpenType ot => ot_table_data s ot tag
  | PWoff w => woff_table_data inflate s w tag
  end.
