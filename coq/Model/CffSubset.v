(* Model/CffSubset.v — executable model of src/cff/subset.rs
     CFF::subset (the loop over glyph_ids and the rebuilding of the INDEXes),
     rebuild_global_subr_index, rebuild_type_1_local_subr_index, rebuild_local_subr_indices,
     copy_used_subrs, and the charset choice at the end of CFF::subset
   over an abstract CFF: INDEXes are lists of byte strings, the charset is the list of SIDs/CIDs by
   glyph id (Charset::id_for_glyph), FDSelect the list of Font DICT indices by glyph id
   (FDSelect::font_dict_index).  The CharString interpreter (char_string_used_subrs) is not part
   of this model: its answer for a glyph, (global subrs entered, local subrs entered), is data.
   Hash sets/maps are iterated in an unspecified order in the Rust; the model iterates lists in
   the given order and Proofs/CffSubsetProofs.v shows the result does not depend on it.
   No proofs here. *)
From AV Require Import Base.Prelude Gen.SubsetConsts Model.GlyfSubset.
Open Scope Z_scope.

Definition bytes := list Z.
Definition index := list bytes.                         (* an INDEX *)

Inductive variant :=
| VType1 (local : option index)
| VCID (fd_select : list Z) (n_private : Z) (locals : list (option index)).

Record cff := mkCff {
  char_strings : index;
  global_subrs : index;
  charset : list Z;            (* id_for_glyph g = nth g; entry 0 is 0 (.notdef) *)
  var : variant
}.

(* answer of char_string_used_subrs for one glyph: (global_subr_used, local_subr_used) or an error *)
Definition used_fn := Z -> outcome (list Z * list Z).

Definition is_empty (b : bytes) : bool := match b with [] => true | _ => false end.

Fixpoint set_nth {A} (l : list A) (n : nat) (a : A) : list A :=
  match l, n with
  | [], _ => []
  | _ :: r, O => a :: r
  | x :: r, S k => x :: set_nth r k a
  end.

(* fn copy_used_subrs(used_subrs, src_subrs_index, dst_subr_index) *)
Fixpoint copy_used_subrs (used : list Z) (src dst : index) : outcome index :=
  match used with
  | [] => Ok dst
  | i :: r =>
    match nth_opt dst i with
    | Some (_ :: _) => copy_used_subrs r src dst                      (* already copied: continue *)
    | _ =>
      match nth_opt src i with
      | None => Err BadIndex
      | Some cs =>
        match nth_opt dst i with
        | None => Panic                                              (* dst_subr_index.data[subr_index] *)
        | Some _ => copy_used_subrs r src (set_nth dst (Z.to_nat i) cs)
        end
      end
    end
  end.

Definition empties (n : nat) : index := repeat [] n.

(* fn rebuild_global_subr_index(src, used_global_subrs) *)
Definition rebuild_global (src : index) (used : list Z) : outcome index :=
  match used with
  | [] => Ok []
  | _ => copy_used_subrs used src (empties (length src))
  end.

(* fn rebuild_type_1_local_subr_index(src, used_subrs_by_glyph) *)
Fixpoint copy_each (useds : list (list Z)) (src dst : index) : outcome index :=
  match useds with
  | [] => Ok dst
  | u :: r => d <- copy_used_subrs u src dst ;; copy_each r src d
  end.

Definition rebuild_type1_local (src : option index) (by_glyph : list (Z * list Z))
  : outcome (option index) :=
  match by_glyph with
  | [] => Ok None
  | _ =>
    match src with
    | None => Err BadIndex
    | Some s => d <- copy_each (map snd by_glyph) s (empties (length s)) ;; Ok (Some d)
    end
  end.

(* fn rebuild_local_subr_indices(cid, used_subrs_by_glyph) *)
Fixpoint rebuild_cid_locals_loop (fd_select : list Z) (locals : list (option index))
  (by_glyph : list (Z * list Z)) (acc : list (option index)) : outcome (list (option index)) :=
  match by_glyph with
  | [] => Ok acc
  | (g, used) :: r =>
    match nth_opt fd_select g with
    | None => Err BadIndex
    | Some fd =>
      match nth_opt locals fd with
      | Some (Some src) =>
        match nth_opt acc fd with
        | None => Panic                                              (* indices[index_of_local_subr_index] *)
        | Some cur =>
          let dst := match cur with Some d => d | None => empties (length src) end in
          d <- copy_used_subrs used src dst ;;
          rebuild_cid_locals_loop fd_select locals r (set_nth acc (Z.to_nat fd) (Some d))
        end
      | _ => Err BadIndex
      end
    end
  end.

Definition rebuild_cid_locals (fd_select : list Z) (n_private : Z) (locals : list (option index))
  (by_glyph : list (Z * list Z)) : outcome (list (option index)) :=
  rebuild_cid_locals_loop fd_select locals by_glyph (repeat None (Z.to_nat n_private)).

(* state of the loop `for &glyph_id in glyph_ids` *)
Record acc := mkAcc {
  a_data : index;                 (* glyph_data *)
  a_new_to_old : list Z;
  a_charset : list Z;
  a_fd : list Z;
  a_global : list Z;              (* used_global_subrs, in order of insertion *)
  a_local : list (Z * list Z)     (* used_local_subrs: glyph -> set *)
}.

Definition is_cid (v : variant) : bool := match v with VCID _ _ _ => true | _ => false end.

Definition subset_glyph (c : cff) (used : used_fn) (a : acc) (g : Z) : outcome acc :=
  match nth_opt (char_strings c) g with
  | None => Err BadIndex
  | Some cs =>
    u <- used g ;;
    let a_local' := match snd u with [] => a_local a | l => a_local a ++ [(g, l)] end in
    cs_id <- (if g =? 0 then Ok (a_charset a)
              else match nth_opt (charset c) g with
                   | Some sid => Ok (a_charset a ++ [sid])
                   | None => Err BadIndex
                   end) ;;
    fd <- (match var c with
           | VCID fds _ _ =>
             match nth_opt fds g with Some fd => Ok (a_fd a ++ [fd]) | None => Err BadIndex end
           | VType1 _ => Ok (a_fd a)
           end) ;;
    Ok (mkAcc (a_data a ++ [cs]) (a_new_to_old a ++ [g]) cs_id fd (a_global a ++ fst u) a_local')
  end.

Fixpoint subset_glyphs (c : cff) (used : used_fn) (a : acc) (ids : list Z) : outcome acc :=
  match ids with
  | [] => Ok a
  | g :: r => a' <- subset_glyph c used a g ;; subset_glyphs c used a' r
  end.

(* the charset written for a name-keyed font that stays name-keyed *)
Fixpoint iso_prefix (cs : list Z) (k : Z) (n : nat) : bool :=
  match cs, n with
  | [], _ => true
  | _, O => true                                   (* zip stops after ISO_ADOBE_LAST_SID pairs *)
  | s :: r, S m => (s =? k) && iso_prefix r (k + 1) m
  end.

Definition iso_adobe_charset (n_glyphs : Z) : list Z :=
  map Z.of_nat (seq 0 (Z.to_nat (Z.min n_glyphs (iso_adobe_last_sid + 1)))).

(* CFF::subset.  convert = convert_cff_to_cid_if_more_than_255_glyphs; the result is the new table
   and new_to_old_id *)
Definition cff_subset (c : cff) (used : used_fn) (ids : list Z) (convert : bool)
  : outcome (cff * list Z) :=
  a <- subset_glyphs c used (mkAcc [] [] [] [] [] []) ids ;;
  g' <- rebuild_global (global_subrs c) (a_global a) ;;
  v' <- (match var c with
         | VCID fds np locals =>
           l <- rebuild_cid_locals fds np locals (a_local a) ;; Ok (VCID (a_fd a) np l)
         | VType1 local =>
           l <- rebuild_type1_local local (a_local a) ;; Ok (VType1 l)
         end) ;;
  let n := len (a_data a) in
  if is_cid (var c) then Ok (mkCff (a_data a) g' (0 :: a_charset a) v', a_new_to_old a)
  else if convert && (255 <? n) then
    (* convert_type1_to_cid: one Font DICT for all glyphs, CID = glyph id *)
    if n <? 2 then Err BadIndex else
    match v' with
    | VType1 l =>
      Ok (mkCff (a_data a) g' (map Z.of_nat (seq 0 (Z.to_nat n)))
                (VCID (repeat 0 (Z.to_nat n)) 1 [l]), a_new_to_old a)
    | _ => Panic
    end
  else if iso_prefix (a_charset a) 1 (Z.to_nat iso_adobe_last_sid) then
    Ok (mkCff (a_data a) g' (iso_adobe_charset n) v', a_new_to_old a)
  else Ok (mkCff (a_data a) g' (0 :: a_charset a) v', a_new_to_old a).

(* what a callsubr/callgsubr operand resolves to: conv_subroutine_index with calc_subroutine_bias *)
Definition resolve (subrs : index) (operand : Z) : option bytes :=
  match subr_index operand (subr_bias (len subrs)) with
  | Some i => nth_opt subrs i
  | None => None
  end.
