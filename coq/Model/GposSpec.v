(* Model/GposSpec.v — declarative side of C05 (definitions only).
   * value formats: which fields a ValueRecord of format `fmt` carries (OpenType "ValueRecord" / valueFormat flags);
   * which glyph pairs the pair-wise iteration strategies visit;
   * pen positions of a laid-out run in both directions. *)
From AV Require Import Base.Prelude Model.Layout Model.LayoutSpec Model.Gpos Model.Position.
Open Scope Z_scope.

(* valueFormat flags of the OpenType specification *)
Definition VF_SPEC_X_PLACEMENT : Z := 1.      (* 0x0001 *)
Definition VF_SPEC_Y_PLACEMENT : Z := 2.      (* 0x0002 *)
Definition VF_SPEC_X_ADVANCE : Z := 4.        (* 0x0004 *)
Definition VF_SPEC_Y_ADVANCE : Z := 8.        (* 0x0008 *)

Definition has_flag (fmt mask : Z) : bool := negb (Z.land fmt mask =? 0).

(* number of 16-bit fields of a record of this format: one per flag among the low eight *)
Definition popcount8 (fmt : Z) : Z :=
  fold_left (fun acc k => if Z.testbit fmt k then acc + 1 else acc) (range 0 8) 0.

(* the record as the specification reads it *)
Definition value_record_spec (fmt : Z) (v : adjust) : option adjust :=
  if fmt =? 0 then None
  else Some (mkAdj (if has_flag fmt VF_SPEC_X_PLACEMENT then x_placement v else 0)
                   (if has_flag fmt VF_SPEC_Y_PLACEMENT then y_placement v else 0)
                   (if has_flag fmt VF_SPEC_X_ADVANCE then x_advance v else 0)
                   (if has_flag fmt VF_SPEC_Y_ADVANCE then y_advance v else 0)).

(* positions (ascending) of the glyphs a lookup does not skip *)
Fixpoint unskipped_positions (mt : match_type) (gd : option gdef) (ids : list Z) (k : Z) : list Z :=
  match ids with
  | [] => []
  | g :: t => if match_glyph mt gd g then k :: unskipped_positions mt gd t (k + 1) else unskipped_positions mt gd t (k + 1)
  end.

(* adjacent pairs of a list *)
Fixpoint adjacent (l : list Z) : list (Z * Z) :=
  match l with
  | a :: ((b :: _) as t) => (a, b) :: adjacent t
  | _ => []
  end.

(* ---- pen positions.  Horizontal layout; `ps` are the GlyphPositions in logical order.
   Left to right: the pen starts at 0 and advances after each glyph.
   Right to left: glyphs are laid out from the right edge; the pen moves left by the glyph's advance before the
   glyph is drawn (equivalently: the run is reversed and drawn left to right, up to a common translation). *)
Definition sum_adv (ps : list gpos_pos) : Z := fold_left (fun acc p => acc + hori_advance p) ps 0.

Definition pen_x (dir : direction) (ps : list gpos_pos) (i : Z) : Z :=
  match dir with
  | LeftToRight => sum_adv (take i ps)
  | RightToLeft => - sum_adv (take (i + 1) ps)
  end.

Definition glyph_x (dir : direction) (ps : list gpos_pos) (i : Z) : Z :=
  pen_x dir ps i + match nth_opt ps i with Some p => x_offset p | None => 0 end.
Definition glyph_y (ps : list gpos_pos) (i : Z) : Z :=
  match nth_opt ps i with Some p => y_offset p | None => 0 end.

(* attachment indices produced by GPOS point the right way: a mark is attached to an earlier glyph, a cursive
   glyph to a later one; both inside the run *)
Definition place_wf (n : Z) (i : Z) (p : placement) : Prop :=
  match p with
  | PMarkAnchor b _ _ => 0 <= b < i
  | PMarkOverprint b => 0 <= b < i
  | PCursiveAnchor e _ _ _ => i < e < n
  | _ => True
  end.

Fixpoint infos_wf_from (n : Z) (i : Z) (l : list info) : Prop :=
  match l with
  | [] => True
  | x :: t => place_wf n i (i_place x) /\ infos_wf_from n (i + 1) t
  end.

Definition infos_wf (l : list info) : Prop := infos_wf_from (len l) 0 l.

(* ---- lookup types 1 and 2 as scans *)
(* type 1: every glyph the lookup does not skip gets the record of the first subtable covering it *)
Definition singlepos_spec (mt : match_type) (gd : option gdef) (subs : list single_pos) (x : info) : outcome info :=
  if match_glyph mt gd (i_id x) then singlepos subs x else Ok x.

Fixpoint map_out {A B} (f : A -> outcome B) (l : list A) : outcome (list B) :=
  match l with
  | [] => Ok []
  | x :: t => y <- f x ;; t' <- map_out f t ;; Ok (y :: t')
  end.

(* type 2 (and 3): the action is applied to every pair of CONSECUTIVE unskipped glyphs, left to right; the
   second glyph of a pair is the first glyph of the next pair *)
Fixpoint fold_pairs (f : Z -> Z -> action) (pairs : list (Z * Z)) (l : list info) : outcome (list info) :=
  match pairs with
  | [] => Ok l
  | (a, b) :: t => l' <- f a b l ;; fold_pairs f t l'
  end.
