(* Model/ReaderExt.v — small compositions of reader operations used by the table models *)
From AV Require Import Base.Prelude Gen.ReaderPrims Model.Reader.
Open Scope Z_scope.

(* a run of individual `ctxt.read_xxx()?` calls *)
Fixpoint read_seq (t : list prim) (c : ctxt) : outcome (list Z * ctxt) :=
  match t with
  | [] => Ok ([], c)
  | p :: r => '(v, c1) <- read_prim p c ;; '(vs, c2) <- read_seq r c1 ;; Ok (v :: vs, c2)
  end.

(* items of a ReadArray, eagerly (iteration over a well-formed array cannot fail) *)
Definition read_records (t : ty) (c : ctxt) (n : Z) : outcome (list (list Z) * ctxt) :=
  '(a, c') <- read_array Debug t c n ;;
  items <- arr_to_vec Debug a ;;
  Ok (items, c').

