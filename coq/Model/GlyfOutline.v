(* Model/GlyfOutline.v — executable model of TrueType outline decoding in allsorts:
     src/tables/glyf.rs          SimpleGlyph::read_dep, SimpleGlyph::contours, CompositeGlyphs::read,
                                 CompositeGlyphComponent::read_dep, CompositeGlyph::read, Glyph::read,
                                 GlyfTable::read_dep (record splitting), get_parsed_glyph,
                                 From<CompositeGlyphScale> for Matrix2x2F
     src/tables/glyf/outline.rs  Contour::{new, get, first, last, calculate_origin, points}, Points::next,
                                 visit_simple_glyph_outline, visit_composite_glyph_outline, visit_outline,
                                 OutlineBuilder::visit
   written function by function after the code (as of the fix: commits of C16, see known/C16.json).
   Constants, flag masks, argument kinds, scale-test order, row_major argument order, the
   calculate_origin triples and the depth test come from Gen/GlyfConsts.v (regenerated from the source).

   Numbers.  glyf coordinates are i16; the only non-integral values an unscaled outline contains are
   midpoints of two i16 points.  Contour-level commands therefore carry DOUBLED integer coordinates
   (2x, 2y): lerp(a, b, 0.5) = (2a + 2b) / 2 in doubled units, exactly (and exactly in f32: the
   operands have at most 17 significant bits).  Transforms are exact rationals (Q, kept reduced by
   Qred); the implementation computes them in f32 — tied by correspondence with a tolerance.
   No proofs in this file. *)
From AV Require Import Base.Prelude Gen.GlyfConsts Model.GlyfSpec.   (* GlyfSpec: only the `cmd` type *)
From Coq Require Import QArith Qabs.
Open Scope Z_scope.

(* ---------------------------------------------------------------------------------------------- *)
(* byte cursor: the remaining bytes of the glyph's ReadScope (the reader itself is C14's subject)  *)

Definition rd_u8 (bs : list Z) : outcome (Z * list Z) :=
  match bs with [] => Err Eof | b :: r => Ok (b, r) end.
Definition rd_u16 (bs : list Z) : outcome (Z * list Z) :=
  match bs with a :: b :: r => Ok (a * 256 + b, r) | _ => Err Eof end.
Definition rd_i16 (bs : list Z) : outcome (Z * list Z) :=
  '(v, r) <- rd_u16 bs ;; Ok (to_signed 16 v, r).
Definition rd_i8 (bs : list Z) : outcome (Z * list Z) :=
  '(v, r) <- rd_u8 bs ;; Ok (to_signed 8 v, r).
(* read_slice(n) / a fixed-size tuple read: all-or-nothing *)
Definition rd_slice (n : Z) (bs : list Z) : outcome (list Z * list Z) :=
  if n <=? len bs then Ok (take n bs, drop n bs) else Err Eof.
Fixpoint u16s (n : nat) (bs : list Z) : list Z :=
  match n, bs with
  | S k, a :: b :: r => (a * 256 + b) :: u16s k r
  | _, _ => []
  end.
(* read_array::<U16Be>(n).to_vec() *)
Definition rd_u16_array (n : Z) (bs : list Z) : outcome (list Z * list Z) :=
  '(sl, r) <- rd_slice (2 * n) bs ;; Ok (u16s (Z.to_nat n) sl, r).

(* `flags & Self::K == Self::K` *)
Definition has (f k : Z) : bool := Z.land f k =? k.

(* ---------------------------------------------------------------------------------------------- *)
(* SimpleGlyph::read_dep                                                                           *)

(* the flag loop: `while coordinates.len() < number_of_coordinates`; a repeat run may run past the
   requested number (the extra entries stay in `coordinates`) *)
Fixpoint read_flags (need : Z) (bs : list Z) {struct bs} : outcome (list Z * list Z) :=
  if need <=? 0 then Ok ([], bs) else
  match bs with
  | [] => Err Eof
  | b :: bs1 =>
    let f := Z.land b SF_ALL in
    if has f sf_is_repeated then
      match bs1 with
      | [] => Err Eof
      | c :: bs2 =>
        '(fl, r) <- read_flags (need - (c + 1)) bs2 ;;
        Ok (repeat f (Z.to_nat (c + 1)) ++ fl, r)
      end
    else
      '(fl, r) <- read_flags (need - 1) bs1 ;; Ok (f :: fl, r)
  end.

Definition read_delta (is_short same_or_pos : bool) (sign_set sign_clear : Z) (bs : list Z)
  : outcome (Z * list Z) :=
  if is_short then
    '(v, r) <- rd_u8 bs ;; Ok (v * (if same_or_pos then sign_set else sign_clear), r)
  else if same_or_pos then Ok (0, bs)
  else rd_i16 bs.

Definition read_dx (f : Z) := read_delta (has f sf_x_is_short) (has f sf_x_is_same_or_positive)
                                         x_short_sign_set x_short_sign_clear.
Definition read_dy (f : Z) := read_delta (has f sf_y_is_short) (has f sf_y_is_same_or_positive)
                                         y_short_sign_set y_short_sign_clear.

(* first pass: x deltas for every entry of `coordinates` *)
Fixpoint read_xs (fl : list Z) (bs : list Z) : outcome (list Z * list Z) :=
  match fl with
  | [] => Ok ([], bs)
  | f :: fl' =>
    '(dx, bs1) <- read_dx f bs ;;
    '(rest, bs2) <- read_xs fl' bs1 ;;
    Ok (dx :: rest, bs2)
  end.

(* i16::checked_add(..).ok_or(ParseError::LimitExceeded) *)
Definition add_i16 (a b : Z) : outcome Z :=
  let s := a + b in
  if (-32768 <=? s) && (s <=? 32767) then Ok s else Err LimitExceeded.

(* second pass: y delta, then both running sums *)
Fixpoint read_ys (px py : Z) (fl dxs : list Z) (bs : list Z) : outcome (list (Z * Z) * list Z) :=
  match fl, dxs with
  | f :: fl', dx :: dxs' =>
    '(dy, bs1) <- read_dy f bs ;;
    x <- add_i16 px dx ;;
    y <- add_i16 py dy ;;
    '(rest, bs2) <- read_ys x y fl' dxs' bs1 ;;
    Ok ((x, y) :: rest, bs2)
  | _, _ => Ok ([], bs)
  end.

Definition point := (Z * (Z * Z))%type.          (* (flag, (x, y)) *)
Record simple_glyph := { sg_ends : list Z; sg_coords : list point }.

Fixpoint last_opt {A} (l : list A) : option A :=
  match l with [] => None | [x] => Some x | _ :: r => last_opt r end.

(* the three passes over the flag / x / y sections: `need` = number_of_coordinates *)
Definition read_points (need : Z) (bs : list Z) : outcome (list point * list Z) :=
  '(fl0, bs) <- read_flags need bs ;;
  (* `coordinates.truncate(number_of_coordinates)`: a repeat run past the last point leaves no
     surplus entries (and no x / y bytes are consumed for them) *)
  let fl := firstn (Z.to_nat need) fl0 in
  '(dxs, bs) <- read_xs fl bs ;;
  '(pts, bs) <- read_ys 0 0 fl dxs bs ;;
  Ok (combine fl pts, bs).

Definition read_simple (number_of_contours : Z) (bs : list Z) : outcome simple_glyph :=
  '(_, bs) <- rd_slice 8 bs ;;                               (* BoundingBox: four I16Be *)
  '(ends, bs) <- rd_u16_array number_of_contours bs ;;
  '(ilen, bs) <- rd_u16 bs ;;
  '(_, bs) <- rd_slice ilen bs ;;
  let n := match last_opt ends with None => 0 | Some l => l + 1 end in
  '(coords, _) <- read_points n bs ;;
  Ok {| sg_ends := ends; sg_coords := coords |}.

(* slice::get(start..=end) *)
Definition get_incl {A} (l : list A) (s e : Z) : option (list A) :=
  if (e + 1 <? s) || (len l <? e + 1) then None else Some (take (e + 1 - s) (drop s l)).

(* SimpleGlyph::contours: a scan that stops at the first range `get` rejects *)
Fixpoint contours {A} (start : Z) (ends : list Z) (coords : list A) : list (list A) :=
  match ends with
  | [] => []
  | e :: r =>
    match get_incl coords start e with
    | None => []
    | Some sl => sl :: contours (e + 1) r coords
    end
  end.

(* ---------------------------------------------------------------------------------------------- *)
(* outline.rs, mod contour.  Coordinates from here on are doubled.                                 *)

Definition pt := (Z * Z)%type.
Inductive cpoint := OnCurve (p : pt) | Control (p : pt).

(* Vector2F::from(Point), in half units *)
Definition dbl (p : Z * Z) : pt := (2 * fst p, 2 * snd p).
(* a.lerp(b, 0.5) = a + (b - a) * 0.5 *)
Definition lerp_half (a b : pt) : pt :=
  (fst a + (fst b - fst a) / LERP_DEN, snd a + (snd b - snd a) / LERP_DEN).

(* Contour::get — slice indexing panics outside the slice *)
Definition cp_get (c : list point) (i : Z) : outcome cpoint :=
  match nth_opt c i with
  | None => Panic
  | Some (f, p) => Ok (if has f sf_is_on_curve then OnCurve (dbl p) else Control (dbl p))
  end.

Definition origin_of (k : originkind) (first last : pt) : pt :=
  match k with OFirst => first | OLast => last | OMid => lerp_half first last end.

(* Contour::calculate_origin -> (origin, start, until) *)
Definition calculate_origin (c : list point) : outcome (pt * Z * Z) :=
  first <- cp_get c 0 ;;
  last <- (if len c - 1 <? 0 then Panic else cp_get c (len c - 1)) ;;     (* usize: len - 1 *)
  let mk (t : originkind * Z * Z) (f l : pt) :=
    let '(k, start, sub) := t in
    if len c - sub <? 0 then Panic else Ok (origin_of k f l, start, len c - sub) in
  match first, last with
  | OnCurve f, OnCurve l | OnCurve f, Control l => mk origin_on f l
  | Control f, OnCurve l => mk origin_offon f l
  | Control f, Control l => mk origin_offoff f l
  end.

(* the Points iterator *)
Record pstate := { p_i : Z; p_until : Z; p_mid : option pt }.

Definition points_next (c : list point) (st : pstate) : outcome (option cpoint * pstate) :=
  match p_mid st with
  | Some m => Ok (Some (OnCurve m), {| p_i := p_i st; p_until := p_until st; p_mid := None |})
  | None =>
    if p_until st <=? p_i st then Ok (None, st) else
    here <- cp_get c (p_i st) ;;
    match here with
    | OnCurve _ =>
      Ok (Some here, {| p_i := p_i st + 1; p_until := p_until st; p_mid := None |})
    | Control ctl =>
      if len c =? 0 then Panic else                                       (* % 0 *)
      nxt <- cp_get c ((p_i st + 1) mod len c) ;;
      match nxt with
      | OnCurve _ =>
        Ok (Some here, {| p_i := p_i st + 1; p_until := p_until st; p_mid := None |})
      | Control ctl2 =>
        Ok (Some here, {| p_i := p_i st + 1; p_until := p_until st;
                          p_mid := Some (lerp_half ctl ctl2) |})
      end
    end
  end.

(* the `while let Some(next) = points.next()` loop of visit_simple_glyph_outline.
   fuel: number of loop iterations allowed; Proofs show 2 * len + 2 is never exhausted *)
Fixpoint walk (fuel : nat) (c : list point) (origin : pt) (st : pstate) : outcome (list (cmd pt)) :=
  match fuel with
  | O => Panic
  | S fuel' =>
    '(nx, st1) <- points_next c st ;;
    match nx with
    | None => Ok []
    | Some (OnCurve to) =>
      r <- walk fuel' c origin st1 ;; Ok (Line to :: r)
    | Some (Control ctl) =>
      '(nx2, st2) <- points_next c st1 ;;
      match nx2 with
      | Some (OnCurve to) => r <- walk fuel' c origin st2 ;; Ok (Quad ctl to :: r)
      | Some (Control _) => Panic                                          (* unreachable! *)
      | None => Ok [Quad ctl origin]                                       (* wrap around; break *)
      end
    end
  end.

(* one iteration of `for points_and_flags in simple_glyph.contours()` *)
Definition contour_cmds (c : list point) : outcome (list (cmd pt)) :=
  if len c =? 0 then Panic else                                           (* assert! in Contour::new *)
  '(origin, start, until) <- calculate_origin c ;;
  body <- walk (2 * length c + 2) c origin {| p_i := start; p_until := until; p_mid := None |} ;;
  Ok (Move origin :: body ++ [Close]).

Fixpoint simple_cmds (cs : list (list point)) : outcome (list (cmd pt)) :=
  match cs with
  | [] => Ok []
  | c :: r =>
    a <- (if len c =? 0 then Ok [] else contour_cmds c) ;;                (* empty contour: continue *)
    b <- simple_cmds r ;;
    Ok (a ++ b)
  end.

Definition visit_simple (g : simple_glyph) : outcome (list (cmd pt)) :=
  simple_cmds (contours 0 (sg_ends g) (sg_coords g)).

(* ---------------------------------------------------------------------------------------------- *)
(* composite glyphs                                                                                *)

Inductive cscale := SScale (s : Z) | SXY (x y : Z) | SMatrix (a b c d : Z).   (* raw F2Dot14, file order *)
Record component := { c_flags : Z; c_gid : Z; c_arg1 : Z; c_arg2 : Z; c_scale : option cscale }.

Definition read_arg (k : argkind) (bs : list Z) : outcome (Z * list Z) :=
  match k with AU8 => rd_u8 bs | AI8 => rd_i8 bs | AU16 => rd_u16 bs | AI16 => rd_i16 bs end.

Definition read_scale_kind (k : scalekind) (bs : list Z) : outcome (cscale * list Z) :=
  match k with
  | KScale => '(s, bs) <- rd_i16 bs ;; Ok (SScale s, bs)
  | KXY => '(x, bs) <- rd_i16 bs ;; '(y, bs) <- rd_i16 bs ;; Ok (SXY x y, bs)
  | KMatrix =>
    '(a, bs) <- rd_i16 bs ;; '(b, bs) <- rd_i16 bs ;;
    '(c, bs) <- rd_i16 bs ;; '(d, bs) <- rd_i16 bs ;; Ok (SMatrix a b c d, bs)
  end.

Fixpoint read_scale (tests : list (Z * scalekind)) (flags : Z) (bs : list Z)
  : outcome (option cscale * list Z) :=
  match tests with
  | [] => Ok (None, bs)
  | (k, kind) :: r =>
    if has flags k then '(s, bs) <- read_scale_kind kind bs ;; Ok (Some s, bs)
    else read_scale r flags bs
  end.

(* CompositeGlyphComponent::read_dep *)
Definition read_component (flags : Z) (bs : list Z) : outcome (component * list Z) :=
  '(gid, bs) <- rd_u16 bs ;;
  let k := arg_kind (has flags cf_arg_1_and_2_are_words) (has flags cf_args_are_xy_values) in
  '(a1, bs) <- read_arg k bs ;;
  '(a2, bs) <- read_arg k bs ;;
  '(sc, bs) <- read_scale scale_tests flags bs ;;
  Ok ({| c_flags := flags; c_gid := gid; c_arg1 := a1; c_arg2 := a2; c_scale := sc |}, bs).

(* CompositeGlyphs::read; fuel bounds the number of components (each consumes >= 6 bytes) *)
Fixpoint read_components (fuel : nat) (bs : list Z) : outcome (list component * bool * list Z) :=
  match fuel with
  | O => Panic
  | S fuel' =>
    '(w, bs) <- rd_u16 bs ;;
    let flags := Z.land w CF_ALL in
    '(c, bs) <- read_component flags bs ;;
    let hi := has flags cf_we_have_instructions in
    if has flags cf_more_components then
      '(r, bs) <- read_components fuel' bs ;;
      let '(cs, hi') := r in Ok (c :: cs, hi || hi', bs)
    else Ok ([c], hi, bs)
  end.

(* CompositeGlyph::read *)
Definition read_composite (bs : list Z) : outcome (list component) :=
  '(_, bs) <- rd_slice 8 bs ;;
  '(r, bs) <- read_components (S (length bs)) bs ;;
  let '(cs, have_instructions) := r in
  '(ilen, bs) <- (if have_instructions then rd_u16 bs else Ok (0, bs)) ;;
  '(_, _) <- rd_slice ilen bs ;;
  Ok cs.

Inductive glyph := GEmpty | GSimple (g : simple_glyph) | GComposite (cs : list component).

(* Glyph::read *)
Definition read_glyph (bs : list Z) : outcome glyph :=
  '(nc, r) <- rd_i16 bs ;;
  if 0 <=? nc then g <- read_simple nc r ;; Ok (GSimple g)
  else cs <- read_composite r ;; Ok (GComposite cs).

(* a glyf table as split by loca: one byte string per glyph ([] = zero-length entry) *)
Definition table := list (list Z).

(* GlyfTable::read_dep: at least one glyph; the contour count of every non-empty record is read *)
Fixpoint check_records (t : table) : outcome unit :=
  match t with
  | [] => Ok tt
  | g :: r =>
    _ <- (match g with [] => Ok tt | _ => '(_, _) <- rd_i16 g ;; Ok tt end) ;;
    check_records r
  end.
Definition table_load (t : table) : outcome unit :=
  match t with [] => Err BadIndex | _ => check_records t end.

(* get_parsed_glyph *)
Definition get_parsed_glyph (t : table) (gid : Z) : outcome glyph :=
  match nth_opt t gid with
  | None => Err BadIndex
  | Some [] => Ok GEmpty
  | Some bs => read_glyph bs
  end.

(* ---- transforms (pathfinder Transform2F, exact) *)
Record xform := { m00 : Q; m01 : Q; m10 : Q; m11 : Q; vx : Q; vy : Q }.
Definition x_id : xform := {| m00 := 1; m01 := 0; m10 := 0; m11 := 1; vx := 0; vy := 0 |}.

(* Transform2F * Vector2F = matrix * v + vector *)
Definition x_apply (t : xform) (p : Q * Q) : Q * Q :=
  (Qred (m00 t * fst p + m01 t * snd p + vx t), Qred (m10 t * fst p + m11 t * snd p + vy t)).

(* Transform2F * Transform2F = { matrix: a.matrix * b.matrix, vector: a * b.vector } *)
Definition x_compose (a b : xform) : xform :=
  let v := x_apply a (vx b, vy b) in
  {| m00 := Qred (m00 a * m00 b + m01 a * m10 b);
     m01 := Qred (m00 a * m01 b + m01 a * m11 b);
     m10 := Qred (m10 a * m00 b + m11 a * m10 b);
     m11 := Qred (m10 a * m01 b + m11 a * m11 b);
     vx := fst v; vy := snd v |}.

(* f32::from(F2Dot14) *)
Definition f2dot14 (v : Z) : Q := Qred (Qmake v (Z.to_pos F2DOT14_DEN)).

(* matrix[i][j] of CompositeGlyphScale::Matrix([[a, b], [c, d]]) *)
Definition mat_entry (a b c d : Z) (ij : Z * Z) : Z :=
  match ij with
  | (0, 0) => a | (0, 1) => b | (1, 0) => c | (1, 1) => d
  | _ => 0
  end.

(* From<CompositeGlyphScale> for Matrix2x2F -> (m00, m01, m10, m11) *)
Definition scale_matrix (s : option cscale) : Q * Q * Q * Q :=
  match s with
  | None => (1, 0, 0, 1)%Q                                     (* Matrix2x2F::from_scale(1.0) *)
  | Some (SScale s) => (f2dot14 s, 0, 0, f2dot14 s)%Q
  | Some (SXY x y) => (f2dot14 x, 0, 0, f2dot14 y)%Q
  | Some (SMatrix a b c d) =>
    let e (k : nat) := f2dot14 (mat_entry a b c d (nth k row_major_args (0, 0))) in
    (e 0%nat, e 1%nat, e 2%nat, e 3%nat)
  end.

(* the component's own transform, as built in visit_composite_glyph_outline *)
Definition comp_xform (c : component) : xform :=
  let '(a, b, c', d) := scale_matrix (c_scale c) in
  let xy := has (c_flags c) cf_args_are_xy_values in
  {| m00 := a; m01 := b; m10 := c'; m11 := d;
     vx := if xy then inject_Z (c_arg1 c) else 0;              (* point numbers: TODO in the source *)
     vy := if xy then inject_Z (c_arg2 c) else 0 |}.

(* visit_outline / visit_composite_glyph_outline.  The result lists, in drawing order, every simple
   glyph instance reached together with the transform it is drawn under.  `cx` is comp_xform (a
   parameter only so that the correspondence driver can also evaluate magnitude bounds). *)
Fixpoint visit_outline (cx : component -> xform) (fuel : nat) (t : table) (gid : Z) (tr : xform)
         (depth : Z) : outcome (list (xform * list (cmd pt))) :=
  match fuel with
  | O => Panic
  | S fuel' =>
    if depth_exceeded depth then Err LimitExceeded else
    g <- get_parsed_glyph t gid ;;
    match g with
    | GEmpty => Ok []
    | GSimple sg => cs <- visit_simple sg ;; Ok [(tr, cs)]
    | GComposite comps =>
      (fix each (comps : list component) : outcome (list (xform * list (cmd pt))) :=
         match comps with
         | [] => Ok []
         | c :: r =>
           a <- visit_outline cx fuel' t (c_gid c) (x_compose tr (cx c)) (depth + DEPTH_STEP) ;;
           b <- each r ;;
           Ok (a ++ b)
         end) comps
    end
  end.

Definition map_cmd {A B} (f : A -> B) (c : cmd A) : cmd B :=
  match c with
  | Move p => Move (f p) | Line p => Line (f p) | Quad c p => Quad (f c) (f p) | Close => Close
  end.

Definition half (p : pt) : Q * Q := (Qmake (fst p) 2, Qmake (snd p) 2).

Definition render (insts : list (xform * list (cmd pt))) : list (cmd (Q * Q)) :=
  flat_map (fun i => map (map_cmd (fun p => x_apply (fst i) (half p))) (snd i)) insts.

Definition VISIT_FUEL : nat := S (S (Z.to_nat RECURSION_LIMIT)).

(* GlyfTable::read_dep followed by OutlineBuilder::visit *)
Definition visit_insts (cx : component -> xform) (t : table) (gid : Z)
  : outcome (list (xform * list (cmd pt))) :=
  _ <- table_load t ;;
  visit_outline cx VISIT_FUEL t gid x_id DEPTH_START.

Definition visit (t : table) (gid : Z) : outcome (list (cmd (Q * Q))) :=
  insts <- visit_insts comp_xform t gid ;; Ok (render insts).

(* for the correspondence driver only: entry-wise absolute values, to bound rounding errors *)
Definition x_abs (t : xform) : xform :=
  {| m00 := Qabs (m00 t); m01 := Qabs (m01 t); m10 := Qabs (m10 t); m11 := Qabs (m11 t);
     vx := Qabs (vx t); vy := Qabs (vy t) |}.
Definition visit_bounds (t : table) (gid : Z) := visit_insts (fun c => x_abs (comp_xform c)) t gid.

(* ---------------------------------------------------------------------------------------------- *)
(* specification-side view of a component (used by the theorems and by the correspondence judge)   *)

Definition sscale_of (c : component) : sscale :=
  match c_scale c with
  | None => NoScale
  | Some (SScale s) => Uniform s
  | Some (SXY x y) => XYScale x y
  | Some (SMatrix a b c d) => TwoByTwo a b c d
  end.

(* the class the source documents as not implemented (TODOs): point-number arguments, and offsets
   that are to be scaled (SCALED_COMPONENT_OFFSET without UNSCALED_COMPONENT_OFFSET, on a component
   that has a scale) *)
Definition scaled_offset_requested (c : component) : bool :=
  has (c_flags c) CF_SCALED_COMPONENT_OFFSET && negb (has (c_flags c) CF_UNSCALED_COMPONENT_OFFSET) &&
  match c_scale c with Some _ => true | None => false end.
Definition supported (c : component) : bool :=
  has (c_flags c) cf_args_are_xy_values && negb (scaled_offset_requested c).

(* the transform the OpenType specification prescribes for a supported component, as an xform
   (spec_transform of GlyfSpec.v: no Gen constants); the excluded class stays as coded *)
Definition spec_xform (c : component) : xform :=
  if supported c then
    let o := spec_transform (sscale_of c) (c_arg1 c) (c_arg2 c) (0, 0)%Q in
    let ex := spec_transform (sscale_of c) (c_arg1 c) (c_arg2 c) (1, 0)%Q in
    let ey := spec_transform (sscale_of c) (c_arg1 c) (c_arg2 c) (0, 1)%Q in
    {| m00 := Qred (fst ex - fst o); m01 := Qred (fst ey - fst o);
       m10 := Qred (snd ex - snd o); m11 := Qred (snd ey - snd o);
       vx := Qred (fst o); vy := Qred (snd o) |}
  else comp_xform c.
