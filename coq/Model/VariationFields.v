(* Model/VariationFields.v — the fields of OS/2, hhea, vhea and post that an MVAR table controls,
   named after the Rust paths process_mvar assigns to (src/variations.rs).  Hand-written: the
   translator maps each arm of process_mvar onto these names and reports BROKEN for any other path. *)
Inductive mvar_field : Type :=
| F_os2_version0_v0_s_typo_ascender
| F_os2_version0_v0_s_typo_descender
| F_os2_version0_v0_s_typo_line_gap
| F_os2_version0_v0_us_win_ascent
| F_os2_version0_v0_us_win_descent
| F_vhea_vhea_ascender
| F_vhea_vhea_descender
| F_vhea_vhea_line_gap
| F_hhea_caret_slope_rise
| F_hhea_caret_slope_run
| F_hhea_caret_offset
| F_vhea_vhea_caret_slope_rise
| F_vhea_vhea_caret_slope_run
| F_vhea_vhea_caret_offset
| F_os2_version2to4_version_sx_height
| F_os2_version2to4_version_s_cap_height
| F_os2_y_subscript_x_size
| F_os2_y_subscript_y_size
| F_os2_y_subscript_x_offset
| F_os2_y_subscript_y_offset
| F_os2_y_superscript_x_size
| F_os2_y_superscript_y_size
| F_os2_y_superscript_x_offset
| F_os2_y_superscript_y_offset
| F_os2_y_strikeout_size
| F_os2_y_strikeout_position
| F_post_header_underline_thickness
| F_post_header_underline_position.
Inductive mvar_kind : Type := KI16 | KU16.
