(* Model/FvarTable.v — the `fvar` table as bytes: FvarTable::read, FvarTable::axes / axis_count,
   FvarTable::normalize on the parsed table, FvarTable::owned_tuple's length check and the tuple
   that variations::instance returns (src/tables/variable_fonts/fvar.rs, src/variations.rs), on top
   of the shared reader model (Model/Reader.v: read_array_stride, ReadArrayIter).  Also the byte
   layout (`fvar_encode`) that the harness synthesises from a SHAPE, used to state that parsing
   steps by the header's axisSize whatever its value.  No proofs in this file. *)
From AV Require Import Base.Prelude Gen.ReaderPrims Model.Reader Model.ReaderExt Model.Normalize.
Open Scope Z_scope.

(* VariationAxisRecord: ((U32Be, Fixed, Fixed), (Fixed, U16Be, U16Be)); Fixed reads as I32Be *)
Definition axis_ty : ty := [PU32; PI32; PI32; PI32; PU16; PU16].

Record fvar := {
  f_axes : rarray;            (* axes: ReadArray<VariationAxisRecord> with stride axisSize *)
  f_icount : Z;               (* instance_count *)
  f_isize : Z;                (* instance_size *)
  f_inst : list Z             (* instance_array *)
}.

(* impl ReadBinary for FvarTable *)
Definition fvar_read (m : mode) (b : list Z) : outcome fvar :=
  let s := scope_new b in
  let c := ctxt_new s in
  '(major, c) <- read_prim PU16 c ;;
  if negb (major =? 1) then Err BadVersion            (* check_version *)
  else
    '(h, c) <- read_seq [PU16; PU16; PU16; PU16; PU16; PU16; PU16] c ;;
    (* minor, axesArrayOffset, reserved, axisCount, axisSize, instanceCount, instanceSize *)
    let axes_off := nthZ h 1 in
    let axis_count := nthZ h 3 in
    let axis_size := nthZ h 4 in
    let icount := nthZ h 5 in
    let isize := nthZ h 6 in
    ilen <- umul m icount isize ;;
    s' <- scope_offset m s axes_off ;;
    let dc := ctxt_new s' in
    '(arr, dc) <- read_array_stride m axis_ty dc axis_count axis_size ;;
    '(inst, dc) <- read_slice m dc ilen ;;
    Ok {| f_axes := arr; f_icount := icount; f_isize := isize; f_inst := inst |}.

(* FvarTable::axis_count: self.axes.len() *)
Definition fvar_axis_count (f : fvar) : Z := a_len (f_axes f).

(* FvarTable::axes(): self.axes.iter(), each record reduced to (min, default, max) *)
Definition axis_triple (r : list Z) : Z * Z * Z := (nthZ r 1, nthZ r 2, nthZ r 3).
Definition fvar_axes (m : mode) (f : fvar) : outcome (list (Z * Z * Z)) :=
  v <- arr_to_vec m (f_axes f) ;; Ok (map axis_triple v).

(* FvarTable::normalize on a parsed table: the length check is against axis_count(), the axes
   come from the strided iterator *)
Definition fvar_normalize_tbl (m : mode) (f : fvar) (coords : list Z)
           (avar : option (list (list (Z * Z)))) : outcome (list Z) :=
  if negb (len coords =? fvar_axis_count f) then Err BadValue
  else axes <- fvar_axes m f ;; normalize_axes axes coords avar.

(* FvarTable::owned_tuple: Some iff the number of values is axis_count *)
Definition fvar_owned_tuple (f : fvar) (vals : list Z) : option (list Z) :=
  if len vals =? fvar_axis_count f then Some vals else None.

(* FvarTable::instances().nth(k), reduced to the record's coordinates: the record is the k-th
   instanceSize-byte cell of instance_array, read as subfamilyNameID, flags, axisCount Fixed values
   and, when the record is larger than that, postScriptNameID.  None: no such record. *)
Definition coord_ty : ty := [PI32].
Definition fvar_instance_coords (m : mode) (f : fvar) (k : Z) : outcome (option (list Z)) :=
  if (0 <=? k) && (k <? f_icount f) then
    o <- umul m k (f_isize f) ;;
    e <- uadd m o (f_isize f) ;;
    if e <=? len (f_inst f) then                       (* instance_array.get(o..e).ok_or(BadIndex) *)
      let c := ctxt_new (scope_new (take (f_isize f) (drop o (f_inst f)))) in
      '(_, c) <- read_prim PU16 c ;;
      '(_, c) <- read_prim PU16 c ;;
      '(arr, c) <- read_array m coord_ty c (fvar_axis_count f) ;;
      _ <- (if fvar_axis_count f * 4 + 4 <? f_isize f
            then '(ps, _) <- read_prim PU16 c ;; Ok ps else Ok 0) ;;
      v <- arr_to_vec m arr ;;
      Ok (Some (map (fun r => nthZ r 0) v))
    else Err BadIndex
  else Ok None.

(* the tuple returned by variations::instance for a font whose other tables are in order:
   read fvar, (avar is read by the caller), fvar.normalize(user_instance, avar) *)
Definition instance_tuple (m : mode) (fvar_bytes : list Z) (coords : list Z)
           (avar : option (list (list (Z * Z)))) : outcome (list Z) :=
  f <- fvar_read m fvar_bytes ;; fvar_normalize_tbl m f coords avar.

(* ------------------------------------------------------------------------------------------
   The byte layout synthesised by the harness.  SHAPE = what the header says and what follows
   the records; the records themselves are written at max(off,16) with max(asz,20) bytes each
   (20 bytes of record, then filler), so a header with off < 16 or asz < 20 describes a
   malformed table.  Then icnt instance records of exactly isz bytes each (enc_inst), then
   `trail` more bytes, or the last -trail bytes cut off. *)
Record shape := {
  sh_major : Z; sh_off : Z; sh_asz : Z; sh_dcount : Z; sh_icnt : Z; sh_isz : Z; sh_trail : Z
}.

(* deterministic non-zero filler: byte i of a gap salted with k *)
Definition pad (k : Z) (n : Z) : list Z :=
  map (fun i => ((k + i) * 37 + 165) mod 256) (range 0 (Z.to_nat n)).

Definition u16b (v : Z) : list Z := be_bytes 2 (v mod 65536).
Definition u32b (v : Z) : list Z := be_bytes 4 (v mod 4294967296).

(* one axis = (tag, min, default, max) *)
Definition axis4 := (Z * Z * Z * Z)%type.
Definition axis4_triple (a : axis4) : Z * Z * Z := let '(_, mn, df, mx) := a in (mn, df, mx).

Definition enc_axis (asz : Z) (i : Z) (a : axis4) : list Z :=
  let '(tg, mn, df, mx) := a in
  u32b tg ++ u32b mn ++ u32b df ++ u32b mx ++ u16b 0 ++ u16b (256 + i) ++ pad i (asz - 20).

Fixpoint enc_axes (asz : Z) (i : Z) (axes : list axis4) : list Z :=
  match axes with
  | [] => []
  | a :: r => enc_axis asz i a ++ enc_axes asz (i + 1) r
  end.

(* instance record i: subfamilyNameID 300+i, flags 0, for axis j one of min / default / max /
   midpoint of that axis (so named instances sit on the boundaries), then filler; always exactly
   instanceSize bytes, i.e. cut short when instanceSize < 4 + 4*axisCount *)
Definition inst_coord (i j : Z) (a : axis4) : Z :=
  let '(_, mn, df, mx) := a in
  let r := (i + j) mod 4 in
  if r =? 0 then mn else if r =? 1 then df else if r =? 2 then mx else (mn + mx) / 2.
Fixpoint inst_coords (i j : Z) (axes : list axis4) : list Z :=
  match axes with
  | [] => []
  | a :: r => inst_coord i j a :: inst_coords i (j + 1) r
  end.
Definition enc_inst (isz : Z) (axes : list axis4) (i : Z) : list Z :=
  take isz (u16b (300 + i) ++ u16b 0 ++ concat (map u32b (inst_coords i 0 axes)) ++
            pad i (isz - 4 - 4 * len axes)).
Definition enc_insts (icnt isz : Z) (axes : list axis4) : list Z :=
  concat (map (enc_inst isz axes) (range 0 (Z.to_nat icnt))).

Definition fvar_encode (sh : shape) (axes : list axis4) : list Z :=
  let body :=
    u16b (sh_major sh) ++ u16b 0 ++ u16b (sh_off sh) ++ u16b 2 ++
    u16b (len axes + sh_dcount sh) ++ u16b (sh_asz sh) ++ u16b (sh_icnt sh) ++ u16b (sh_isz sh) ++
    pad 0 (sh_off sh - 16) ++
    enc_axes (sh_asz sh) 0 axes ++
    enc_insts (sh_icnt sh) (sh_isz sh) axes in
  if 0 <=? sh_trail sh then body ++ pad 3 (sh_trail sh)
  else take (Z.max 0 (len body + sh_trail sh)) body.

(* the cases of the correspondence harness *)
Definition case_normalize (m : mode) (sh : shape) (axes : list axis4) (coords : list Z)
           (avar : option (list (list (Z * Z)))) : outcome (list Z) :=
  f <- fvar_read m (fvar_encode sh axes) ;; fvar_normalize_tbl m f coords avar.
Definition case_instance (m : mode) (sh : shape) (axes : list axis4) (coords : list Z)
           (avar : option (list (list (Z * Z)))) : outcome (list Z) :=
  instance_tuple m (fvar_encode sh axes) coords avar.
Definition case_owned_tuple (m : mode) (sh : shape) (axes : list axis4) (k : Z) : outcome Z :=
  f <- fvar_read m (fvar_encode sh axes) ;;
  Ok (match fvar_owned_tuple f (map (fun _ => 0) (range 0 (Z.to_nat k))) with Some _ => 1 | None => 0 end).

(* the user tuple is named instance k of the table itself (fvar.instances().nth(k)), normalised by
   FvarTable::normalize / handed to variations::instance; no such instance: MissingValue *)
Definition case_named (m : mode) (sh : shape) (axes : list axis4) (k : Z)
           (avar : option (list (list (Z * Z)))) : outcome (list Z) :=
  f <- fvar_read m (fvar_encode sh axes) ;;
  r <- fvar_instance_coords m f k ;;
  match r with
  | None => Err MissingValue
  | Some coords => fvar_normalize_tbl m f coords avar
  end.
