(* Model/Type2.v -- executable model of the Type 2 charstring interpreter of allsorts:
     src/cff/charstring.rs        CharStringVisitorContext::visit / visit_impl, parse_int1/2/3, parse_fixed,
                                  conv_subroutine_index(_impl), (calc_subroutine_bias comes from Gen)
     src/cff/charstring/argstack.rs  ArgumentsStack (push with limit, pop, clear, offset)
     src/cff/outline/charstring.rs   CharStringParser::parse_* (one Gallina function each)
     src/cff/outline.rs           CharStringParser as CharStringVisitor (dispatch comes from Gen),
                                  Builder (bbox), parse_char_string, CFF / CFF2Outlines visit
     src/cff/cff2.rs              blend, BlendOperand for f32 (src/cff.rs)
     src/cff.rs                   Font::seac_code_to_glyph_id, Charset::sid_to_gid, CustomCharset::sid_to_gid
                                  (format 0) and glyph_id_for_sid_in_ranges (formats 1 and 2)
   Numbers.  The implementation computes in f32.  The model computes with exact rationals whose
   denominator divides UNIT = 2^48, represented by their numerator (a Z): an integer operand n is
   n*UNIT, a 16.16 operand with raw i32 value r is r*2^32, a blend scalar is a multiple of 2^-32.
   f32 arithmetic is exact on the values the correspondence marks "exact" (integers below 2^24);
   otherwise the driver compares with a tolerance.
   No proofs here. *)
From AV Require Import Base.Prelude Gen.Type2Consts.
Open Scope Z_scope.

(* ---------- results ---------- *)
Inductive cfferr : Type :=
| EParse (e : err) | EInvalidOperator | EInvalidOperand | EUnsupportedOperator | EMissingEndChar
| EDataAfterEndChar | ENestingLimitReached | EArgumentsStackLimitReached
| EInvalidArgumentsStackLength | EBboxOverflow | EMissingMoveTo | EDuplicateVsIndex
| EInvalidSubroutineIndex | EInvalidFontIndex | ENoLocalSubroutines | EInvalidSeacCode
| EVsIndexAfterBlend | EMissingVariationStore.

(* CFuel: the model's recursion budget ran out (proved unreachable from run_glyph) *)
Inductive cres (A : Type) : Type := COk (a : A) | CErr (e : cfferr) | CPanic | CFuel.
Arguments COk {A} a. Arguments CErr {A} e. Arguments CPanic {A}. Arguments CFuel {A}.

Definition cbind {A B} (x : cres A) (f : A -> cres B) : cres B :=
  match x with COk a => f a | CErr e => CErr e | CPanic => CPanic | CFuel => CFuel end.
Notation "x <~ e1 ;; e2" := (cbind e1 (fun x => e2))
  (at level 61, e1 at next level, right associativity).
Notation "' p <~ e1 ;; e2" := (cbind e1 (fun p => e2))
  (at level 61, p pattern, e1 at next level, right associativity).

(* ---------- numbers ---------- *)
Definition SDEN : Z := 4294967296.          (* 2^32: denominator of blend scalars *)
Definition UNIT : Z := 65536 * SDEN.        (* 2^48 *)
Definition of_int (n : Z) : Z := n * UNIT.
Definition of_fixed (raw : Z) : Z := raw * SDEN.
Definition I32_MIN : Z := -2147483648.
Definition I32_MAX : Z := 2147483647.

(* i32::try_num_from(f32): range test, then `as i32` (truncation toward zero) *)
Definition try_as_i32 (v : Z) : option Z :=
  if (I32_MIN * UNIT <=? v) && (v <? (I32_MAX + 1) * UNIT) then Some (Z.quot v UNIT) else None.
(* f32::try_as_u8 = u8::try_num_from *)
Definition try_as_u8 (v : Z) : option Z :=
  match try_as_i32 v with
  | Some t => if (0 <=? t) && (t <=? 255) then Some t else None
  | None => None
  end.
(* f32::try_as_u16: fract() == 0, then saturating `as i32`, then u16::try_from *)
Definition try_as_u16 (v : Z) : option Z :=
  if v mod UNIT =? 0 then
    let t := v / UNIT in
    let t := if t <? I32_MIN then I32_MIN else if I32_MAX <? t then I32_MAX else t in
    if (0 <=? t) && (t <=? 65535) then Some t else None
  else None.

(* conv_subroutine_index / conv_subroutine_index_impl *)
Definition conv_subroutine_index (v : Z) (bias : Z) : cres Z :=
  match try_as_i32 v with
  | None => CErr EInvalidSubroutineIndex
  | Some i =>
    let s := i + bias in
    if I32_MAX <? s then CErr EInvalidSubroutineIndex      (* checked_add *)
    else if s <? 0 then CErr EInvalidSubroutineIndex       (* usize::try_from *)
    else COk s
  end.

(* ---------- the outline sink's view ---------- *)
Inductive cmd : Type :=
| MoveTo (x y : Z) | LineTo (x y : Z) | CurveTo (x1 y1 x2 y2 x y : Z) | Close.

(* CharStringParser (without the builder: every parse function returns the commands it emits) *)
Record pst : Type := mkP { px : Z; py : Z; has_move : bool; first_move : bool }.
Definition pst0 : pst := mkP 0 0 false true.
Definition set_xy (p : pst) (x y : Z) : pst := mkP x y (has_move p) (first_move p).

Definition pres : Type := cres (pst * list cmd).

Definition do_move (p : pst) (x y : Z) : pst * list cmd :=
  (mkP x y true false, (if first_move p then [] else [Close]) ++ [MoveTo x y]).

Definition parse_move_to (p : pst) (a : list Z) : pres :=
  match a with
  | [dx; dy] => COk (do_move p (px p + dx) (py p + dy))
  | _ => CErr EInvalidArgumentsStackLength
  end.
Definition parse_horizontal_move_to (p : pst) (a : list Z) : pres :=
  match a with
  | [dx] => COk (do_move p (px p + dx) (py p))
  | _ => CErr EInvalidArgumentsStackLength
  end.
Definition parse_vertical_move_to (p : pst) (a : list Z) : pres :=
  match a with
  | [dy] => COk (do_move p (px p) (py p + dy))
  | _ => CErr EInvalidArgumentsStackLength
  end.

Fixpoint lines (x y : Z) (a : list Z) : Z * Z * list cmd :=
  match a with
  | dx :: dy :: r =>
    let '(xf, yf, c) := lines (x + dx) (y + dy) r in (xf, yf, LineTo (x + dx) (y + dy) :: c)
  | _ => (x, y, [])
  end.

Definition parse_line_to (p : pst) (a : list Z) : pres :=
  if negb (has_move p) then CErr EMissingMoveTo else
  if Z.odd (len a) then CErr EInvalidArgumentsStackLength else
  let '(x, y, c) := lines (px p) (py p) a in COk (set_xy p x y, c).

Fixpoint alt_lines (horiz : bool) (x y : Z) (a : list Z) : Z * Z * list cmd :=
  match a with
  | d :: r =>
    let x' := if horiz then x + d else x in
    let y' := if horiz then y else y + d in
    let '(xf, yf, c) := alt_lines (negb horiz) x' y' r in (xf, yf, LineTo x' y' :: c)
  | [] => (x, y, [])
  end.

Definition parse_horizontal_line_to (p : pst) (a : list Z) : pres :=
  if negb (has_move p) then CErr EMissingMoveTo else
  match a with
  | [] => CErr EInvalidArgumentsStackLength
  | _ => let '(x, y, c) := alt_lines true (px p) (py p) a in COk (set_xy p x y, c)
  end.
Definition parse_vertical_line_to (p : pst) (a : list Z) : pres :=
  if negb (has_move p) then CErr EMissingMoveTo else
  match a with
  | [] => CErr EInvalidArgumentsStackLength
  | _ => let '(x, y, c) := alt_lines false (px p) (py p) a in COk (set_xy p x y, c)
  end.

Fixpoint curves (x y : Z) (a : list Z) : Z * Z * list cmd :=
  match a with
  | d1 :: d2 :: d3 :: d4 :: d5 :: d6 :: r =>
    let x1 := x + d1 in let y1 := y + d2 in
    let x2 := x1 + d3 in let y2 := y1 + d4 in
    let x3 := x2 + d5 in let y3 := y2 + d6 in
    let '(xf, yf, c) := curves x3 y3 r in (xf, yf, CurveTo x1 y1 x2 y2 x3 y3 :: c)
  | _ => (x, y, [])
  end.

Definition parse_curve_to (p : pst) (a : list Z) : pres :=
  if negb (has_move p) then CErr EMissingMoveTo else
  if negb (len a mod 6 =? 0) then CErr EInvalidArgumentsStackLength else
  let '(x, y, c) := curves (px p) (py p) a in COk (set_xy p x y, c).

Definition parse_curve_line (p : pst) (a : list Z) : pres :=
  if negb (has_move p) then CErr EMissingMoveTo else
  if len a <? 8 then CErr EInvalidArgumentsStackLength else
  if negb ((len a - 2) mod 6 =? 0) then CErr EInvalidArgumentsStackLength else
  let '(x, y, c) := curves (px p) (py p) (take (len a - 2) a) in
  let '(x', y', c') := lines x y (drop (len a - 2) a) in
  COk (set_xy p x' y', c ++ c').

Definition parse_line_curve (p : pst) (a : list Z) : pres :=
  if negb (has_move p) then CErr EMissingMoveTo else
  if len a <? 8 then CErr EInvalidArgumentsStackLength else
  if Z.odd (len a - 6) then CErr EInvalidArgumentsStackLength else
  let '(x, y, c) := lines (px p) (py p) (take (len a - 6) a) in
  let '(x', y', c') := curves x y (drop (len a - 6) a) in
  COk (set_xy p x' y', c ++ c').

Fixpoint hh_curves (x y : Z) (a : list Z) : Z * Z * list cmd :=
  match a with
  | d1 :: d2 :: d3 :: d4 :: r =>
    let x1 := x + d1 in let y1 := y in
    let x2 := x1 + d2 in let y2 := y1 + d3 in
    let x3 := x2 + d4 in let y3 := y2 in
    let '(xf, yf, c) := hh_curves x3 y3 r in (xf, yf, CurveTo x1 y1 x2 y2 x3 y3 :: c)
  | _ => (x, y, [])
  end.

Definition parse_hh_curve_to (p : pst) (a : list Z) : pres :=
  if negb (has_move p) then CErr EMissingMoveTo else
  let '(y0, a') := if Z.odd (len a) then (py p + hd 0 a, tl a) else (py p, a) in
  if negb (len a' mod 4 =? 0) then CErr EInvalidArgumentsStackLength else
  let '(x, y, c) := hh_curves (px p) y0 a' in COk (set_xy p x y, c).

Fixpoint vv_curves (x y : Z) (a : list Z) : Z * Z * list cmd :=
  match a with
  | d1 :: d2 :: d3 :: d4 :: r =>
    let x1 := x in let y1 := y + d1 in
    let x2 := x1 + d2 in let y2 := y1 + d3 in
    let x3 := x2 in let y3 := y2 + d4 in
    let '(xf, yf, c) := vv_curves x3 y3 r in (xf, yf, CurveTo x1 y1 x2 y2 x3 y3 :: c)
  | _ => (x, y, [])
  end.

Definition parse_vv_curve_to (p : pst) (a : list Z) : pres :=
  if negb (has_move p) then CErr EMissingMoveTo else
  let '(x0, a') := if Z.odd (len a) then (px p + hd 0 a, tl a) else (px p, a) in
  if negb (len a' mod 4 =? 0) then CErr EInvalidArgumentsStackLength else
  let '(x, y, c) := vv_curves x0 (py p) a' in COk (set_xy p x y, c).

(* the loop of parse_hv_curve_to / parse_vh_curve_to: the Rust copies the stack into `temp`,
   reverses it and pops, i.e. consumes the arguments front to back; `horiz` says whether the next
   curve starts horizontally *)
Fixpoint hv_curves (horiz : bool) (x y : Z) (a : list Z) : cres (Z * Z * list cmd) :=
  match a with
  | [] => COk (x, y, [])
  | d1 :: d2 :: d3 :: d4 :: r =>
    if horiz then
      let x1 := x + d1 in let y1 := y in
      let x2 := x1 + d2 in let y2 := y1 + d3 in
      let y3 := y2 + d4 in
      match r with
      | [d5] => COk (x2 + d5, y3, [CurveTo x1 y1 x2 y2 (x2 + d5) y3])
      | _ => '(xf, yf, c) <~ hv_curves false x2 y3 r ;; COk (xf, yf, CurveTo x1 y1 x2 y2 x2 y3 :: c)
      end
    else
      let x1 := x in let y1 := y + d1 in
      let x2 := x1 + d2 in let y2 := y1 + d3 in
      let x3 := x2 + d4 in
      match r with
      | [d5] => COk (x3, y2 + d5, [CurveTo x1 y1 x2 y2 x3 (y2 + d5)])
      | _ => '(xf, yf, c) <~ hv_curves true x3 y2 r ;; COk (xf, yf, CurveTo x1 y1 x2 y2 x3 y2 :: c)
      end
  | _ => CErr EInvalidArgumentsStackLength
  end.

Definition parse_hv_vh (horiz : bool) (p : pst) (a : list Z) : pres :=
  if negb (has_move p) then CErr EMissingMoveTo else
  if len a <? 4 then CErr EInvalidArgumentsStackLength else
  if TEMP_OPERANDS <? len a then CPanic                        (* clone_into: temp[..len] *)
  else '(x, y, c) <~ hv_curves horiz (px p) (py p) a ;; COk (set_xy p x y, c).
Definition parse_hv_curve_to := parse_hv_vh true.
Definition parse_vh_curve_to := parse_hv_vh false.

Definition parse_flex (p : pst) (a : list Z) : pres :=
  if negb (has_move p) then CErr EMissingMoveTo else
  match a with
  | [a0; a1; a2; a3; a4; a5; a6; a7; a8; a9; a10; a11; _] =>
    let dx1 := px p + a0 in let dy1 := py p + a1 in
    let dx2 := dx1 + a2 in let dy2 := dy1 + a3 in
    let dx3 := dx2 + a4 in let dy3 := dy2 + a5 in
    let dx4 := dx3 + a6 in let dy4 := dy3 + a7 in
    let dx5 := dx4 + a8 in let dy5 := dy4 + a9 in
    let x := dx5 + a10 in let y := dy5 + a11 in
    COk (set_xy p x y, [CurveTo dx1 dy1 dx2 dy2 dx3 dy3; CurveTo dx4 dy4 dx5 dy5 x y])
  | _ => CErr EInvalidArgumentsStackLength
  end.

Definition parse_flex1 (p : pst) (a : list Z) : pres :=
  if negb (has_move p) then CErr EMissingMoveTo else
  match a with
  | [a0; a1; a2; a3; a4; a5; a6; a7; a8; a9; a10] =>
    let dx1 := px p + a0 in let dy1 := py p + a1 in
    let dx2 := dx1 + a2 in let dy2 := dy1 + a3 in
    let dx3 := dx2 + a4 in let dy3 := dy2 + a5 in
    let dx4 := dx3 + a6 in let dy4 := dy3 + a7 in
    let dx5 := dx4 + a8 in let dy5 := dy4 + a9 in
    let '(x, y) := if Z.abs (dy5 - py p) <? Z.abs (dx5 - px p)
                   then (dx5 + a10, py p) else (px p, dy5 + a10) in
    COk (set_xy p x y, [CurveTo dx1 dy1 dx2 dy2 dx3 dy3; CurveTo dx4 dy4 dx5 dy5 x y])
  | _ => CErr EInvalidArgumentsStackLength
  end.

Definition parse_hflex (p : pst) (a : list Z) : pres :=
  if negb (has_move p) then CErr EMissingMoveTo else
  match a with
  | [a0; a1; a2; a3; a4; a5; a6] =>
    let dx1 := px p + a0 in let dy1 := py p in
    let dx2 := dx1 + a1 in let dy2 := dy1 + a2 in
    let dx3 := dx2 + a3 in let dy3 := dy2 in
    let dx4 := dx3 + a4 in let dy4 := dy2 in
    let dx5 := dx4 + a5 in let dy5 := py p in
    let x := dx5 + a6 in
    COk (set_xy p x (py p), [CurveTo dx1 dy1 dx2 dy2 dx3 dy3; CurveTo dx4 dy4 dx5 dy5 x (py p)])
  | _ => CErr EInvalidArgumentsStackLength
  end.

Definition parse_hflex1 (p : pst) (a : list Z) : pres :=
  if negb (has_move p) then CErr EMissingMoveTo else
  match a with
  | [a0; a1; a2; a3; a4; a5; a6; a7; a8] =>
    let dx1 := px p + a0 in let dy1 := py p + a1 in
    let dx2 := dx1 + a2 in let dy2 := dy1 + a3 in
    let dx3 := dx2 + a4 in let dy3 := dy2 in
    let dx4 := dx3 + a5 in let dy4 := dy2 in
    let dx5 := dx4 + a6 in let dy5 := dy4 + a7 in
    let x := dx5 + a8 in
    COk (set_xy p x (py p), [CurveTo dx1 dy1 dx2 dy2 dx3 dy3; CurveTo dx4 dy4 dx5 dy5 x (py p)])
  | _ => CErr EInvalidArgumentsStackLength
  end.

(* VisitOp::Endchar arm of CharStringParser::visit *)
Definition parse_endchar (p : pst) : pst * list cmd :=
  if first_move p then (p, []) else (mkP (px p) (py p) (has_move p) true, [Close]).

(* CharStringParser::visit, through the generated dispatch *)
Definition pvisit (f : pfn) (p : pst) (a : list Z) : pres :=
  match f with
  | F_ok => COk (p, [])
  | F_endchar => COk (parse_endchar p)
  | F_parse_move_to => parse_move_to p a
  | F_parse_horizontal_move_to => parse_horizontal_move_to p a
  | F_parse_vertical_move_to => parse_vertical_move_to p a
  | F_parse_line_to => parse_line_to p a
  | F_parse_horizontal_line_to => parse_horizontal_line_to p a
  | F_parse_vertical_line_to => parse_vertical_line_to p a
  | F_parse_curve_to => parse_curve_to p a
  | F_parse_curve_line => parse_curve_line p a
  | F_parse_line_curve => parse_line_curve p a
  | F_parse_hh_curve_to => parse_hh_curve_to p a
  | F_parse_vv_curve_to => parse_vv_curve_to p a
  | F_parse_hv_curve_to => parse_hv_curve_to p a
  | F_parse_vh_curve_to => parse_vh_curve_to p a
  | F_parse_flex => parse_flex p a
  | F_parse_flex1 => parse_flex1 p a
  | F_parse_hflex => parse_hflex p a
  | F_parse_hflex1 => parse_hflex1 p a
  end.

(* ---------- fonts ---------- *)
Inductive fontkind : Type := KCFF | KCFF2.
(* Charset: predefined (ISOAdobe, Expert, ExpertSubset) or custom -- format 0 (the SIDs of glyphs
   1..) or format 1 / 2 (ranges (first, nLeft): nLeft is a u8 in format 1 and a u16 in format 2; both
   go through the same generic functions, which widen it to u16 / u32) *)
Inductive charset : Type :=
| CsISOAdobe | CsExpert | CsExpertSubset
| CsCustom (sids : list Z)
| CsRanges (ranges : list (Z * Z)).

Record env : Type := mkEnv {
  e_mode : mode;
  e_kind : fontkind;
  e_cid : bool;                                   (* CFF: CID-keyed (local subrs through FDSelect) *)
  e_gsubrs : list (list Z);
  e_fds : list (option (list (list Z)));          (* local Subr INDEX of each Private DICT *)
  e_fdsel : list Z;                               (* FDSelect: font dict index of each glyph *)
  e_glyphs : list (list Z);                       (* CharStrings INDEX *)
  e_gid : Z;
  e_charset : charset;
  e_variable : bool;                              (* CFF2: a variation tuple was supplied *)
  e_vsdefault : list Z;                           (* CFF2: vsindex of each Private DICT *)
  e_scalars : list (option (list (option Z)));    (* CFF2: per ItemVariationData, scalar of each region
                                                     (None: a region index is out of range) *)
}.

Definition max_stack (e : env) : Z :=
  match e_kind e with KCFF => CFF_MAX_OPERANDS | KCFF2 => CFF2_MAX_OPERANDS end.

(* which font dict the glyph belongs to *)
Definition glyph_fd (e : env) : option Z :=
  match e_kind e with
  | KCFF => if e_cid e then nth_opt (e_fdsel e) (e_gid e) else Some 0
  | KCFF2 => if 1 <? len (e_fds e) then nth_opt (e_fdsel e) (e_gid e) else Some 0
  end.

Definition local_subrs (e : env) : option (list (list Z)) :=
  match glyph_fd e with
  | Some fd => match nth_opt (e_fds e) fd with Some (Some l) => Some l | _ => None end
  | None => None
  end.

Fixpoint position (x : Z) (l : list Z) (i : Z) : option Z :=
  match l with
  | [] => None
  | y :: r => if y =? x then Some i else position x r (i + 1)
  end.

(* u16 arithmetic: overflow panics in a debug build and wraps in a release build *)
Definition U16 : Z := 65536.
Definition add_u16 (m : mode) (a b : Z) : cres Z :=
  if a + b <? U16 then COk (a + b) else match m with Debug => CPanic | Release => COk ((a + b) mod U16) end.

(* CustomCharset::glyph_id_for_sid_in_ranges (formats 1 and 2), as repaired by 6f1050b: `glyph_id` is a
   u32 counter that starts at CHARSET_FIRST_GID and is advanced with checked_add (None on overflow); a
   hit is converted with u16::try_from (None above 65535).  The hit test, the index inside the range
   and the number of glyphs a range covers are regenerated from the source (Gen/Type2Consts.v) *)
Definition U32 : Z := 4294967296.
Definition chk_u16 (v : Z) : option Z := if v <? U16 then Some v else None.
Fixpoint gid_for_sid_in_ranges (m : mode) (ranges : list (Z * Z)) (sid gid : Z) : cres (option Z) :=
  match ranges with
  | [] => COk None
  | (first, n_left) :: r =>
    if charset_range_hit first n_left sid then
      COk (chk_u16 (gid + charset_range_index first sid))
    else
      if gid + charset_range_skip n_left <? U32 then
        gid_for_sid_in_ranges m r sid (gid + charset_range_skip n_left)
      else COk None
  end.

(* Charset::sid_to_gid / CustomCharset::sid_to_gid *)
Definition charset_sid_to_gid (m : mode) (cs : charset) (sid : Z) : cres (option Z) :=
  if sid =? 0 then COk (Some 0) else
  match cs with
  | CsISOAdobe | CsExpert | CsExpertSubset => COk None
  | CsCustom sids =>
    (* position(..).and_then(|n| u16::try_from(n + 1).ok()) *)
    COk (match position sid sids 1 with
         | Some g => if g <=? 65535 then Some g else None
         | None => None
         end)
  | CsRanges ranges => gid_for_sid_in_ranges m ranges sid CHARSET_FIRST_GID
  end.

(* Font::seac_code_to_glyph_id *)
Definition seac_code_to_gid (e : env) (code : Z) : cres (option Z) :=
  let sid := nthZ STANDARD_ENCODING code in
  match e_charset e with
  | CsISOAdobe => COk (if seac_iso_adobe_ok code sid then Some sid else None)
  | CsExpert | CsExpertSubset => COk None
  | cs => charset_sid_to_gid (e_mode e) cs sid
  end.

(* ---------- cff.rs Index::read_object (INDEX offsets are 1-based; data_array has offsets[count]-1 bytes) ----------
   start = offset(i).checked_sub(1)?, end = offset(i+1).checked_sub(1)?, data_array.get(start..end) *)
Definition index_read_object (offsets data : list Z) (count i : Z) : option (list Z) :=
  if (0 <=? i) && (i <? count) then
    match nth_opt offsets i, nth_opt offsets (i + 1) with
    | Some a, Some b =>
      if (1 <=? a) && (1 <=? b) && (a <=? b) && (b - 1 <=? len data)
      then Some (take (b - a) (drop (a - 1) data)) else None
    | _, _ => None
    end
  else None.

(* ---------- CFF2 blend scalars (tables/variable_fonts.rs: calculate_scalar, scalar; cff2::scalars) ----------
   Coordinates are F2Dot14 raw values; a scalar is returned as a numerator over SDEN.  The f32
   division is modelled by an exact division rounded down to a multiple of 2^-32 (exact whenever
   the span is a power of two). *)
Definition calc_scalar (inst start peak end_ : Z) : Z :=
  if peak =? 0 then SDEN
  else if (start <=? inst) && (inst <=? end_) then
    if inst =? peak then SDEN
    else if inst <? peak then ((inst - start) * SDEN) / (peak - start)
    else ((end_ - inst) * SDEN) / (end_ - peak)
  else 0.

Definition region_scalar (axes : list (Z * Z * Z)) (tuple : list Z) : option Z :=
  let sc := fold_left (fun acc at_ => let '((s, p, e), t) := at_ in (acc * calc_scalar t s p e) / SDEN)
                      (combine axes tuple) SDEN in
  if sc =? 0 then None else Some sc.

Fixpoint ivd_scalars (regions : list (list (Z * Z * Z))) (tuple : list Z) (idxs : list Z)
  : option (list (option Z)) :=
  match idxs with
  | [] => Some []
  | i :: r =>
    match nth_opt regions i, ivd_scalars regions tuple r with
    | Some axes, Some l => Some (region_scalar axes tuple :: l)
    | _, _ => None
    end
  end.

(* ---------- interpreter state ---------- *)
Record ist : Type := mkI {
  stk : list Z;                 (* ArgumentsStack: data[..len], bottom first *)
  wparsed : bool;               (* width_parsed *)
  stems : Z;                    (* stems_len: u32 *)
  endchar_seen : bool;          (* has_endchar *)
  seac_seen : bool;             (* has_seac *)
  vsidx : option Z;             (* vsindex *)
  scal : option (list (option Z));   (* scalars (cached on the first blend) *)
  ps : pst;
  out : list cmd;
}.
Definition ist0 : ist := mkI [] false 0 false false None None pst0 [].

Definition set_stk (s : ist) (k : list Z) : ist :=
  mkI k (wparsed s) (stems s) (endchar_seen s) (seac_seen s) (vsidx s) (scal s) (ps s) (out s).
Definition set_wparsed (s : ist) (b : bool) : ist :=
  mkI (stk s) b (stems s) (endchar_seen s) (seac_seen s) (vsidx s) (scal s) (ps s) (out s).
Definition set_stems (s : ist) (n : Z) : ist :=
  mkI (stk s) (wparsed s) n (endchar_seen s) (seac_seen s) (vsidx s) (scal s) (ps s) (out s).
Definition set_endchar (s : ist) (b : bool) : ist :=
  mkI (stk s) (wparsed s) (stems s) b (seac_seen s) (vsidx s) (scal s) (ps s) (out s).
Definition set_seac (s : ist) (b : bool) : ist :=
  mkI (stk s) (wparsed s) (stems s) (endchar_seen s) b (vsidx s) (scal s) (ps s) (out s).
Definition set_vsidx (s : ist) (v : option Z) : ist :=
  mkI (stk s) (wparsed s) (stems s) (endchar_seen s) (seac_seen s) v (scal s) (ps s) (out s).
Definition set_scal (s : ist) (v : option (list (option Z))) : ist :=
  mkI (stk s) (wparsed s) (stems s) (endchar_seen s) (seac_seen s) (vsidx s) v (ps s) (out s).
Definition set_ps (s : ist) (p : pst) (c : list cmd) : ist :=
  mkI (stk s) (wparsed s) (stems s) (endchar_seen s) (seac_seen s) (vsidx s) (scal s) p (out s ++ c).

(* ArgumentsStack::push *)
Definition push (e : env) (v : Z) (s : ist) : cres ist :=
  if len (stk s) =? max_stack e then CErr EArgumentsStackLimitReached
  else COk (set_stk s (stk s ++ [v])).

(* ArgumentsStack::pop: debug_assert!(!is_empty) / `len -= 1` then data[len]: both panic when empty *)
Definition pop (s : ist) : cres (Z * ist) :=
  match stk s with
  | [] => CPanic
  | _ => COk (last (stk s) 0, set_stk s (removelast (stk s)))
  end.

(* visitor.visit(op.try_into().unwrap(), stack) on the sub-stack starting at `off` *)
Definition visit_op (op : Z) (off : Z) (s : ist) : cres ist :=
  match visit_fn op with
  | None => CPanic
  | Some f => '(p, c) <~ pvisit f (ps s) (drop off (stk s)) ;; COk (set_ps s p c)
  end.

(* u32 arithmetic on stems_len (U32 is defined with the charset lookup above) *)
Definition add_u32 (m : mode) (a b : Z) : cres Z :=
  if a + b <? U32 then COk (a + b) else match m with Debug => CPanic | Release => COk ((a + b) mod U32) end.

(* cff2::blend on the f32 stack *)
Fixpoint dot (scalars : list (option Z)) (deltas : list Z) : Z :=
  match scalars, deltas with
  | sc :: ss, d :: ds => (match sc with Some k => (k * d) / SDEN | None => 0 end) + dot ss ds
  | _, _ => 0
  end.

(* zip(blended.iter_mut(), rest.chunks(k.max(1))): i-th default gets the i-th chunk of k deltas;
   with k = 0 (an ItemVariationData without regions) `rest` is empty and the defaults are the result *)
Fixpoint blend_vals (k : nat) (scalars : list (option Z)) (defaults rest : list Z) : list Z :=
  match defaults with
  | [] => []
  | d :: ds =>
    match rest with
    | [] => d :: blend_vals k scalars ds []                 (* chunks exhausted: adjustment 0 *)
    | _ => (d + dot scalars (firstn k rest)) :: blend_vals k scalars ds (skipn k rest)
    end
  end.

Fixpoint push_all (e : env) (vs : list Z) (s : ist) : cres ist :=
  match vs with
  | [] => COk s
  | v :: r => s' <~ push e v s ;; push_all e r s'
  end.

Definition blend (e : env) (scalars : list (option Z)) (s : ist) : cres ist :=
  let k := len scalars in
  match stk s with
  | [] => CErr EInvalidArgumentsStackLength
  | _ =>
    '(nv, s1) <~ pop s ;;
    match try_as_u16 nv with
    | None => CErr EInvalidOperand
    | Some n =>
      let num := n * (k + 1) in
      if len (stk s1) <? num then CErr EInvalidArgumentsStackLength else
      if CFF2_MAX_OPERANDS <? n then CErr EInvalidOperand else
      let base := take (len (stk s1) - num) (stk s1) in
      let operands := drop (len (stk s1) - num) (stk s1) in
      let defaults := take n operands in
      let rest := drop n operands in
      push_all e (blend_vals (Z.to_nat k) scalars defaults rest) (set_stk s1 base)
    end
  end.

(* ---------- visit_impl ---------- *)
Inductive opclass : Type :=
| KReserved | KStem | KVMove | KSimple | KCallL | KReturn | KEscape | KEndchar | KVsIndex | KBlend
| KMask | KRMove | KHMove | KShortInt | KCallG | KInt1 | KInt2 | KInt3 | KFixed.

Definition classify (op : Z) : opclass :=
  if existsb (Z.eqb op) reserved_ops then KReserved else
  if (op =? OP_HORIZONTAL_STEM) || (op =? OP_VERTICAL_STEM) || (op =? OP_HORIZONTAL_STEM_HINT_MASK)
     || (op =? OP_VERTICAL_STEM_HINT_MASK) then KStem else
  if op =? OP_VERTICAL_MOVE_TO then KVMove else
  if (op =? OP_LINE_TO) || (op =? OP_HORIZONTAL_LINE_TO) || (op =? OP_VERTICAL_LINE_TO)
     || (op =? OP_CURVE_TO) then KSimple else
  if op =? OP_CALL_LOCAL_SUBROUTINE then KCallL else
  if op =? OP_RETURN then KReturn else
  if op =? TWO_BYTE_OPERATOR_MARK then KEscape else
  if op =? OP_ENDCHAR then KEndchar else
  if op =? OP_VS_INDEX then KVsIndex else
  if op =? OP_BLEND then KBlend else
  if (op =? OP_HINT_MASK) || (op =? OP_COUNTER_MASK) then KMask else
  if op =? OP_MOVE_TO then KRMove else
  if op =? OP_HORIZONTAL_MOVE_TO then KHMove else
  if (op =? OP_CURVE_LINE) || (op =? OP_LINE_CURVE) || (op =? OP_VV_CURVE_TO)
     || (op =? OP_HH_CURVE_TO) || (op =? OP_VH_CURVE_TO) || (op =? OP_HV_CURVE_TO) then KSimple else
  if op =? OP_SHORT_INT then KShortInt else
  if op =? OP_CALL_GLOBAL_SUBROUTINE then KCallG else
  if (INT1_LO <=? op) && (op <=? INT1_HI) then KInt1 else
  if (INT2_LO <=? op) && (op <=? INT2_HI) then KInt2 else
  if (INT3_LO <=? op) && (op <=? INT3_HI) then KInt3 else
  KFixed.

Definition is_flex_op (op2 : Z) : bool :=
  (op2 =? OP_HFLEX) || (op2 =? OP_FLEX) || (op2 =? OP_HFLEX1) || (op2 =? OP_FLEX1).

(* stems / hintmask: "if the stack length is uneven, the first value is a width" *)
Definition stem_count (s : ist) : Z * bool :=
  let n := len (stk s) in
  if Z.odd n && negb (wparsed s) then (n - 1, true) else (n, wparsed s).

(* handle_width for the moveto operators *)
Definition move_offset (s : ist) (n : Z) : Z * bool :=
  if (len (stk s) =? n) && negb (wparsed s) then (1, true) else (0, wparsed s).

(* scalars for blend: vsindex, else the Private DICT's; looked up once *)
Definition blend_scalars (e : env) (s : ist) : cres (list (option Z) * ist) :=
  match scal s with
  | Some sc => COk (sc, s)
  | None =>
    vi <~ match vsidx s with
          | Some v => COk v
          | None =>
            match glyph_fd e with
            | Some fd =>
              let v := nthZ (e_vsdefault e) fd in
              if (0 <=? v) && (v <=? 65535) then COk v else CErr (EParse BadValue)
            | None => CErr EInvalidFontIndex
            end
          end ;;
    match nth_opt (e_scalars e) vi with
    | Some (Some sc) => COk (sc, set_scal s (Some sc))
    | _ => CErr (EParse BadIndex)
    end
  end.

(* ---------- visit_impl ----------
   One iteration of the `while s.bytes_available()` loop is `step`; it is parameterised by
     rec  : visit_impl on another charstring (subroutine, seac component) at a given depth
     k    : the remaining iterations on the bytes that are left
   so that `run` below is just the two nested recursions. *)
Section Step.
Variable rec : Z -> list Z -> ist -> cres ist.
Variable k : list Z -> ist -> cres ist.
Variable e : env.
Variable depth : Z.

(* after a subroutine returns *)
Definition after_call (s : ist) (rest : list Z) : cres ist :=
  if endchar_seen s && negb (seac_seen s) then
    match rest with [] => COk s | _ => CErr EDataAfterEndChar end
  else k rest s.

Definition step_stem (op : Z) (r : list Z) (s : ist) : cres ist :=
  let '(cnt, w) := stem_count s in
  st <~ add_u32 (e_mode e) (stems s) (cnt / 2) ;;
  s1 <~ visit_op op 0 (set_stems (set_wparsed s w) st) ;;
  k r (set_stk s1 []).

Definition step_move (nargs : Z) (op : Z) (r : list Z) (s : ist) : cres ist :=
  let '(off, w) := move_offset s nargs in
  s1 <~ visit_op op off (set_wparsed s w) ;;
  k r (set_stk s1 []).

Definition step_simple (op : Z) (r : list Z) (s : ist) : cres ist :=
  s1 <~ visit_op op 0 s ;;
  k r (set_stk s1 []).

Definition step_call (subrs : option (list (list Z))) (r : list Z) (s : ist) : cres ist :=
  match stk s with [] => CErr EInvalidArgumentsStackLength | _ =>
  if depth =? STACK_LIMIT then CErr ENestingLimitReached else
  match subrs with
  | None => CErr ENoLocalSubroutines
  | Some subrs =>
    '(v, s1) <~ pop s ;;
    idx <~ conv_subroutine_index v (calc_subroutine_bias (len subrs)) ;;
    match nth_opt subrs idx with
    | None => CErr EInvalidSubroutineIndex
    | Some sub => s2 <~ rec (depth + 1) sub s1 ;; after_call s2 r
    end
  end end.

Definition step_escape (r : list Z) (s : ist) : cres ist :=
  match r with
  | [] => CErr (EParse Eof)
  | op2 :: r2 =>
    if is_flex_op op2 then s1 <~ visit_op op2 0 s ;; k r2 (set_stk s1 [])
    else CErr EUnsupportedOperator
  end.

Definition seac_gid (v : Z) : cres (option Z) :=
  match try_as_u8 v with Some c => seac_code_to_gid e c | None => COk None end.

(* the `Process 'seac'` block *)
Definition step_seac (s : ist) : cres ist :=
  if depth =? STACK_LIMIT then CErr ENestingLimitReached else
  '(av, s1) <~ pop s ;;
  oa <~ seac_gid av ;;
  match oa with
  | None => CErr EInvalidSeacCode
  | Some accent =>
  '(bv, s1) <~ pop s1 ;;
  ob <~ seac_gid bv ;;
  match ob with
  | None => CErr EInvalidSeacCode
  | Some base =>
  '(dy, s1) <~ pop s1 ;;
  '(dx, s1) <~ pop s1 ;;
  s1 <~ (if negb (wparsed s1) && negb (len (stk s1) =? 0)
         then '(_, s') <~ pop s1 ;; COk (set_wparsed s' true) else COk s1) ;;
  let s1 := set_seac s1 true in
  match nth_opt (e_glyphs e) base with
  | None => CErr EInvalidSeacCode
  | Some bcs =>
    (* each component is a complete charstring: own width and hints *)
    s2 <~ rec (depth + 1) bcs (set_stems (set_wparsed s1 false) 0) ;;
    match nth_opt (e_glyphs e) accent with
    | None => CErr EInvalidSeacCode
    | Some acs =>
      (* enter_seac(Accent): x = dx, y = dy *)
      rec (depth + 1) acs (set_ps (set_stems (set_wparsed s2 false) 0) (set_xy (ps s2) dx dy) [])
    end
  end end end.

Definition step_endchar (op : Z) (r : list Z) (s : ist) : cres ist :=
  match e_kind e with
  | KCFF2 => CErr EInvalidOperator
  | KCFF =>
    s3 <~ (if (len (stk s) =? 4) || (negb (wparsed s) && (len (stk s) =? 5)) then step_seac s
           else if (len (stk s) =? 1) && negb (wparsed s) then
             '(_, s1) <~ pop s ;; COk (set_wparsed s1 true)
           else COk s) ;;
    match r with
    | _ :: _ => CErr EDataAfterEndChar
    | [] => visit_op op 0 (set_endchar s3 true)      (* then break *)
    end
  end.

Definition step_vsindex (op : Z) (r : list Z) (s : ist) : cres ist :=
  match e_kind e with
  | KCFF => CErr EInvalidOperator
  | KCFF2 =>
    match vsidx s with
    | Some _ => CErr EDuplicateVsIndex
    | None =>
      (* seen_blend is never set by the implementation, so VsIndexAfterBlend cannot occur *)
      if negb (len (stk s) =? 1) then CErr EInvalidArgumentsStackLength else
      s1 <~ visit_op op 0 s ;;
      '(v, s2) <~ pop s1 ;;
      match try_as_u16 v with
      | None => CErr EInvalidArgumentsStackLength
      | Some i => k r (set_vsidx s2 (Some i))
      end
    end
  end.

Definition step_blend (op : Z) (r : list Z) (s : ist) : cres ist :=
  match e_kind e with
  | KCFF => CErr EInvalidOperator
  | KCFF2 =>
    if negb (e_variable e) then CErr EMissingVariationStore else
    match stk s with
    | [] => CErr EInvalidArgumentsStackLength
    | _ =>
      s1 <~ visit_op op 0 s ;;
      '(sc, s2) <~ blend_scalars e s1 ;;
      s3 <~ blend e sc s2 ;;
      k r s3
    end
  end.

Definition step_mask (op : Z) (r : list Z) (s : ist) : cres ist :=
  let '(cnt, w) := stem_count s in
  s1 <~ visit_op op 0 s ;;
  let s1 := set_wparsed (set_stk s1 []) w in
  st <~ add_u32 (e_mode e) (stems s1) (cnt / 2) ;;
  st7 <~ add_u32 (e_mode e) st 7 ;;
  let nb := st7 / 8 in
  if len r <? nb then CErr (EParse BadOffset)
  else k (drop nb r) (set_stems s1 st).

Definition step_shortint (r : list Z) (s : ist) : cres ist :=
  match r with
  | b1 :: b2 :: r2 => s1 <~ push e (of_int (to_signed 16 (b1 * 256 + b2))) s ;; k r2 s1
  | _ => CErr (EParse Eof)
  end.

Definition step_int1 (op : Z) (r : list Z) (s : ist) : cres ist :=
  s1 <~ push e (of_int (parse_int1_expr op)) s ;; k r s1.

(* parse_int2 / parse_int3: debug_assert! on the range of the result *)
Definition step_int23 (v lo hi : Z) (r2 : list Z) (s : ist) : cres ist :=
  match e_mode e with
  | Debug => if (lo <=? v) && (v <=? hi) then s1 <~ push e (of_int v) s ;; k r2 s1 else CPanic
  | Release => s1 <~ push e (of_int v) s ;; k r2 s1
  end.

Definition step_int2 (op : Z) (r : list Z) (s : ist) : cres ist :=
  match r with
  | b1 :: r2 => step_int23 (parse_int2_expr op b1) 108 1131 r2 s
  | [] => CErr (EParse Eof)
  end.

Definition step_int3 (op : Z) (r : list Z) (s : ist) : cres ist :=
  match r with
  | b1 :: r2 => step_int23 (parse_int3_expr op b1) (-1131) (-108) r2 s
  | [] => CErr (EParse Eof)
  end.

Definition step_fixed (r : list Z) (s : ist) : cres ist :=
  match r with
  | b1 :: b2 :: b3 :: b4 :: r2 =>
    s1 <~ push e (of_fixed (to_signed 32 (((b1 * 256 + b2) * 256 + b3) * 256 + b4))) s ;; k r2 s1
  | _ => CErr (EParse Eof)
  end.

Definition step (op : Z) (r : list Z) (s : ist) : cres ist :=
  match classify op with
  | KReserved => CErr EInvalidOperator
  | KStem => step_stem op r s
  | KVMove | KHMove => step_move 2 op r s
  | KRMove => step_move 3 op r s
  | KSimple => step_simple op r s
  | KCallL => step_call (local_subrs e) r s
  | KCallG => step_call (Some (e_gsubrs e)) r s
  | KReturn =>
    match e_kind e with
    | KCFF => visit_op op 0 s           (* then break *)
    | KCFF2 => CErr EInvalidOperator
    end
  | KEscape => step_escape r s
  | KEndchar => step_endchar op r s
  | KVsIndex => step_vsindex op r s
  | KBlend => step_blend op r s
  | KMask => step_mask op r s
  | KShortInt => step_shortint r s
  | KInt1 => step_int1 op r s
  | KInt2 => step_int2 op r s
  | KInt3 => step_int3 op r s
  | KFixed => step_fixed r s
  end.
End Step.

(* the `while s.bytes_available()` loop; n bounds the number of iterations (every iteration
   consumes at least one byte, so `length cs` is enough) *)
Fixpoint loop (rec : Z -> list Z -> ist -> cres ist) (e : env) (depth : Z)
         (n : nat) (b : list Z) (s : ist) {struct n} : cres ist :=
  match b with
  | [] => COk s
  | op :: r =>
    match n with
    | O => CFuel
    | S n' => step rec (loop rec e depth n') e depth op r s
    end
  end.

(* visit_impl; df bounds the nesting of subroutine / seac activations *)
Fixpoint run (df : nat) (e : env) (depth : Z) (cs : list Z) (s0 : ist) {struct df} : cres ist :=
  match df with
  | O => CFuel
  | S df' => loop (run df' e) e depth (length cs) cs s0
  end.

(* depth 0..STACK_LIMIT: 11 nested activations; one spare *)
Definition DEPTH_FUEL : nat := 12.

(* ---------- Builder: bounding box ---------- *)
Definition cmd_points (c : cmd) : list (Z * Z) :=
  match c with
  | MoveTo x y | LineTo x y => [(x, y)]
  | CurveTo x1 y1 x2 y2 x y => [(x1, y1); (x2, y2); (x, y)]
  | Close => []
  end.

(* i16::try_num_from(f32) *)
Definition fits_i16 (v : Z) : bool :=
  match try_as_i32 v with Some t => (-32768 <=? t) && (t <=? 32767) | None => false end.

(* every coordinate converts iff the extremes do (truncation is monotone) *)
Definition bbox_ok (cs : list cmd) : bool :=
  forallb (fun pt => fits_i16 (fst pt) && fits_i16 (snd pt)) (flat_map cmd_points cs).

(* ---------- OutlineBuilder::visit for CFF / CFF2Outlines (parse_char_string) ---------- *)
Definition interp_glyph (e : env) : cres ist :=
  match e_kind e, (match glyph_fd e with Some fd => nth_opt (e_fds e) fd | None => None end) with
  | KCFF2, None => CErr EInvalidFontIndex          (* FDSelect / fonts.get(fd) *)
  | _, _ =>
    match nth_opt (e_glyphs e) (e_gid e) with
    | None => CErr (EParse BadIndex)
    | Some cs =>
      s <~ run DEPTH_FUEL e 0 cs ist0 ;;
      match e_kind e with
      | KCFF => COk s
      | KCFF2 =>
        (* the end of a CFF2 charstring closes the open contour *)
        if first_move (ps s) then COk s else COk (set_ps s (ps s) [Close])
      end
    end
  end.

Definition run_glyph (e : env) : cres (list cmd) :=
  s <~ interp_glyph e ;;
  if bbox_ok (out s) then COk (out s) else CErr EBboxOverflow.
