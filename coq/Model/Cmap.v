(* Model/Cmap.v — executable model of the cmap code of allsorts, function by function after the Rust:
     src/tables/cmap.rs   Cmap::read, CmapSubtable::read (formats 0,2,4,6,10,12), SubHeader::{contains,
                          glyph_index_sub_array}, CmapSubtable::map_glyph, mappings_fn,
                          Format4::{map_glyph, mappings_fn, glyph_id_for_id_range_offset}, offset_to_index,
                          owned::CmapSubtable::map_glyph
     src/font.rs          find_good_cmap_subtable, Font::{map_glyph, map_unicode_to_glyph,
                          legacy_symbol_char_code, cmap_subtable_data}
   Interface reused by C08: the inductive [subtable] of parsed fields, [parse] (bytes -> subtable),
   [map_glyph], [mappings].  Independent of Model/Reader.v: the reader is the four-line [rd]/[rd_array]
   below (ReadCtxt on the list of remaining bytes; C14 proves the real reader behaves like that).
   All quantities are the Rust machine integers as mathematical Z; where the Rust wraps the model says
   [mod]; no operation of the modelled (fixed) code can overflow or panic, see docs/C06.md.
   No proofs in this file. *)
From AV Require Import Base.Prelude Gen.CmapPrefs Model.MacRoman.
Open Scope Z_scope.

(* ------------------------------------------------------------------------------------------- *)
(* reader: ReadCtxt = remaining bytes                                                            *)

(* ctxt.read_u8 / read_u16be / read_u32be *)
Definition rd (n : Z) (d : list Z) : outcome (Z * list Z) :=
  if n <=? len d then Ok (be_val (take n d), drop n d) else Err Eof.
Definition rd_u16 := rd 2.
Definition rd_u32 := rd 4.

(* ctxt.check(cond) *)
Definition check (b : bool) : outcome unit := if b then Ok tt else Err BadValue.

Fixpoint chunks (size : Z) (n : nat) (d : list Z) : list (list Z) :=
  match n with O => [] | S k => take size d :: chunks size k (drop size d) end.

(* ctxt.read_array::<T>(n) with T::SIZE = size: n.checked_mul(size) (cannot overflow: n < 2^32),
   then read_scope(n*size) -> Eof when fewer bytes remain.  The items are returned undecoded. *)
Definition rd_array (size n : Z) (d : list Z) : outcome (list (list Z) * list Z) :=
  if n * size <=? len d then Ok (chunks size (Z.to_nat n) d, drop (n * size) d) else Err Eof.

Definition rd_u8s (n : Z) (d : list Z) : outcome (list Z * list Z) :=
  '(items, d') <- rd_array 1 n d ;; Ok (map be_val items, d').
Definition rd_u16s (n : Z) (d : list Z) : outcome (list Z * list Z) :=
  '(items, d') <- rd_array 2 n d ;; Ok (map be_val items, d').
Definition rd_i16s (n : Z) (d : list Z) : outcome (list Z * list Z) :=
  '(items, d') <- rd_array 2 n d ;; Ok (map (fun it => to_signed 16 (be_val it)) items, d').

(* ReadArray::get_item / slice::get: None outside 0..len (guarded so that extraction never builds
   a huge unary number) *)
Definition get {A} (l : list A) (i : Z) : option A :=
  if (0 <=? i) && (i <? len l) then nth_error l (Z.to_nat i) else None.

Definition ok_or {A} (o : option A) (e : err) : outcome A :=
  match o with Some a => Ok a | None => Err e end.

(* ------------------------------------------------------------------------------------------- *)
(* parsed subtables                                                                              *)

Record seq_group := { g_start : Z; g_end : Z; g_gid : Z }.
Record sub_header := { sh_first : Z; sh_count : Z; sh_delta : Z; sh_ro : Z }.

Inductive subtable :=
| F0 (language : Z) (gids : list Z)
| F2 (language : Z) (keys : list Z) (headers : list sub_header) (scope : list Z)
| F4 (language : Z) (ends starts deltas ros gids : list Z)
| F6 (language first : Z) (gids : list Z)
| F10 (language start : Z) (gids : list Z)
| F12 (language : Z) (groups : list seq_group).

Definition decode_sub_header (it : list Z) : sub_header :=
  {| sh_first := be_val (take 2 it);
     sh_count := be_val (take 2 (drop 2 it));
     sh_delta := to_signed 16 (be_val (take 2 (drop 4 it)));
     sh_ro := be_val (take 2 (drop 6 it)) |}.

Definition decode_group (it : list Z) : seq_group :=
  {| g_start := be_val (take 4 it);
     g_end := be_val (take 4 (drop 4 it));
     g_gid := be_val (take 4 (drop 8 it)) |}.

(* impl ReadBinary for CmapSubtable: read -- one function per `match subtable_format` arm, each
   applied to the bytes that follow the format word *)
Definition parse0 (d : list Z) : outcome subtable :=
  '(length, d) <- rd_u16 d ;;
  _ <- check (3 * 2 + 256 <=? length) ;;
  '(language, d) <- rd_u16 d ;;
  '(gids, d) <- rd_u8s 256 d ;;
  Ok (F0 language gids).

Definition parse2 (d : list Z) : outcome subtable :=
  '(_length, d) <- rd_u16 d ;;
  '(language, d) <- rd_u16 d ;;
  '(keys, d) <- rd_u16s 256 d ;;
  let max_index := fold_right Z.max 0 (map (fun v => v / 8) keys) in
  let scope := d in
  '(items, d) <- rd_array 8 (max_index + 1) d ;;
  Ok (F2 language keys (map decode_sub_header items) scope).

Definition parse4 (d : list Z) : outcome subtable :=
  '(length, d) <- rd_u16 d ;;
  '(language, d) <- rd_u16 d ;;
  '(seg_count_x2, d) <- rd_u16 d ;;
  _ <- check (Z.even seg_count_x2) ;;
  let seg_count := seg_count_x2 / 2 in
  '(_search_range, d) <- rd_u16 d ;;
  '(_entry_selector, d) <- rd_u16 d ;;
  '(_range_shift, d) <- rd_u16 d ;;
  '(ends, d) <- rd_u16s seg_count d ;;
  '(_reserved_pad, d) <- rd_u16 d ;;
  '(starts, d) <- rd_u16s seg_count d ;;
  '(deltas, d) <- rd_i16s seg_count d ;;
  '(ros, d) <- rd_u16s seg_count d ;;
  _ <- check ((8 + 4 * seg_count) * 2 <=? length) ;;
  let remaining := length - (8 + 4 * seg_count) * 2 in
  _ <- check (Z.even remaining) ;;
  let num_indices := remaining / 2 in
  '(gids, d) <- rd_u16s num_indices d ;;
  Ok (F4 language ends starts deltas ros gids).

Definition parse6 (d : list Z) : outcome subtable :=
  '(_length, d) <- rd_u16 d ;;
  '(language, d) <- rd_u16 d ;;
  '(first_code, d) <- rd_u16 d ;;
  '(entry_count, d) <- rd_u16 d ;;
  '(gids, d) <- rd_u16s entry_count d ;;
  Ok (F6 language first_code gids).

Definition parse10 (d : list Z) : outcome subtable :=
  '(reserved, d) <- rd_u16 d ;;
  _ <- check (reserved =? 0) ;;
  '(_length, d) <- rd_u32 d ;;
  '(language, d) <- rd_u32 d ;;
  '(start_char_code, d) <- rd_u32 d ;;
  '(num_chars, d) <- rd_u32 d ;;
  '(gids, d) <- rd_u16s num_chars d ;;
  Ok (F10 language start_char_code gids).

Definition parse12 (d : list Z) : outcome subtable :=
  '(reserved, d) <- rd_u16 d ;;
  _ <- check (reserved =? 0) ;;
  '(_length, d) <- rd_u32 d ;;
  '(language, d) <- rd_u32 d ;;
  '(num_groups, d) <- rd_u32 d ;;
  '(items, d) <- rd_array 12 num_groups d ;;
  Ok (F12 language (map decode_group items)).

Definition parse (d : list Z) : outcome subtable :=
  '(fmt, d) <- rd_u16 d ;;
  if fmt =? 0 then parse0 d
  else if fmt =? 2 then parse2 d
  else if fmt =? 4 then parse4 d
  else if fmt =? 6 then parse6 d
  else if fmt =? 10 then parse10 d
  else if fmt =? 12 then parse12 d
  else Err BadVersion.

(* ------------------------------------------------------------------------------------------- *)
(* format 4                                                                                      *)

Record seg := { s_start : Z; s_end : Z; s_delta : Z; s_ro : Z }.

(* izip!(start_codes, end_codes, id_deltas, id_range_offsets): stops at the shortest *)
Fixpoint zip4 (ss es ds rs : list Z) : list seg :=
  match ss, es, ds, rs with
  | s :: ss', e :: es', dl :: ds', r :: rs' =>
      {| s_start := s; s_end := e; s_delta := dl; s_ro := r |} :: zip4 ss' es' ds' rs'
  | _, _, _, _ => []
  end.

(* fn offset_to_index(i, id_range_offset, start_code_offset, id_range_offsets_len); u32 arithmetic,
   no overflow for fewer than 2^30 segments (a parsed subtable has fewer than 2^15) *)
Definition offset_to_index (i ro sco n : Z) : outcome Z :=
  let offset_in_id_range_offsets := ro + i * 2 in
  let glyph_id_offset := offset_in_id_range_offsets + sco * 2 in
  if (n * 2 <=? glyph_id_offset) && Z.even glyph_id_offset
  then Ok (glyph_id_offset / 2 - n)
  else Err BadIndex.

(* Format4::glyph_id_for_id_range_offset *)
Definition glyph_id_for_id_range_offset (ros gids : list Z) (ro ch delta i sco : Z) : outcome Z :=
  let ro := if ro =? 65535 then 0 else ro in          (* Fontographer work-around *)
  if ro =? 0 then Ok ((ch + delta) mod 65536)
  else
    index <- offset_to_index i ro sco (len ros) ;;
    glyph_id <- ok_or (get gids index) BadIndex ;;
    if glyph_id =? 0 then Ok 0                          (* 0 = missing glyph: idDelta is not applied *)
    else Ok ((glyph_id + delta) mod 65536).

(* the `for (i, (start, end, delta, ro)) in zipped.enumerate()` search of Format4::map_glyph *)
Fixpoint find_seg (segs : list seg) (i ch : Z) : option (Z * seg) :=
  match segs with
  | [] => None
  | sg :: t => if (s_start sg <=? ch) && (ch <=? s_end sg) then Some (i, sg) else find_seg t (i + 1) ch
  end.

Definition f4_map_glyph (ends starts deltas ros gids : list Z) (ch : Z) : outcome (option Z) :=
  if 65535 <? ch then Err BadValue                      (* u16::try_from(ch)? *)
  else match find_seg (zip4 starts ends deltas ros) 0 ch with
       | None => Ok None
       | Some (i, sg) =>
           g <- glyph_id_for_id_range_offset ros gids (s_ro sg) ch (s_delta sg) i (ch - s_start sg) ;;
           Ok (Some g)
       end.

(* ------------------------------------------------------------------------------------------- *)
(* format 12                                                                                     *)

Fixpoint find_group (gs : list seq_group) (ch : Z) : option seq_group :=
  match gs with
  | [] => None
  | g :: t => if (g_start g <=? ch) && (ch <=? g_end g) then Some g else find_group t ch
  end.

(* start_glyph_id.checked_add(ch - start_char_code) -> BadValue, then u16::try_from -> BadValue *)
Definition f12_map_glyph (groups : list seq_group) (ch : Z) : outcome (option Z) :=
  match find_group groups ch with
  | None => Ok None
  | Some g =>
      let glyph_id := g_gid g + (ch - g_start g) in
      if glyph_id <=? 65535 then Ok (Some glyph_id) else Err BadValue
  end.

(* ------------------------------------------------------------------------------------------- *)
(* format 2                                                                                      *)

(* SubHeader::contains (in u32: first_code + entry_count does not wrap) *)
Definition sh_contains (sh : sub_header) (v : Z) : bool :=
  (sh_first sh <=? v) && (v <? sh_first sh + sh_count sh).

(* SubHeader::glyph_index_sub_array *)
Definition glyph_index_sub_array (sh : sub_header) (index : Z) (scope : list Z) : outcome (list Z) :=
  if 0 <? sh_count sh then
    let first_glyph_index_offset := index * 8 + 8 - 2 + sh_ro sh in
    '(arr, _) <- rd_u16s (sh_count sh) (slice_from scope first_glyph_index_offset) ;;
    Ok arr
  else Ok [].

Definition f2_glyph (sh : sub_header) (key : Z) (scope : list Z) (glyph_id_index : Z) : outcome Z :=
  arr <- glyph_index_sub_array sh key scope ;;
  glyph_id <- ok_or (get arr glyph_id_index) BadIndex ;;
  Ok (if glyph_id =? 0 then 0 else (glyph_id + sh_delta sh) mod 65536).

Definition f2_map_glyph (keys : list Z) (headers : list sub_header) (scope : list Z) (ch : Z)
  : outcome (option Z) :=
  let high_byte := (ch / 256) mod 256 in
  let low_byte := ch mod 256 in
  low_byte_index <- ok_or (get keys low_byte) BadIndex ;;
  let header_index_byte :=
    if (high_byte =? 0) && (low_byte_index =? 0) then low_byte else high_byte in
  k <- ok_or (get keys header_index_byte) BadIndex ;;
  let sub_header_key := k / 8 in
  sh <- ok_or (get headers sub_header_key) BadIndex ;;
  if negb (sh_contains sh low_byte) then Ok (Some 0)
  else
    g <- f2_glyph sh sub_header_key scope (low_byte - sh_first sh) ;;
    Ok (Some g).

(* ------------------------------------------------------------------------------------------- *)
(* CmapSubtable::map_glyph and its duplicate owned::CmapSubtable::map_glyph                      *)

Definition map_glyph (st : subtable) (ch : Z) : outcome (option Z) :=
  match st with
  | F0 _ gids => Ok (get gids ch)
  | F2 _ keys headers scope => f2_map_glyph keys headers scope ch
  | F4 _ ends starts deltas ros gids => f4_map_glyph ends starts deltas ros gids ch
  | F6 _ first gids => if first <=? ch then Ok (get gids (ch - first)) else Ok None
  | F10 _ start gids => if start <=? ch then Ok (get gids (ch - start)) else Ok None
  | F12 _ groups => f12_map_glyph groups ch
  end.

(* owned::CmapSubtable has no Format2 (to_owned returns None) *)
Definition owned_index (gids : list Z) (index : Z) : option Z :=
  if index <? len gids then Some (nth (Z.to_nat index) gids 0) else None.

Definition owned_map_glyph (st : subtable) (ch : Z) : outcome (option Z) :=
  match st with
  | F0 _ gids => Ok (owned_index gids ch)
  | F2 _ _ _ _ => Err NotImplemented
  | F4 _ ends starts deltas ros gids => f4_map_glyph ends starts deltas ros gids ch
  | F6 _ first gids => if first <=? ch then Ok (owned_index gids (ch - first)) else Ok None
  | F10 _ start gids => if start <=? ch then Ok (owned_index gids (ch - start)) else Ok None
  | F12 _ groups => f12_map_glyph groups ch
  end.

(* ------------------------------------------------------------------------------------------- *)
(* mappings_fn: the pairs handed to the callback, in order, and how the call ended               *)

Definition emitted := (list (Z * Z) * outcome unit)%type.

Definition emit_then (a : emitted) (k : emitted) : emitted :=
  match a with
  | (l, Ok _) => (l ++ fst k, snd k)
  | (l, r) => (l, r)
  end.

(* `for ch in chs { callback(ch, f(ch)?) }` *)
Fixpoint emit_list (f : Z -> outcome Z) (chs : list Z) : emitted :=
  match chs with
  | [] => ([], Ok tt)
  | ch :: t =>
      match f ch with
      | Ok g => let r := emit_list f t in ((ch, g) :: fst r, snd r)
      | Err e => ([], Err e)
      | Panic => ([], Panic)
      | OOB => ([], OOB)
      end
  end.

Fixpoint emit_all {A} (f : A -> emitted) (l : list A) : emitted :=
  match l with
  | [] => ([], Ok tt)
  | a :: t => emit_then (f a) (emit_all f t)
  end.

(* glyph_id_array.iter().enumerate() with the code of index 0 being [first] *)
Fixpoint enum_from (first : Z) (gids : list Z) : list (Z * Z) :=
  match gids with [] => [] | g :: t => (first, g) :: enum_from (first + 1) t end.

Fixpoint index_segs (i : Z) (segs : list seg) : list (Z * seg) :=
  match segs with [] => [] | sg :: t => (i, sg) :: index_segs (i + 1) t end.

(* Format4::mappings_fn: `for ch in start_code..=end_code` *)
Definition f4_mappings (ends starts deltas ros gids : list Z) : emitted :=
  emit_all
    (fun '(i, sg) =>
       emit_list
         (fun ch => glyph_id_for_id_range_offset ros gids (s_ro sg) ch (s_delta sg) i (ch - s_start sg))
         (range (s_start sg) (Z.to_nat (s_end sg - s_start sg + 1))))
    (index_segs 0 (zip4 starts ends deltas ros)).

(* Format10: `callback(start_char_code.checked_add(index)?, gid)` *)
Fixpoint f10_mappings (code : Z) (gids : list Z) : emitted :=
  match gids with
  | [] => ([], Ok tt)
  | g :: t =>
      if 4294967295 <? code then ([], Err BadValue)
      else let r := f10_mappings (code + 1) t in ((code, g) :: fst r, snd r)
  end.

(* Format12: for (i, ch) in (start..=end).enumerate():
     u16::try_from(start_glyph_id)?.checked_add(u16::try_from(i)?) -> BadValue.
   At most 65537 iterations are ever executed (i = 65536 fails), so the range is capped there. *)
Definition f12_group_mappings (g : seq_group) : emitted :=
  emit_list
    (fun ch =>
       let i := ch - g_start g in
       if 65535 <? g_gid g then Err BadValue
       else if 65535 <? i then Err BadValue
       else if 65535 <? g_gid g + i then Err BadValue
       else Ok (g_gid g + i))
    (range (g_start g) (Z.to_nat (Z.min (g_end g - g_start g + 1) 65537))).

(* Format2 *)
Definition f2_high_mappings (keys : list Z) (headers : list sub_header) (scope : list Z)
           (high_byte : Z) : emitted :=
  match get keys high_byte with
  | None => ([], Err BadIndex)
  | Some k =>
      let sub_header_key := k / 8 in
      match get headers sub_header_key with
      | None => ([], Err BadIndex)
      | Some sh =>
          if sub_header_key =? 0 then
            if negb (sh_contains sh high_byte) then ([], Ok tt)
            else emit_list (fun ch => f2_glyph sh sub_header_key scope (ch - sh_first sh)) [high_byte]
          else
            (* for glyph_id_index in 0..entry_count { low_byte = first_code + glyph_id_index;
               if low_byte > 0xFF { break } ... callback((high << 8) | low_byte, glyph_id) } *)
            let n := Z.min (sh_count sh) (256 - sh_first sh) in
            let r := emit_list (fun low => f2_glyph sh sub_header_key scope (low - sh_first sh))
                               (range (sh_first sh) (Z.to_nat n)) in
            (map (fun p => (high_byte * 256 + fst p, snd p)) (fst r), snd r)
      end
  end.

Definition mappings (st : subtable) : emitted :=
  match st with
  | F0 _ gids => (enum_from 0 gids, Ok tt)
  | F2 _ keys headers scope => emit_all (f2_high_mappings keys headers scope) (range 0 256)
  | F4 _ ends starts deltas ros gids => f4_mappings ends starts deltas ros gids
  | F6 _ first gids => (enum_from first gids, Ok tt)
  | F10 _ start gids => f10_mappings start gids
  | F12 _ groups => emit_all f12_group_mappings groups
  end.

(* ------------------------------------------------------------------------------------------- *)
(* the cmap header, sub-table selection, Font-level lookup                                       *)

Record enc_rec := { er_platform : Z; er_encoding : Z; er_offset : Z }.

Definition decode_enc_rec (it : list Z) : enc_rec :=
  {| er_platform := be_val (take 2 it);
     er_encoding := be_val (take 2 (drop 2 it));
     er_offset := be_val (take 4 (drop 4 it)) |}.

(* impl ReadBinary for Cmap *)
Definition parse_cmap (d : list Z) : outcome (list enc_rec) :=
  '(version, d) <- rd_u16 d ;;
  _ <- check (version =? 0) ;;
  '(num_tables, d) <- rd_u16 d ;;
  '(items, d) <- rd_array 8 num_tables d ;;
  Ok (map decode_enc_rec items).

(* Cmap::find_subtable / find_subtable_for_platform: first record in table order *)
Definition find_subtable (recs : list enc_rec) (p e : Z) : option enc_rec :=
  find (fun r => (er_platform r =? p) && (er_encoding r =? e)) recs.
Definition find_subtable_for_platform (recs : list enc_rec) (p : Z) : option enc_rec :=
  find (fun r => er_platform r =? p) recs.

Definition run_query (recs : list enc_rec) (q : query) : option enc_rec :=
  match q with
  | QExact p e => find_subtable recs p e
  | QPlatform p => find_subtable_for_platform recs p
  end.

(* font.rs find_good_cmap_subtable: the cascade of `if let Some(..) = cmap.find_..(..) { return .. }`,
   regenerated from the source as the list Gen.CmapPrefs.cmap_preferences *)
Fixpoint find_good_in (prefs : list (query * encoding)) (recs : list enc_rec)
  : option (encoding * enc_rec) :=
  match prefs with
  | [] => None
  | (q, enc) :: t =>
      match run_query recs q with
      | Some r => Some (enc, r)
      | None => find_good_in t recs
      end
  end.
Definition find_good_cmap_subtable (recs : list enc_rec) : option (encoding * enc_rec) :=
  find_good_in cmap_preferences recs.

(* Font::map_glyph: cmap_subtable_data() = cmap_table.get(offset..).unwrap_or(&[]); any error => 0 *)
Definition font_map_glyph (cmap : list Z) (offset code : Z) : outcome Z :=
  match parse (slice_from cmap offset) with
  | Ok st =>
      match map_glyph st code with
      | Ok (Some g) => Ok g
      | Ok None => Ok 0
      | Err _ => Ok 0
      | Panic => Panic
      | OOB => OOB
      end
  | Err _ => Ok 0
  | Panic => Panic
  | OOB => OOB
  end.

(* Font::legacy_symbol_char_code; [first_char] = OS/2.usFirstCharIndex when the table loads.
   None when (char_code0 + first_char) - 0x20 would be negative. *)
Definition legacy_symbol_char_code (first_char : option Z) (ch : Z) : option Z :=
  let char_code0 := if (ch <? 61440) || (61695 <? ch) then ch else ch - 61440 in
  let first := match first_char with Some f => f | None => 32 end in
  if 32 <=? char_code0 + first then Some (char_code0 + first - 32) else None.

(* Font::map_unicode_to_glyph with MatchingPresentation::NotRequired.
   Big5 (encoding_rs data) is not modelled: Err NotImplemented. *)
Definition map_unicode_to_glyph (cmap : list Z) (enc : encoding) (offset : Z) (first_char : option Z)
           (ch : Z) : outcome Z :=
  let legacy :=
    match legacy_symbol_char_code first_char ch with
    | Some code => font_map_glyph cmap offset code
    | None => Ok 0
    end in
  match enc with
  | EUnicode => font_map_glyph cmap offset ch
  | ESymbol => legacy
  | EAppleRoman =>
      match char_to_macroman ch with
      | Some code => font_map_glyph cmap offset code
      | None => legacy
      end
  | EBig5 => Err NotImplemented
  end.

(* Font::new (cmap part): charmap_info *)
Definition charmap_info (cmap : list Z) : outcome (encoding * Z) :=
  recs <- parse_cmap cmap ;;
  match find_good_cmap_subtable recs with
  | Some (enc, r) => Ok (enc, er_offset r)
  | None => Err UnsuitableCmap
  end.

(* Font::new + lookup_glyph_index(ch, NotRequired, None).0 *)
Definition font_lookup (cmap : list Z) (first_char : option Z) (ch : Z) : outcome Z :=
  '(enc, offset) <- charmap_info cmap ;;
  map_unicode_to_glyph cmap enc offset first_char ch.
