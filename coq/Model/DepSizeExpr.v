(* Model/DepSizeExpr.v — the expression language `fn size(args) -> usize` bodies of the crate's
   `impl ReadFixedSizeDep` are translated into (translators/tr_depsize.py -> Gen/DepSizes.v), and its evaluation
   with Rust's integer semantics: every `+` / `*` is evaluated in the type of its operands; a result that does
   not fit that type panics with overflow checks (Debug) and wraps without (Release).  No proofs here. *)
From Coq Require Import ZArith List.
From AV Require Import Base.Prelude.
Import ListNotations.
Open Scope Z_scope.

Inductive ity := TU8 | TU16 | TU32 | TU64 | TUsize.
Definition ity_bits (t : ity) : Z :=
  match t with TU8 => 8 | TU16 => 16 | TU32 => 32 | TU64 => 64 | TUsize => 64 end.
Definition ity_mod (t : ity) : Z := 2 ^ ity_bits t.

(* type of one numeric component of Args; AVf = layout::ValueFormat (a u16 that ValueFormat::read keeps <= 0xFF) *)
Inductive aty := AU8 | AU16 | AU32 | AU64 | AUsize | AVf.

Inductive sexpr :=
  | SLit (n : Z)
  | SArg (i : nat)
  | SVfSize (i : nat)                (* args[i].size() for a ValueFormat argument *)
  | SFrom (t : ity) (e : sexpr)      (* T::from(e): lossless widening *)
  | SAs (t : ity) (e : sexpr)        (* e as T: truncation *)
  | SAdd (t : ity) (a b : sexpr)
  | SMul (t : ity) (a b : sexpr).

(* ValueFormat::size: two bytes per flag set among the low eight bits *)
Definition vf_bit (f i : Z) : Z := (f / 2 ^ i) mod 2.
Definition vf_size (f : Z) : Z :=
  2 * (vf_bit f 0 + vf_bit f 1 + vf_bit f 2 + vf_bit f 3 + vf_bit f 4 + vf_bit f 5 + vf_bit f 6 + vf_bit f 7).

Definition arith (m : mode) (t : ity) (v : Z) : outcome Z :=
  if v <? ity_mod t then Ok v
  else match m with Debug => Panic | Release => Ok (v mod ity_mod t) end.

Fixpoint seval (m : mode) (a : list Z) (e : sexpr) : outcome Z :=
  match e with
  | SLit n => Ok n
  | SArg i => Ok (nth i a 0)
  | SVfSize i => Ok (vf_size (nth i a 0))
  | SFrom _ e => seval m a e
  | SAs t e => v <- seval m a e ;; Ok (v mod ity_mod t)
  | SAdd t x y => vx <- seval m a x ;; vy <- seval m a y ;; arith m t (vx + vy)
  | SMul t x y => vx <- seval m a x ;; vy <- seval m a y ;; arith m t (vx * vy)
  end.

(* the values a component of that type can take *)
Definition aty_ok (t : aty) (v : Z) : bool :=
  (0 <=? v) && (v <? match t with AU8 => 256 | AU16 => 65536 | AU32 => 4294967296 | AU64 => USIZE
                               | AUsize => USIZE | AVf => 256 end).
Fixpoint args_ok (ts : list aty) (a : list Z) : bool :=
  match ts, a with
  | [], [] => true
  | t :: ts', v :: a' => aty_ok t v && args_ok ts' a'
  | _, _ => false
  end.
