(* Model/Layout.v — the parts of src/layout.rs, src/context.rs and src/gdef.rs that GSUB (C04) and GPOS (C05)
   share: Coverage / ClassDef lookup, GDEF classes, lookup-flag decoding (MatchType), glyph skipping and the
   backtrack / input / lookahead matcher, context rule selection (context_lookup_info,
   chain_context_lookup_info).  Written function by function after the Rust; no proofs here.

   Input is the ABSTRACT lookup program (the records below), not bytes: the harness serialises the same
   abstract program to GSUB/GDEF bytes and the byte parser of layout.rs is covered by
   serialise -> parse -> apply agreement.  The validity checks the parser performs (`ctxt.check(..)`,
   start <= end, ...) make it drop a whole subtable ("skipping invalid subtable"); their abstract image is
   the `*_parses` family at the end of this file.

   Glyph sequences are seen through the `Glyph` trait only (get_glyph_index), so every function here takes
   the list of glyph ids.  Positions are Z (usize in the Rust); every position handed to these functions by
   the callers is < length (the callers index `glyphs[i]` first), so no function here can panic. *)
From AV Require Import Base.Prelude Gen.LayoutConsts.
Open Scope Z_scope.

(* ------------------------------------------------------------------ Coverage (layout.rs:3269-3375) *)
Inductive coverage :=
| CovF1 (glyph_array : list Z)
| CovF2 (ranges : list (Z * Z * Z)).      (* start_glyph, end_glyph, start_coverage_index *)

(* `glyph_array.binary_search(&glyph)`: position of the glyph.  std's binary search is not modelled; on the
   strictly increasing arrays the OpenType format prescribes it returns the unique position, which is what
   this linear search returns (assumption recorded in lib/props/C04.py; the generator only emits strictly
   increasing format-1 arrays). *)
Fixpoint index_of (g : Z) (l : list Z) (k : Z) : option Z :=
  match l with
  | [] => None
  | x :: t => if x =? g then Some k else index_of g t (k + 1)
  end.

(* format 2: first range containing the glyph; start_coverage_index.checked_add(glyph - start_glyph) *)
Fixpoint cov_ranges_value (g : Z) (rs : list (Z * Z * Z)) : option Z :=
  match rs with
  | [] => None
  | (s, e, sci) :: t =>
    if (s <=? g) && (g <=? e)
    then (if sci + (g - s) <? 65536 then Some (sci + (g - s)) else None)
    else cov_ranges_value g t
  end.

Definition coverage_value (c : coverage) (g : Z) : option Z :=
  match c with
  | CovF1 l => index_of g l 0
  | CovF2 rs => cov_ranges_value g rs
  end.

Definition covers (c : coverage) (g : Z) : bool :=
  match coverage_value c g with Some _ => true | None => false end.

(* Coverage::glyph_count *)
Definition coverage_glyph_count (c : coverage) : Z :=
  match c with
  | CovF1 l => len l
  | CovF2 rs => fold_left (fun acc r => match r with (s, e, _) => acc + e - s + 1 end) rs 0
  end.

(* ------------------------------------------------------------------ ClassDef (layout.rs:3377-3464) *)
Inductive classdef :=
| CdF1 (start_glyph : Z) (class_value_array : list Z)
| CdF2 (ranges : list (Z * Z * Z)).       (* start_glyph, end_glyph, class_value *)

Fixpoint class_ranges_value (g : Z) (rs : list (Z * Z * Z)) : Z :=
  match rs with
  | [] => 0
  | (s, e, c) :: t => if (s <=? g) && (g <=? e) then c else class_ranges_value g t
  end.

Definition class_value (cd : classdef) (g : Z) : Z :=
  match cd with
  | CdF1 s vals => if (s <=? g) && (g - s <? len vals) then nthZ vals (g - s) else 0
  | CdF2 rs => class_ranges_value g rs
  end.

(* ------------------------------------------------------------------ GDEF (gdef.rs) *)
Record gdef := mkGdef {
  gd_class : option classdef;            (* opt_glyph_classdef *)
  gd_attach : option classdef;           (* opt_mark_attach_classdef *)
  gd_sets : option (list coverage)       (* opt_mark_glyph_sets *)
}.

Definition glyph_class (gd : option gdef) (g : Z) : Z :=
  match gd with
  | Some d => match gd_class d with Some cd => class_value cd g | None => GLYPH_CLASS_NONE end
  | None => GLYPH_CLASS_NONE
  end.

Definition mark_attach_class (gd : option gdef) (g : Z) : Z :=
  match gd with
  | Some d => match gd_attach d with Some cd => class_value cd g | None => GLYPH_CLASS_NONE end
  | None => GLYPH_CLASS_NONE
  end.

Definition gdef_is_mark (gd : option gdef) (g : Z) : bool := glyph_class gd g =? GLYPH_CLASS_MARK.

Definition glyph_is_mark_in_set (gd : option gdef) (g : Z) (index : Z) : bool :=
  gdef_is_mark gd g &&
  match gd with
  | Some d =>
    match gd_sets d with
    | Some sets => match nth_opt sets index with Some c => covers c g | None => false end
    | None => false
    end
  | None => false
  end.

(* ------------------------------------------------------------------ LookupFlag / MatchType (context.rs:80-164) *)
Inductive ignore_marks :=
| NoIgnoreMarks | IgnoreAllMarks | IgnoreMarksExcept (keep_class : Z) | IgnoreMarksInSet (index : Z).

Record match_type := mkMT { ignore_bases : bool; ignore_ligatures : bool; ignore_mks : ignore_marks }.

Definition flag_test (flag mask : Z) : bool := negb (Z.land flag mask =? 0).

Definition get_rtl (flag : Z) : bool := flag_test flag FLAG_RTL.
Definition get_ignore_bases (flag : Z) : bool := flag_test flag FLAG_IGNORE_BASES.
Definition get_ignore_ligatures (flag : Z) : bool := flag_test flag FLAG_IGNORE_LIGATURES.
Definition use_mark_filtering_set (flag : Z) : bool := flag_test flag FLAG_USE_MFS.

Definition get_ignore_marks (flag : Z) (mfs : option Z) : ignore_marks :=
  if flag_test flag FLAG_IGNORE_MARKS then IgnoreAllMarks
  else if flag_test flag FLAG_MAT_MASK then IgnoreMarksExcept (Z.shiftr flag FLAG_MAT_SHIFT mod 256)
  else match use_mark_filtering_set flag, mfs with
       | true, Some i => IgnoreMarksInSet i
       | _, _ => NoIgnoreMarks
       end.

Definition from_lookup_flag (flag : Z) (mfs : option Z) : match_type :=
  mkMT (get_ignore_bases flag) (get_ignore_ligatures flag) (get_ignore_marks flag mfs).

Definition mt_ignore_marks : match_type := mkMT false false IgnoreAllMarks.
Definition mt_marks_only : match_type := mkMT true true NoIgnoreMarks.

Definition is_no_ignore (im : ignore_marks) : bool :=
  match im with NoIgnoreMarks => true | _ => false end.

(* true = the glyph takes part in matching, false = the lookup skips it *)
Definition match_glyph (mt : match_type) (gd : option gdef) (g : Z) : bool :=
  if negb (ignore_bases mt) && negb (ignore_ligatures mt) && is_no_ignore (ignore_mks mt) then true
  else
    let gc := glyph_class gd g in
    if ignore_bases mt && (gc =? MG_CLASS_BASE) then false
    else if ignore_ligatures mt && (gc =? MG_CLASS_LIGATURE) then false
    else match ignore_mks mt with
         | NoIgnoreMarks => true
         | IgnoreAllMarks => negb (gc =? MG_CLASS_MARK)
         | IgnoreMarksExcept keep => negb (gc =? MG_CLASS_MARK) || (mark_attach_class gd g =? keep)
         | IgnoreMarksInSet i => negb (gc =? MG_CLASS_MARK) || glyph_is_mark_in_set gd g i
         end.

(* ------------------------------------------------------------------ position search (context.rs:166-232) *)
(* first matching glyph of l, whose head sits at position k; positions ascend *)
Fixpoint find_first_from (mt : match_type) (gd : option gdef) (l : list Z) (k : Z) : option Z :=
  match l with
  | [] => None
  | g :: t => if match_glyph mt gd g then Some k else find_first_from mt gd t (k + 1)
  end.

(* the same over a reversed prefix: head sits at position k; positions descend *)
Fixpoint find_first_down (mt : match_type) (gd : option gdef) (l : list Z) (k : Z) : option Z :=
  match l with
  | [] => None
  | g :: t => if match_glyph mt gd g then Some k else find_first_down mt gd t (k - 1)
  end.

(* searches backwards from glyphs[index-1] *)
Definition find_prev (mt : match_type) (gd : option gdef) (ids : list Z) (index : Z) : option Z :=
  find_first_down mt gd (rev (take index ids)) (index - 1).

(* searches forwards from glyphs[index+1] *)
Definition find_next (mt : match_type) (gd : option gdef) (ids : list Z) (index : Z) : option Z :=
  find_first_from mt gd (drop (index + 1) ids) (index + 1).

(* count == 0 returns the current index *)
Fixpoint find_nth (mt : match_type) (gd : option gdef) (ids : list Z) (index : Z) (count : nat) : option Z :=
  match count with
  | O => Some index
  | S c => match find_next mt gd ids index with
           | Some nx => find_nth mt gd ids nx c
           | None => None
           end
  end.

Definition find_first (mt : match_type) (gd : option gdef) (ids : list Z) : option Z :=
  find_first_from mt gd ids 0.

(* ------------------------------------------------------------------ GlyphTable / matcher (context.rs:27-313) *)
Inductive glyph_table :=
| GtEmpty
| GtById (l : list Z)
| GtByClassDef (cd : classdef) (l : list Z)
| GtByCoverage (l : list coverage).

(* one position of a glyph table together with what check_glyph_table tests there *)
Inductive gt_entry := EId (g : Z) | EClass (cd : classdef) (c : Z) | ECov (c : coverage).

Definition gt_entries (t : glyph_table) : list gt_entry :=
  match t with
  | GtEmpty => []
  | GtById l => map EId l
  | GtByClassDef cd l => map (EClass cd) l
  | GtByCoverage l => map ECov l
  end.

Definition gt_len (t : glyph_table) : Z := len (gt_entries t).

Definition check_entry (e : gt_entry) (g : Z) : bool :=
  match e with
  | EId x => x =? g
  | EClass cd c => class_value cd g =? c
  | ECov c => covers c g
  end.

Fixpoint match_back_entries (mt : match_type) (gd : option gdef) (es : list gt_entry) (ids : list Z) (index : Z) : bool :=
  match es with
  | [] => true
  | e :: es' =>
    match find_prev mt gd ids index with
    | Some p => if check_entry e (nthZ ids p) then match_back_entries mt gd es' ids p else false
    | None => false
    end
  end.

Definition match_back (mt : match_type) (gd : option gdef) (t : glyph_table) (ids : list Z) (index : Z) : bool :=
  match_back_entries mt gd (gt_entries t) ids index.

(* Some last_index = true with *last_index assigned; None = false (last_index untouched) *)
Fixpoint match_front_entries (mt : match_type) (gd : option gdef) (es : list gt_entry) (ids : list Z) (index : Z) : option Z :=
  match es with
  | [] => Some index
  | e :: es' =>
    match find_next mt gd ids index with
    | Some p => if check_entry e (nthZ ids p) then match_front_entries mt gd es' ids p else None
    | None => None
    end
  end.

Definition match_front (mt : match_type) (gd : option gdef) (t : glyph_table) (ids : list Z) (index : Z) : option Z :=
  match_front_entries mt gd (gt_entries t) ids index.

Record match_context := mkMC { mc_back : glyph_table; mc_input : glyph_table; mc_look : glyph_table }.

Definition mc_matches (gd : option gdef) (mt : match_type) (mc : match_context) (ids : list Z) (index : Z) : bool :=
  match_back mt gd (mc_back mc) ids index &&
  match match_front mt gd (mc_input mc) ids index with
  | Some front => match match_front mt gd (mc_look mc) ids front with Some _ => true | None => false end
  | None => false
  end.

(* ------------------------------------------------------------------ contextual lookups (layout.rs:2578-3267) *)
Definition lookup_records := list (Z * Z).        (* (sequence index, lookup list index) *)

Record ctx_rule := mkRule { r_input : list Z; r_recs : lookup_records }.
Record chain_rule := mkCRule { cr_back : list Z; cr_input : list Z; cr_look : list Z; cr_recs : lookup_records }.

Inductive context_lookup :=
| CtxF1 (cov : coverage) (subrulesets : list (option (list ctx_rule)))
| CtxF2 (cov : coverage) (cd : classdef) (subclasssets : list (option (list ctx_rule)))
| CtxF3 (coverages : list coverage) (recs : lookup_records).

Inductive chain_context_lookup :=
| ChF1 (cov : coverage) (sets : list (option (list chain_rule)))
| ChF2 (cov : coverage) (bcd icd lcd : classdef) (sets : list (option (list chain_rule)))
| ChF3 (bcovs icovs lcovs : list coverage) (recs : lookup_records).

(* `for rule in rules { if f(ctx) { return Some(..) } }` *)
Fixpoint first_rule {R} (mk : R -> match_context * lookup_records) (f : match_context -> bool) (rules : list R)
  : option (match_context * lookup_records) :=
  match rules with
  | [] => None
  | r :: t => if f (fst (mk r)) then Some (mk r) else first_rule mk f t
  end.

(* v.check_index(i)?; v[i] *)
Definition checked_nth {A} (l : list A) (i : Z) : outcome A :=
  match nth_opt l i with Some a => Ok a | None => Err BadIndex end.

Definition context_lookup_info (cl : context_lookup) (g : Z) (f : match_context -> bool)
  : outcome (option (match_context * lookup_records)) :=
  match cl with
  | CtxF1 cov sets =>
    match coverage_value cov g with
    | Some ci =>
      s <- checked_nth sets ci ;;
      match s with
      | Some rules => Ok (first_rule (fun r => (mkMC GtEmpty (GtById (r_input r)) GtEmpty, r_recs r)) f rules)
      | None => Ok None
      end
    | None => Ok None
    end
  | CtxF2 cov cd sets =>
    match coverage_value cov g with
    | Some _ =>
      s <- checked_nth sets (class_value cd g) ;;
      match s with
      | Some rules => Ok (first_rule (fun r => (mkMC GtEmpty (GtByClassDef cd (r_input r)) GtEmpty, r_recs r)) f rules)
      | None => Ok None
      end
    | None => Ok None
    end
  | CtxF3 covs recs =>
    match covs with
    | [] => Ok None
    | c0 :: rest =>
      match coverage_value c0 g with
      | Some _ =>
        let mc := mkMC GtEmpty (GtByCoverage rest) GtEmpty in
        if f mc then Ok (Some (mc, recs)) else Ok None
      | None => Ok None
      end
    end
  end.

Definition chain_context_lookup_info (cl : chain_context_lookup) (g : Z) (f : match_context -> bool)
  : outcome (option (match_context * lookup_records)) :=
  match cl with
  | ChF1 cov sets =>
    match coverage_value cov g with
    | Some ci =>
      s <- checked_nth sets ci ;;
      match s with
      | Some rules =>
        Ok (first_rule (fun r => (mkMC (GtById (cr_back r)) (GtById (cr_input r)) (GtById (cr_look r)), cr_recs r)) f rules)
      | None => Ok None
      end
    | None => Ok None
    end
  | ChF2 cov bcd icd lcd sets =>
    match coverage_value cov g with
    | Some _ =>
      s <- checked_nth sets (class_value icd g) ;;
      match s with
      | Some rules =>
        Ok (first_rule (fun r => (mkMC (GtByClassDef bcd (cr_back r)) (GtByClassDef icd (cr_input r))
                                       (GtByClassDef lcd (cr_look r)), cr_recs r)) f rules)
      | None => Ok None
      end
    | None => Ok None
    end
  | ChF3 bcovs icovs lcovs recs =>
    match icovs with
    | [] => Panic                                   (* input_coverages[0]; the parser rejects input_count = 0 *)
    | c0 :: rest =>
      match coverage_value c0 g with
      | Some _ =>
        let mc := mkMC (GtByCoverage bcovs) (GtByCoverage rest) (GtByCoverage lcovs) in
        if f mc then Ok (Some (mc, recs)) else Ok None
      | None => Ok None
      end
    end
  end.

(* ------------------------------------------------------------------ abstract image of the parser's validity checks *)
Definition coverage_parses (c : coverage) : bool :=
  match c with
  | CovF1 _ => true
  | CovF2 rs => forallb (fun r => match r with (s, e, _) => s <=? e end) rs
  end.

Definition opt_rules_parse {R} (ok : R -> bool) (sets : list (option (list R))) : bool :=
  forallb (fun s => match s with Some rules => forallb ok rules | None => true end) sets.

Definition context_parses (cl : context_lookup) : bool :=
  match cl with
  | CtxF1 cov _ => coverage_parses cov
  | CtxF2 cov _ _ => coverage_parses cov
  | CtxF3 covs _ => negb (len covs =? 0) && forallb coverage_parses covs
  end.

Definition chain_parses (cl : chain_context_lookup) : bool :=
  match cl with
  | ChF1 cov _ => coverage_parses cov
  | ChF2 cov _ _ _ _ => coverage_parses cov
  | ChF3 b i l _ => negb (len i =? 0) && forallb coverage_parses b && forallb coverage_parses i && forallb coverage_parses l
  end.
