(* Model/LayoutSpec.v — declarative specifications, written after the OpenType specification and NOT after
   the control flow of the Rust, of: which glyphs a lookup skips (lookupFlag table of the "Lookup table"
   section of OpenType chapter 2), what a Coverage table of either format denotes, what a ClassDef denotes.
   Definitions only (this file is also extracted: the correspondence judge evaluates `skip_spec` on the
   implementation's output).  The theorems relating the model to these are in Proofs/LayoutProofs.v. *)
From AV Require Import Base.Prelude Model.Layout.
Open Scope Z_scope.

(* GDEF glyph class numbers of the OpenType specification (GlyphClassDef table) *)
Definition CLASS_BASE : Z := 1.
Definition CLASS_LIGATURE : Z := 2.
Definition CLASS_MARK : Z := 3.

(* membership of a glyph in mark glyph set `i` of GDEF; a missing GDEF / table / set is the empty set *)
Definition in_mark_set (gd : option gdef) (i : Z) (g : Z) : bool :=
  match gd with
  | Some d =>
    match gd_sets d with
    | Some sets => match nth_opt sets i with Some c => covers c g | None => false end
    | None => false
    end
  | None => false
  end.

(* lookupFlag bit enumeration:
     bit 1 (0x0002) ignoreBaseGlyphs   "If set, skips over base glyphs"
     bit 2 (0x0004) ignoreLigatures    "If set, skips over ligatures"
     bit 3 (0x0008) ignoreMarks        "If set, skips over all combining marks"
     bit 4 (0x0010) useMarkFilteringSet "the layout engine skips over all mark glyphs not in the mark filtering set indicated"
     0xFF00 markAttachmentTypeMask     "If not zero, skips over all marks of attachment type different from specified"
   `f` is the 16-bit flag word, `mfs` the markFilteringSet field (present iff bit 4 is set). *)
Definition mark_attachment_type (f : Z) : Z := f / 256.

Definition skip_spec (f : Z) (mfs : option Z) (gd : option gdef) (g : Z) : bool :=
  let c := glyph_class gd g in
  (Z.testbit f 1 && (c =? CLASS_BASE))
  || (Z.testbit f 2 && (c =? CLASS_LIGATURE))
  || ((c =? CLASS_MARK)
      && (Z.testbit f 3
          || (negb (mark_attachment_type f =? 0) && negb (mark_attach_class gd g =? mark_attachment_type f))
          || (Z.testbit f 4 && match mfs with Some i => negb (in_mark_set gd i g) | None => false end))).

(* the flag words on which the implementation is known to deviate (finding F12): a mark attachment type AND a
   mark filtering set, without ignoreMarks — the implementation then ignores the filtering set *)
Definition flag_combines_attach_and_set (f : Z) (mfs : option Z) : bool :=
  negb (mark_attachment_type f =? 0) && Z.testbit f 4 && negb (Z.testbit f 3)
  && match mfs with Some _ => true | None => false end.

(* ---- Coverage: the glyph list a table denotes, coverage index = position in that list *)
Fixpoint expand_ranges (rs : list (Z * Z * Z)) : list Z :=
  match rs with
  | [] => []
  | (s, e, _) :: t => range s (Z.to_nat (e - s + 1)) ++ expand_ranges t
  end.

Definition coverage_glyphs (c : coverage) : list Z :=
  match c with
  | CovF1 l => l
  | CovF2 rs => expand_ranges rs
  end.

(* strictly increasing glyph ids *)
Fixpoint strictly_sorted (l : list Z) : Prop :=
  match l with
  | [] => True
  | x :: t => match t with [] => True | y :: _ => x < y end /\ strictly_sorted t
  end.

(* format 2 well-formedness: ranges ordered, disjoint, start <= end, startCoverageIndex continues the count *)
Fixpoint ranges_wf (rs : list (Z * Z * Z)) (next_glyph next_index : Z) : Prop :=
  match rs with
  | [] => True
  | (s, e, sci) :: t => next_glyph <= s /\ s <= e /\ sci = next_index /\ ranges_wf t (e + 1) (next_index + (e - s + 1))
  end.

Definition coverage_wf (c : coverage) : Prop :=
  match c with
  | CovF1 l => strictly_sorted l
  | CovF2 rs => ranges_wf rs 0 0
  end.

(* ---- contextual matching: a rule is matched against the glyphs the lookup does NOT skip.
   `unskipped` = the glyphs that take part, in order; backtrack entries are compared, nearest first, with the
   unskipped glyphs before the position (walking left), input and lookahead entries with the unskipped
   glyphs after it (walking right). *)
Definition unskipped (mt : match_type) (gd : option gdef) (l : list Z) : list Z := filter (match_glyph mt gd) l.

(* every entry of the rule is satisfied by the glyph at the same rank *)
Fixpoint prefix_check (es : list gt_entry) (l : list Z) : bool :=
  match es, l with
  | [], _ => true
  | e :: es', g :: l' => check_entry e g && prefix_check es' l'
  | _ :: _, [] => false
  end.

Definition context_matches_spec (gd : option gdef) (mt : match_type) (mc : match_context) (ids : list Z) (i : Z) : bool :=
  prefix_check (gt_entries (mc_back mc)) (unskipped mt gd (rev (take i ids))) &&
  prefix_check (gt_entries (mc_input mc) ++ gt_entries (mc_look mc)) (unskipped mt gd (drop (i + 1) ids)).
