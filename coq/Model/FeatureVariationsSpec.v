(* Model/FeatureVariationsSpec.v — the declarative side of feature variations (definitions only).

   OpenType, chapter 2, FeatureVariations: "the first feature variation record for which the condition set
   matches the runtime context will be considered as a candidate: if the version of the FeatureTableSubstitution
   table is supported, then this feature variation record will be used, and no additional feature variation
   records will be considered.  If the version is not supported, then this feature variation record is rejected
   and processing will move to the next feature variation record."  A record whose substitution offset is NULL is
   used like any other: no substitutions are made. *)
From AV Require Import Base.Prelude Gen.LayoutConsts Model.Reader Model.Layout Model.Gsub Model.FeatureVariations.
Open Scope Z_scope.

(* ------------------------------------------------------------------ one record against a tuple *)
Inductive rec_status :=
| RSMatch (s : ft_subst)      (* the condition set matches and the substitution (NULL included) is usable *)
| RSNoMatch                   (* the condition set does not match *)
| RSRejected                  (* the condition set matches, the substitution table's version is not supported *)
| RSFail (e : err)            (* a table that had to be read is unreadable *)
| RSPanic
| RSOOB.

Definition record_status (m : mode) (sc : scope) (r : Z * Z) (t : tuple) : rec_status :=
  match record_condition m sc r t with
  | Ok true =>
    match record_substitution m sc (snd r) with
    | Ok s => RSMatch s
    | Err BadVersion => RSRejected
    | Err e => RSFail e
    | Panic => RSPanic
    | OOB => RSOOB
    end
  | Ok false => RSNoMatch
  | Err e => RSFail e
  | Panic => RSPanic
  | OOB => RSOOB
  end.

(* records the search goes past *)
Definition passed_over (st : rec_status) : bool :=
  match st with RSNoMatch | RSRejected => true | _ => false end.

(* what a record that is not passed over makes `matches` return *)
Definition status_result (st : rec_status) : outcome (option ft_subst) :=
  match st with
  | RSMatch s => Ok (Some s)
  | RSNoMatch | RSRejected => Ok None
  | RSFail e => Err e
  | RSPanic => Panic
  | RSOOB => OOB
  end.

(* index of the first record that is not passed over *)
Fixpoint first_decisive (m : mode) (sc : scope) (recs : list (Z * Z)) (t : tuple) : option nat :=
  match recs with
  | [] => None
  | r :: rest =>
    if passed_over (record_status m sc r t) then option_map S (first_decisive m sc rest t)
    else Some O
  end.

Definition fv_matches_spec (m : mode) (sc : scope) (recs : list (Z * Z)) (t : tuple) : outcome (option ft_subst) :=
  match first_decisive m sc recs t with
  | None => Ok None
  | Some i =>
    match nth_error recs i with
    | Some r => status_result (record_status m sc r t)
    | None => Ok None
    end
  end.

(* ------------------------------------------------------------------ condition sets *)
(* one condition offset of a condition set: the table is readable, of the known format, and the tuple's value on
   its axis lies in the closed range *)
Definition condition_at_holds (m : mode) (sc : scope) (t : tuple) (o : Z) : bool :=
  match scope_offset m sc o with
  | Ok s => match condition_read (ctxt_new s) with
            | Ok cd => condition_matches cd t
            | _ => false
            end
  | _ => false
  end.

(* ------------------------------------------------------------------ FeatureTableSubstitution records *)
(* the order the format prescribes: non-decreasing feature index *)
Fixpoint fi_sorted (recs : list (Z * Z)) : Prop :=
  match recs with
  | [] => True
  | r :: rest => (forall r', In r' rest -> fst r <= fst r') /\ fi_sorted rest
  end.

(* the alternate feature table of a substitution record: `scope.offset(off).read::<FeatureTable>().ok()` *)
Definition alternate_table (m : mode) (sc : scope) (off : Z) : outcome (option (list Z)) :=
  s' <- scope_offset m sc off ;;
  match feature_table_read m (ctxt_new s') with
  | Ok ft => Ok (Some ft)
  | Err _ => Ok None
  | Panic => Panic
  | OOB => OOB
  end.

(* ------------------------------------------------------------------ the feature list after substitution *)
(* feature i keeps its tag; its lookup list is the alternate one when the substitution names index i *)
Fixpoint subst_features (m : mode) (s : ft_subst) (fl : list (Z * list Z)) (i : Z) : outcome (list (Z * list Z)) :=
  match fl with
  | [] => Ok []
  | (tag, li) :: rest =>
    alt <- fts_substitute m s i ;;
    rest' <- subst_features m s rest (i + 1) ;;
    Ok ((tag, match alt with Some a => a | None => li end) :: rest')
  end.

Definition subst_layout (m : mode) (fv : option ft_subst) (t : layout_table) : outcome layout_table :=
  match fv, lt_features t with
  | Some s, Some fl =>
    fl' <- subst_features m s fl 0 ;;
    Ok (mkLayout (lt_scripts t) (Some fl') (lt_lookups t))
  | _, _ => Ok t
  end.

(* well-formed byte strings / scopes: what the totality lemmas need (a table is a byte string shorter than 2^32,
   the OpenType table length is a u32) *)
Definition table_ok (d : list Z) : Prop := bytes_ok d = true /\ len d < 4294967296.

(* ------------------------------------------------------------------ demo table (used by the Examples of Props/C04.v)
   GSUB 1.1: header with featureVariationsOffset 14, then the FeatureVariations table:
     record 0: wght in [0.75, 1.0] (12288..16384), NULL substitution
     record 1: wght in [0.5, 1.0]  (8192..16384),  feature 0 ('liga') -> lookup 1
   liga -> lookup 0 (glyph 5 -> 6) in the feature list; lookup 1 maps 5 -> 15. *)
Definition fv_demo_bytes : list Z :=
  [0;1; 0;1; 0;0; 0;0; 0;0; 0;0;0;14;
   0;1; 0;0; 0;0;0;2;   0;0;0;24; 0;0;0;0;   0;0;0;38; 0;0;0;52;
   0;1; 0;0;0;6;  0;1; 0;0; 48;0; 64;0;
   0;1; 0;0;0;6;  0;1; 0;0; 32;0; 64;0;
   0;1; 0;0; 0;1;  0;0; 0;0;0;12;   0;0; 0;1; 0;1].

Definition fv_demo_layout : layout_table :=
  mkLayout (Some [(TAG_DFLT, mkScript (Some (mkLangSys [0])) [])])
           (Some [(1818847073, [0])])
           (Some [mkLookup 0 None (LSingle [SingleF1 (CovF1 [5]) 1]);
                  mkLookup 0 None (LSingle [SingleF1 (CovF1 [5]) 10])]).

Definition fv_demo_run (tu : option tuple) : outcome (list Z) :=
  fvt <- layout_read_fv Debug fv_demo_bytes ;;
  gs <- gsub_apply_custom_v Debug fv_demo_layout fvt None TAG_DFLT None [(1818847073, None)] tu 100
          [mkGlyph 5 [97] 0 (Some 97) false false false 0] ;;
  Ok (ids gs).

