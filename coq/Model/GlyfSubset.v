(* Model/GlyfSubset.v — executable model of
     src/tables/glyf/subset.rs   GlyfTable::subset, add_glyph, SubsetGlyphs::{len,old_id,new_id}
     src/subset.rs               create_hmtx_table
     src/tables.rs               HmtxTable::metric, HmtxTable::horizontal_advance
     src/tables/glyf/outline.rs  the composite traversal of GlyfTable::visit_outline (abstract leaves)
   written function by function after the Rust.  No proofs here. *)
From AV Require Import Base.Prelude Gen.SubsetConsts.
Open Scope Z_scope.

(* ------------------------------------------------------------------------------------------- *)
(* An abstract glyf table.  A record is what GlyfTable::subset can tell apart:
     GEmpty            Parsed(Glyph::Empty)
     GSimple p         number_of_contours >= 0 (Present or Parsed); p stands for every byte of it
     GComposite cs r   number_of_contours < 0 and parse() succeeds: the components
                       (glyph_index, d) with d standing for flags/arguments/scale, and r for the
                       bounding box and instructions
     GBadComposite e   a Present record with number_of_contours < 0 whose parse() fails with e *)
Inductive glyph :=
| GEmpty
| GSimple (payload : Z)
| GComposite (comps : list (Z * Z)) (rest : Z)
| GBadComposite (e : err).

Definition table := list glyph.

(* self.records.get(usize::from(glyph_id)) *)
Definition get_record (tbl : table) (g : Z) : option glyph := nth_opt tbl g.

(* glyph_ids.iter().position(|&id| id == x) *)
Fixpoint position (ids : list Z) (x : Z) : option nat :=
  match ids with
  | [] => None
  | y :: r => if y =? x then Some O else option_map S (position r x)
  end.

(* fn add_glyph(glyph_ids: &mut Vec<u16>, composite: &mut CompositeGlyph) *)
Fixpoint add_glyph (ids : list Z) (comps : list (Z * Z)) : list Z * list (Z * Z) :=
  match comps with
  | [] => (ids, [])
  | (g, d) :: cs =>
    let '(ids1, p) := match position ids g with
                      | Some p => (ids, p)
                      | None => (ids ++ [g], length ids)   (* push, new_id = old len *)
                      end in
    let '(ids2, cs') := add_glyph ids1 cs in
    (ids2, (new_id_cast (Z.of_nat p), d) :: cs')
  end.

(* the body of `while i < glyph_ids.len()` for one i: the possibly extended id list and the record
   that is pushed *)
Definition subset_step (tbl : table) (ids : list Z) (g : Z) : outcome (list Z * glyph) :=
  match get_record tbl g with
  | None => Err BadIndex
  | Some (GComposite comps rest) =>
    let '(ids', comps') := add_glyph ids comps in Ok (ids', GComposite comps' rest)
  | Some (GBadComposite e) => Err e
  | Some r => Ok (ids, r)
  end.

(* the while loop; None = the fuel ran out (never with the fuel glyf_subset passes: C07_glyf_fuel_enough) *)
Fixpoint subset_loop (fuel : nat) (tbl : table) (ids : list Z) (i : nat) (recs : list (Z * glyph))
  : option (outcome (list (Z * glyph))) :=
  match nth_error ids i with
  | None => Some (Ok recs)                                  (* i >= glyph_ids.len() *)
  | Some g =>
    match fuel with
    | O => None
    | S f =>
      match subset_step tbl ids g with
      | Ok (ids', r) => subset_loop f tbl ids' (S i) (recs ++ [(g, r)])
      | Err e => Some (Err e)
      | Panic => Some Panic
      | OOB => Some OOB
      end
    end
  end.

(* every glyph index that occurs in a component of the table *)
Definition comps_of (g : glyph) : list Z :=
  match g with GComposite cs _ => map fst cs | _ => [] end.
Definition all_comps (tbl : table) : list Z := flat_map comps_of tbl.

(* an upper bound of the number of iterations, derived from list lengths only *)
Definition subset_fuel (tbl : table) (ids : list Z) : nat := S (length ids + length (all_comps tbl)).

(* GlyfTable::subset: the glyphs vector of SubsetGlyf as (old_id, record) *)
Definition glyf_subset (tbl : table) (ids : list Z) : outcome (list (Z * glyph)) :=
  match subset_loop (subset_fuel tbl ids) tbl ids O [] with
  | Some r => r
  | None => Panic
  end.

(* SubsetGlyphs for SubsetGlyf *)
Definition sg_len (s : list (Z * glyph)) : Z := len s.
Definition sg_old_id (s : list (Z * glyph)) (new_id : Z) : outcome Z :=
  match nth_opt s new_id with Some (o, _) => Ok o | None => Panic end.   (* self.glyphs[..] *)
(* old_to_new_id is collected from (old_id, new_id as u16) pairs: a later pair overwrites *)
Fixpoint last_position_from (s : list (Z * glyph)) (k : Z) (old : Z) (acc : option Z) : option Z :=
  match s with
  | [] => acc
  | (o, _) :: r => last_position_from r (k + 1) old (if o =? old then Some (new_id_cast k) else acc)
  end.
Definition sg_new_id (s : list (Z * glyph)) (old : Z) : Z :=
  match last_position_from s 0 old None with Some n => n | None => 0 end.

(* From<SubsetGlyf> for GlyfTable *)
Definition sg_table (s : list (Z * glyph)) : table := map snd s.

(* ------------------------------------------------------------------------------------------- *)
(* hmtx.  A table is (h_metrics : list (advance, lsb), left_side_bearings : list lsb). *)

(* ReadArrayCow::read_item *)
Definition read_item {A} (l : list A) (i : Z) : outcome A :=
  match nth_opt l i with Some a => Ok a | None => Err BadIndex end.

(* the loop body of create_hmtx_table for one new glyph with old id `old` *)
Definition hmtx_entry (m : mode) (hm : list (Z * Z)) (lsbs : list Z) (nhm : Z) (old : Z)
  : outcome (Z * Z) :=
  if old <? nhm then read_item hm old
  else
    last <- hmtx_last_long_index m nhm ;;
    metric <- read_item hm last ;;
    lsb <- read_item lsbs (hmtx_lsb_index old nhm) ;;
    Ok (fst metric, lsb).

(* create_hmtx_table(hmtx, num_h_metrics, subset_glyphs) with subset_glyphs.old_id(n) = nth n olds;
   the result is the new h_metrics array (the new left_side_bearings array is empty) *)
Fixpoint create_hmtx (m : mode) (hm : list (Z * Z)) (lsbs : list Z) (nhm : Z) (olds : list Z)
  : outcome (list (Z * Z)) :=
  match olds with
  | [] => Ok []
  | o :: r =>
    e <- hmtx_entry m hm lsbs nhm o ;;
    t <- create_hmtx m hm lsbs nhm r ;;
    Ok (e :: t)
  end.

(* HmtxTable::metric *)
Definition hmtx_metric (hm : list (Z * Z)) (lsbs : list Z) (g : Z) : outcome (Z * Z) :=
  if len hm =? 0 then Err BadIndex
  else if g <? len hm then read_item hm g
  else
    metric <- read_item hm (len hm - 1) ;;
    lsb <- read_item lsbs (g - len hm) ;;        (* check_index then read_item *)
    Ok (fst metric, lsb).

(* HmtxTable::horizontal_advance *)
Definition hmtx_advance (hm : list (Z * Z)) (g : Z) : outcome Z :=
  if len hm =? 0 then Err BadIndex
  else
    metric <- (if g <? len hm then read_item hm g else read_item hm (len hm - 1)) ;;
    Ok (fst metric).

(* ------------------------------------------------------------------------------------------- *)
(* Outlines.  GlyfTable::visit_outline walks the components depth first; what a simple glyph
   contributes depends only on its bytes and on the transform handed down, so an outline is the
   list of (transform, payload) leaves in visiting order.  `comb parent d` is the transform a
   component with data d receives below a parent transform (the code passes d alone; the
   theorems hold for every comb).  fuel = number of nested levels still allowed. *)
Fixpoint seq_concat {A} (l : list (outcome (list A))) : outcome (list A) :=
  match l with
  | [] => Ok []
  | x :: r => a <- x ;; b <- seq_concat r ;; Ok (a ++ b)
  end.

Fixpoint outline (comb : Z -> Z -> Z) (fuel : nat) (tbl : table) (g : Z) (tr : Z)
  : outcome (list (Z * Z)) :=
  match fuel with
  | O => Err LimitExceeded
  | S f =>
    match get_record tbl g with
    | None => Err BadIndex
    | Some GEmpty => Ok []
    | Some (GSimple p) => Ok [(tr, p)]
    | Some (GComposite comps _) =>
      seq_concat (map (fun c => outline comb f tbl (fst c) (comb tr (snd c))) comps)
    | Some (GBadComposite e) => Err e
    end
  end.

(* what the code does: the component's own offset/scale, the parent's is dropped *)
Definition comb_impl (parent d : Z) : Z := d.
Definition glyf_outline (tbl : table) (g : Z) : outcome (list (Z * Z)) :=
  outline comb_impl composite_levels tbl g 0.
