(* Model/TableLayout.v — straight-line table readers and writers as data.

   A reader (`ReadBinary::read`, `ReadFrom`) that is a sequence of primitive reads, checks,
   enum matches, `from_bits_truncate` and fixed-size byte arrays is a `list ritem`; a writer
   (`WriteBinary::write`) that is a sequence of primitive writes of fields / literals,
   placeholders and fixed-size byte arrays is a `list witem`.  translators/tr_layouts.py
   extracts both lists, independently, from the Rust text (Gen/TableLayouts.v); the two
   interpreters below give them their meaning.  No proofs in this file. *)
From Coq Require Import Strings.Byte.
From AV Require Import Base.Prelude Gen.ReaderPrims Model.Reader Model.ReaderExt.
Open Scope Z_scope.

(* field / variable names of the Rust source.  (Not Coq's `string`: the extracted type would shadow
   OCaml's own in the shared driver glue.) *)
Inductive fname := FName (b : list byte).
Definition fname_of_bytes (l : list byte) : fname := FName l.
Definition bytes_of_fname (n : fname) : list byte := match n with FName l => l end.
Declare Scope fname_scope.
Delimit Scope fname_scope with fname.
String Notation fname fname_of_bytes bytes_of_fname : fname_scope.
Fixpoint bytes_eqb (a b : list byte) : bool :=
  match a, b with
  | [], [] => true
  | x :: a', y :: b' => Byte.eqb x y && bytes_eqb a' b'
  | _, _ => false
  end.
Definition fname_eqb (a b : fname) : bool := bytes_eqb (bytes_of_fname a) (bytes_of_fname b).

Inductive ritem :=
| RRead (n : fname) (p : prim) (keep : bool)   (* let n = ctxt.read_p()?;  keep = n is a field of the struct built at the end *)
| RAssert (n : fname) (k : Z)                  (* ctxt.check(n == k)?;  at the place where it occurs *)
| REnum (n : fname) (p : prim) (vals : list Z) (* let n = ctxt.read::<E>()?  E a C-like enum: match { k => Ok(V).., _ => Err(BadValue) } *)
| RTrunc (n : fname) (p : prim) (mask : Z)     (* ctxt.read::<P>().map(F::from_bits_truncate)? *)
| RBytes (n : fname) (k : Z).                  (* let n: [u8; k] = ctxt.read_slice(k)?.try_into().unwrap() *)

Inductive witem :=
| WField (n : fname) (p : prim)                (* P::write(ctxt, table.n)? *)
| WConst (p : prim) (k : Z)                     (* P::write(ctxt, literal)? *)
| WHole (n : fname) (p : prim)                 (* let n = ctxt.placeholder()?  — zeros now, filled by the caller *)
| WEnum (n : fname) (p : prim) (vals : list Z) (* E::write(ctxt, table.n)? *)
| WBytes (n : fname) (k : Z).                  (* ctxt.write_bytes(&table.n)?  n: [u8; k] *)

(* ---------- values *)
(* size in bytes of `to_be_bytes()` of the host type (u8 1 … i64 8; U24 writes bytes 1..4 of a u32) *)
Definition wsize (p : prim) : nat :=
  (match p with PU8 | PI8 => 1 | PU16 | PI16 => 2 | PU24 => 3 | PU32 | PI32 => 4 | PU64 | PI64 => 8 end)%nat.
Definition is_signed (p : prim) : bool :=
  match p with PI8 | PI16 | PI32 | PI64 => true | _ => false end.
Definition prim_bits (p : prim) : Z := 8 * Z.of_nat (wsize p).
(* the values of the host type *)
Definition prim_in_range (p : prim) (v : Z) : bool :=
  if is_signed p then (- 2 ^ (prim_bits p - 1) <=? v) && (v <? 2 ^ (prim_bits p - 1))
  else (0 <=? v) && (v <? 2 ^ prim_bits p).

(* `v.to_be_bytes()`: big-endian two's complement (floor division gives the two's-complement digits) *)
Definition write_prim (p : prim) (v : Z) : list Z := be_bytes (wsize p) v.

Definition mem_z (v : Z) (l : list Z) : bool := existsb (Z.eqb v) l.

Fixpoint lookup (n : fname) (env : list (fname * Z)) : option Z :=
  match env with
  | [] => None
  | (m, v) :: r => if fname_eqb n m then Some v else lookup n r
  end.

(* ---------- the reader.  env = the variables bound so far (for the checks); result = the values
   of the struct fields in the order they were read *)
Fixpoint read_items (its : list ritem) (env : list (fname * Z)) (c : ctxt) : outcome (list Z * ctxt) :=
  match its with
  | [] => Ok ([], c)
  | RRead n p keep :: r =>
      '(v, c1) <- read_prim p c ;;
      '(vs, c2) <- read_items r ((n, v) :: env) c1 ;;
      Ok (if keep then v :: vs else vs, c2)
  | RAssert n k :: r =>
      match lookup n env with
      | Some v => if v =? k then read_items r env c else Err BadValue
      | None => Panic   (* unbound variable: excluded by `wf_asserts`, never produced by the translator *)
      end
  | REnum n p vals :: r =>
      '(v, c1) <- read_prim p c ;;
      if mem_z v vals then
        '(vs, c2) <- read_items r ((n, v) :: env) c1 ;; Ok (v :: vs, c2)
      else Err BadValue
  | RTrunc n p mask :: r =>
      '(v, c1) <- read_prim p c ;;
      '(vs, c2) <- read_items r ((n, Z.land v mask) :: env) c1 ;;
      Ok (Z.land v mask :: vs, c2)
  | RBytes n k :: r =>
      '(d, c1) <- read_slice Debug c k ;;
      '(vs, c2) <- read_items r env c1 ;;
      Ok (d ++ vs, c2)
  end.

(* number of values a writer consumes (= number of scalar struct fields, arrays flattened) *)
Fixpoint wcount (its : list witem) : nat :=
  match its with
  | [] => O
  | WConst _ _ :: r => wcount r
  | WBytes _ k :: r => (Z.to_nat k + wcount r)%nat
  | _ :: r => S (wcount r)
  end.

(* ---------- the writer.  vs = the field values in writer order; fill = whether the caller later
   fills the placeholders with the field's value (write_placeholder) or leaves the zeros *)
Fixpoint write_items (fill : bool) (its : list witem) (vs : list Z) : list Z :=
  match its with
  | [] => []
  | WField n p :: r => write_prim p (hd 0 vs) ++ write_items fill r (tl vs)
  | WConst p k :: r => write_prim p k ++ write_items fill r vs
  | WHole n p :: r => write_prim p (if fill then hd 0 vs else 0) ++ write_items fill r (tl vs)
  | WEnum n p vals :: r => write_prim p (hd 0 vs) ++ write_items fill r (tl vs)
  | WBytes n k :: r => firstn (Z.to_nat k) vs ++ write_items fill r (skipn (Z.to_nat k) vs)
  end.

(* what a reader is expected to return for the values vs: the values, placeholders unfilled = 0 *)
Fixpoint readback (fill : bool) (its : list witem) (vs : list Z) : list Z :=
  match its with
  | [] => []
  | WConst p k :: r => readback fill r vs
  | WHole n p :: r => (if fill then hd 0 vs else 0) :: readback fill r (tl vs)
  | WBytes n k :: r => firstn (Z.to_nat k) vs ++ readback fill r (skipn (Z.to_nat k) vs)
  | _ :: r => hd 0 vs :: readback fill r (tl vs)
  end.

(* ---------- the decidable compatibility of a reader with a writer (asserts aside) *)
Definition prim_eqb (a b : prim) : bool :=
  match a, b with
  | PU8, PU8 | PI8, PI8 | PU16, PU16 | PI16, PI16 | PU24, PU24 | PU32, PU32 | PI32, PI32
  | PU64, PU64 | PI64, PI64 => true
  | _, _ => false
  end.

Fixpoint strip_asserts (its : list ritem) : list ritem :=
  match its with
  | [] => []
  | RAssert _ _ :: r => strip_asserts r
  | i :: r => i :: strip_asserts r
  end.

Definition item_compat (r : ritem) (w : witem) : bool :=
  match r, w with
  | RRead n p true, WField m q => fname_eqb n m && prim_eqb p q
  | RRead n p true, WHole m q => fname_eqb n m && prim_eqb p q
  | RRead n p false, WConst q k => prim_eqb p q && prim_in_range q k
  | REnum n p vals, WEnum m q wvals => fname_eqb n m && prim_eqb p q && zlist_eqb vals wvals
  | RTrunc n p mask, WField m q => fname_eqb n m && prim_eqb p q && negb (is_signed p) && (0 <=? mask)
  | RBytes n k, WBytes m j => fname_eqb n m && (k =? j) && (0 <=? k)
  | _, _ => false
  end.

Fixpoint items_compat (rl : list ritem) (wl : list witem) : bool :=
  match rl, wl with
  | [], [] => true
  | r :: rl', w :: wl' => item_compat r w && items_compat rl' wl'
  | _, _ => false
  end.

Definition compat (rl : list ritem) (wl : list witem) : bool := items_compat (strip_asserts rl) wl.

(* the constraints a struct value has to meet, field by field (reader order = writer order):
   host-type range, enum membership, no bits outside the bitflags mask, bytes *)
Fixpoint vals_okb (rl : list ritem) (vs : list Z) : bool :=
  match rl with
  | [] => match vs with [] => true | _ => false end
  | RRead n p true :: r => match vs with v :: vs' => prim_in_range p v && vals_okb r vs' | [] => false end
  | RRead n p false :: r => vals_okb r vs
  | RAssert n k :: r => vals_okb r vs
  | REnum n p vals :: r => match vs with v :: vs' => prim_in_range p v && mem_z v vals && vals_okb r vs' | [] => false end
  | RTrunc n p mask :: r => match vs with v :: vs' => prim_in_range p v && (Z.land v mask =? v) && vals_okb r vs' | [] => false end
  | RBytes n k :: r =>
      (Z.to_nat k <=? length vs)%nat && bytes_ok (firstn (Z.to_nat k) vs) && vals_okb r (skipn (Z.to_nat k) vs)
  end.

(* the checks of the reader, evaluated on the values the writer puts on the wire: `wire` lists
   one value per primitive slot (constants included, placeholders as written) *)
Fixpoint wire (fill : bool) (its : list witem) (vs : list Z) : list Z :=
  match its with
  | [] => []
  | WConst p k :: r => k :: wire fill r vs
  | WHole n p :: r => (if fill then hd 0 vs else 0) :: wire fill r (tl vs)
  | WBytes n k :: r => firstn (Z.to_nat k) vs ++ wire fill r (skipn (Z.to_nat k) vs)
  | _ :: r => hd 0 vs :: wire fill r (tl vs)
  end.

Fixpoint asserts_hold (rl : list ritem) (env : list (fname * Z)) (ws : list Z) : bool :=
  match rl with
  | [] => true
  | RRead n p keep :: r => asserts_hold r ((n, hd 0 ws) :: env) (tl ws)
  | RAssert n k :: r => match lookup n env with Some v => (v =? k) && asserts_hold r env ws | None => false end
  | REnum n p vals :: r => asserts_hold r ((n, hd 0 ws) :: env) (tl ws)
  | RTrunc n p mask :: r => asserts_hold r ((n, Z.land (hd 0 ws) mask) :: env) (tl ws)
  | RBytes n k :: r => asserts_hold r env (skipn (Z.to_nat k) ws)
  end.
