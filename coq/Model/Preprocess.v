(* Model/Preprocess.v — executable model of the text preprocessing of allsorts (property C17),
   function by function after the Rust:

     src/unicode/mcc.rs      modified_combining_class, sort_by_modified_combining_class
     src/scripts/arabic.rs   reorder_marks, reorder_marks_shadda, reorder_marks_other_combining,
                             is_modifier_combining_mark
     src/scripts/thai_lao.rs reorder_marks, split_am_vowel, is_abovebase_mark
     src/scripts/indic.rs    preprocess_indic, constrain_vowel, vowel_constraint, decompose_matra,
                             split_matra, recompose_bengali_ya_nukta, reorder_kannada_ra_halant_zwj, script
     src/scripts/khmer.rs    preprocess_khmer, decompose_matra
     src/scripts/mod.rs      ScriptType::from, preprocess_text

   A `Vec<char>` is a `list Z` of code points, a `usize` index is a `nat` (all indices are bounded by
   the length of a vector, so no index arithmetic can overflow).  Every indexing / insert / remove /
   rotate operation of the Rust is a `v_*` operation that yields `Panic` outside its bounds; loops
   carry fuel and yield `Err LimitExceeded` when it runs out (proved unreachable).  The tables come
   from Gen/PreprocessTables.v (regenerated from the Rust source on every run).  The combining class
   of a character is data of a dependency: `class` is a parameter of everything below.  No proofs here. *)
From AV Require Import Base.Prelude Gen.PreprocessTables.

(* ---- Vec<char> operations (Rust panics where these return Panic) ---- *)
Definition v_get (cs : list Z) (i : nat) : outcome Z :=
  match nth_error cs i with Some c => Ok c | None => Panic end.
(* cs[i] = c *)
Definition v_set (cs : list Z) (i : nat) (c : Z) : outcome (list Z) :=
  if (i <? length cs)%nat then Ok (firstn i cs ++ c :: skipn (S i) cs) else Panic.
(* cs.insert(i, c) *)
Definition v_insert (cs : list Z) (i : nat) (c : Z) : outcome (list Z) :=
  if (i <=? length cs)%nat then Ok (firstn i cs ++ c :: skipn i cs) else Panic.
(* cs.remove(i) *)
Definition v_remove (cs : list Z) (i : nat) : outcome (list Z) :=
  if (i <? length cs)%nat then Ok (firstn i cs ++ skipn (S i) cs) else Panic.
(* cs[a..b].rotate_right(k): the slice panics unless a <= b <= len, rotate_right unless k <= b - a *)
Definition v_rotate_right (cs : list Z) (a b k : nat) : outcome (list Z) :=
  if ((a <=? b) && (b <=? length cs) && (k <=? b - a))%nat then
    let s := firstn (b - a) (skipn a cs) in
    Ok (firstn a cs ++ skipn (b - a - k) s ++ firstn (b - a - k) s ++ skipn b cs)
  else Panic.
(* cs.swap(i, j) *)
Definition v_swap (cs : list Z) (i j : nat) : outcome (list Z) :=
  x <- v_get cs i ;; y <- v_get cs j ;; cs1 <- v_set cs i y ;; v_set cs1 j x.

Fixpoint position (p : Z -> bool) (cs : list Z) : option nat :=
  match cs with
  | [] => None
  | c :: t => if p c then Some O else match position p t with Some n => Some (S n) | None => None end
  end.
Fixpoint take_while (p : Z -> bool) (cs : list Z) : list Z :=
  match cs with [] => [] | c :: t => if p c then c :: take_while p t else [] end.
Fixpoint starts_with (cs pre : list Z) : bool :=
  match pre, cs with
  | [], _ => true
  | p :: pre', c :: cs' => (c =? p) && starts_with cs' pre'
  | _ :: _, [] => false
  end.
Definition mem_z (c : Z) (l : list Z) : bool := existsb (Z.eqb c) l.
Fixpoint assoc_z {A} (c : Z) (l : list (Z * A)) : option A :=
  match l with [] => None | (k, v) :: t => if c =? k then Some v else assoc_z c t end.

(* ---- src/unicode/mcc.rs ---- *)
(* modified_combining_class, given the canonical combining class of the dependency (a u8) *)
Definition modified_combining_class_of (c ccc : Z) : outcome Z :=
  if c <=? MCC_FAST_PATH_MAX then Ok 0
  else match nth_error MCC_TABLE (Z.to_nat ccc) with Some m => Ok m | None => Panic end.

Section WithClass.
(* modified_combining_class(c) as a number; 0 = NotReordered *)
Variable class : Z -> Z.

(* slice::sort_by_key is a stable sort: insertion sort that places an element before the first
   element with a strictly greater key (so after all earlier elements with an equal key) *)
Fixpoint insert_by_key (key : Z -> Z) (x : Z) (l : list Z) : list Z :=
  match l with
  | [] => [x]
  | y :: t => if key y <=? key x then y :: insert_by_key key x t else x :: y :: t
  end.
Definition sort_by_key (key : Z -> Z) (l : list Z) : list Z :=
  fold_left (fun sorted x => insert_by_key key x sorted) l [].

(* `for css in cs.split_mut(|c| class(c) == NotReordered) { f(css) }`: f on every maximal run of
   characters of non-zero class (also on the empty runs).  acc is the run collected so far. *)
Fixpoint on_runs (f : list Z -> outcome (list Z)) (acc l : list Z) : outcome (list Z) :=
  match l with
  | [] => f acc
  | c :: t =>
    if class c =? 0 then
      r <- f acc ;; rest <- on_runs f [] t ;; Ok (r ++ c :: rest)
    else on_runs f (acc ++ [c]) t
  end.

Definition sort_by_modified_combining_class (cs : list Z) : outcome (list Z) :=
  on_runs (fun css => Ok (sort_by_key class css)) [] cs.

(* ---- src/scripts/arabic.rs ---- *)
Definition is_modifier_combining_mark (c : Z) : bool := mem_z c MCM_CHARS.

(* cs.sort_by_key(|c| class(c) != CCC33): false < true *)
Definition reorder_marks_shadda (cs : list Z) : list Z :=
  sort_by_key (fun c => if class c =? SHADDA_CLASS then 0 else 1) cs.

Definition reorder_marks_other_combining (cs : list Z) (mcc : Z) : outcome (list Z) :=
  match position (fun c => class c =? mcc) cs with
  | None => Ok cs
  | Some first =>
    let count := length (take_while is_modifier_combining_mark (skipn first cs)) in
    v_rotate_right cs 0 (first + count) count
  end.

Fixpoint arabic_other_steps (steps : list Z) (cs : list Z) : outcome (list Z) :=
  match steps with
  | [] => Ok cs
  | m :: rest => cs1 <- reorder_marks_other_combining cs m ;; arabic_other_steps rest cs1
  end.

Definition arabic_run (css : list Z) : outcome (list Z) :=
  arabic_other_steps ARABIC_OTHER_STEPS (reorder_marks_shadda css).

Definition arabic_reorder_marks (cs : list Z) : outcome (list Z) :=
  cs1 <- sort_by_modified_combining_class cs ;;
  on_runs arabic_run [] cs1.

(* ---- src/scripts/thai_lao.rs ---- *)
Definition split_am_vowel (c : Z) : option (Z * Z) := assoc_z c AM_SPLITS.
Definition is_abovebase_mark (c : Z) : bool :=
  existsb (fun r => (fst r <=? c) && (c <=? snd r)) ABOVEBASE_RANGES.

(* while j > 0 && is_abovebase_mark(cs[j - 1]) { j -= 1 } *)
Fixpoint thai_scan_back (cs : list Z) (j : nat) : outcome nat :=
  match j with
  | O => Ok O
  | S j' => c <- v_get cs j' ;; if is_abovebase_mark c then thai_scan_back cs j' else Ok j
  end.

(* let mut i = 0; while i < cs.len() { ...; i += 1 } *)
Fixpoint thai_loop (fuel : nat) (cs : list Z) (i : nat) : outcome (list Z) :=
  match fuel with
  | O => Err LimitExceeded
  | S f =>
    if (i <? length cs)%nat then
      c <- v_get cs i ;;
      match split_am_vowel c with
      | Some (c1, c2) =>
        cs1 <- v_set cs i c1 ;;
        cs2 <- v_insert cs1 (i + 1) c2 ;;
        j <- thai_scan_back cs2 i ;;
        cs3 <- v_rotate_right cs2 j (i + 1) 1 ;;     (* cs[j..=i].rotate_right(1) *)
        thai_loop f cs3 (i + 1)
      | None => thai_loop f cs (i + 1)
      end
    else Ok cs
  end.

Definition thai_reorder_marks (cs : list Z) : outcome (list Z) :=
  cs1 <- thai_loop (2 * length cs + 1) cs 0 ;;
  sort_by_modified_combining_class cs1.

(* ---- src/scripts/indic.rs ---- *)
Fixpoint vowel_constraint_in (tbl : list (Z * Z * insert_constraint)) (c1 c2 : Z) : insert_constraint :=
  match tbl with
  | [] => ICNone
  | (a, b, k) :: t => if (c1 =? a) && (c2 =? b) then k else vowel_constraint_in t c1 c2
  end.
Definition vowel_constraint (c1 c2 : Z) : insert_constraint := vowel_constraint_in VOWEL_CONSTRAINTS c1 c2.

(* let mut i = 0; while i + 1 < cs.len() { i += match vowel_constraint(cs[i], cs[i + 1]) {...} } *)
Fixpoint constrain_vowel_loop (fuel : nat) (cs : list Z) (i : nat) : outcome (list Z) :=
  match fuel with
  | O => Err LimitExceeded
  | S f =>
    if (i + 1 <? length cs)%nat then
      c1 <- v_get cs i ;;
      c2 <- v_get cs (i + 1) ;;
      match vowel_constraint c1 c2 with
      | ICBetween =>
        cs1 <- v_insert cs (i + 1) DOTTED_CIRCLE ;;
        constrain_vowel_loop f cs1 (i + 3)
      | ICMaybeAfter c3 =>
        if (i + 2 <? length cs)%nat then
          c <- v_get cs (i + 2) ;;
          if c =? c3 then
            cs1 <- v_insert cs (i + 2) DOTTED_CIRCLE ;;
            constrain_vowel_loop f cs1 (i + 4)
          else constrain_vowel_loop f cs (i + 2)
        else constrain_vowel_loop f cs (i + 2)
      | ICNone => constrain_vowel_loop f cs (i + 1)
      end
    else Ok cs
  end.
Definition constrain_vowel (cs : list Z) : outcome (list Z) :=
  constrain_vowel_loop (length cs + 1) cs 0.

Definition split_matra (c : Z) : option (list Z) := assoc_z c MATRA_SPLITS.

(* cs[i] = c1; cs.insert(i + 1, c2); [cs.insert(i + 2, c3)]  for the parts of a split matra *)
Fixpoint insert_all (cs : list Z) (i : nat) (parts : list Z) : outcome (list Z) :=
  match parts with
  | [] => Ok cs
  | p :: rest => cs1 <- v_insert cs i p ;; insert_all cs1 (i + 1) rest
  end.

Fixpoint decompose_matra_loop (fuel : nat) (cs : list Z) (i : nat) : outcome (list Z) :=
  match fuel with
  | O => Err LimitExceeded
  | S f =>
    if (i <? length cs)%nat then
      c <- v_get cs i ;;
      match split_matra c with
      | Some (c1 :: more) =>
        cs1 <- v_set cs i c1 ;;
        cs2 <- insert_all cs1 (i + 1) more ;;
        decompose_matra_loop f cs2 (i + 1 + length more)
      | _ => decompose_matra_loop f cs (i + 1)
      end
    else Ok cs
  end.
Definition decompose_matra (cs : list Z) : outcome (list Z) :=
  decompose_matra_loop (length cs + 1) cs 0.

Fixpoint recompose_loop (fuel : nat) (cs : list Z) (i : nat) : outcome (list Z) :=
  match fuel with
  | O => Err LimitExceeded
  | S f =>
    if (i + 1 <? length cs)%nat then
      a <- v_get cs i ;;
      if a =? YA then
        b <- v_get cs (i + 1) ;;
        if b =? NUKTA then
          cs1 <- v_set cs i YYA ;;
          cs2 <- v_remove cs1 (i + 1) ;;
          recompose_loop f cs2 (i + 1)
        else recompose_loop f cs (i + 1)
      else recompose_loop f cs (i + 1)
    else Ok cs
  end.
Definition recompose_bengali_ya_nukta (cs : list Z) : outcome (list Z) :=
  recompose_loop (length cs + 1) cs 0.

Definition reorder_kannada_ra_halant_zwj (cs : list Z) : outcome (list Z) :=
  if starts_with cs KANNADA_PREFIX then v_swap cs (fst KANNADA_SWAP) (snd KANNADA_SWAP) else Ok cs.

(* fn script: panics on a tag that is not one of the ten Indic1 tags *)
Definition indic_script_of (tag : Z) : outcome indic_script :=
  match assoc_z tag INDIC_SCRIPT_TABLE with Some s => Ok s | None => Panic end.

Definition preprocess_indic (cs : list Z) (tag : Z) : outcome (list Z) :=
  script <- indic_script_of tag ;;
  cs1 <- constrain_vowel cs ;;
  cs2 <- decompose_matra cs1 ;;
  cs3 <- sort_by_modified_combining_class cs2 ;;
  if is_ya_nukta_script script then recompose_bengali_ya_nukta cs3
  else if is_ra_halant_script script then reorder_kannada_ra_halant_zwj cs3
  else Ok cs3.

(* ---- src/scripts/khmer.rs ---- *)
Fixpoint khmer_decompose_loop (fuel : nat) (cs : list Z) (i : nat) : outcome (list Z) :=
  match fuel with
  | O => Err LimitExceeded
  | S f =>
    if (i <? length cs)%nat then
      c <- v_get cs i ;;
      if mem_z c KHMER_SPLIT_VOWELS then
        cs1 <- v_insert cs i KHMER_PREBASE_PART ;;
        khmer_decompose_loop f cs1 (i + 2)
      else khmer_decompose_loop f cs (i + 1)
    else Ok cs
  end.
Definition khmer_decompose_matra (cs : list Z) : outcome (list Z) :=
  khmer_decompose_loop (length cs + 1) cs 0.

Definition preprocess_khmer (cs : list Z) : outcome (list Z) :=
  cs1 <- khmer_decompose_matra cs ;;
  sort_by_modified_combining_class cs1.

(* ---- src/scripts/mod.rs ---- *)
Definition script_type_of (tag : Z) : script_type :=
  match assoc_z tag SCRIPT_TYPE_TABLE with Some t => t | None => SCRIPT_TYPE_DEFAULT end.

Definition preprocess_text (cs : list Z) (tag : Z) : outcome (list Z) :=
  match action_of (script_type_of tag) with
  | ActArabic => arabic_reorder_marks cs
  | ActSort => sort_by_modified_combining_class cs
  | ActIndic => preprocess_indic cs tag
  | ActKhmer => preprocess_khmer cs
  | ActNone => Ok cs
  | ActThaiLao => thai_reorder_marks cs
  end.

End WithClass.
