(* Model/Composite.v — executable model of the composite-glyph reader and writer of allsorts:
     src/tables/glyf.rs   CompositeGlyphArgument::{read_dep, write}, CompositeGlyphScale::write,
                          CompositeGlyphComponent::{read_dep, write}, CompositeGlyphs::read,
                          CompositeGlyph::{read, write}, Glyph::{read, write}
   written function by function after the Rust, on the C14 reader model (Model/Reader.v).  The flag
   bit values, the from_bits_truncate mask, the (words, xy) -> argument type table and the order of
   the three scale tests come from Gen/GlyfConsts.v (regenerated from the source by tr_glyf.py); the
   shape of the writer (flags written verbatim, arguments by their variant, the `|=` over all
   components for the instruction decision) is checked by tr_layouts.py on every run.

   Values.  A component keeps its flag word as read (after from_bits_truncate), the glyph index, the
   two arguments TAGGED with the Rust variant (U8/I8/U16/I16 — the writer is directed by the variant,
   the reader by the flags), and the scale as raw F2Dot14 (i16) values in file order.
   `phantom_points` is not stored in the file (None after reading, ignored by the writer).
   No proofs in this file. *)
From AV Require Import Base.Prelude Gen.ReaderPrims Model.Reader Model.ReaderExt Model.TableLayout
  Gen.TableLayouts Model.Tables Gen.GlyfConsts.
Open Scope Z_scope.

Inductive cscale := CScale (s : Z) | CXY (x y : Z) | CMatrix (a b c d : Z).
Definition carg := (argkind * Z)%type.
Record ccomp := { cc_flags : Z; cc_gid : Z; cc_arg1 : carg; cc_arg2 : carg; cc_scale : option cscale }.
Record cglyph := { cg_bbox : list Z; cg_comps : list ccomp; cg_instr : list Z }.

(* `flags & Self::K == Self::K` *)
Definition cf_has (f k : Z) : bool := Z.land f k =? k.

Definition arg_prim (k : argkind) : prim :=
  match k with AU8 => PU8 | AI8 => PI8 | AU16 => PU16 | AI16 => PI16 end.

(* ---------------------------------------------------------------------------------------------- *)
(* reading                                                                                         *)

(* CompositeGlyphArgument::read_dep *)
Definition carg_read (c : ctxt) (flags : Z) : outcome (carg * ctxt) :=
  let k := arg_kind (cf_has flags cf_arg_1_and_2_are_words) (cf_has flags cf_args_are_xy_values) in
  '(v, c1) <- read_prim (arg_prim k) c ;; Ok ((k, v), c1).

(* ctxt.read::<F2Dot14>() for each value of one scale form *)
Definition cscale_read_kind (k : scalekind) (c : ctxt) : outcome (cscale * ctxt) :=
  match k with
  | KScale => '(s, c1) <- read_prim PI16 c ;; Ok (CScale s, c1)
  | KXY => '(x, c1) <- read_prim PI16 c ;; '(y, c2) <- read_prim PI16 c1 ;; Ok (CXY x y, c2)
  | KMatrix =>
      '(a, c1) <- read_prim PI16 c ;; '(b, c2) <- read_prim PI16 c1 ;;
      '(d, c3) <- read_prim PI16 c2 ;; '(e, c4) <- read_prim PI16 c3 ;; Ok (CMatrix a b d e, c4)
  end.

(* the if / else if / else if / else chain over the scale flags, in source order *)
Fixpoint cscale_read (tests : list (Z * scalekind)) (flags : Z) (c : ctxt) : outcome (option cscale * ctxt) :=
  match tests with
  | [] => Ok (None, c)
  | (k, kind) :: r =>
      if cf_has flags k then '(s, c1) <- cscale_read_kind kind c ;; Ok (Some s, c1)
      else cscale_read r flags c
  end.

(* CompositeGlyphComponent::read_dep *)
Definition ccomp_read (c : ctxt) (flags : Z) : outcome (ccomp * ctxt) :=
  '(gid, c1) <- read_prim PU16 c ;;
  '(a1, c2) <- carg_read c1 flags ;;
  '(a2, c3) <- carg_read c2 flags ;;
  '(sc, c4) <- cscale_read scale_tests flags c3 ;;
  Ok ({| cc_flags := flags; cc_gid := gid; cc_arg1 := a1; cc_arg2 := a2; cc_scale := sc |}, c4).

(* CompositeGlyphs::read: the loop ends after the first component without MORE_COMPONENTS;
   have_instructions is set when ANY component carries WE_HAVE_INSTRUCTIONS.  Fuel: every
   iteration consumes at least 6 bytes. *)
Fixpoint ccomps_read (fuel : nat) (c : ctxt) : outcome (list ccomp * bool * ctxt) :=
  match fuel with
  | O => Panic
  | S f =>
      '(w, c1) <- read_prim PU16 c ;;
      let flags := Z.land w CF_ALL in                       (* from_bits_truncate *)
      '(comp, c2) <- ccomp_read c1 flags ;;
      let hi := cf_has flags cf_we_have_instructions in
      if cf_has flags cf_more_components then
        '(r, c3) <- ccomps_read f c2 ;;
        let '(cs, hi') := r in Ok (comp :: cs, hi || hi', c3)
      else Ok ([comp], hi, c2)
  end.

(* CompositeGlyph::read (after Glyph::read has taken number_of_contours < 0) *)
Definition cglyph_read (m : mode) (c : ctxt) : outcome (cglyph * ctxt) :=
  '(bbox, c1) <- read_ty (rprims bounding_box_read) c ;;
  '(r, c2) <- ccomps_read (S (length (drop (off c1) (data (sc c1))))) c1 ;;     (* fuel: bytes left + 1 *)
  let '(comps, have_instructions) := r in
  '(il, c3) <- (if have_instructions then read_prim PU16 c2 else Ok (0, c2)) ;;
  '(instr, c4) <- read_slice m c3 il ;;
  Ok ({| cg_bbox := bbox; cg_comps := comps; cg_instr := instr |}, c4).

Inductive glyph := GEmpty | GSimple (g : simple_glyph) | GComposite (g : cglyph).

(* Glyph::read: numberOfContours >= 0 selects a simple glyph, any negative value a composite one *)
Definition glyph_read_full (m : mode) (c : ctxt) : outcome (glyph * ctxt) :=
  '(nc, c1) <- read_prim PI16 c ;;
  if 0 <=? nc then '(g, c2) <- simple_glyph_read m c1 nc ;; Ok (GSimple g, c2)
  else '(g, c2) <- cglyph_read m c1 ;; Ok (GComposite g, c2).

(* ---------------------------------------------------------------------------------------------- *)
(* writing                                                                                         *)

(* CompositeGlyphArgument::write: by variant *)
Definition carg_write (a : carg) : list Z := write_prim (arg_prim (fst a)) (snd a).

(* CompositeGlyphScale::write *)
Definition cscale_write (s : cscale) : list Z :=
  match s with
  | CScale v => write_prim PI16 v
  | CXY x y => write_prim PI16 x ++ write_prim PI16 y
  | CMatrix a b c d => write_prim PI16 a ++ write_prim PI16 b ++ write_prim PI16 c ++ write_prim PI16 d
  end.

(* CompositeGlyphComponent::write: flags.bits() verbatim *)
Definition ccomp_write (c : ccomp) : list Z :=
  write_prim PU16 (cc_flags c) ++ write_prim PU16 (cc_gid c) ++
  carg_write (cc_arg1 c) ++ carg_write (cc_arg2 c) ++
  match cc_scale c with Some s => cscale_write s | None => [] end.

(* `has_instructions |= glyph.flags.we_have_instructions()` over ALL components *)
Definition has_instructions (cs : list ccomp) : bool :=
  fold_left (fun acc c => acc || cf_has (cc_flags c) cf_we_have_instructions) cs false.

(* CompositeGlyph::write (fresh buffer): numberOfContours -1, the bounding box, every component,
   and — only when some component carries WE_HAVE_INSTRUCTIONS — instructionLength
   (u16::try_from) and the instructions *)
Definition cglyph_write (g : cglyph) : outcome (list Z) :=
  let body := write_prim PI16 (-1) ++ write_items false bounding_box_write (cg_bbox g)
              ++ concat (map ccomp_write (cg_comps g)) in
  if has_instructions (cg_comps g) then
    il <- try_u16 (len (cg_instr g)) ;;
    Ok (body ++ write_prim PU16 il ++ cg_instr g)
  else Ok body.

(* Glyph::write *)
Definition glyph_write_full (g : glyph) : outcome (list Z) :=
  match g with
  | GEmpty => Ok []
  | GSimple s => simple_glyph_write s
  | GComposite c => cglyph_write c
  end.
