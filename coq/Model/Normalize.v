(* Model/Normalize.v — Fixed (16.16) / F2Dot14 (2.14) arithmetic of src/tables.rs and the
   coordinate normalisation of src/tables/variable_fonts/{fvar,avar}.rs.  Values are the raw
   integers (i32 / i16) as Z.  No proofs in this file. *)
From AV Require Import Base.Prelude.
Open Scope Z_scope.

(* impl Add/Sub for Fixed: wrapping_add / wrapping_sub *)
Definition fx_add (a b : Z) : Z := to_signed 32 (a + b).
Definition fx_sub (a b : Z) : Z := to_signed 32 (a - b).
(* impl Mul: ((a as i64 * b as i64) >> 16) as i32   (arithmetic shift = floor) *)
Definition fx_mul (a b : Z) : Z := to_signed 32 ((a * b) / 65536).
(* impl Div: b == 0 -> 0x7FFFFFFF, else ((a << 16) / b) as i32   (i64 division truncates) *)
Definition fx_div (a b : Z) : Z :=
  if b =? 0 then 2147483647 else to_signed 32 (Z.quot (a * 65536) b).
(* From<i32> for Fixed: value << 16 *)
Definition fx_of_int (v : Z) : Z := to_signed 32 (v * 65536).
(* From<F2Dot14> for Fixed: i32::from(v) << 2 *)
Definition fx_of_f2dot14 (v : Z) : Z := v * 4.
(* From<Fixed> for F2Dot14: ((x + 2) >> 2) as i16 *)
Definition f2dot14_of_fx (x : Z) : Z := to_signed 16 ((x + 2) / 4).

Definition clampZ (v lo hi : Z) : Z := Z.min (Z.max v lo) hi.

(* fvar.rs default_normalize (after the fix commits 05a7993, b238c37) *)
Definition default_normalize (minv def maxv coord : Z) : Z :=
  let c := Z.min (Z.max coord minv) maxv in          (* coord.max(min).min(max) *)
  let delta := c - def in                            (* i64 *)
  let span := if delta <? 0 then def - minv else maxv - def in
  let v := if (delta =? 0) || (span <=? 0) then 0 else Z.quot (delta * 65536) span in
  clampZ v (-65536) 65536.

(* avar.rs SegmentMap::normalize: maps are (from, to) pairs of raw 2.14 values *)
Fixpoint seg_scan (start : option (Z * Z)) (maps : list (Z * Z)) (x : Z) : Z :=
  match maps with
  | [] => x
  | e :: rest =>
      match start with
      | Some s =>
          let ef := fx_of_f2dot14 (fst e) in
          if ef =? x then fx_of_f2dot14 (snd e)
          else if x <? ef then
            let ratio := fx_div (fx_sub x (fx_of_f2dot14 (fst s)))
                                (fx_sub (fx_of_f2dot14 (fst e)) (fx_of_f2dot14 (fst s))) in
            fx_add (fx_of_f2dot14 (snd s))
                   (fx_mul ratio (fx_sub (fx_of_f2dot14 (snd e)) (fx_of_f2dot14 (snd s))))
          else seg_scan (Some e) rest x
      | None => seg_scan (Some e) rest x
      end
  end.
Definition avar_normalize (maps : list (Z * Z)) (x : Z) : Z := seg_scan None maps x.

(* one axis of FvarTable::normalize *)
Definition normalize_axis (axis : Z * Z * Z) (coord : Z) (map : option (list (Z * Z))) : Z :=
  let '(minv, def, maxv) := axis in
  let n := default_normalize minv def maxv coord in
  let n := match map with
           | None => n
           | Some m => clampZ (avar_normalize m n) (fx_of_int (-1)) (fx_of_int 1)
           end in
  f2dot14_of_fx n.

Fixpoint normalize_axes (axes : list (Z * Z * Z)) (coords : list Z)
         (avar : option (list (list (Z * Z)))) : outcome (list Z) :=
  match axes, coords with
  | a :: axes', c :: coords' =>
      match avar with
      | None => rest <- normalize_axes axes' coords' None ;; Ok (normalize_axis a c None :: rest)
      | Some [] => Err BadIndex                (* avar.next().ok_or(BadIndex) *)
      | Some (m :: maps') =>
          rest <- normalize_axes axes' coords' (Some maps') ;;
          Ok (normalize_axis a c (Some m) :: rest)
      end
  | _, _ => Ok []                              (* zip stops at the shorter side *)
  end.

(* FvarTable::normalize *)
Definition fvar_normalize (axes : list (Z * Z * Z)) (coords : list Z)
           (avar : option (list (list (Z * Z)))) : outcome (list Z) :=
  if negb (len coords =? len axes) then Err BadValue
  else normalize_axes axes coords avar.
