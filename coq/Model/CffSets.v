(* Model/CffSets.v — the small array-shaped structures of property C15 that Model/Tables.v and
   Model/Cff.v do not cover: the `cvt ` table (src/tables.rs: CvtTable::read_dep / write), CFF custom
   charsets (src/cff.rs: CustomCharset::read_dep / write with read_range_array), FDSelect
   (FDSelect::read_dep / write) and custom encodings (CustomEncoding::read / write).
   Function by function after the Rust; no proofs here (Proofs/CffSetsProofs.v). *)
From AV Require Import Base.Prelude Gen.ReaderPrims Model.Reader Model.ReaderExt Model.TableLayout Gen.TableLayouts Model.Tables.
Open Scope Z_scope.

(* a fixed-size record of primitives: `Range::<F, N>::write`, `U16Be::write`, … field by field *)
Fixpoint write_rec (t : ty) (vs : list Z) : list Z :=
  match t, vs with
  | p :: t', v :: vs' => write_prim p v ++ write_rec t' vs'
  | _, _ => []
  end.
(* ReadArrayCow::write / <&ReadArray>::write: every item in order *)
Definition write_recs (t : ty) (recs : list (list Z)) : list Z := concat (map (write_rec t) recs).

(* ---------- cvt *)
(* CvtTable::read_dep(length): `ctxt.check(length % 2 == 0)?` (BadValue), then length / 2 values *)
Definition cvt_read (c : ctxt) (length : Z) : outcome (list Z * ctxt) :=
  if length mod 2 =? 0 then
    '(rs, c1) <- read_records [PI16] c (length / 2) ;;
    Ok (map (fun r => hd 0 r) rs, c1)
  else Err BadValue.
Definition cvt_write (vs : list Z) : list Z := write_recs [PI16] (map (fun v => [v]) vs).

(* ---------- Range<F, N> arrays whose length is found by covering n_glyphs *)
(* Range::len = usize::from(n_left) + 1 *)
Definition range_len (r : list Z) : Z := nthZ r 1 + 1.

(* the `while glyphs_covered < n_glyphs` loop of read_range_array on the peeking cursor; every
   iteration reads ty_size t >= 2 bytes or fails with Eof, so `fuel` (the number of bytes of the
   scope + 1) is never exhausted before the loop ends — the exhausted case returns the same Eof *)
Fixpoint count_ranges (fuel : nat) (t : ty) (peek : ctxt) (covered n count : Z) : outcome Z :=
  if covered <? n then
    match fuel with
    | O => Err Eof
    | S f =>
        '(r, p1) <- read_ty t peek ;;
        count_ranges f t p1 (covered + range_len r) n (count + 1)
    end
  else Ok count.

Definition read_range_array (t : ty) (c : ctxt) (n : Z) : outcome (list (list Z) * ctxt) :=
  s <- ctxt_scope Debug c ;;
  cnt <- count_ranges (S (Z.to_nat (dlen s))) t (ctxt_new s) 0 n 0 ;;
  read_records t c cnt.

(* ---------- CustomCharset: (format, items); items are [sid] (format 0) or [first; n_left] *)
Definition charset := (Z * list (list Z))%type.
Definition charset_ty (fmt : Z) : ty :=
  if fmt =? 0 then [PU16] else if fmt =? 1 then [PU16; PU8] else [PU16; PU16].

Definition charset_read (c : ctxt) (n_glyphs : Z) : outcome (charset * ctxt) :=
  if n_glyphs <? 1 then Err BadValue      (* checked_sub(1) *)
  else
    let n := n_glyphs - 1 in
    '(fmt, c1) <- read_prim PU8 c ;;
    if fmt =? 0 then '(rs, c2) <- read_records (charset_ty 0) c1 n ;; Ok ((0, rs), c2)
    else if fmt =? 1 then '(rs, c2) <- read_range_array (charset_ty 1) c1 n ;; Ok ((1, rs), c2)
    else if fmt =? 2 then '(rs, c2) <- read_range_array (charset_ty 2) c1 n ;; Ok ((2, rs), c2)
    else Err BadValue.

Definition charset_write (cs : charset) : list Z :=
  write_prim PU8 (fst cs) ++ write_recs (charset_ty (fst cs)) (snd cs).

(* CustomCharset::id_for_glyph on the parsed value (format 0: direct; ranges: the scan/find) *)
Fixpoint id_in_ranges (recs : list (list Z)) (covered gid : Z) : option Z :=
  match recs with
  | [] => None
  | r :: rest =>
      let covered' := covered + range_len r in
      if gid <=? covered' then
        let v := nthZ r 0 + (gid - covered - 1) in
        if v <=? 65535 then Some v else None
      else id_in_ranges rest covered' gid
  end.
Definition charset_id_for_glyph (cs : charset) (gid : Z) : option Z :=
  if gid =? 0 then Some 0
  else if fst cs =? 0 then option_map (fun r => hd 0 r) (nth_opt (snd cs) (gid - 1))
  else id_in_ranges (snd cs) 0 gid.

(* ---------- FDSelect: format 0 = one u8 per glyph; format 3 = nRanges, Range<u16, u8>[], sentinel *)
Record fdselect := { fs_fmt : Z; fs_recs : list (list Z); fs_sentinel : Z }.
Definition fd_range_ty : ty := [PU16; PU8].

Definition fdselect_read (c : ctxt) (n_glyphs : Z) : outcome (fdselect * ctxt) :=
  '(fmt, c1) <- read_prim PU8 c ;;
  if fmt =? 0 then
    '(rs, c2) <- read_records [PU8] c1 n_glyphs ;;
    Ok ({| fs_fmt := 0; fs_recs := rs; fs_sentinel := 0 |}, c2)
  else if fmt =? 3 then
    '(nr, c2) <- read_prim PU16 c1 ;;
    '(rs, c3) <- read_records fd_range_ty c2 nr ;;
    '(s, c4) <- read_prim PU16 c3 ;;
    Ok ({| fs_fmt := 3; fs_recs := rs; fs_sentinel := s |}, c4)
  else if fmt =? 4 then Err NotImplemented
  else Err BadValue.

(* FDSelect::write: `u16::try_from(ranges.len())?` is the only refusal *)
Definition fdselect_write (f : fdselect) : outcome (list Z) :=
  if fs_fmt f =? 0 then Ok (write_prim PU8 0 ++ write_recs [PU8] (fs_recs f))
  else
    n <- try_u16 (len (fs_recs f)) ;;
    Ok (write_prim PU8 3 ++ write_prim PU16 n ++ write_recs fd_range_ty (fs_recs f)
        ++ write_prim PU16 (fs_sentinel f)).

(* ---------- CustomEncoding: format 0 = nCodes, u8[]; format 1 = nRanges, Range<u8, u8>[] *)
Definition encoding := (Z * list (list Z))%type.
Definition encoding_ty (fmt : Z) : ty := if fmt =? 0 then [PU8] else [PU8; PU8].

Definition encoding_read (c : ctxt) : outcome (encoding * ctxt) :=
  '(fmt, c1) <- read_prim PU8 c ;;
  if (fmt =? 0) || (fmt =? 1) then
    '(n, c2) <- read_prim PU8 c1 ;;
    '(rs, c3) <- read_records (encoding_ty fmt) c2 n ;;
    Ok ((fmt, rs), c3)
  else if Z.land fmt 128 =? 128 then Err NotImplemented
  else Err BadValue.

Definition try_u8 (v : Z) : outcome Z := if (0 <=? v) && (v <=? 255) then Ok v else Err BadValue.

Definition encoding_write (e : encoding) : outcome (list Z) :=
  n <- try_u8 (len (snd e)) ;;
  Ok (write_prim PU8 (fst e) ++ write_prim PU8 n ++ write_recs (encoding_ty (fst e)) (snd e)).

(* CustomCharset::sid_to_gid / glyph_id_for_sid_in_ranges (as repaired: the glyph id is accumulated in
   32 bits with checked additions and converted with u16::try_from, so a range list that reaches past
   glyph 65535 gives None instead of an overflow) *)
Fixpoint sid_in_ranges (recs : list (list Z)) (glyph_id sid : Z) : option Z :=
  match recs with
  | [] => None
  | r :: rest =>
      let first := nthZ r 0 in
      let last := first + nthZ r 1 in
      if (first <=? sid) && (sid <=? last) then
        let g := glyph_id + (sid - first) in
        if g <=? 65535 then Some g else None        (* checked_add, then u16::try_from *)
      else
        let g := glyph_id + (nthZ r 1 + 1) in
        if g <=? 4294967295 then sid_in_ranges rest g sid else None
  end.
Fixpoint sid_position (l : list (list Z)) (sid i : Z) : option Z :=
  match l with
  | [] => None
  | r :: rest => if hd 0 r =? sid then Some i else sid_position rest sid (i + 1)
  end.
Definition charset_sid_to_gid (cs : charset) (sid : Z) : option Z :=
  if fst cs =? 0 then
    match sid_position (snd cs) sid 0 with
    | Some n => if n + 1 <=? 65535 then Some (n + 1) else None
    | None => None
    end
  else sid_in_ranges (snd cs) 1 sid.
