(* Model/Variation.v — executable model of variable-font instancing (property C12), function by
   function after
     src/tables/variable_fonts.rs   calculate_scalar, scalar, determine_applicable, read_count,
                                    read_packed_point_numbers, packed_deltas::read,
                                    TupleVariationHeader / TupleVariationStore parsing, variation_data,
                                    DeltaSet / delta_set_impl, ItemVariationStore::adjustment,
                                    DeltaSetIndexMap::{read, entry}
     src/tables/glyf/variation.rs   glyph_deltas, infer_unreferenced_points, infer_contour, infer_delta,
                                    do_infer, apply_variations (simple / composite / empty), add_delta
     src/tables/glyf.rs             calculate_phantom_points (horizontal part)
     src/tables/variable_fonts/hvar.rs  advance_delta, left_side_bearing_delta
     src/variations.rs              apply_hvar, htmx_from_phantom_points, add_delta_i16/u16, process_mvar's
                                    per-tag update, the tag selection of instance()
   Numbers: the implementation computes scalars and deltas in f32; the model computes them in exact
   rationals (Q).  Everything integral (F2Dot14 raw values, point numbers, deltas, coordinates) is Z.
   No proofs here. *)
From AV Require Import Base.Prelude Gen.VariationConsts.
From AV Require Export Model.VariationFields.
From Coq Require Import QArith Qround.
Local Open Scope Z_scope.

Definition qz (z : Z) : Q := inject_Z z.

(* ------------------------------------------------------------------------------------------ *)
(* (a) region scalars.  All coordinates are raw F2Dot14 values (i16); f32::from(x) = x / 16384
       exactly, so every difference below is exact in f32 and the quotient of two differences does
       not depend on the 1/16384 factor. *)

Definition calculate_scalar (inst start peak end_ : Z) : Q :=
  if (peak <? start) || (end_ <? peak) then 1%Q
  else if (start <? 0) && (0 <? end_) && negb (peak =? 0) then 1%Q
  else if peak =? 0 then 1%Q
  else if (start <=? inst) && (inst <=? end_) then
    if inst =? peak then 1%Q
    else if inst <? peak then (qz (inst - start) / qz (peak - start))%Q
    else (qz (end_ - inst) / qz (end_ - peak))%Q
  else 0%Q.

(* determine_applicable: start/end implied by the sign of the peak (signum match) *)
Definition implied_start (peak : Z) : Z := if peak <? 0 then peak else if peak =? 0 then peak else 0.
Definition implied_end (peak : Z) : Z := if peak <? 0 then 0 else peak.

(* start.zip(end).zip(instance).zip(peak).map(calculate_scalar) folded with multiplication from 1.0: the zip stops at the
   shortest of the four *)
Fixpoint tuple_scalar (starts ends inst peaks : list Z) : Q :=
  match starts, ends, inst, peaks with
  | s :: ss, e :: es, i :: is_, p :: ps => (calculate_scalar i s p e * tuple_scalar ss es is_ ps)%Q
  | _, _, _, _ => 1%Q
  end.

Definition q_is_zero (q : Q) : bool := Qnum q =? 0.

(* scalar(region_axes, tuple): None when the product is zero *)
Fixpoint region_product (axes : list (Z * Z * Z)) (tuple : list Z) : Q :=
  match axes, tuple with
  | (s, p, e) :: ar, i :: tr => (calculate_scalar i s p e * region_product ar tr)%Q
  | _, _ => 1%Q
  end.
Definition region_scalar (axes : list (Z * Z * Z)) (tuple : list Z) : option Q :=
  let s := region_product axes tuple in if q_is_zero s then None else Some s.

(* ------------------------------------------------------------------------------------------ *)
(* (b) packed point numbers and packed deltas.  A read context is the list of remaining bytes. *)

Definition read_u8 (d : list Z) : outcome (Z * list Z) :=
  match d with [] => Err Eof | b :: r => Ok (b, r) end.

Definition take_bytes (n : Z) (d : list Z) : outcome (list Z * list Z) :=
  if n <=? len d then Ok (take n d, drop n d) else Err Eof.

Fixpoint words (l : list Z) : list Z :=
  match l with a :: b :: r => (a * 256 + b) :: words r | _ => [] end.

Definition read_u16 (d : list Z) : outcome (Z * list Z) :=
  match d with a :: b :: r => Ok (a * 256 + b, r) | _ => Err Eof end.

(* read_array::<U16Be>(n), read_array::<U8>(n), read_array::<I16Be>(n), read_array::<I8>(n), read_array::<F2Dot14>(n) *)
Definition read_u16s (n : Z) (d : list Z) : outcome (list Z * list Z) :=
  '(bs, r) <- take_bytes (2 * n) d ;; Ok (words bs, r).
Definition read_u8s (n : Z) (d : list Z) : outcome (list Z * list Z) := take_bytes n d.
Definition read_i16s (n : Z) (d : list Z) : outcome (list Z * list Z) :=
  '(bs, r) <- take_bytes (2 * n) d ;; Ok (map (to_signed 16) (words bs), r).
Definition read_i8s (n : Z) (d : list Z) : outcome (list Z * list Z) :=
  '(bs, r) <- take_bytes n d ;; Ok (map (to_signed 8) bs, r).

Definition read_count (d : list Z) : outcome (Z * list Z) :=
  '(c1, r) <- read_u8 d ;;
  if c1 =? 0 then Ok (0, r)
  else if c1 <? 128 then Ok (c1, r)
  else '(c2, r2) <- read_u8 r ;; Ok (Z.lor (Z.shiftl (Z.land c1 127) 8) c2, r2).

Inductive point_numbers := PAll (n : Z) | PSpecific (l : list Z).

(* the running sum of a run; checked_add(..).ok_or(BadValue) on u16 *)
Fixpoint accum_points (prev : Z) (diffs : list Z) : outcome (list Z * Z) :=
  match diffs with
  | [] => Ok ([], prev)
  | d :: r =>
    let n := prev + d in
    if n <? 65536 then '(l, last) <- accum_points n r ;; Ok (n :: l, last) else Err BadValue
  end.

(* while num_read < count { one run }; prev = point_numbers.last().unwrap_or(0) *)
Fixpoint read_point_runs (fuel : nat) (count num_read prev : Z) (acc : list Z) (d : list Z)
  : outcome (list Z * list Z) :=
  if num_read <? count then
    match fuel with
    | O => Err OtherErr
    | S f =>
      '(cb, d1) <- read_u8 d ;;
      let run := Z.land cb POINT_RUN_COUNT_MASK + 1 in
      '(diffs, d2) <- (if Z.land cb POINTS_ARE_WORDS =? POINTS_ARE_WORDS then read_u16s run d1 else read_u8s run d1) ;;
      '(pts, last) <- accum_points prev diffs ;;
      read_point_runs f count (num_read + run) last (acc ++ pts) d2
    end
  else Ok (acc, d).

Definition read_packed_point_numbers (d : list Z) (num_points : Z) : outcome (point_numbers * list Z) :=
  '(count, d1) <- read_count d ;;
  if count =? 0 then Ok (PAll num_points, d1)
  else '(pts, d2) <- read_point_runs (S (length d1)) count 0 0 [] d1 ;; Ok (PSpecific pts, d2).

Definition pn_len (p : point_numbers) : Z := match p with PAll n => n | PSpecific l => len l end.
Definition pn_list (p : point_numbers) : list Z :=
  match p with PAll n => range 0 (Z.to_nat n) | PSpecific l => l end.

(* packed_deltas::read: while deltas_read < num_deltas { one run } *)
Fixpoint read_delta_runs (fuel : nat) (num nread : Z) (acc : list Z) (d : list Z)
  : outcome (list Z * list Z) :=
  if nread <? num then
    match fuel with
    | O => Err OtherErr
    | S f =>
      '(cb, d1) <- read_u8 d ;;
      let count := Z.land cb DELTA_RUN_COUNT_MASK + 1 in
      if Z.land cb DELTAS_ARE_ZERO =? DELTAS_ARE_ZERO then
        read_delta_runs f num (nread + count) (acc ++ repeat 0 (Z.to_nat count)) d1
      else if Z.land cb DELTAS_ARE_WORDS =? DELTAS_ARE_WORDS then
        '(vs, d2) <- read_i16s count d1 ;; read_delta_runs f num (nread + count) (acc ++ vs) d2
      else
        '(vs, d2) <- read_i8s count d1 ;; read_delta_runs f num (nread + count) (acc ++ vs) d2
    end
  else Ok (acc, d).

Definition read_packed_deltas (d : list Z) (num : Z) : outcome (list Z * list Z) :=
  read_delta_runs (S (length d)) num 0 [] d.

(* ------------------------------------------------------------------------------------------ *)
(* tuple variation store of one glyph (TupleVariationStore::read_dep over the glyph's
   GlyphVariationData block `full`) *)

Record tvh := {
  tvh_size : Z;                           (* variation_data_size *)
  tvh_flags : Z;                          (* tuple_flags_and_index *)
  tvh_peak : option (list Z);             (* embedded peak tuple *)
  tvh_inter : option (list Z * list Z);   (* intermediate region: start, end *)
  tvh_data : list Z                       (* serialised data, filled in after the headers *)
}.

Definition has_flag (v flag : Z) : bool := Z.land v flag =? flag.

Definition read_tvh (axis_count : Z) (d : list Z) : outcome (tvh * list Z) :=
  '(size, d1) <- read_u16 d ;;
  '(flags, d2) <- read_u16 d1 ;;
  '(peak, d3) <- (if has_flag flags EMBEDDED_PEAK_TUPLE
                  then '(p, r) <- read_i16s axis_count d2 ;; Ok (Some p, r) else Ok (None, d2)) ;;
  '(inter, d4) <- (if has_flag flags INTERMEDIATE_REGION
                   then '(s, r1) <- read_i16s axis_count d3 ;; '(e, r2) <- read_i16s axis_count r1 ;; Ok (Some (s, e), r2)
                   else Ok (None, d3)) ;;
  Ok ({| tvh_size := size; tvh_flags := flags; tvh_peak := peak; tvh_inter := inter; tvh_data := [] |}, d4).

Fixpoint read_tvhs (n : nat) (axis_count : Z) (d : list Z) : outcome (list tvh * list Z) :=
  match n with
  | O => Ok ([], d)
  | S k => '(h, d1) <- read_tvh axis_count d ;; '(hs, d2) <- read_tvhs k axis_count d1 ;; Ok (h :: hs, d2)
  end.

Fixpoint fill_data (hs : list tvh) (d : list Z) : outcome (list tvh) :=
  match hs with
  | [] => Ok []
  | h :: r =>
    '(bs, d1) <- take_bytes (tvh_size h) d ;;
    r' <- fill_data r d1 ;;
    Ok ({| tvh_size := tvh_size h; tvh_flags := tvh_flags h; tvh_peak := tvh_peak h;
           tvh_inter := tvh_inter h; tvh_data := bs |} :: r')
  end.

Record tvstore := { tvs_shared_points : option point_numbers; tvs_headers : list tvh }.

Definition read_store (axis_count num_points : Z) (full : list Z) : outcome tvstore :=
  '(fc, d1) <- read_u16 full ;;
  '(data_offset, d2) <- read_u16 d1 ;;
  '(hdrs, _) <- read_tvhs (Z.to_nat (Z.land fc COUNT_MASK)) axis_count d2 ;;
  let dc := slice_from full data_offset in
  '(shared, dc1) <- (if has_flag fc SHARED_POINT_NUMBERS
                     then '(p, r) <- read_packed_point_numbers dc num_points ;; Ok (Some p, r)
                     else Ok (None, dc)) ;;
  hdrs' <- fill_data hdrs dc1 ;;
  Ok {| tvs_shared_points := shared; tvs_headers := hdrs' |}.

(* TupleVariationHeader<Gvar>::peak_tuple(...).ok(): embedded, or gvar.shared_tuple(index) *)
Definition header_peak (shared : list (list Z)) (h : tvh) : option (list Z) :=
  match tvh_peak h with
  | Some p => Some p
  | None => nth_error shared (Z.to_nat (Z.land (tvh_flags h) TUPLE_INDEX_MASK))
  end.

(* the scalar determine_applicable computes for one header; None = filtered out *)
Definition header_scalar (shared : list (list Z)) (inst : list Z) (h : tvh) : option Q :=
  match header_peak shared h with
  | None => None
  | Some peak =>
    let '(starts, ends) :=
      match tvh_inter h with
      | Some (s, e) => (s, e)
      | None => (map implied_start peak, map implied_end peak)
      end in
    let s := tuple_scalar starts ends inst peak in
    if q_is_zero s then None else Some s
  end.

(* TupleVariationHeader<Gvar>::variation_data: point numbers, x deltas, y deltas *)
Definition variation_data (h : tvh) (num_points : Z) (shared : option point_numbers)
  : outcome (point_numbers * list Z * list Z) :=
  '(priv, d1) <- (if has_flag (tvh_flags h) PRIVATE_POINT_NUMBERS
                  then '(p, r) <- read_packed_point_numbers (tvh_data h) num_points ;; Ok (Some p, r)
                  else Ok (None, tvh_data h)) ;;
  pn <- match priv, shared with
        | Some p, _ => Ok p
        | None, Some s => Ok s
        | None, None => Err MissingValue
        end ;;
  let n := pn_len pn in
  '(all, _) <- read_packed_deltas d1 (2 * n) ;;
  Ok (pn, take n all, drop n all).

(* GvarVariationData::iter: point_numbers.zip(x.zip(y)) *)
Fixpoint zip3 (ps xs ys : list Z) : list (Z * (Z * Z)) :=
  match ps, xs, ys with
  | p :: pr, x :: xr, y :: yr => (p, (x, y)) :: zip3 pr xr yr
  | _, _, _ => []
  end.

(* ------------------------------------------------------------------------------------------ *)
(* (c) explicit deltas, inferred deltas (IUP) *)

(* the BTreeMap<u32, (i16, i16)> of explicit deltas as a dense table indexed by point number
   (a later pair for the same point replaces an earlier one, as `collect` into a map does) *)
Definition emap := list (option (Z * Z)).

Fixpoint set_nth {A} (l : list A) (i : nat) (v : A) : list A :=
  match l, i with
  | [], _ => []
  | _ :: r, O => v :: r
  | x :: r, S k => x :: set_nth r k v
  end.

Definition build_emap (np : Z) (pairs : list (Z * (Z * Z))) : outcome emap :=
  (* region_deltas.get_mut(number).ok_or(BadIndex) while filling in the explicit deltas *)
  if existsb (fun p => np <=? fst p) pairs then Err BadIndex
  else Ok (fold_left (fun m p => set_nth m (Z.to_nat (fst p)) (Some (snd p))) pairs
                     (repeat None (Z.to_nat np))).

Definition ref_at (m : emap) (i : Z) : option (Z * Z) :=
  match nth_opt m i with Some (Some d) => Some d | _ => None end.

(* first / last referenced point in [lo, lo + n) *)
Fixpoint find_first (m : emap) (lo : Z) (n : nat) : option (Z * (Z * Z)) :=
  match n with
  | O => None
  | S k => match ref_at m lo with Some d => Some (lo, d) | None => find_first m (lo + 1) k end
  end.
Fixpoint find_last (m : emap) (lo : Z) (n : nat) : option (Z * (Z * Z)) :=
  match n with
  | O => None
  | S k => match find_last m (lo + 1) k with
           | Some r => Some r
           | None => match ref_at m lo with Some d => Some (lo, d) | None => None end
           end
  end.
Fixpoint count_ref (m : emap) (lo : Z) (n : nat) : Z :=
  match n with
  | O => 0
  | S k => (match ref_at m lo with Some _ => 1 | None => 0 end) + count_ref m (lo + 1) k
  end.

Definition do_infer (prev_coord target_coord next_coord prev_delta next_delta : Z) : Q :=
  if prev_coord =? next_coord then
    if prev_delta =? next_delta then qz prev_delta else 0%Q
  else if target_coord <=? Z.min prev_coord next_coord then
    if prev_coord <? next_coord then qz prev_delta else qz next_delta
  else if Z.max prev_coord next_coord <=? target_coord then
    if next_coord <? prev_coord then qz prev_delta else qz next_delta
  else
    let proportion := (qz (target_coord - prev_coord) / qz (next_coord - prev_coord))%Q in
    ((1 - proportion) * qz prev_delta + proportion * qz next_delta)%Q.

Definition infer_delta (coords : list (Z * Z)) (target : Z) (prev next : Z * (Z * Z)) : outcome (Q * Q) :=
  match nth_opt coords (fst prev), nth_opt coords target, nth_opt coords (fst next) with
  | Some pc, Some tc, Some nc =>
    Ok (do_infer (fst pc) (fst tc) (fst nc) (fst (snd prev)) (fst (snd next)),
        do_infer (snd pc) (snd tc) (snd nc) (snd (snd prev)) (snd (snd next)))
  | _, _, _ => Err BadIndex
  end.

(* the referenced neighbours of an un-referenced target in the contour [s, e]:
   next = range(target..=e).chain(range(s..target)).next()
   prev = range(target..=e).chain(range(s..target)).next_back() *)
Definition next_ref (m : emap) (s e t : Z) : option (Z * (Z * Z)) :=
  match find_first m t (Z.to_nat (e - t + 1)) with
  | Some r => Some r
  | None => find_first m s (Z.to_nat (t - s))
  end.
Definition prev_ref (m : emap) (s e t : Z) : option (Z * (Z * Z)) :=
  match find_last m s (Z.to_nat (t - s)) with
  | Some r => Some r
  | None => find_last m t (Z.to_nat (e - t + 1))
  end.

Definition qpair := (Q * Q)%type.

Fixpoint infer_contour_from (m : emap) (coords : list (Z * Z)) (s e : Z) (t : Z) (n : nat)
                            (deltas : list qpair) : outcome (list qpair) :=
  match n with
  | O => Ok deltas
  | S k =>
    match ref_at m t with
    | Some _ => infer_contour_from m coords s e (t + 1) k deltas
    | None =>
      match next_ref m s e t, prev_ref m s e t with
      | Some nx, Some pv =>
        d <- infer_delta coords t pv nx ;;
        infer_contour_from m coords s e (t + 1) k (set_nth deltas (Z.to_nat t) d)
      | _, _ => Panic   (* .unwrap() *)
      end
    end
  end.

Definition infer_contour (m : emap) (coords : list (Z * Z)) (s e : Z) (deltas : list qpair) :=
  infer_contour_from m coords s e s (Z.to_nat (e - s + 1)) deltas.

Fixpoint fill_range {A} (l : list A) (lo : nat) (n : nat) (v : A) : list A :=
  match n with O => l | S k => fill_range (set_nth l lo v) (S lo) k v end.

Definition qd (d : Z * Z) : qpair := (qz (fst d), qz (snd d)).

(* one iteration of the loop of infer_unreferenced_points, for the contour [s, e] *)
Definition infer_one_contour (m : emap) (coords : list (Z * Z)) (s e : Z) (deltas : list qpair)
  : outcome (list qpair) :=
  let n := Z.to_nat (e - s + 1) in
  let cnt := count_ref m s n in
  if cnt =? 0 then Ok deltas
  else if cnt =? 1 then
    match find_first m s n with
    | Some (_, d) => Ok (fill_range deltas (Z.to_nat s) n (qd d))
    | None => Panic
    end
  else if cnt =? e - s + 1 then Ok deltas
  else infer_contour m coords s e deltas.

Fixpoint infer_contours (m : emap) (coords : list (Z * Z)) (begin : Z) (endpts : list Z)
                        (deltas : list qpair) : outcome (list qpair) :=
  match endpts with
  | [] => Ok deltas
  | e :: rest =>
    let s := begin in
    if (e <? s) || (len coords <=? e) then Err BadValue
    else
      deltas' <- infer_one_contour m coords s e deltas ;;
      infer_contours m coords (e + 1) rest deltas'
  end.

Definition explicit_region (m : emap) : list qpair :=
  map (fun o => match o with Some d => qd d | None => (0%Q, 0%Q) end) m.

(* one region of a simple glyph: explicit deltas, then infer_unreferenced_points unless every
   point (phantom points included) was referenced *)
Definition region_deltas_simple (coords : list (Z * Z)) (endpts : list Z) (np : Z)
                                (pairs : list (Z * (Z * Z))) : outcome (list qpair) :=
  m <- build_emap np pairs ;;
  let base := explicit_region m in
  if count_ref m 0 (Z.to_nat np) =? np then Ok base
  else infer_contours m coords 0 endpts base.

Definition region_deltas_other (np : Z) (pairs : list (Z * (Z * Z))) : outcome (list qpair) :=
  m <- build_emap np pairs ;; Ok (explicit_region m).

(* ------------------------------------------------------------------------------------------ *)
(* glyph_deltas *)

Inductive glyph :=
| GEmpty
| GSimple (coords : list (Z * Z)) (endpts : list Z)
| GComposite (comps : list (bool * Z * Z * Z)).   (* args_are_xy_values, child glyph, arg1, arg2 *)

Definition number_of_points (g : glyph) : Z :=
  match g with GEmpty => 0 | GSimple c _ => len c | GComposite cs => len cs end.

Definition qadd_scaled (scale : Q) (acc d : qpair) : qpair :=
  (Qred (fst acc + fst d * scale), Qred (snd acc + snd d * scale)).

Fixpoint zip_with {A B C} (f : A -> B -> C) (a : list A) (b : list B) : list C :=
  match a, b with x :: ar, y :: br => f x y :: zip_with f ar br | _, _ => [] end.

Fixpoint accumulate_regions (g : glyph) (np : Z) (shared : list (list Z)) (inst : list Z)
                            (sp : option point_numbers) (hs : list tvh) (final : list qpair)
  : outcome (list qpair) :=
  match hs with
  | [] => Ok final
  | h :: rest =>
    match header_scalar shared inst h with
    | None => accumulate_regions g np shared inst sp rest final
    | Some scale =>
      '(pn, xs, ys) <- variation_data h np sp ;;
      let pairs := zip3 (pn_list pn) xs ys in
      region <- match g with
                | GSimple coords endpts => region_deltas_simple coords endpts np pairs
                | _ => region_deltas_other np pairs
                end ;;
      accumulate_regions g np shared inst sp rest (zip_with (qadd_scaled scale) final region)
    end
  end.

(* `data` = the glyph's GlyphVariationData block ([] when the offsets give it length 0) *)
Definition glyph_deltas (g : glyph) (axis_count : Z) (shared : list (list Z)) (inst : list Z)
                        (data : list Z) : outcome (option (list qpair)) :=
  let np := number_of_points g + 4 in
  if len data =? 0 then Ok None
  else
    st <- read_store axis_count np data ;;
    final <- accumulate_regions g np shared inst (tvs_shared_points st) (tvs_headers st)
                                (repeat (0%Q, 0%Q) (Z.to_nat np)) ;;
    Ok (Some final).

(* ------------------------------------------------------------------------------------------ *)
(* applying deltas: f32::round (half away from zero) and the saturating `as i16` *)

Definition round_half_away (q : Q) : Z :=
  if Qle_bool 0 q then Qfloor (q + (1 # 2)) else - Qfloor (- q + (1 # 2)).
Definition sat_i16 (z : Z) : Z := Z.max (-32768) (Z.min 32767 z).
Definition sat_u16 (z : Z) : Z := Z.max 0 (Z.min 65535 z).

Definition add_round_i16 (v : Z) (d : Q) : Z := sat_i16 (round_half_away (qz v + d)).
Definition add_round_u16 (v : Z) (d : Q) : Z := sat_u16 (round_half_away (qz v + d)).

Definition apply_point (p : Z * Z) (d : qpair) : Z * Z :=
  (add_round_i16 (fst p) (fst d), add_round_i16 (snd p) (snd d)).

(* calculate_phantom_points, horizontal part: pp1.x = x_min - lsb, pp2.x = pp1.x + aw (i16
   arithmetic in default mode: Panic in debug builds / wrap in release builds on overflow;
   i16::try_from(aw)? gives BadValue) *)
Definition i16_op (m : mode) (v : Z) : outcome Z :=
  if (-32768 <=? v) && (v <=? 32767) then Ok v
  else match m with Debug => Panic | Release => Ok (to_signed 16 v) end.

Definition phantom_x (m : mode) (hdr_xmin aw lsb : Z) : outcome (Z * Z) :=
  pp1 <- i16_op m (hdr_xmin - lsb) ;;
  if 32767 <? aw then Err BadValue
  else pp2 <- i16_op m (pp1 + aw) ;; Ok (pp1, pp2).

Fixpoint min_list (d : Z) (l : list Z) : Z :=
  match l with [] => d | x :: r => Z.min x (min_list x r) end.
Definition xmin_of (coords : list (Z * Z)) : Z :=
  match coords with [] => 0 | p :: r => fold_left (fun a q => Z.min a (fst q)) r (fst p) end.

(* one glyph after apply_variations: the varied glyph and its two horizontal phantom points *)
(* v_xmin: x_min of the glyph's bounding box after apply_variations (a glyph without variation
   data keeps the bounding box of its header; composites are recomputed later from their children) *)
Record varied := { v_glyph : glyph; v_pp1 : Z; v_pp2 : Z; v_xmin : Z }.

Definition apply_comp (c : bool * Z * Z * Z) (d : qpair) : bool * Z * Z * Z :=
  let '(xy, gid, a1, a2) := c in
  if xy then (xy, gid, add_round_i16 a1 (fst d), add_round_i16 a2 (snd d)) else c.

Fixpoint zip_apply {A} (f : A -> qpair -> A) (l : list A) (ds : list qpair) : list A :=
  match l, ds with
  | x :: lr, d :: dr => f x d :: zip_apply f lr dr
  | _, _ => l
  end.

Definition apply_variations (m : mode) (g : glyph) (hdr_xmin aw lsb : Z) (axis_count : Z)
                            (shared : list (list Z)) (inst : list Z) (data : list Z) : outcome varied :=
  od <- glyph_deltas g axis_count shared inst data ;;
  '(pp1, pp2) <- phantom_x m (match g with GEmpty => 0 | _ => hdr_xmin end) aw lsb ;;
  match od with
  | None => Ok {| v_glyph := g; v_pp1 := pp1; v_pp2 := pp2;
                  v_xmin := match g with GEmpty => 0 | _ => hdr_xmin end |}
  | Some deltas =>
    let n := Z.to_nat (number_of_points g) in
    let ph := skipn n deltas in
    let g' := match g with
              | GEmpty => GEmpty
              | GSimple coords endpts => GSimple (zip_apply apply_point coords deltas) endpts
              | GComposite cs => GComposite (zip_apply apply_comp cs deltas)
              end in
    match ph with
    | d1 :: d2 :: _ =>
      Ok {| v_glyph := g'; v_pp1 := add_round_i16 pp1 (fst d1); v_pp2 := add_round_i16 pp2 (fst d2);
            v_xmin := match g' with GSimple coords _ => xmin_of coords | GEmpty => 0 | GComposite _ => hdr_xmin end |}
    | _ => Panic
    end
  end.

(* ------------------------------------------------------------------------------------------ *)
(* (d) item variation store, delta-set index map, HVAR, MVAR *)

Record ivd := { ivd_wdc : Z; ivd_ric : Z; ivd_regions : list Z; ivd_data : list Z }.
Record ivstore := { ivs_regions : list (list (Z * Z * Z)); ivs_data : list ivd }.

Definition word_delta_count (d : ivd) : Z := Z.land (ivd_wdc d) WORD_DELTA_COUNT_MASK.
Definition long_deltas (d : ivd) : bool := negb (Z.land (ivd_wdc d) LONG_WORDS =? 0).
Definition row_length (d : ivd) : Z :=
  let r := ivd_ric d + word_delta_count d in if long_deltas d then r * 2 else r.

Fixpoint chunks_be (size : nat) (fuel : nat) (l : list Z) : list Z :=
  match fuel with
  | O => []
  | S f => match l with
           | [] => []
           | _ => be_val (firstn size l) :: chunks_be size f (skipn size l)
           end
  end.

(* delta_set_impl + DeltaSet::iter: the deltas of row `index` as integers *)
Definition delta_set (d : ivd) (index : Z) : option (list Z) :=
  let rl := row_length d in
  let start := index * rl in
  if len (ivd_data d) <? start then None
  else
    let tail := drop start (ivd_data d) in
    if len tail <? rl then None
    else
      let row := take rl tail in
      let wsize := if long_deltas d then 4 else 2 in
      let ssize := if long_deltas d then 2 else 1 in
      let mid := word_delta_count d * wsize in
      if len row <? mid then None
      else
        let wd := take mid row in
        let sd := drop mid row in
        if negb (len sd mod ssize =? 0) then None
        else Some (map (to_signed (8 * wsize)) (chunks_be (Z.to_nat wsize) (length wd) wd)
                   ++ map (to_signed (8 * ssize)) (chunks_be (Z.to_nat ssize) (length sd) sd)).

Fixpoint adjust_sum (regions : list (list (Z * Z * Z))) (inst : list Z) (deltas idxs : list Z) (acc : Q)
  : outcome Q :=
  match deltas, idxs with
  | dl :: dr, ix :: ir =>
    match nth_error regions (Z.to_nat ix) with
    | None => Err BadIndex
    | Some axes =>
      let acc' := match region_scalar axes inst with
                  | Some s => Qred (acc + s * qz dl)
                  | None => acc
                  end in
      adjust_sum regions inst dr ir acc'
    end
  | _, _ => Ok acc
  end.

Definition adjustment (st : ivstore) (outer inner : Z) (inst : list Z) : outcome Q :=
  match nth_error (ivs_data st) (Z.to_nat outer) with
  | None => Err BadIndex
  | Some d =>
    match delta_set d inner with
    | None => Err BadIndex
    | Some deltas => adjust_sum (ivs_regions st) inst deltas (ivd_regions d) 0%Q
    end
  end.

(* DeltaSetIndexMap: read + entry *)
Record dsim := { dsim_format : Z; dsim_count : Z; dsim_data : list Z }.

Definition entry_size (entry_format : Z) : Z := Z.shiftr (Z.land entry_format MAP_ENTRY_SIZE_MASK) 4 + 1.

Definition read_dsim (d : list Z) : outcome dsim :=
  '(format, d1) <- read_u8 d ;;
  '(ef, d2) <- read_u8 d1 ;;
  '(count, d3) <- (if format =? 0 then read_u16 d2
                   else if format =? 1 then
                     '(hi, r) <- read_u16 d2 ;; '(lo, r2) <- read_u16 r ;; Ok (hi * 65536 + lo, r2)
                   else Err BadVersion) ;;
  '(bs, _) <- take_bytes (entry_size ef * count) d3 ;;
  Ok {| dsim_format := ef; dsim_count := count; dsim_data := bs |}.

Definition dsim_entry (mp : dsim) (i : Z) : outcome (Z * Z) :=
  i' <- (if dsim_count mp <=? i then (if dsim_count mp =? 0 then Err BadIndex else Ok (dsim_count mp - 1)) else Ok i) ;;
  let es := entry_size (dsim_format mp) in
  let off := i' * es in
  if len (dsim_data mp) <? off + es then Err BadIndex
  else
    let entry := be_val (take es (drop off (dsim_data mp))) in
    let bits := Z.land (dsim_format mp) INNER_INDEX_BIT_COUNT_MASK + 1 in
    Ok (Z.shiftr entry bits mod 65536, Z.land entry (Z.shiftl 1 bits - 1) mod 65536).

(* HvarTable::advance_delta / left_side_bearing_delta *)
Record hvar := { hv_store : ivstore; hv_adv : option dsim; hv_lsb : option dsim }.

Definition advance_delta (h : hvar) (inst : list Z) (gid : Z) : outcome Q :=
  '(outer, inner) <- match hv_adv h with Some mp => dsim_entry mp gid | None => Ok (0, gid) end ;;
  adjustment (hv_store h) outer inner inst.

Definition lsb_delta (h : hvar) (inst : list Z) (gid : Z) : outcome (option Q) :=
  match hv_lsb h with
  | None => Ok None
  | Some mp => '(outer, inner) <- dsim_entry mp gid ;; q <- adjustment (hv_store h) outer inner inst ;; Ok (Some q)
  end.

(* ------------------------------------------------------------------------------------------ *)
(* horizontal metrics of the instance *)

(* bounding box x_min after apply_gvar: simple glyphs from the varied points (0 when the glyph has
   no points); composite glyphs from their children (second pass of apply_gvar), modelled for
   un-scaled components whose children are simple or empty glyphs; empty glyphs have none (0) *)
Definition simple_xmin (v : varied) : Z :=
  match v_glyph v with GSimple _ _ => v_xmin v | _ => 0 end.

Definition composite_xmin (all : list varied) (cs : list (bool * Z * Z * Z)) : outcome Z :=
  let one (c : bool * Z * Z * Z) : outcome Z :=
    let '(_, gid, a1, _) := c in
    match nth_error all (Z.to_nat gid) with
    | None => Err BadIndex
    | Some v => Ok (simple_xmin v + a1)
    end in
  (fix go (l : list (bool * Z * Z * Z)) (acc : option Z) : outcome Z :=
     match l with
     | [] => Ok (match acc with Some a => a | None => 0 end)
     | c :: r => x <- one c ;; go r (Some (match acc with Some a => Z.min a x | None => x end))
     end) cs None.

Definition glyph_xmin (all : list varied) (v : varied) : outcome Z :=
  match v_glyph v with
  | GEmpty => Ok 0
  | GSimple _ _ => Ok (simple_xmin v)
  | GComposite cs => composite_xmin all cs
  end.

(* htmx_from_phantom_points (after the repair of the i16 subtractions): lsb = x_min.checked_sub(pp1) or
   LimitExceeded; advance = u16::try_from(i32::from(pp2) - i32::from(pp1)).unwrap_or(0).  The build mode
   no longer matters. *)
Definition metric_from_phantom (m : mode) (xmin : Z) (v : varied) : outcome (Z * Z) :=
  let lsb := xmin - v_pp1 v in
  if (-32768 <=? lsb) && (lsb <=? 32767) then
    let w := v_pp2 v - v_pp1 v in
    Ok ((if (w <? 0) || (65535 <? w) then 0 else w), lsb)
  else Err LimitExceeded.

(* apply_hvar for one glyph *)
Definition metric_from_hvar (m : mode) (h : hvar) (inst : list Z) (gid aw lsb xmin : Z) (v : varied)
  : outcome (Z * Z) :=
  d <- advance_delta h inst gid ;;
  let aw' := add_round_u16 aw d in
  ol <- lsb_delta h inst gid ;;
  match ol with
  | Some dl => Ok (aw', add_round_i16 lsb dl)
  | None => l <- i16_op m (xmin - v_pp1 v) ;; Ok (aw', l)
  end.

(* ------------------------------------------------------------------------------------------ *)
(* (e) MVAR: the update process_mvar applies for one value record, and table selection *)

Fixpoint assoc_tag {A} (t : Z) (l : list (Z * A)) : option A :=
  match l with [] => None | (k, v) :: r => if k =? t then Some v else assoc_tag t r end.

(* which field is written, from which field and how, for a value tag; None = ignored *)
Definition mvar_target (tag : Z) : option (mvar_field * mvar_field * mvar_kind) := assoc_tag tag MVAR_TABLE.

Definition mvar_apply (k : mvar_kind) (value : Z) (delta : Q) : Z :=
  match k with KI16 => add_round_i16 value delta | KU16 => add_round_u16 value delta end.

(* the tags of the font instance() builds, given the tags of the source font and which optional
   tables were built (cvt only when present, CFF2 or glyf/loca depending on the outline format) *)
Definition is_postponed (t : Z) : bool := existsb (Z.eqb t) POSTPONED_TAGS.

Definition output_tags (built : list Z) (source_tags : list Z) (glyf_font : bool) : list Z :=
  built
  ++ filter (fun t => negb (is_postponed t) && negb (is_var_table t) && negb (existsb (Z.eqb t) built)) source_tags
  ++ [TAG_HEAD]
  ++ (if glyf_font then [TAG_GLYF; TAG_LOCA] else []).

(* ------------------------------------------------------------------------------------------ *)
(* the glyf / hmtx part of instance(): apply_gvar over all glyphs, then create_hmtx_table *)

Record gspec := { g_glyph : glyph; g_xmin : Z; g_aw : Z; g_lsb : Z; g_var : list Z }.

Fixpoint apply_all (m : mode) (axis_count : Z) (shared : list (list Z)) (inst : list Z)
                   (gs : list gspec) : outcome (list varied) :=
  match gs with
  | [] => Ok []
  | g :: r =>
    v <- apply_variations m (g_glyph g) (g_xmin g) (g_aw g) (g_lsb g) axis_count shared inst (g_var g) ;;
    vs <- apply_all m axis_count shared inst r ;;
    Ok (v :: vs)
  end.

Fixpoint metrics_from (m : mode) (hv : option hvar) (inst : list Z) (all : list varied)
                      (gid : Z) (gs : list gspec) (vs : list varied) : outcome (list (Z * Z)) :=
  match gs, vs with
  | g :: gr, v :: vr =>
    mt <- match hv with
          | Some h =>
            (* apply_hvar: advance first (its errors come before the bounding box is looked at) *)
            d <- advance_delta h inst gid ;;
            ol <- lsb_delta h inst gid ;;
            match ol with
            | Some dl => Ok (add_round_u16 (g_aw g) d, add_round_i16 (g_lsb g) dl)
            | None => xmin <- glyph_xmin all v ;; l <- i16_op m (xmin - v_pp1 v) ;; Ok (add_round_u16 (g_aw g) d, l)
            end
          | None => xmin <- glyph_xmin all v ;; metric_from_phantom m xmin v
          end ;;
    rest <- metrics_from m hv inst all (gid + 1) gr vr ;;
    Ok (mt :: rest)
  | _, _ => Ok []
  end.

(* SimpleGlyph::write stores each coordinate as an i16 difference from the previous point
   (i16::try_from(..)?: a glyph whose consecutive points are further apart cannot be written) *)
Fixpoint deltas_fit (prev : Z) (l : list Z) : bool :=
  match l with
  | [] => true
  | x :: r => (-32768 <=? x - prev) && (x - prev <=? 32767) && deltas_fit x r
  end.
Definition writable (g : glyph) : bool :=
  match g with
  | GSimple coords _ => deltas_fit 0 (map fst coords) && deltas_fit 0 (map snd coords)
  | _ => true
  end.

Definition instance_glyphs (m : mode) (axis_count : Z) (shared : list (list Z)) (inst : list Z)
                           (gs : list gspec) (hv : option hvar) : outcome (list varied * list (Z * Z)) :=
  vs <- apply_all m axis_count shared inst gs ;;
  ms <- metrics_from m hv inst vs 0 gs vs ;;
  if forallb (fun v => writable (v_glyph v)) vs then Ok (vs, ms) else Err OtherErr (* WriteError::BadValue *).

(* process_mvar over the value records (tag, outer, inner) of an MVAR table whose records are
   sorted by tag and distinct, so the binary search of MvarTable::lookup finds the record itself.
   The 28 controlled values are kept in the order of process_mvar's arms; instance() passes
   `&mut None` for vhea, so the vhea fields are never written. *)
Definition field_index (f : mvar_field) : nat :=
  match f with
  | F_os2_version0_v0_s_typo_ascender => 0 | F_os2_version0_v0_s_typo_descender => 1
  | F_os2_version0_v0_s_typo_line_gap => 2 | F_os2_version0_v0_us_win_ascent => 3
  | F_os2_version0_v0_us_win_descent => 4
  | F_vhea_vhea_ascender => 5 | F_vhea_vhea_descender => 6 | F_vhea_vhea_line_gap => 7
  | F_hhea_caret_slope_rise => 8 | F_hhea_caret_slope_run => 9 | F_hhea_caret_offset => 10
  | F_vhea_vhea_caret_slope_rise => 11 | F_vhea_vhea_caret_slope_run => 12 | F_vhea_vhea_caret_offset => 13
  | F_os2_version2to4_version_sx_height => 14 | F_os2_version2to4_version_s_cap_height => 15
  | F_os2_y_subscript_x_size => 16 | F_os2_y_subscript_y_size => 17
  | F_os2_y_subscript_x_offset => 18 | F_os2_y_subscript_y_offset => 19
  | F_os2_y_superscript_x_size => 20 | F_os2_y_superscript_y_size => 21
  | F_os2_y_superscript_x_offset => 22 | F_os2_y_superscript_y_offset => 23
  | F_os2_y_strikeout_size => 24 | F_os2_y_strikeout_position => 25
  | F_post_header_underline_thickness => 26 | F_post_header_underline_position => 27
  end%nat.

Definition is_vhea_field (f : mvar_field) : bool :=
  match f with
  | F_vhea_vhea_ascender | F_vhea_vhea_descender | F_vhea_vhea_line_gap
  | F_vhea_vhea_caret_slope_rise | F_vhea_vhea_caret_slope_run | F_vhea_vhea_caret_offset => true
  | _ => false
  end.

Fixpoint process_mvar (st : ivstore) (inst : list Z) (vhea_passed : bool) (recs : list (Z * Z * Z))
                      (vals : list Z) : list Z :=
  match recs with
  | [] => vals
  | (tag, outer, inner) :: r =>
    let vals' :=
      match adjustment st outer inner inst with
      | Ok delta =>
        match mvar_target tag with
        | Some (tgt, src, k) =>
          if is_vhea_field tgt && negb vhea_passed then vals
          else set_nth vals (field_index tgt) (mvar_apply k (nth (field_index src) vals 0) delta)
        | None => vals
        end
      | _ => vals
      end in
    process_mvar st inst vhea_passed r vals'
  end.
