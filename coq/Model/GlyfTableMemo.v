(* Model/GlyfTableMemo.v — the lazily parsed, memoising `glyf` table (property C03), after
   src/tables/glyf.rs (GlyfRecord::parse, GlyfTable::get_parsed_glyph) and src/tables/glyf/outline.rs
   (GlyfTable::visit_outline, visit_composite_glyph_outline, impl OutlineBuilder).  No proofs here.

   A record is either the raw bytes of a glyph (`Present`) or its parsed form (`Parsed`); the first query that
   needs a glyph replaces `Present raw` by `Parsed (parse raw)` in place (an error is returned, nothing stored).
   That is the ONLY write the outline code makes to the table: the component list of a composite glyph is cloned,
   the table is not touched while the components are visited (tr_caches.py checks that shape on every run).

   Abstractions: `parse` (scope.read::<Glyph>()) is any function of the raw bytes; a simple glyph is an opaque
   payload; what a visit draws is the list of simple-glyph payloads in drawing order (the transforms, which are
   functions of the component records alone, are left out); the sink is the caller's, so what has been drawn
   before an error is not part of the result. *)
From AV Require Import Base.Prelude Gen.CacheSites.
Open Scope Z_scope.

Section GlyfTable.
  Context {R S : Type}.

  Inductive glyph : Type :=
  | GEmpty
  | GSimple (s : S)
  | GComposite (components : list Z).   (* glyph_index of every CompositeGlyphComponent *)

  Inductive grec : Type :=
  | Present (raw : R)
  | Parsed (g : glyph).

  Variable parse : R -> outcome glyph.

  Definition table : Type := list grec.

  (* records.get_mut(n).ok_or(BadIndex)?; record.parse()?; the parsed glyph *)
  Fixpoint get_nat (t : table) (n : nat) : outcome glyph * table :=
    match t with
    | [] => (Err BadIndex, [])
    | r :: rest =>
      match n with
      | O =>
        match r with
        | Parsed g => (Ok g, r :: rest)
        | Present raw =>
          match parse raw with
          | Ok g => (Ok g, Parsed g :: rest)
          | x => (x, r :: rest)
          end
        end
      | Datatypes.S m => let p := get_nat rest m in (fst p, r :: snd p)
      end
    end.

  (* GlyfTable::get_parsed_glyph(glyph_index: u16) *)
  Definition get_parsed_glyph (t : table) (i : Z) : outcome glyph * table :=
    if i <? 0 then (Err BadIndex, t) else get_nat t (Z.to_nat i).

  (* visit_composite_glyph_outline: the components in order, `?` on the first failure *)
  Fixpoint visit_comps (v : table -> Z -> outcome (list S) * table) (cs : list Z) (t : table)
    : outcome (list S) * table :=
    match cs with
    | [] => (Ok [], t)
    | c :: r =>
      let p := v t c in
      match fst p with
      | Ok a =>
        let q := visit_comps v r (snd p) in
        (match fst q with Ok b => Ok (a ++ b) | x => x end, snd q)
      | x => (x, snd p)
      end
    end.

  (* visit_outline at depth d, with fuel = COMPOSITE_GLYPH_RECURSION_LIMIT + 1 - d levels left
     (fuel 0 <-> depth > COMPOSITE_GLYPH_RECURSION_LIMIT) *)
  Fixpoint visit_outline (fuel : nat) (t : table) (i : Z) : outcome (list S) * table :=
    match fuel with
    | O => (Err LimitExceeded, t)
    | Datatypes.S f =>
      let p := get_parsed_glyph t i in
      match fst p with
      | Ok GEmpty => (Ok [], snd p)
      | Ok (GSimple s) => (Ok [s], snd p)
      | Ok (GComposite cs) => visit_comps (visit_outline f) cs (snd p)
      | Err e => (Err e, snd p)
      | Panic => (Panic, snd p)
      | OOB => (OOB, snd p)
      end
    end.

  Definition visit_fuel : nat := Datatypes.S (Z.to_nat COMPOSITE_GLYPH_RECURSION_LIMIT).

  (* impl OutlineBuilder for GlyfTable: visit(glyph_index) = visit_outline(glyph_index, .., depth 0) *)
  Definition visit (t : table) (i : Z) : outcome (list S) * table := visit_outline visit_fuel t i.

  (* ---- the stateless specification: what a freshly read table answers --------------------------------------- *)

  (* what a record means, whichever form it is stored in; subset / write_dep / number_of_points see a record
     through its bytes or its parsed form *)
  Definition meaning (r : grec) : outcome glyph :=
    match r with Present raw => parse raw | Parsed g => Ok g end.

  Definition parsed_of (t0 : table) (i : Z) : outcome glyph := fst (get_parsed_glyph t0 i).

  Fixpoint spec_comps (v : Z -> outcome (list S)) (cs : list Z) : outcome (list S) :=
    match cs with
    | [] => Ok []
    | c :: r =>
      match v c with
      | Ok a => match spec_comps v r with Ok b => Ok (a ++ b) | x => x end
      | x => x
      end
    end.

  Fixpoint visit_spec (fuel : nat) (t0 : table) (i : Z) : outcome (list S) :=
    match fuel with
    | O => Err LimitExceeded
    | Datatypes.S f =>
      match parsed_of t0 i with
      | Ok GEmpty => Ok []
      | Ok (GSimple s) => Ok [s]
      | Ok (GComposite cs) => spec_comps (visit_spec f t0) cs
      | Err e => Err e
      | Panic => Panic
      | OOB => OOB
      end
    end.

  (* ---- histories on one table ------------------------------------------------------------------------------ *)
  Inductive top : Type := TVisit (i : Z) | TGet (i : Z).
  Inductive tres : Type := RDrawn (o : outcome (list S)) | RGlyph (o : outcome glyph).

  Definition t_step (t : table) (op : top) : tres * table :=
    match op with
    | TVisit i => let p := visit t i in (RDrawn (fst p), snd p)
    | TGet i => let p := get_parsed_glyph t i in (RGlyph (fst p), snd p)
    end.

  Fixpoint t_run (t : table) (ops : list top) : list tres * table :=
    match ops with
    | [] => ([], t)
    | op :: r => let p := t_step t op in let q := t_run (snd p) r in (fst p :: fst q, snd q)
    end.

  Definition t_spec (t0 : table) (op : top) : tres :=
    match op with
    | TVisit i => RDrawn (visit_spec visit_fuel t0 i)
    | TGet i => RGlyph (parsed_of t0 i)
    end.

  (* ---- the idiom of variations::apply_gvar used for drawing (NOT what the code does): the composite is taken
     out of the table (an empty glyph is left), its components are visited, it is put back only on success ---- *)
  Fixpoint set_nat (t : table) (n : nat) (x : grec) : table :=
    match t with
    | [] => []
    | r :: rest => match n with O => x :: rest | Datatypes.S m => r :: set_nat rest m x end
    end.

  Fixpoint visit_take (fuel : nat) (t : table) (i : Z) : outcome (list S) * table :=
    match fuel with
    | O => (Err LimitExceeded, t)
    | Datatypes.S f =>
      let p := get_parsed_glyph t i in
      match fst p with
      | Ok GEmpty => (Ok [], snd p)
      | Ok (GSimple s) => (Ok [s], snd p)
      | Ok (GComposite cs) =>
        let q := visit_comps (visit_take f) cs (set_nat (snd p) (Z.to_nat i) (Parsed GEmpty)) in
        match fst q with
        | Ok d => (Ok d, set_nat (snd q) (Z.to_nat i) (Parsed (GComposite cs)))
        | x => (x, snd q)
        end
      | Err e => (Err e, snd p)
      | Panic => (Panic, snd p)
      | OOB => (OOB, snd p)
      end
    end.
End GlyfTable.

Arguments GEmpty {S}.
Arguments GSimple {S} s.
Arguments GComposite {S} components.
Arguments Present {R S} raw.
Arguments Parsed {R S} g.
