(* Base/Lemmas.v — arithmetic and list facts shared by all proofs *)
From AV Require Import Base.Prelude.
From Coq Require Import ZifyBool ZifyNat.
Ltac Zify.zify_post_hook ::= Z.div_mod_to_equations.
Open Scope Z_scope.

Lemma len_nonneg {A} (l : list A) : 0 <= len l.
Proof. unfold len; lia. Qed.

Lemma len_app {A} (a b : list A) : len (a ++ b) = len a + len b.
Proof. unfold len; rewrite app_length; lia. Qed.

Lemma len_cons {A} (x : A) l : len (x :: l) = 1 + len l.
Proof. unfold len; cbn [length]; lia. Qed.

Lemma len_nil {A} : len (@nil A) = 0.
Proof. reflexivity. Qed.

Lemma len_take {A} (n : Z) (d : list A) : 0 <= n <= len d -> len (take n d) = n.
Proof. unfold len, take; intros; rewrite firstn_length; lia. Qed.

Lemma len_take_le {A} (n : Z) (d : list A) : len (take n d) <= len d.
Proof. unfold len, take; rewrite firstn_length; lia. Qed.

Lemma len_drop {A} (n : Z) (d : list A) : 0 <= n <= len d -> len (drop n d) = len d - n.
Proof. unfold len, drop; intros; rewrite skipn_length; lia. Qed.

Lemma len_slice_from {A} (d : list A) (o : Z) :
  0 <= o -> len (slice_from d o) = if o <=? len d then len d - o else 0.
Proof.
  intros; unfold slice_from. destruct (o <=? len d) eqn:E; [|reflexivity].
  unfold len in *; rewrite skipn_length; lia.
Qed.

Lemma slice_from_drop {A} (d : list A) o : 0 <= o <= len d -> slice_from d o = drop o d.
Proof. intros; unfold slice_from, drop. destruct (o <=? len d) eqn:E; [reflexivity|lia]. Qed.

Lemma take_all {A} (d : list A) n : len d <= n -> take n d = d.
Proof. unfold take, len; intros; apply firstn_all2; lia. Qed.

Lemma drop_0 {A} (d : list A) : drop 0 d = d.
Proof. reflexivity. Qed.

Lemma skipn_skipn' {A} (a b : nat) (d : list A) : skipn a (skipn b d) = skipn (a + b) d.
Proof.
  revert d; induction b; intros d.
  - rewrite Nat.add_0_r. reflexivity.
  - rewrite Nat.add_succ_r. destruct d; cbn [skipn]; [destruct a; reflexivity|apply IHb].
Qed.

Lemma drop_drop {A} (a b : Z) (d : list A) : 0 <= a -> 0 <= b -> drop a (drop b d) = drop (a + b) d.
Proof.
  intros; unfold drop. rewrite skipn_skipn'. f_equal; lia.
Qed.

Lemma take_take {A} (a b : Z) (d : list A) : 0 <= a <= b -> take a (take b d) = take a d.
Proof.
  intros; unfold take. rewrite firstn_firstn. f_equal; lia.
Qed.

Lemma drop_take {A} (a b : Z) (d : list A) :
  0 <= a -> 0 <= b -> drop a (take (a + b) d) = take b (drop a d).
Proof.
  intros; unfold drop, take.
  replace (Z.to_nat (a + b)) with (Z.to_nat a + Z.to_nat b)%nat by lia.
  rewrite firstn_skipn_comm. reflexivity.
Qed.

Lemma nth_skipn' {A} (o k : nat) (d : list A) x : nth k (skipn o d) x = nth (o + k) d x.
Proof.
  revert d; induction o; intros d; [reflexivity|].
  destruct d; cbn [skipn]; [destruct k; reflexivity|]. cbn [Nat.add nth]. apply IHo.
Qed.

Lemma nthZ_drop (d : list Z) (o k : Z) : 0 <= o -> 0 <= k -> nthZ (drop o d) k = nthZ d (o + k).
Proof.
  intros; unfold nthZ, drop. rewrite nth_skipn'. f_equal; lia.
Qed.

Lemma nth_firstn' {A} (a b : nat) (d : list A) x : (b < a)%nat -> nth b (firstn a d) x = nth b d x.
Proof.
  revert a d; induction b; intros [|a] d Hab; try lia; destruct d; cbn [firstn nth]; auto.
  apply IHb; lia.
Qed.

Lemma nthZ_take (d : list Z) (n k : Z) : 0 <= k < n -> nthZ (take n d) k = nthZ d k.
Proof.
  intros; unfold nthZ, take. apply nth_firstn'. lia.
Qed.

Lemma bytes_ok_nth (d : list Z) (k : Z) : bytes_ok d = true -> 0 <= k < len d -> 0 <= nthZ d k < 256.
Proof.
  intros Hb Hk. unfold bytes_ok in Hb. rewrite forallb_forall in Hb.
  assert (In (nthZ d k) d) as Hin by (apply nth_In; unfold len in Hk; lia).
  specialize (Hb _ Hin). unfold byte_ok in Hb. lia.
Qed.

Lemma bytes_ok_drop d n : bytes_ok d = true -> bytes_ok (drop n d) = true.
Proof.
  unfold bytes_ok, drop; rewrite !forallb_forall; intros H x Hx. apply H.
  rewrite <- (firstn_skipn (Z.to_nat n) d). apply in_or_app; right; exact Hx.
Qed.

Lemma bytes_ok_take d n : bytes_ok d = true -> bytes_ok (take n d) = true.
Proof.
  unfold bytes_ok, take; rewrite !forallb_forall; intros H x Hx. apply H.
  rewrite <- (firstn_skipn (Z.to_nat n) d). apply in_or_app; left; exact Hx.
Qed.

Lemma bytes_ok_slice_from d n : bytes_ok d = true -> bytes_ok (slice_from d n) = true.
Proof. unfold slice_from; intros; destruct (n <=? len d); [apply bytes_ok_drop; auto|reflexivity]. Qed.

Lemma bytes_ok_app a b : bytes_ok (a ++ b) = bytes_ok a && bytes_ok b.
Proof. unfold bytes_ok; apply forallb_app. Qed.

(* ---- shifts and ors ---- *)
Lemma testbit_small lo n k : 0 <= lo < 2 ^ n -> 0 <= n <= k -> Z.testbit lo k = false.
Proof.
  intros Hlo Hk. rewrite <- (Z.mod_small lo (2 ^ n)) by lia.
  apply Z.mod_pow2_bits_high; lia.
Qed.

Lemma lor_shiftl_add hi lo n : 0 <= n -> 0 <= lo < 2 ^ n -> Z.lor (Z.shiftl hi n) lo = hi * 2 ^ n + lo.
Proof.
  intros Hn Hlo.
  assert (Z.land (Z.shiftl hi n) lo = 0) as Hland.
  { apply Z.bits_inj'; intros k Hk. rewrite Z.land_spec, Z.bits_0.
    destruct (Z.lt_ge_cases k n).
    - rewrite Z.shiftl_spec_low by lia; reflexivity.
    - rewrite (testbit_small lo n k) by lia. apply andb_false_r. }
  rewrite <- Z.lxor_lor by exact Hland.
  rewrite <- Z.add_nocarry_lxor by exact Hland.
  rewrite Z.shiftl_mul_pow2 by lia. reflexivity.
Qed.

Lemma wrap_small bits v : 0 <= v < 2 ^ bits -> wrap bits v = v.
Proof. unfold wrap; intros; apply Z.mod_small; lia. Qed.

Lemma shiftl_mul hi n : 0 <= n -> Z.shiftl hi n = hi * 2 ^ n.
Proof. intros; apply Z.shiftl_mul_pow2; lia. Qed.

Lemma range_length s n : length (range s n) = n.
Proof. revert s; induction n; intros; cbn; auto. Qed.

Lemma range_In s n x : In x (range s n) <-> s <= x < s + Z.of_nat n.
Proof.
  revert s; induction n; intros s; cbn [range In].
  - lia.
  - rewrite IHn. lia.
Qed.

Lemma bind_ok {A B} (x : outcome A) (f : A -> outcome B) b :
  bind x f = Ok b -> exists a, x = Ok a /\ f a = Ok b.
Proof. destruct x; cbn; intros H; try discriminate. eauto. Qed.

Lemma bind_not_oob {A B} (x : outcome A) (f : A -> outcome B) :
  x <> OOB -> (forall a, x = Ok a -> f a <> OOB) -> bind x f <> OOB.
Proof. destruct x; cbn; intros; auto; congruence. Qed.

Lemma uadd_not_oob m a b : uadd m a b <> OOB.
Proof. unfold uadd; destruct (a + b <? USIZE), m; congruence. Qed.
Lemma umul_not_oob m a b : umul m a b <> OOB.
Proof. unfold umul; destruct (a * b <? USIZE), m; congruence. Qed.
Lemma usub_not_oob m a b : usub m a b <> OOB.
Proof. unfold usub; destruct (b <=? a), m; congruence. Qed.

Lemma uadd_ok_range m a b r : 0 <= a -> 0 <= b -> uadd m a b = Ok r -> 0 <= r < USIZE.
Proof.
  unfold uadd; intros Ha Hb. destruct (a + b <? USIZE) eqn:E.
  - intros [= <-]; lia.
  - destruct m; [discriminate|]. intros [= <-]. apply Z.mod_pos_bound. reflexivity.
Qed.
Lemma umul_ok_range m a b r : 0 <= a -> 0 <= b -> umul m a b = Ok r -> 0 <= r < USIZE.
Proof.
  unfold umul; intros Ha Hb. destruct (a * b <? USIZE) eqn:E.
  - intros [= <-]; nia.
  - destruct m; [discriminate|]. intros [= <-]. apply Z.mod_pos_bound. reflexivity.
Qed.

Lemma zlist_eqb_eq a b : zlist_eqb a b = true <-> a = b.
Proof.
  revert b; induction a as [|x a IH]; intros [|y b]; cbn; split; intros H; try congruence.
  - apply andb_true_iff in H. destruct H as [H1 H2]. apply IH in H2. f_equal; [lia|auto].
  - injection H as -> ->. apply andb_true_iff. split; [lia|apply IH; reflexivity].
Qed.

Lemma lor_disjoint_add a b n : 0 <= n -> a mod 2 ^ n = 0 -> 0 <= b < 2 ^ n -> Z.lor a b = a + b.
Proof.
  intros Hn Ha Hb.
  assert (a = (a / 2 ^ n) * 2 ^ n) as Hd.
  { pose proof (Z.div_mod a (2 ^ n) ltac:(lia)). lia. }
  rewrite Hd at 1. rewrite <- shiftl_mul by lia. rewrite lor_shiftl_add by lia. lia.
Qed.

Lemma len_slice_from_le {A} (d : list A) o : len (slice_from d o) <= len d.
Proof.
  unfold slice_from. destruct (o <=? len d); [|apply len_nonneg].
  unfold len. rewrite skipn_length. lia.
Qed.

Lemma map_nth_range (d : list Z) (o : Z) (n : nat) :
  0 <= o -> o + Z.of_nat n <= len d ->
  map (fun k => nthZ d (o + k)) (range 0 n) = take (Z.of_nat n) (drop o d).
Proof.
  intros Ho Hn. unfold take. rewrite Nat2Z.id.
  assert (forall s, 0 <= s -> o + s + Z.of_nat n <= len d ->
     map (fun k => nthZ d (o + k)) (range s n) = firstn n (drop (o + s) d)) as G.
  { clear Hn. induction n as [|n IH]; intros s Hs Hle; [reflexivity|].
    cbn [range map]. rewrite IH by lia.
    unfold drop, nthZ. 
    assert (Z.to_nat (o + s) < length d)%nat as Hlt by (unfold len in Hle; lia).
    replace (Z.to_nat (o + (s + 1))) with (S (Z.to_nat (o + s))) by lia.
    remember (Z.to_nat (o + s)) as j. clear - Hlt.
    revert j Hlt. induction d as [|x d IHd]; intros j Hlt; cbn [length] in Hlt; [lia|].
    destruct j; [reflexivity|]. cbn [skipn nth]. apply IHd. lia. }
  rewrite (G 0) by lia. rewrite Z.add_0_r. reflexivity.
Qed.

Lemma wadd_not_oob a b : wadd a b <> OOB.
Proof. unfold wadd; congruence. Qed.
Lemma cmul_not_oob a b : cmul a b <> OOB.
Proof. unfold cmul; destruct (a * b <? USIZE); congruence. Qed.
Lemma cmul_ok a b r : cmul a b = Ok r -> r = a * b /\ a * b < USIZE.
Proof. unfold cmul; destruct (a * b <? USIZE) eqn:E; [intros [= <-]; lia|discriminate]. Qed.
