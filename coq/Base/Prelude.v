(* Base/Prelude.v — shared vocabulary of every model: outcomes, machine-integer
   arithmetic in the three flavours Rust has, byte lists.  No property-specific content. *)
From Coq Require Export List ZArith Lia Bool.
Export ListNotations.
Open Scope Z_scope.

(* The small error enum every ParseError / ReadEof / WriteError is canonicalised to by the harness. *)
Inductive err : Type :=
| Eof | BadOffset | BadValue | BadIndex | BadVersion | MissingValue | LimitExceeded
| MissingTable | CompressionError | UnsuitableCmap | NotImplemented | OtherErr.

(* Ok / Err mirror Result; Panic marks every Rust operation that can panic (indexing, unwrap,
   default-mode overflow in debug builds, assert!); OOB is produced only by the unchecked reader
   primitives when they are reached without a sufficient bounds check. *)
Inductive outcome (A : Type) : Type :=
| Ok (a : A) | Err (e : err) | Panic | OOB.
Arguments Ok {A} a. Arguments Err {A} e. Arguments Panic {A}. Arguments OOB {A}.

Definition bind {A B} (x : outcome A) (f : A -> outcome B) : outcome B :=
  match x with Ok a => f a | Err e => Err e | Panic => Panic | OOB => OOB end.
Notation "x <- e1 ;; e2" := (bind e1 (fun x => e2))
  (at level 61, e1 at next level, right associativity).
Notation "' p <- e1 ;; e2" := (bind e1 (fun p => e2))
  (at level 61, p pattern, e1 at next level, right associativity).

Definition is_ok {A} (x : outcome A) : bool := match x with Ok _ => true | _ => false end.
Definition is_oob {A} (x : outcome A) : bool := match x with OOB => true | _ => false end.
Definition is_panic {A} (x : outcome A) : bool := match x with Panic => true | _ => false end.

Inductive mode := Debug | Release.

Definition USIZE : Z := 18446744073709551616.   (* 2^64 *)

Definition wrap (bits : Z) (v : Z) : Z := v mod 2 ^ bits.
Definition to_signed (bits : Z) (v : Z) : Z :=
  let w := v mod 2 ^ bits in if w <? 2 ^ (bits - 1) then w else w - 2 ^ bits.

(* Rust default-mode usize arithmetic: panic in debug, wrap in release *)
Definition uadd (m : mode) (a b : Z) : outcome Z :=
  if a + b <? USIZE then Ok (a + b)
  else match m with Debug => Panic | Release => Ok ((a + b) mod USIZE) end.
Definition umul (m : mode) (a b : Z) : outcome Z :=
  if a * b <? USIZE then Ok (a * b)
  else match m with Debug => Panic | Release => Ok ((a * b) mod USIZE) end.
Definition usub (m : mode) (a b : Z) : outcome Z :=
  if b <=? a then Ok (a - b)
  else match m with Debug => Panic | Release => Ok ((a - b) mod USIZE) end.
(* usize::wrapping_add, and checked_mul(..).ok_or(BadEof) *)
Definition wadd (a b : Z) : outcome Z := Ok ((a + b) mod USIZE).
Definition cmul (a b : Z) : outcome Z := if a * b <? USIZE then Ok (a * b) else Err Eof.
Definition checked_add (a b : Z) : option Z := if a + b <? USIZE then Some (a + b) else None.

(* the nine primitive big-endian types of src/binary.rs *)
Inductive prim := PU8 | PI8 | PU16 | PI16 | PU24 | PU32 | PI32 | PU64 | PI64.

(* byte strings are lists of Z in [0,256) *)
Definition len {A} (l : list A) : Z := Z.of_nat (length l).
Definition byte_ok (b : Z) : bool := (0 <=? b) && (b <? 256).
Definition bytes_ok (l : list Z) : bool := forallb byte_ok l.
Definition nthZ (l : list Z) (i : Z) : Z := nth (Z.to_nat i) l 0.
Definition nth_opt {A} (l : list A) (i : Z) : option A :=
  if i <? 0 then None else nth_error l (Z.to_nat i).

(* data.get(o..).unwrap_or(&[]) *)
Definition slice_from {A} (d : list A) (o : Z) : list A :=
  if o <=? len d then skipn (Z.to_nat o) d else [].
Definition take {A} (n : Z) (d : list A) : list A := firstn (Z.to_nat n) d.
Definition drop {A} (n : Z) (d : list A) : list A := skipn (Z.to_nat n) d.

(* big-endian value of a byte list *)
Definition be_val (l : list Z) : Z := fold_left (fun acc b => acc * 256 + b) l 0.

Fixpoint be_bytes (n : nat) (v : Z) : list Z :=
  match n with O => [] | S k => (v / 256 ^ Z.of_nat k) mod 256 :: be_bytes k v end.

Fixpoint range (start : Z) (n : nat) : list Z :=
  match n with O => [] | S k => start :: range (start + 1) k end.

Fixpoint zlist_eqb (a b : list Z) : bool :=
  match a, b with
  | [], [] => true
  | x :: a', y :: b' => (x =? y) && zlist_eqb a' b'
  | _, _ => false
  end.
