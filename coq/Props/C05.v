(* Props/C05.v — the theorems that decide C05 (GPOS positioning semantics).  Statements only; every proof is
   `exact <lemma>` and is followed by Print Assumptions.  Model: Model/Layout.v (shared with C04) + Model/Gpos.v +
   Model/GposBytes.v + Model/Position.v; declarative side: Model/GposSpec.v (+ Model/LayoutSpec.v); constants and
   the ValueRecord field order regenerated from the source into Gen/GposConsts.v. *)
From AV Require Import Base.Prelude Gen.LayoutConsts Gen.GposConsts Model.Reader Model.Layout Model.LayoutSpec Model.Gpos
  Model.GposBytes Model.Position Model.GposSpec Proofs.ReaderProofs Proofs.EncodeProofs Proofs.LayoutProofs
  Proofs.GposBytesProofs Proofs.GposProofs Proofs.PositionProofs Proofs.GposInvProofs.
Open Scope Z_scope.

(* ---------------------------------------------------------------- (a) ValueFormat / ValueRecord *)
(* For every format mask the reader admits (0..255) and every record: reading the bytes that hold the fields
   the format selects — in the order x placement, y placement, x advance, y advance, then the four device
   offsets, 16 bits each, signed for the first four — returns exactly those fields (the others 0), leaves the
   cursor right behind the record, and the record is ValueFormat::size = 2 * popcount bytes long. *)
Theorem C05_value_record_layout : forall m table fmt v c rest,
  0 <= fmt <= VF_MAX -> adjust_in_range v -> cinv c -> bytes_ok (data (sc c)) = true ->
  drop (off c) (data (sc c)) = enc_value_record fmt v ++ rest ->
  exists c', value_record_read m table fmt c = Ok (value_record_spec fmt v, c') /\ at_rest c c' rest /\
             len (enc_value_record fmt v) = (if fmt =? 0 then 0 else value_format_size fmt) /\
             value_format_size fmt = 2 * popcount8 fmt.
Proof. exact value_record_layout. Qed.
Print Assumptions C05_value_record_layout.

Theorem C05_value_format_size : forall fmt, 0 <= fmt <= VF_MAX -> value_format_size fmt = 2 * popcount8 fmt.
Proof. exact value_format_size_popcount. Qed.
Print Assumptions C05_value_format_size.

(* the record the lookups hand to Adjust::apply is the record of the specification's valueFormat flags *)
Theorem C05_value_record_is_spec : forall fmt v, value_record fmt v = value_record_spec fmt v.
Proof. exact value_record_is_spec. Qed.
Print Assumptions C05_value_record_is_spec.

Example C05_value_record_example :
  enc_value_record 5 (mkAdj (-3) 7 300 9) = [255; 253; 1; 44] /\
  value_record_spec 5 (mkAdj (-3) 7 300 9) = Some (mkAdj (-3) 0 300 0) /\ value_format_size 5 = 4.
Proof. vm_compute. repeat split. Qed.

(* ---------------------------------------------------------------- (b) Adjust::apply, SinglePos, PairPos *)
(* Adjust::apply is a total function (no panic, no error, the same in every build profile).  Whenever the
   16/32-bit sums fit, a record without vertical advance adds x_advance to the kerning and (x_placement,
   y_placement) to the placement — the mathematical sums. *)
Theorem C05_adjust_accumulates : forall a x,
  y_advance a = 0 ->
  -32768 <= x_placement a < 32768 -> -32768 <= y_placement a < 32768 ->
  -32768 <= i_kern x + x_advance a < 32768 ->
  placement_fits (i_place x) (x_placement a) (y_placement a) ->
  adjust_apply a x =
  set_kern (set_place x (placement_plus (i_place x) (x_placement a) (y_placement a))) (i_kern x + x_advance a).
Proof. exact adjust_accumulates. Qed.
Print Assumptions C05_adjust_accumulates.

(* ... and for EVERY glyph state, whether the sums fit or not: each sum is clamped to the field that holds it
   (i16 kerning and anchor coordinates, i32 distances).  F27 (debug panic / release wrap-around) is repaired. *)
Theorem C05_adjust_saturates : forall a x,
  y_advance a = 0 ->
  -32768 <= x_placement a < 32768 -> -32768 <= y_placement a < 32768 ->
  adjust_apply a x =
  set_kern (set_place x (placement_plus_sat (i_place x) (x_placement a) (y_placement a)))
           (sat_signed 16 (i_kern x + x_advance a)).
Proof. exact adjust_saturates. Qed.
Print Assumptions C05_adjust_saturates.

(* the clamp: the sum itself when it fits, otherwise the bound of the field on the side of the sum *)
Theorem C05_saturating_sum16 : forall a b,
  (-32768 <= a + b < 32768 -> sat_add16 a b = a + b) /\
  (a + b < -32768 -> sat_add16 a b = -32768) /\
  (32768 <= a + b -> sat_add16 a b = 32767) /\
  -32768 <= sat_add16 a b < 32768.
Proof. exact sat_add16_spec. Qed.
Print Assumptions C05_saturating_sum16.

Theorem C05_saturating_sum32 : forall a b,
  (-2147483648 <= a + b < 2147483648 -> sat_add32 a b = a + b) /\
  (a + b < -2147483648 -> sat_add32 a b = -2147483648) /\
  (2147483648 <= a + b -> sat_add32 a b = 2147483647) /\
  -2147483648 <= sat_add32 a b < 2147483648.
Proof. exact sat_add32_spec. Qed.
Print Assumptions C05_saturating_sum32.

(* non-vacuity, the recorded input of F27: x_advance 30000 applied twice gives 32767 (not a panic, not -5536);
   a mark anchor at x = 32000 moved by 1000 stays at 32767 *)
Example C05_F27_repaired :
  adjust_apply (mkAdj 0 0 30000 0) (adjust_apply (mkAdj 0 0 30000 0) (init_info None 1 0 false)) =
  mkInfo 1 0 false 32767 PNone false /\
  adjust_apply (mkAdj 1000 (-1000) (-30000) 0) (mkInfo 2 0 false (-30000) (PMarkAnchor 0 (32000, -32000) (1, 2)) true) =
  mkInfo 2 0 false (-32768) (PMarkAnchor 0 (32767, -32768) (1, 2)) true /\
  sat_signed 16 (30000 + 30000) = 32767 /\ sat_signed 16 (30000 + 2000) = 32000.
Proof. vm_compute. repeat split. Qed.

(* what the code ignores: a record with a vertical advance is dropped entirely *)
Theorem C05_adjust_ignores_vertical_advance : forall a x, y_advance a <> 0 -> adjust_apply a x = x.
Proof. exact adjust_ignores_vertical_advance. Qed.
Print Assumptions C05_adjust_ignores_vertical_advance.

Theorem C05_singlepos_format1 : forall cov fmt v g,
  single_pos_apply (SinglePosF1 cov fmt v) g = Ok (if covers cov g then value_record_spec fmt v else None).
Proof. exact singlepos_format1. Qed.
Print Assumptions C05_singlepos_format1.

Theorem C05_singlepos_format2 : forall cov fmt vs g ci v,
  coverage_value cov g = Some ci -> nth_opt vs ci = Some v ->
  single_pos_apply (SinglePosF2 cov fmt vs) g = Ok (value_record_spec fmt v).
Proof. exact singlepos_format2. Qed.
Print Assumptions C05_singlepos_format2.

Theorem C05_pairpos_format1 : forall cov f1 f2 sets g1 g2 ci set,
  coverage_value cov g1 = Some ci -> nth_opt sets ci = Some set ->
  pair_pos_apply (PairPosF1 cov f1 f2 sets) g1 g2 =
  Ok (match find_pair g2 set with
      | Some p => Some (value_record_spec f1 (pv_v1 p), value_record_spec f2 (pv_v2 p))
      | None => None
      end).
Proof. exact pairpos_format1. Qed.
Print Assumptions C05_pairpos_format1.

Theorem C05_pairset_first_record_wins : forall g2 l p, find_pair g2 l = Some p <->
  exists pre post, l = pre ++ p :: post /\ pv_second p = g2 /\ Forall (fun q => pv_second q <> g2) pre.
Proof. exact find_pair_spec. Qed.
Print Assumptions C05_pairset_first_record_wins.

Theorem C05_pairpos_format2_indexes_matrix : forall cov f1 f2 cd1 cd2 c2count rows g1 g2 row v1 v2,
  covers cov g1 = true ->
  nth_opt rows (class_value cd1 g1) = Some row -> nth_opt row (class_value cd2 g2) = Some (v1, v2) ->
  class_value cd2 g2 < c2count ->
  pair_pos_apply (PairPosF2 cov f1 f2 cd1 cd2 c2count rows) g1 g2 =
  Ok (Some (value_record_spec f1 v1, value_record_spec f2 v2)).
Proof. exact pairpos_format2_indexes_matrix. Qed.
Print Assumptions C05_pairpos_format2_indexes_matrix.

(* ... which is record number class1 * class2Count + class2 of the serialised matrix *)
Theorem C05_pairpos_format2_flat_index : forall (rows : list (list (adjust * adjust))) c2count c1 c2 row x,
  Forall (fun r => len r = c2count) rows -> nth_opt rows c1 = Some row -> nth_opt row c2 = Some x ->
  nth_opt (concat rows) (c1 * c2count + c2) = Some x.
Proof. exact pairpos_format2_flat_index. Qed.
Print Assumptions C05_pairpos_format2_flat_index.

(* lookup type 1 over a run: pointwise, glyphs the lookup flags skip untouched (the skip rule is C04's
   C04_match_glyph_is_skip_spec: Model/Layout.v is shared) *)
Theorem C05_singlepos_lookup_spec : forall lks gd li l lk subs,
  get_plookup lks li = Ok lk -> pl_body lk = LSinglePos subs ->
  gpos_apply_lookup (Some lks) gd li l =
  map_out (singlepos_spec (from_lookup_flag (pl_flag lk) (pl_mfs lk)) gd subs) l.
Proof. exact singlepos_lookup_spec. Qed.
Print Assumptions C05_singlepos_lookup_spec.

(* lookup type 2 over a run: every pair of consecutive unskipped glyphs, left to right *)
Theorem C05_pairpos_lookup_spec : forall lks gd li l lk subs,
  get_plookup lks li = Ok lk -> pl_body lk = LPairPos subs ->
  gpos_apply_lookup (Some lks) gd li l =
  fold_pairs (fun i1 i2 l => pairpos subs i1 i2 l)
             (adjacent (unskipped_positions (from_lookup_flag (pl_flag lk) (pl_mfs lk)) gd (iids l) 0)) l.
Proof. exact pairpos_lookup_spec. Qed.
Print Assumptions C05_pairpos_lookup_spec.

Example C05_pair_kerning_example :
  let lks := [mkPLookup 0 None (LPairPos [PairPosF1 (CovF1 [1]) 4 0 [[mkPV 2 (mkAdj 0 0 (-50) 0) (mkAdj 0 0 0 0)]]])] in
  gpos_apply_lookup (Some lks) None 0 [init_info None 1 0 false; init_info None 2 0 false; init_info None 1 0 false] =
  Ok [mkInfo 1 0 false (-50) PNone false; mkInfo 2 0 false 0 PNone false; mkInfo 1 0 false 0 PNone false].
Proof. vm_compute. reflexivity. Qed.

(* ---------------------------------------------------------------- (c) anchors and attachment *)
Theorem C05_mark_anchor_selected_by_class : forall s g1 g2 bi mi brec cls manchor,
  coverage_value (mb_base_cov s) g1 = Some bi -> coverage_value (mb_mark_cov s) g2 = Some mi ->
  nth_opt (mb_bases s) bi = Some brec -> nth_opt (mb_marks s) mi = Some (cls, manchor) ->
  cls < mb_class_count s -> len brec = mb_class_count s -> 0 <= cls ->
  mark_base_pos_apply s g1 g2 =
  Ok (match nth_opt brec cls with Some (Some ba) => Some (ba, manchor) | _ => None end).
Proof. exact mark_anchor_selected_by_class. Qed.
Print Assumptions C05_mark_anchor_selected_by_class.

Theorem C05_ligature_component_selected : forall s g1 g2 comp li mi att cls manchor,
  coverage_value (ml_lig_cov s) g1 = Some li -> coverage_value (ml_mark_cov s) g2 = Some mi ->
  nth_opt (ml_marks s) mi = Some (cls, manchor) -> nth_opt (ml_ligs s) li = Some att ->
  0 <= cls < ml_class_count s -> Forall (fun crec => len crec = ml_class_count s) att -> 0 <= comp ->
  mark_lig_pos_apply s g1 g2 comp =
  Ok (match nth_opt att comp with
      | Some crec => match nth_opt crec cls with Some (Some la) => Some (la, manchor) | _ => None end
      | None => None
      end).
Proof. exact ligature_component_selected. Qed.
Print Assumptions C05_ligature_component_selected.

Theorem C05_cursive_anchors_selected : forall s g1 g2 c1 c2 r1 r2,
  coverage_value (cp_cov s) g1 = Some c1 -> coverage_value (cp_cov s) g2 = Some c2 ->
  nth_opt (cp_records s) c1 = Some r1 -> nth_opt (cp_records s) c2 = Some r2 ->
  cursive_pos_apply s g1 g2 =
  Ok (match snd r1, fst r2 with Some ex, Some en => Some (ex, en) | _, _ => None end).
Proof. exact cursive_anchors_selected. Qed.
Print Assumptions C05_cursive_anchors_selected.

(* every lookup of every type (contextual ones with their nested lookups included) keeps the run's glyphs
   and keeps the attachment indices in range: a mark points to an earlier glyph, a cursive glyph to a later one *)
Theorem C05_lookup_keeps_attachments_in_range : forall lookups gd li l0 l l',
  Inv l0 l -> gpos_apply_lookup lookups gd li l = Ok l' -> Inv l0 l'.
Proof. exact gpos_apply_lookup_inv. Qed.
Print Assumptions C05_lookup_keeps_attachments_in_range.

Theorem C05_attachment_indices_in_range : forall t gd kern kerning custom script lang l l',
  wf l -> gpos_apply t gd kern kerning custom script lang l = Ok l' ->
  len l' = len l /\ iids l' = iids l /\ wf l'.
Proof. exact attachment_indices_in_range. Qed.
Print Assumptions C05_attachment_indices_in_range.

(* F25 witness: a MarkBasePos lookup whose flag says "ignore marks" still attaches the mark — the mark lookups
   iterate over (base, following glyphs) without consulting the lookup flags *)
Example C05_F25_witness :
  let gd := Some (mkGdef (Some (CdF1 0 [0; 1; 3])) None None) in
  let lks := [mkPLookup 8 None (LMarkBasePos [mkMB (CovF1 [2]) (CovF1 [1]) 1 [(0, (10, 20))] [[Some (100, 200)]]])] in
  skip_spec 8 None gd 2 = true /\
  gpos_apply_lookup (Some lks) gd 0 [init_info gd 1 0 false; init_info gd 2 0 false] =
  Ok [mkInfo 1 0 false 0 PNone false; mkInfo 2 0 false 0 (PMarkAnchor 0 (100, 200) (10, 20)) true].
Proof. vm_compute. split; reflexivity. Qed.

(* ---------------------------------------------------------------- (d) final positions *)
(* position_marks, left to right: every anchored mark ends at (position of its base) + (the offset it carried in,
   i.e. base anchor - mark anchor), whatever moved the base (distance, cursive chain, another mark) *)
Theorem C05_marks_follow_base_ltr : forall infos ps ps' j x b ba ma p0,
  position_marks LeftToRight infos 0 ps = Ok ps' ->
  nth_opt infos j = Some x -> i_place x = PMarkAnchor b ba ma -> 0 <= b < j ->
  nth_opt ps j = Some p0 ->
  glyph_x LeftToRight ps' j = glyph_x LeftToRight ps' b + x_offset p0 /\
  ((forall v, In v (verts ps) -> v = 0) -> glyph_y ps' j = glyph_y ps' b + y_offset p0).
Proof. exact marks_follow_base_ltr. Qed.
Print Assumptions C05_marks_follow_base_ltr.

(* right to left: the same up to the advances of the glyphs after the base up to and including the mark;
   exact when those glyphs (the marks) have zero advance *)
Theorem C05_marks_follow_base_rtl : forall infos ps ps' j x b ba ma p0,
  position_marks RightToLeft infos 0 ps = Ok ps' ->
  nth_opt infos j = Some x -> i_place x = PMarkAnchor b ba ma -> 0 <= b < j ->
  nth_opt ps j = Some p0 ->
  glyph_x RightToLeft ps' j = glyph_x RightToLeft ps' b + x_offset p0 - zsum (take (j - b) (drop (b + 1) (horis ps))) /\
  glyph_y ps' j = glyph_y ps' b + y_offset p0.
Proof. exact marks_follow_base_rtl. Qed.
Print Assumptions C05_marks_follow_base_rtl.

(* glyph_positions on a run without cursive attachments: advance = font advance + kerning (0 for an overprint
   mark), offsets of unattached glyphs = their placement distance, every anchored mark at base + base anchor -
   mark anchor in both coordinates; in right-to-left runs displaced by the advances between base and mark *)
Theorem C05_pen_positions_spec : forall advs dir infos ps,
  no_cursive infos -> glyph_positions advs dir infos = Ok ps ->
  len ps = len infos /\
  (forall k x p, nth_opt infos k = Some x -> nth_opt ps k = Some p ->
     vert_advance p = 0 /\
     hori_advance p = match i_place x with PMarkOverprint _ => 0 | _ => glyph_adv advs (i_id x) + i_kern x end /\
     match i_place x with
     | PNone => x_offset p = 0 /\ y_offset p = 0
     | PDistance dx dy => x_offset p = dx /\ y_offset p = dy
     | _ => True
     end) /\
  (forall j x b bx by_ mx my, nth_opt infos j = Some x -> i_place x = PMarkAnchor b (bx, by_) (mx, my) -> 0 <= b < j ->
     glyph_y ps j = glyph_y ps b + (by_ - my) /\
     match dir with
     | LeftToRight => glyph_x dir ps j = glyph_x dir ps b + (bx - mx)
     | RightToLeft => glyph_x dir ps j = glyph_x dir ps b + (bx - mx)
                                         - zsum (take (j - b) (drop (b + 1) (horis ps)))
     end).
Proof. exact pen_positions_spec. Qed.
Print Assumptions C05_pen_positions_spec.

(* non-vacuity: base 1 (advance 500, moved by (10, 0)), mark 2 (advance 0) anchored at (100, 300) - (20, 50);
   left to right the mark is drawn at 10 + 80 = 90, i.e. offset 90 - 500 = -410; right to left at offset 90 *)
Example C05_mark_position_example :
  let infos := [mkInfo 1 0 false 0 (PDistance 10 0) false; mkInfo 2 0 false 0 (PMarkAnchor 0 (100, 300) (20, 50)) true] in
  glyph_positions [0; 500; 0] LeftToRight infos = Ok [mkPos 500 0 10 0 None; mkPos 0 0 (-410) 250 None] /\
  glyph_positions [0; 500; 0] RightToLeft infos = Ok [mkPos 500 0 10 0 None; mkPos 0 0 90 250 None].
Proof. vm_compute. split; reflexivity. Qed.

(* known: a mark WITH an advance in a right-to-left run is off by that advance (witness of the zsum term) *)
Example C05_rtl_mark_advance_witness :
  let infos := [mkInfo 1 0 false 0 PNone false; mkInfo 2 0 false 0 (PMarkAnchor 0 (100, 0) (20, 0)) true] in
  exists ps, glyph_positions [0; 500; 30] RightToLeft infos = Ok ps /\
             glyph_x RightToLeft ps 1 = glyph_x RightToLeft ps 0 + 80 - 30.
Proof. eexists. split; [vm_compute; reflexivity|vm_compute; reflexivity]. Qed.

(* cursive attachment (PARTIAL: no general theorem, see docs/C05.md): a chain of three glyphs, RIGHT_TO_LEFT
   clear: each later glyph is moved so that its entry anchor meets the exit anchor of the glyph before it *)
Example C05_cursive_chain_example :
  let infos := [mkInfo 1 0 false 0 (PCursiveAnchor 1 false (0, 7) (40, 12)) false;
                mkInfo 2 0 false 0 (PCursiveAnchor 2 false (0, 3) (60, 10)) false;
                mkInfo 3 0 false 0 PNone false] in
  glyph_positions [0; 500; 500; 500] LeftToRight infos =
  Ok [mkPos 40 0 0 0 None; mkPos 60 0 0 5 (Some 0); mkPos 500 0 0 12 (Some 1)].
Proof. vm_compute. reflexivity. Qed.

(* ---------------------------------------------------------------- (e) kern table, lookup ordering *)
Theorem C05_kern0_lookup_spec : forall pairs l r v,
  kern_keys_sorted pairs -> In (l, r, v) pairs -> kern_lookup (KernF0 pairs) l r = Some v.
Proof. exact kern0_lookup_spec. Qed.
Print Assumptions C05_kern0_lookup_spec.

Theorem C05_kern0_lookup_none : forall pairs l r,
  (forall l' r' v, In (l', r', v) pairs -> l' * 65536 + r' <> l * 65536 + r) ->
  kern_lookup (KernF0 pairs) l r = None.
Proof. exact kern0_lookup_none. Qed.
Print Assumptions C05_kern0_lookup_none.

(* apply_kern on a parsed kern table is total: every glyph but the last gets the kerning of the pair it forms
   with its right neighbour (no glyph is skipped), the last glyph is untouched *)
Theorem C05_apply_kern_pointwise : forall subs l,
  exists l', apply_kern subs l = Ok l' /\
  length l' = length l /\
  (forall k x y, nth_error l k = Some x -> nth_error l (S k) = Some y ->
     nth_error l' k = Some (set_kern x (kern_pair subs (i_id x) (i_id y) 0))) /\
  (forall x, nth_error l (pred (length l)) = Some x -> nth_error l' (pred (length l)) = Some x).
Proof. exact apply_kern_pointwise. Qed.
Print Assumptions C05_apply_kern_pointwise.

(* the kerning of a pair: the subtables in table order, each one skipped (vertical, cross-stream, pair absent),
   replacing (override), taking the minimum, or ADDING its value — clamped to i16 when the sum does not fit *)
Theorem C05_kern_pair_is_fold : forall subs lf rt k,
  kern_pair subs lf rt k = fold_left (fun acc s => kern_step s lf rt acc) subs k.
Proof. exact kern_pair_is_fold. Qed.
Print Assumptions C05_kern_pair_is_fold.

(* plain additive subtables whose partial sums fit i16: the kerning is the sum of the subtables' values *)
Theorem C05_kern_pair_sums : forall subs lf rt k,
  Forall kern_additive subs -> partial_sums_fit (map (fun s => kern_value s lf rt) subs) k ->
  kern_pair subs lf rt k = k + ksum (map (fun s => kern_value s lf rt) subs).
Proof. exact kern_pair_sums. Qed.
Print Assumptions C05_kern_pair_sums.

Example C05_kern_saturates_example :
  let k := [mkKern 1 (KernF0 [(1, 2, 30000)]); mkKern 1 (KernF0 [(1, 2, 30000)]); mkKern 1 (KernF0 [(1, 2, -100)])] in
  kern_pair k 1 2 0 = 32667 /\ kern_pair (firstn 2 k) 1 2 0 = 32767 /\
  Forall kern_additive k /\ partial_sums_fit (map (fun s => kern_value s 1 2) [nth 0 k (mkKern 0 (KernF0 [])); nth 2 k (mkKern 0 (KernF0 []))]) 0.
Proof. vm_compute. repeat split; repeat constructor; intro; discriminate. Qed.

Theorem C05_feature_lookups_sorted_once : forall l,
  strictly_sorted (sort_dedup l) /\ (forall x, In x (sort_dedup l) <-> In x l).
Proof. exact feature_lookups_sorted_once. Qed.
Print Assumptions C05_feature_lookups_sorted_once.

Example C05_kern_example :
  let k := [mkKern 1 (KernF0 [(1, 2, -30); (1, 3, 15)]); mkKern 1 (KernF2 1 [0; 4] 2 [0; 0] [0; 5; 255; 251; 0; 9; 0; 0])] in
  apply_kern k [init_info None 1 0 false; init_info None 2 0 false; init_info None 3 0 false] =
  Ok [mkInfo 1 0 false (-25) PNone false; mkInfo 2 0 false 9 PNone false; mkInfo 3 0 false 0 PNone false].
Proof. vm_compute. reflexivity. Qed.
