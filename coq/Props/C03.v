(* Props/C03.v — results depend only on the arguments, not on earlier calls.  Statements only. *)
From AV Require Import Base.Prelude Gen.CacheSites Model.Cache Proofs.CacheProofs Proofs.CacheLayers.
From AV Require Import Model.GlyfTableMemo Proofs.GlyfTableMemoProofs.
Open Scope Z_scope.

(* ---- the memoisation step in general --------------------------------------------------------------------------
   query keqb f key_of cacheable keep st a : look a's key up (when a is cacheable), else compute f a, store it
   (when keep says so), return it.  key_captures = arguments that share a key and are both cacheable have the same
   value whenever that value is one that gets stored. *)

(* if the key captures every argument the value depends on, then after EVERY history of queries the answer to a
   probe is f probe, which is also the answer of a fresh table *)
Theorem C03_memo_transparent :
  forall (A K V : Type) (keqb : K -> K -> bool), (forall a b, keqb a b = true <-> a = b) ->
  forall (f : A -> V) (key_of : A -> K) (cacheable : A -> bool) (keep : V -> bool),
    key_captures f key_of cacheable keep ->
    forall (history : list A) (probe : A),
      fst (query keqb f key_of cacheable keep (run keqb f key_of cacheable keep [] history) probe) = f probe /\
      fst (query keqb f key_of cacheable keep (run keqb f key_of cacheable keep [] history) probe)
      = fst (query keqb f key_of cacheable keep [] probe).
Proof. intros A K V keqb Hk f key_of cacheable keep. exact (memo_transparent keqb Hk f key_of cacheable keep). Qed.
Print Assumptions C03_memo_transparent.

(* conversely, two arguments with one key and different values give a one-call history that changes the answer *)
Theorem C03_memo_refuted :
  forall (A K V : Type) (keqb : K -> K -> bool), (forall a b, keqb a b = true <-> a = b) ->
  forall (f : A -> V) (key_of : A -> K) (cacheable : A -> bool) (keep : V -> bool) (a b : A),
    cacheable a = true -> cacheable b = true -> key_of a = key_of b -> keep (f a) = true -> f a <> f b ->
    fst (query keqb f key_of cacheable keep (run keqb f key_of cacheable keep [] [a]) b) = f a /\
    fst (query keqb f key_of cacheable keep [] b) = f b /\
    fst (query keqb f key_of cacheable keep (run keqb f key_of cacheable keep [] [a]) b)
    <> fst (query keqb f key_of cacheable keep [] b).
Proof. intros A K V keqb Hk f key_of cacheable keep. exact (memo_refuted keqb Hk f key_of cacheable keep). Qed.
Print Assumptions C03_memo_refuted.

(* so the key condition is exactly history independence *)
Theorem C03_memo_transparent_iff :
  forall (A K V : Type) (keqb : K -> K -> bool), (forall a b, keqb a b = true <-> a = b) ->
  forall (f : A -> V) (key_of : A -> K) (cacheable : A -> bool) (keep : V -> bool),
    key_captures f key_of cacheable keep <->
    (forall history probe,
        fst (query keqb f key_of cacheable keep (run keqb f key_of cacheable keep [] history) probe)
        = fst (query keqb f key_of cacheable keep [] probe)).
Proof. intros A K V keqb Hk f key_of cacheable keep. exact (memo_transparent_iff keqb Hk f key_of cacheable keep). Qed.
Print Assumptions C03_memo_transparent_iff.

(* any API call that touches the table only through query (a `prog`) returns, after any history of such calls, what
   it returns when every query is computed afresh - and what it returns on a fresh table *)
Theorem C03_api_history_independent :
  forall (A K V R : Type) (keqb : K -> K -> bool), (forall a b, keqb a b = true <-> a = b) ->
  forall (f : A -> V) (key_of : A -> K) (cacheable : A -> bool) (keep : V -> bool),
    key_captures f key_of cacheable keep ->
    forall (history : list (prog A V R)) (probe : prog A V R),
      fst (exec keqb f key_of cacheable keep probe (exec_all keqb f key_of cacheable keep history []))
      = pure_eval f probe /\
      fst (exec keqb f key_of cacheable keep probe (exec_all keqb f key_of cacheable keep history []))
      = fst (exec keqb f key_of cacheable keep probe []).
Proof.
  intros A K V R keqb Hk f key_of cacheable keep. exact (api_history_independent keqb Hk f key_of cacheable keep).
Qed.
Print Assumptions C03_api_history_independent.

(* several memo tables (the slots and RefCells of one Font) are one table over sum types: the key condition of the
   whole is the conjunction of the key conditions of the parts *)
Theorem C03_tables_compose :
  forall (A1 K1 V1 A2 K2 V2 : Type)
         (f1 : A1 -> V1) (key1 : A1 -> K1) (c1 : A1 -> bool) (keep1 : V1 -> bool)
         (f2 : A2 -> V2) (key2 : A2 -> K2) (c2 : A2 -> bool) (keep2 : V2 -> bool),
    key_captures f1 key1 c1 keep1 -> key_captures f2 key2 c2 keep2 ->
    key_captures (sum_f f1 f2) (sum_key key1 key2) (sum_cacheable c1 c2) (sum_keep keep1 keep2).
Proof. exact @key_captures_sum. Qed.
Print Assumptions C03_tables_compose.

(* ---- the cache instances of the code -------------------------------------------------------------------------- *)

(* LazyLoad::get_or_load: however often the slot was asked before, it answers with the loader's result
   (a loader error is not stored, the load is retried) *)
Theorem C03_lazy_load_transparent :
  forall (T : Type) (load : outcome (option T)) (earlier_calls : nat),
    fst (get_or_load (lazy_run load NotLoaded earlier_calls) load) = load.
Proof. exact @lazy_load_transparent. Qed.
Print Assumptions C03_lazy_load_transparent.

(* ReadScope::read_cache: after reading any sequence of bases through the cache, reading base gives read base *)
Theorem C03_read_cache_transparent :
  forall (T : Type) (read : Z -> outcome T) (earlier_bases : list Z) (base : Z),
    fst (read_cache read (rc_run read [] earlier_bases) base) = read base.
Proof. exact @read_cache_transparent. Qed.
Print Assumptions C03_read_cache_transparent.

(* LookupList::lookup_cache_gsub / lookup_cache_gpos: the vector slot of lookup i holds the parse of lookup i *)
Theorem C03_lookup_cache_transparent :
  forall (T : Type) (read : Z -> outcome T) (earlier : list Z) (i : Z),
    Forall (fun j => 0 <= j) earlier -> 0 <= i ->
    fst (lookup_cache_get read (lv_run read [] earlier) i) = read i.
Proof. exact @lookup_cache_transparent. Qed.
Print Assumptions C03_lookup_cache_transparent.

(* get_lookups_cache_index: the key (script, language, mask, FeatureTableSubstitution::cache_key) determines the
   lookup list, for every GSUB table and all variation tuples *)
Theorem C03_lookups_key_captures :
  forall g : gsub, key_captures (li_f g) (li_key g) (fun _ => true) (fun _ => true).
Proof. exact li_key_captures. Qed.
Print Assumptions C03_lookups_key_captures.

(* the GSUB feature caches, modelled function by function: for EVERY table and EVERY sequence of
   get_lookups_cache_index / features_supported calls (any scripts, languages, masks, tuples) on one LayoutCache,
   each call returns what the specification - a function of the call's arguments only - says *)
Theorem C03_layout_history_independent :
  forall (g : gsub) (calls : list lop), l_run g new_lcache calls = map (l_spec g) calls.
Proof. exact layout_history_independent. Qed.
Print Assumptions C03_layout_history_independent.

Theorem C03_layout_probe :
  forall (g : gsub) (history : list lop) (probe : lop),
    l_run g new_lcache (history ++ [probe]) = map (l_spec g) history ++ l_run g new_lcache [probe].
Proof. exact layout_probe. Qed.
Print Assumptions C03_layout_probe.

(* the glyph-lookup layer of Font: for EVERY cmap, table set and sequence of lookup_glyph_index /
   has_embedded_images / set_embedded_image_filter / shape calls on one Font, each call returns the pure function of
   its arguments and of the image filter in force *)
Theorem C03_glyph_history_independent :
  forall (fs : font_static) (calls : list gop),
    g_run fs font_new calls = g_spec_run fs DEFAULT_IMAGE_FILTER calls.
Proof. exact glyph_history_independent. Qed.
Print Assumptions C03_glyph_history_independent.

(* every memoisation site found in the source: the loader uses only parameters that are in the key, pinned on the
   cached path, or constant for the object; key components are injective views of parameters *)
Theorem C03_sites_ok : forallb site_ok sites = true.
Proof. exact sites_ok. Qed.
Print Assumptions C03_sites_ok.

Theorem C03_site_ok_meaning :
  forall s, site_ok s = true ->
    s_key_injective s = true /\
    forall v, In v (s_loader s) -> In v (s_key s) \/ In v (s_pinned s) \/ In v (s_const s).
Proof. exact site_ok_spec. Qed.
Print Assumptions C03_site_ok_meaning.

(* ---- the keys before the fixes are refuted (witnesses that the hypotheses above are not vacuous) -------------- *)

(* F13: key (script, language, mask) without the feature-table substitution *)
Theorem C03_F13_old_key_refuted :
  let q := query key3_eqb (li_f g_f13) li_key_no_fv (fun _ => true) (fun _ => true) in
  let r := run key3_eqb (li_f g_f13) li_key_no_fv (fun _ => true) (fun _ => true) in
  fst (q (r [] [(TAG_LATN, None, MASK_RVRN, Some [8192])]) (TAG_LATN, None, MASK_RVRN, Some [-8192]))
  <> fst (q [] (TAG_LATN, None, MASK_RVRN, Some [-8192])).
Proof. exact f13_old_key_refuted. Qed.
Print Assumptions C03_F13_old_key_refuted.

(* F15: language None folded into DFLT *)
Theorem C03_F15_old_key_refuted :
  let q := query key4z_eqb (li_f g_f15) (li_key_lang_dflt g_f15) (fun _ => true) (fun _ => true) in
  let r := run key4z_eqb (li_f g_f15) (li_key_lang_dflt g_f15) (fun _ => true) (fun _ => true) in
  fst (q (r [] [(TAG_LATN, Some TAG_DFLT, MASK_LIGA, None)]) (TAG_LATN, None, MASK_LIGA, None))
  <> fst (q [] (TAG_LATN, None, MASK_LIGA, None)).
Proof. exact f15_old_key_refuted. Qed.
Print Assumptions C03_F15_old_key_refuted.

(* F14: GlyphCache keyed by the character alone *)
Theorem C03_F14_old_key_refuted :
  let q := query Z.eqb lg_f lg_key_ch (fun _ => true) (fun _ => true) in
  let r := run Z.eqb lg_f lg_key_ch (fun _ => true) (fun _ => true) in
  fst (q (r [] [(DOTTED_CIRCLE, Required, Some 16)]) (DOTTED_CIRCLE, NotRequired, None))
  <> fst (q [] (DOTTED_CIRCLE, NotRequired, None)).
Proof. exact f14_old_key_refuted. Qed.
Print Assumptions C03_F14_old_key_refuted.

(* non-vacuity and sanity of the concrete models *)
Example C03_ex_f13_fixed_model :
  l_run g_f13 new_lcache [LI TAG_LATN None (Some [8192]) MASK_RVRN; LI TAG_LATN None (Some [-8192]) MASK_RVRN;
                          LI TAG_LATN None None MASK_RVRN; SF TAG_LATN None MASK_LIGA]
  = [Ok (RLookups [(3, TAG_RVRN)]); Ok (RLookups [(1, TAG_RVRN)]); Ok (RLookups [(1, TAG_RVRN)]); Ok (RBool true)].
Proof. vm_compute. reflexivity. Qed.

Example C03_ex_f15_fixed_model :
  l_run g_f15 new_lcache [LI TAG_LATN (Some TAG_DFLT) None MASK_LIGA; LI TAG_LATN None None MASK_LIGA]
  = [Ok (RLookups [(3, TAG_LIGA)]); Ok (RLookups [(2, TAG_LIGA)])].
Proof. vm_compute. reflexivity. Qed.

Example C03_ex_f14_fixed_model :
  g_run fs_f14 font_new [GLookup DOTTED_CIRCLE Required (Some 16); GLookup DOTTED_CIRCLE NotRequired None;
                         GShape; GLookup DOTTED_CIRCLE Required (Some 15)]
  = [Ok (GGlyph 0 16); Ok (GGlyph 3 15); Ok GUnit; Ok (GGlyph 3 15)].
Proof. vm_compute. reflexivity. Qed.

Example C03_ex_filter_reset :
  g_run fs_img font_new [GHasImages; GFilter 0; GHasImages; GFilter 8; GHasImages]
  = [Ok (GBool true); Ok GUnit; Ok (GBool false); Ok GUnit; Ok (GBool true)].
Proof. vm_compute. reflexivity. Qed.

Example C03_ex_filter_without_reset_is_stale :
  let st1 := snd (has_embedded_images fs_img font_new) in
  let st_old := mk_font_state (st_glyph_cache st1) (st_images st1) 0 in
  fst (has_embedded_images fs_img st_old) = true /\ images_spec fs_img 0 = false /\
  fst (has_embedded_images fs_img (set_embedded_image_filter st1 0)) = false.
Proof. exact filter_without_reset_is_stale. Qed.

Example C03_ex_sites_nonvacuous : exists s, In s sites /\ site_ok s = true /\ s_loader s <> [].
Proof. eexists. split; [left; reflexivity|]. split; [vm_compute; reflexivity | discriminate]. Qed.

(* the site records the translator produces for the sources before the fixes (F13/F15, F14, image filter) fail *)
Import String.StringSyntax.
Open Scope string_scope.
Example C03_ex_old_sites_fail :
  site_ok (mk_site "get_lookups_cache_index" "src/gsub.rs" ["script_tag"; "opt_lang_tag"; "feature_mask"]
                   ["gsub_cache"; "script_tag"; "opt_lang_tag"; "feature_variations"; "feature_mask"] []
                   ["gsub_cache"] false) = false /\
  site_ok (mk_site "lookup_glyph_index.glyph_cache" "src/font.rs" ["ch"]
                   ["self"; "ch"; "match_presentation"; "variation_selector"] [] ["self"] true) = false /\
  site_ok (mk_site "embedded_images.embedded_images" "src/font.rs" []
                   ["embedded_image_filter"; "font_table_provider"; "glyph_table_flags"; "maxp_table"] []
                   ["font_table_provider"; "glyph_table_flags"; "maxp_table"] true) = false.
Proof. exact old_sites_fail. Qed.
Close Scope string_scope.

(* an error is not cached: the slot stays NotLoaded and the second call loads again *)
Example C03_ex_lazy_error_retried :
  snd (get_or_load (@NotLoaded Z) (Err Eof)) = NotLoaded /\
  fst (get_or_load (snd (get_or_load (@NotLoaded Z) (Err Eof))) (Ok (Some 7))) = Ok (Some 7).
Proof. vm_compute. auto. Qed.

(* ---- the lazily parsed glyf table (GlyfRecord::parse, GlyfTable::get_parsed_glyph, visit_outline,
   visit_composite_glyph_outline, OutlineBuilder::visit; Model/GlyfTableMemo.v) -----------------------------------
   for EVERY parser of glyph data, EVERY table (records raw or already parsed, component indices arbitrary: out of
   range, upwards, cyclic, nesting of any depth) and EVERY sequence of visit / get_parsed_glyph calls on ONE table -
   failing calls included - each call answers what it answers on the freshly read table (t_spec is stateless), and
   afterwards every record still means what it meant (what subset / write_dep / number_of_points read) *)
Theorem C03_glyf_table_history_independent :
  forall (R S : Type) (parse : R -> outcome (@glyph S)) (t0 : @table R S) (calls : list top),
    fst (t_run parse t0 calls) = map (t_spec parse t0) calls /\
    map (meaning parse) (snd (t_run parse t0 calls)) = map (meaning parse) t0 /\
    length (snd (t_run parse t0 calls)) = length t0.
Proof. intros R S parse. exact (glyf_table_history_independent parse). Qed.
Print Assumptions C03_glyf_table_history_independent.

Theorem C03_glyf_table_probe :
  forall (R S : Type) (parse : R -> outcome (@glyph S)) (t0 : @table R S) (history : list top) (probe : top),
    fst (t_step parse (snd (t_run parse t0 history)) probe) = fst (t_step parse t0 probe).
Proof. intros R S parse. exact (glyf_table_probe parse). Qed.
Print Assumptions C03_glyf_table_probe.

(* non-vacuity, and the idiom the model excludes: taking a composite out of the table while its components are
   drawn and putting it back only on success leaves empty glyphs behind after a failed query *)
Example C03_ex_take_idiom_is_stale :
  fst (visit_take ex_parse 7 ex_table 1) = Err BadIndex /\
  fst (visit_take ex_parse 7 (snd (visit_take ex_parse 7 ex_table 1)) 1) = Ok [] /\
  map (meaning ex_parse) (snd (visit_take ex_parse 7 ex_table 1)) <> map (meaning ex_parse) ex_table /\
  fst (visit ex_parse (snd (visit ex_parse ex_table 1)) 1) = Err BadIndex /\
  fst (visit ex_parse ex_table 3) = Ok [7].
Proof. exact take_idiom_is_stale. Qed.
