(* Props/C18.v — the theorems that decide C18 (CFF and CFF2 outlines follow Type 2 charstring
   semantics).  Statements only; every proof is `exact <lemma>` followed by Print Assumptions.
   Model: Model/Type2.v (the interpreter, after the Rust), specification: Model/Type2Spec.v
   (Technical Note #5177: operators defined by their expansion into rmoveto/rlineto/rrcurveto). *)
From AV Require Import Base.Prelude Gen.Type2Consts Model.Type2 Model.Type2Spec Proofs.Type2Proofs
  Model.SeacSpec Proofs.SeacProofs.
Open Scope Z_scope.

(* 1. The dispatch tables regenerated from the source (operator byte -> VisitOp -> parse function)
      send every operator of the specification to the parse function of that operator. *)
Theorem C18_dispatch_tied : forall o, visit_fn (op_byte o) = Some (op_fn o).
Proof. exact visit_fn_op. Qed.
Print Assumptions C18_dispatch_tied.

(* 2. Operator level, all operand lists: the parse function of every operator, applied to the
      operator's operands, moves the current point and emits exactly the commands of the fold of
      the operator's expansion into primitives. *)
Theorem C18_operator_spec : forall o p,
  shape_ok o = true -> len (args_of o) <= TEMP_OPERANDS ->
  (is_move o = false -> is_hint o = false -> has_move p = true) ->
  pvisit (op_fn o) p (args_of o) = spec_res o p.
Proof. exact pvisit_spec. Qed.
Print Assumptions C18_operator_spec.

(* 3. Operand decoding: each of the five encodings (1, 2, 2, 3 and 5 bytes) of a value is decoded
      to that value, pushed, and interpretation continues behind it. *)
Theorem C18_number_decoding : forall bs v, encodes bs v -> forall df e d rest s,
  run (S df) e d (bs ++ rest) s = s1 <~ push e v s ;; run (S df) e d rest s1.
Proof. exact run_num. Qed.
Print Assumptions C18_number_decoding.

Theorem C18_number_encodings_equal : forall b1 b2 v, encodes b1 v -> encodes b2 v ->
  forall df e d rest s,
  run (S df) e d (b1 ++ rest) s = run (S df) e d (b2 ++ rest) s.
Proof. exact number_encodings_equal. Qed.
Print Assumptions C18_number_encodings_equal.

(* 4. One operator inside a charstring: operands on the stack (under them the width, when this is
      the operator that takes it), then the operator bytes (hintmask/cntrmask followed by exactly
      ceil(stems/8) mask bytes, the operands in front of a mask counting as vstems): the state
      advances by the operator's specification and interpretation continues behind the operator. *)
Theorem C18_operator_step : forall o df e d rest w pre w' n ec sk vi sc p c0,
  op_ok o p -> width_pre o w pre w' -> 0 <= n -> n + stems_of o + 7 < U32 ->
  (match mask_of o with Some m => len m = (n + stems_of o + 7) / 8 | None => True end) ->
  run (S df) e d (opbytes o ++ rest) (mkI (pre ++ args_of o) w n ec sk vi sc p c0) =
  run (S df) e d rest
      (mkI [] w' (n + stems_of o) ec sk vi sc (fst (spec_eff o p)) (c0 ++ snd (spec_eff o p))).
Proof. exact run_op. Qed.
Print Assumptions C18_operator_step.

(* 5. interp = spec.  For every font and every well-formed CFF program (optional width, hint
      operators and masks, any operator forms, every operand in any valid encoding, endchar):
      the sink receives exactly the path of the specification; the call succeeds unless a
      coordinate leaves the i16 range of the bounding box. *)
Theorem C18_interp_spec_cff : forall e w ops wb body,
  e_kind e = KCFF ->
  nth_opt (e_glyphs e) (e_gid e) = Some (wb ++ body ++ [14]) ->
  enc_width w wb -> enc_ops ops body -> prog_wf CFF_MAX_OPERANDS w ops ->
  exists s, interp_glyph e = COk s /\ out s = prog_path ops.
Proof. exact interp_spec_cff. Qed.
Print Assumptions C18_interp_spec_cff.

Theorem C18_run_glyph_spec_cff : forall e w ops wb body,
  e_kind e = KCFF ->
  nth_opt (e_glyphs e) (e_gid e) = Some (wb ++ body ++ [14]) ->
  enc_width w wb -> enc_ops ops body -> prog_wf CFF_MAX_OPERANDS w ops ->
  run_glyph e = if bbox_ok (prog_path ops) then COk (prog_path ops) else CErr EBboxOverflow.
Proof. exact run_glyph_spec_cff. Qed.
Print Assumptions C18_run_glyph_spec_cff.

(* The same for CFF2 (513 operands, no width, no endchar: the end of the charstring closes the
   open contour; the Font DICT of the glyph is the one FDSelect names). *)
Theorem C18_interp_spec_cff2 : forall e ops body fd subrs,
  e_kind e = KCFF2 ->
  glyph_fd e = Some fd -> nth_opt (e_fds e) fd = Some subrs ->
  nth_opt (e_glyphs e) (e_gid e) = Some body ->
  enc_ops ops body -> prog_wf CFF2_MAX_OPERANDS None ops ->
  exists s, interp_glyph e = COk s /\ out s = prog_path ops.
Proof. exact interp_spec_cff2. Qed.
Print Assumptions C18_interp_spec_cff2.

(* 6. Whichever equivalent form the font uses.  Two well-formed programs with the same primitives
      give the same result; rewriting every operator to rmoveto/rlineto/rrcurveto keeps the path;
      hint operators and the width draw nothing. *)
Theorem C18_equivalent_programs : forall e1 e2 w1 w2 ops1 ops2 wb1 wb2 body1 body2,
  e_kind e1 = KCFF -> e_kind e2 = KCFF ->
  nth_opt (e_glyphs e1) (e_gid e1) = Some (wb1 ++ body1 ++ [14]) ->
  nth_opt (e_glyphs e2) (e_gid e2) = Some (wb2 ++ body2 ++ [14]) ->
  enc_width w1 wb1 -> enc_width w2 wb2 -> enc_ops ops1 body1 -> enc_ops ops2 body2 ->
  prog_wf CFF_MAX_OPERANDS w1 ops1 -> prog_wf CFF_MAX_OPERANDS w2 ops2 ->
  flat_map expand ops1 = flat_map expand ops2 ->
  run_glyph e1 = run_glyph e2.
Proof. exact equivalent_programs_cff. Qed.
Print Assumptions C18_equivalent_programs.

Theorem C18_operator_forms_equal : forall ops, prog_path (flat_map canon ops) = prog_path ops.
Proof. exact operator_forms_equal. Qed.
Print Assumptions C18_operator_forms_equal.

Theorem C18_hints_draw_nothing : forall ops,
  prog_path (filter (fun o => negb (is_hint o)) ops) = prog_path ops.
Proof. exact hints_draw_nothing. Qed.
Print Assumptions C18_hints_draw_nothing.

Theorem C18_width_prefix_ignored : forall e1 e2 w1 w2 ops wb1 wb2 body1 body2,
  e_kind e1 = KCFF -> e_kind e2 = KCFF ->
  nth_opt (e_glyphs e1) (e_gid e1) = Some (wb1 ++ body1 ++ [14]) ->
  nth_opt (e_glyphs e2) (e_gid e2) = Some (wb2 ++ body2 ++ [14]) ->
  enc_width w1 wb1 -> enc_width w2 wb2 -> enc_ops ops body1 -> enc_ops ops body2 ->
  prog_wf CFF_MAX_OPERANDS w1 ops -> prog_wf CFF_MAX_OPERANDS w2 ops ->
  run_glyph e1 = run_glyph e2.
Proof. exact width_prefix_ignored. Qed.
Print Assumptions C18_width_prefix_ignored.

(* 7. One closed contour per move: the path of a well-formed program is (MoveTo segment* Close)*. *)
Theorem C18_one_closed_contour_per_move : forall maxargs w ops,
  prog_wf maxargs w ops -> contours_ok false (prog_path ops) = true.
Proof. exact one_closed_contour_per_move. Qed.
Print Assumptions C18_one_closed_contour_per_move.

Theorem C18_closes_equal_moves : forall maxargs w ops, prog_wf maxargs w ops ->
  count_cmd is_close (prog_path ops) = count_cmd is_moveto (prog_path ops).
Proof. exact closes_equal_moves. Qed.
Print Assumptions C18_closes_equal_moves.

(* 8. Subroutines.  The bias (107 / 1131 / 32768 at 1240 and 33900 entries) makes every entry of an
      INDEX reachable by an operand that fits the number forms; a call (biased index in any
      encoding, callsubr or callgsubr, optional return) is executed as a block that takes the state
      where the subroutine's body takes it one level deeper; a well-formed program whose middle part
      was moved into a local or global subroutine draws the path of the unfactored program. *)
Theorem C18_bias_reaches_every_subr : forall n i, 0 <= i < n -> n <= 65536 ->
  let b := calc_subroutine_bias n in
  conv_subroutine_index (of_int (i - b)) b = COk i /\
  -32768 <= i - b <= 32767 /\
  (n < 1240 -> b = 107 /\ -107 <= i - b <= 1131) /\
  (1240 <= n < 33900 -> b = 1131 /\ -1131 <= i - b <= 32767) /\
  (33900 <= n -> b = 32768).
Proof. exact bias_reaches_every_subr. Qed.
Print Assumptions C18_bias_reaches_every_subr.

Theorem C18_subr_call_is_inlined_body : forall df e d opb subrs idx nb body ret s1 s2,
  0 <= d < STACK_LIMIT -> (opb = 10 \/ opb = 29) ->
  call_target e opb = Some subrs ->
  0 <= idx < len subrs -> len subrs <= 65536 ->
  nth_opt subrs idx = Some (body ++ ret) ->
  (ret = [] \/ (ret = [11] /\ e_kind e = KCFF)) ->
  encodes nb (of_int (idx - calc_subroutine_bias (len subrs))) ->
  len (stk s1) < max_stack e ->
  normal (S df) e (d + 1) body s1 s2 ->
  endchar_seen s2 = false ->
  normal (S (S df)) e d (nb ++ [opb]) s1 s2.
Proof. exact call_normal. Qed.
Print Assumptions C18_subr_call_is_inlined_body.

Theorem C18_factored_program_spec : forall e A B C bodyA bodyB bodyC opb subrs idx nb ret,
  e_kind e = KCFF ->
  enc_ops A bodyA -> enc_ops B bodyB -> enc_ops C bodyC ->
  prog_wf CFF_MAX_OPERANDS None (A ++ B ++ C) ->
  (opb = 10 \/ opb = 29) -> call_target e opb = Some subrs ->
  0 <= idx < len subrs -> len subrs <= 65536 ->
  nth_opt subrs idx = Some (bodyB ++ ret) -> (ret = [] \/ ret = [11]) ->
  encodes nb (of_int (idx - calc_subroutine_bias (len subrs))) ->
  nth_opt (e_glyphs e) (e_gid e) = Some (bodyA ++ (nb ++ [opb]) ++ bodyC ++ [14]) ->
  exists s, interp_glyph e = COk s /\ out s = prog_path (A ++ B ++ C).
Proof. exact factored_program_spec. Qed.
Print Assumptions C18_factored_program_spec.

(* 9. Nesting limit, for ALL fonts and charstrings (well-formed or not): the interpretation never
      needs more than STACK_LIMIT + 1 nested activations (subroutines and seac components alike);
      a call at the limit is refused. *)
Theorem C18_nesting_limit_enforced : forall e, interp_glyph e <> CFuel /\ run_glyph e <> CFuel.
Proof. exact nesting_limit_enforced. Qed.
Print Assumptions C18_nesting_limit_enforced.

Theorem C18_call_at_limit_refused : forall rec k subrs r s v rest,
  stk s = v :: rest ->
  step_call rec k STACK_LIMIT subrs r s = CErr ENestingLimitReached.
Proof. exact call_at_limit_refused. Qed.
Print Assumptions C18_call_at_limit_refused.

(* 10. CFF2 blend (partial: the operator with given region scalars; the computation of the scalars
       from the ItemVariationStore belongs to C12 and is only modelled): n defaults, n groups of k
       deltas and n are replaced by the n values  default_i + sum_j scalar_j * delta_(i,j),
       for every number of regions k >= 0. *)
Theorem C18_blend_partial : forall e sc s base defaults deltas nv n,
  stk s = base ++ defaults ++ deltas ++ [nv] ->
  try_as_u16 nv = Some n -> len defaults = n -> len deltas = n * len sc ->
  len base + n <= max_stack e ->
  blend e sc s =
  COk (set_stk s (base ++ blend_vals (Z.to_nat (len sc)) sc defaults deltas)).
Proof. exact blend_spec. Qed.
Print Assumptions C18_blend_partial.

(* k = 0 (an ItemVariationData that lists no regions; fixed: `rest.chunks(0)` used to panic):
   n*(0+1) operands, no deltas, the n default values are the result. *)
Theorem C18_blend_no_regions : forall e s base defaults nv,
  stk s = base ++ defaults ++ [nv] ->
  try_as_u16 nv = Some (len defaults) ->
  len base + len defaults <= max_stack e ->
  blend e [] s = COk (set_stk s (base ++ defaults)).
Proof. exact blend_no_regions. Qed.
Print Assumptions C18_blend_no_regions.

Theorem C18_blend_value_partial : forall defaults k sc rest i, (i < length defaults)%nat ->
  nth i (blend_vals k sc defaults rest) 0 =
  nth i defaults 0 + dot sc (firstn k (skipn (i * k) rest)).
Proof. exact blend_vals_nth. Qed.
Print Assumptions C18_blend_value_partial.

Theorem C18_blend_exact_partial : forall sc ds, Forall (fun d => d mod SDEN = 0) ds ->
  dot sc ds * SDEN = dot_exact sc ds.
Proof. exact dot_is_exact. Qed.
Print Assumptions C18_blend_exact_partial.

(* 11. seac composition (the four / five operand form of endchar) and the charset it goes through.
       A charset is the list of the SIDs of glyph 1, glyph 2, ... (Model/SeacSpec.v); a range
       (first, nLeft) of the formats 1 and 2 stands for the nLeft + 1 SIDs first .. first + nLeft.
       For ALL range lists (unsigned fields, at most 65534 glyphs listed) and all SIDs, in debug
       and release arithmetic: the lookup finds the SID in the first range with
       first <= sid <= first + nLeft, at the glyph id 1 + (glyphs of the ranges in front) +
       (sid - first); it finds nothing iff no range holds the SID. *)
Theorem C18_charset_range_found : forall m pre f n post sid,
  ranges_wf (pre ++ (f, n) :: post) -> len (ranges_sids (pre ++ (f, n) :: post)) <= 65534 ->
  (forall r, In r pre -> ~ in_range r sid) ->
  f <= sid <= f + n ->
  gid_for_sid_in_ranges m (pre ++ (f, n) :: post) sid CHARSET_FIRST_GID =
  COk (Some (1 + len (ranges_sids pre) + (sid - f))).
Proof. exact range_lookup_found. Qed.
Print Assumptions C18_charset_range_found.

Theorem C18_charset_range_not_found : forall m rs sid,
  ranges_wf rs -> len (ranges_sids rs) <= 65534 ->
  (forall r, In r rs -> ~ in_range r sid) ->
  gid_for_sid_in_ranges m rs sid CHARSET_FIRST_GID = COk None.
Proof. exact range_lookup_none. Qed.
Print Assumptions C18_charset_range_not_found.

Theorem C18_charset_range_found_iff : forall m rs sid,
  ranges_wf rs -> len (ranges_sids rs) <= 65534 ->
  (exists g, gid_for_sid_in_ranges m rs sid CHARSET_FIRST_GID = COk (Some g)) <->
  (exists f n, In (f, n) rs /\ f <= sid <= f + n).
Proof. exact range_lookup_iff. Qed.
Print Assumptions C18_charset_range_found_iff.

(* Charset::sid_to_gid on every custom charset (format 0, 1 or 2) never panics and is the inverse of
   the glyph -> SID list: it returns g iff g is the glyph the name designates (.notdef for SID 0,
   else the first glyph carrying the SID), and None iff no glyph carries it; a range list and the
   format 0 list it abbreviates are interchangeable. *)
Theorem C18_charset_lookup_is_inverse : forall m cs names sid,
  (exists sids, cs = CsCustom sids) \/ (exists rs, cs = CsRanges rs) ->
  charset_names cs = Some names -> charset_wf cs ->
  exists o, charset_sid_to_gid m cs sid = COk o /\
            (forall g, o = Some g <-> names_glyph names sid g) /\
            (o = None <-> sid <> 0 /\ ~ In sid names).
Proof. exact charset_sid_to_gid_spec. Qed.
Print Assumptions C18_charset_lookup_is_inverse.

Theorem C18_charset_formats_equal : forall m rs sid,
  ranges_wf rs -> len (ranges_sids rs) <= 65534 ->
  charset_sid_to_gid m (CsRanges rs) sid = charset_sid_to_gid m (CsCustom (ranges_sids rs)) sid.
Proof. exact charset_formats_equal. Qed.
Print Assumptions C18_charset_formats_equal.

(* the STANDARD_ENCODING array regenerated from the source is the table of the specification *)
Theorem C18_standard_encoding_table : forall c, 0 <= c <= 255 ->
  nthZ STANDARD_ENCODING c = std_sid_spec c.
Proof. exact standard_encoding_table. Qed.
Print Assumptions C18_standard_encoding_table.

(* The accented glyph `[width] adx ady bchar achar endchar` (operands in any encoding) of a CFF font
   whose charset is ISOAdobe or custom in format 0, 1 or 2, where the standard names of the codes
   bchar and achar designate the glyphs bg and ag and these are plain well-formed glyphs (own
   width, hints, masks, any operator forms): the sink receives the path of the base followed by
   the path of the accent displaced by (adx, ady); Ok unless a coordinate leaves the i16 range. *)
Theorem C18_seac_spec : forall e w wb nadx nady nb na adx ady bchar achar names bg ag
                               bytesb wbs opsb bytesa was opsa,
  e_kind e = KCFF ->
  nth_opt (e_glyphs e) (e_gid e) = Some (wb ++ nadx ++ nady ++ nb ++ na ++ [14]) ->
  enc_width w wb ->
  encodes nadx adx -> encodes nady ady -> encodes nb (of_int bchar) -> encodes na (of_int achar) ->
  0 <= bchar <= 255 -> 0 <= achar <= 255 ->
  charset_names (e_charset e) = Some names -> charset_wf (e_charset e) ->
  names_glyph names (nthZ STANDARD_ENCODING bchar) bg ->
  names_glyph names (nthZ STANDARD_ENCODING achar) ag ->
  nth_opt (e_glyphs e) bg = Some bytesb -> glyph_bytes wbs opsb bytesb ->
  nth_opt (e_glyphs e) ag = Some bytesa -> glyph_bytes was opsa bytesa ->
  exists s, interp_glyph e = COk s /\ out s = seac_path adx ady opsb opsa.
Proof. exact seac_spec. Qed.
Print Assumptions C18_seac_spec.

Theorem C18_run_glyph_seac_spec : forall e w wb nadx nady nb na adx ady bchar achar names bg ag
                                         bytesb wbs opsb bytesa was opsa,
  e_kind e = KCFF ->
  nth_opt (e_glyphs e) (e_gid e) = Some (wb ++ nadx ++ nady ++ nb ++ na ++ [14]) ->
  enc_width w wb ->
  encodes nadx adx -> encodes nady ady -> encodes nb (of_int bchar) -> encodes na (of_int achar) ->
  0 <= bchar <= 255 -> 0 <= achar <= 255 ->
  charset_names (e_charset e) = Some names -> charset_wf (e_charset e) ->
  names_glyph names (nthZ STANDARD_ENCODING bchar) bg ->
  names_glyph names (nthZ STANDARD_ENCODING achar) ag ->
  nth_opt (e_glyphs e) bg = Some bytesb -> glyph_bytes wbs opsb bytesb ->
  nth_opt (e_glyphs e) ag = Some bytesa -> glyph_bytes was opsa bytesa ->
  run_glyph e = if bbox_ok (seac_path adx ady opsb opsa)
                then COk (seac_path adx ady opsb opsa) else CErr EBboxOverflow.
Proof. exact run_glyph_seac_spec. Qed.
Print Assumptions C18_run_glyph_seac_spec.

(* ------------------------------------------------------------------ *)
(* Non-vacuity: concrete instances of the hypotheses, and the findings *)
(* ------------------------------------------------------------------ *)

Definition mk_cff (glyphs gsubrs : list (list Z)) (lsubrs : option (list (list Z))) (gid : Z) : env :=
  mkEnv Debug KCFF false gsubrs [lsubrs] [] glyphs gid CsISOAdobe false [0] [].

(* width 500; hstemhm 1 2; 3 4 hintmask(1 byte); 10 20 rmoveto; 30 40 hlineto;
   1 2 3 4 5 hvcurveto; endchar -- with 1-, 2-, 3- and 5-byte operands *)
Definition ex_ops : list sop :=
  [SHStemHM [(of_int 1, of_int 2)]; SHintMask [(of_int 3, of_int 4)] [170];
   SRMove (of_int 10) (of_int 20); SHLine [of_int 30; of_int 40];
   SHVCurve [(of_int 1, of_int 2, of_int 3, of_int 4)] (Some (of_int 5))].
Definition ex_width : list Z := [248; 136].
Definition ex_body : list Z :=
  [140; 141; 18] ++ [142; 28; 0; 4; 19; 170] ++ [149; 255; 0; 20; 0; 0; 21] ++ [169; 179; 6]
  ++ [140; 141; 142; 143; 144; 31].

Example ex_wf : prog_wf CFF_MAX_OPERANDS (Some (of_int 500)) ex_ops.
Proof. unfold prog_wf, ex_ops. cbn [ops_wf]. vm_compute. intuition congruence. Qed.

Example ex_enc_width : enc_width (Some (of_int 500)) ex_width.
Proof. constructor. exact (enc_int2 500 ltac:(lia)). Qed.

Example ex_enc : enc_ops ex_ops ex_body.
Proof.
  unfold ex_ops, ex_body.
  apply (enc_ops_cons (SHStemHM _) _ [[140]; [141]]).
  { repeat constructor; [exact (enc_int1 1 ltac:(lia))|exact (enc_int1 2 ltac:(lia))]. }
  apply (enc_ops_cons (SHintMask _ _) _ [[142]; [28; 0; 4]]).
  { repeat constructor; [exact (enc_int1 3 ltac:(lia))|exact (enc_short 4 ltac:(lia))]. }
  apply (enc_ops_cons (SRMove _ _) _ [[149]; [255; 0; 20; 0; 0]]).
  { repeat constructor; [exact (enc_int1 10 ltac:(lia))|exact (enc_fixed 1310720 ltac:(lia))]. }
  apply (enc_ops_cons (SHLine _) _ [[169]; [179]]).
  { repeat constructor; [exact (enc_int1 30 ltac:(lia))|exact (enc_int1 40 ltac:(lia))]. }
  apply (enc_ops_cons (SHVCurve _ _) [] [[140]; [141]; [142]; [143]; [144]] []).
  { repeat constructor; [exact (enc_int1 1 ltac:(lia))|exact (enc_int1 2 ltac:(lia))
      |exact (enc_int1 3 ltac:(lia))|exact (enc_int1 4 ltac:(lia))|exact (enc_int1 5 ltac:(lia))]. }
  constructor.
Qed.

Example ex_run :
  run_glyph (mk_cff [ex_width ++ ex_body ++ [14]] [] None 0) =
  COk [MoveTo (of_int 10) (of_int 20); LineTo (of_int 40) (of_int 20); LineTo (of_int 40) (of_int 60);
       CurveTo (of_int 41) (of_int 60) (of_int 43) (of_int 63) (of_int 48) (of_int 67); Close].
Proof. vm_compute. reflexivity. Qed.

Example ex_path : prog_path ex_ops =
  [MoveTo (of_int 10) (of_int 20); LineTo (of_int 40) (of_int 20); LineTo (of_int 40) (of_int 60);
   CurveTo (of_int 41) (of_int 60) (of_int 43) (of_int 63) (of_int 48) (of_int 67); Close].
Proof. vm_compute. reflexivity. Qed.

(* the same program with "30 40 hlineto" moved to global subroutine 0 of 1240 (bias 1131) *)
Example ex_factored :
  run_glyph (mk_cff [[140; 141; 18] ++ [142; 28; 0; 4; 19; 170] ++ [149; 255; 0; 20; 0; 0; 21]
                      ++ [28; 251; 149; 29] ++ [140; 141; 142; 143; 144; 31] ++ [14]]
                    ([169; 179; 6; 11] :: repeat [11] 1239) None 0) =
  COk (prog_path ex_ops).
Proof. vm_compute. reflexivity. Qed.

(* F28 (fixed): a glyph whose seac components are the glyph itself stops at the nesting limit *)
Example ex_seac_self_reference :
  run_glyph (mk_cff [[139; 139; 139; 1; 139; 139; 139; 139; 14]] [] None 0) = CErr ENestingLimitReached.
Proof. vm_compute. reflexivity. Qed.

(* a subroutine that calls itself *)
Example ex_recursive_subr :
  run_glyph (mk_cff [[32; 29]] [[32; 29]] None 0) = CErr ENestingLimitReached.
Proof. vm_compute. reflexivity. Qed.

(* seac without a width operand (fixed: used to pop from the empty stack), components with their own
   widths (fixed: used to be rejected) *)
Example ex_seac :
  run_glyph (mk_cff [[14]; [247; 0; 139; 139; 21; 160; 6; 14]; [139; 150; 171; 171; 14]] [] None 2) =
  COk [MoveTo 0 0; LineTo (of_int 21) 0; Close;
       MoveTo 0 (of_int 11); LineTo (of_int 21) (of_int 11); Close].
Proof. vm_compute. reflexivity. Qed.

(* CFF2 blend with an ItemVariationData that has no regions (fixed: `rest.chunks(0)` used to panic):
   `1 1 blend` leaves the default 1; `1 1 blend 2 rmoveto` draws the contour at (1,2) *)
Example ex_blend_no_regions :
  run_glyph (mkEnv Debug KCFF2 false [] [None] [] [[140; 140; 16]] 0 CsISOAdobe true [0] [Some []]) = COk [].
Proof. vm_compute. reflexivity. Qed.
Example ex_blend_no_regions_draws :
  run_glyph (mkEnv Debug KCFF2 false [] [None] [] [[140; 140; 16; 141; 21]] 0 CsISOAdobe true [0] [Some []]) =
  COk [MoveTo (of_int 1) (of_int 2); Close].
Proof. vm_compute. reflexivity. Qed.

(* CFF2: 52 operands for hvcurveto (fixed: the scratch array had 48 entries) *)
Example ex_cff2_long_hvcurveto :
  exists p, run_glyph (mkEnv Debug KCFF2 false [] [None] [] [[139; 139; 21] ++ repeat 140 52 ++ [31]] 0
                         CsISOAdobe false [0] []) = COk p /\ length p = 15%nat.
Proof. eexists. split; [vm_compute; reflexivity|reflexivity]. Qed.

(* seac through a charset in range form: .notdef, A B (34,1), grave acute (124,1), Aacute (171,0),
   Agrave (174,0).  Aacute = 30 200 65 194 endchar: the accent `acute` (code 194, SID 125) is the
   LAST glyph of its range; Agrave's accent `grave` (code 193, SID 124) is the first.  A glyph in a
   single-element range (Aacute itself, SID 171) is found too. *)
Definition ex_ranges : list (Z * Z) := [(34, 1); (124, 1); (171, 0); (174, 0)].
Definition ex_acute_ops : list sop := [SRMove (of_int 10) (of_int 10); SRLine [(of_int 5, of_int 5)]].
Definition ex_seac_font (gid : Z) : env :=
  mkEnv Debug KCFF false [] [None] []
        [[14]; [139; 139; 21; 239; 139; 5; 139; 239; 5; 14]; [14];
         [159; 159; 21; 134; 144; 5; 14]; [149; 149; 21; 144; 144; 5; 14];
         [169; 247; 92; 204; 247; 86; 14]; [169; 247; 92; 204; 247; 85; 14]]
        gid (CsRanges ex_ranges) false [0] [].

Example ex_range_lookup :
  map (fun sid => gid_for_sid_in_ranges Debug ex_ranges sid CHARSET_FIRST_GID)
      [33; 34; 35; 36; 123; 124; 125; 126; 170; 171; 172; 174] =
  map (@COk (option Z))
      [None; Some 1; Some 2; None; None; Some 3; Some 4; None; None; Some 5; None; Some 6].
Proof. vm_compute. reflexivity. Qed.

Example ex_seac_last_of_range :
  run_glyph (ex_seac_font 5) =
  COk [MoveTo 0 0; LineTo (of_int 100) 0; LineTo (of_int 100) (of_int 100); Close;
       MoveTo (of_int 40) (of_int 210); LineTo (of_int 45) (of_int 215); Close].
Proof. vm_compute. reflexivity. Qed.

Example ex_seac_first_of_range :
  run_glyph (ex_seac_font 6) =
  COk [MoveTo 0 0; LineTo (of_int 100) 0; LineTo (of_int 100) (of_int 100); Close;
       MoveTo (of_int 50) (of_int 220); LineTo (of_int 45) (of_int 225); Close].
Proof. vm_compute. reflexivity. Qed.

(* the hypotheses of C18_seac_spec hold for Aacute *)
Example ex_charset_wf : charset_wf (CsRanges ex_ranges).
Proof. split; [repeat constructor; cbn [fst snd]; lia|vm_compute; discriminate]. Qed.

Example ex_names_last_of_range : names_glyph (ranges_sids ex_ranges) (nthZ STANDARD_ENCODING 194) 4.
Proof.
  right. split; [vm_compute; discriminate|]. split; [lia|]. split; [vm_compute; reflexivity|].
  intros g' Hg'. assert (Hc : g' = 1 \/ g' = 2 \/ g' = 3) by lia.
  destruct Hc as [-> | [-> | ->]]; vm_compute; discriminate.
Qed.

Example ex_glyph_bytes_acute : glyph_bytes None ex_acute_ops [149; 149; 21; 144; 144; 5; 14].
Proof.
  exists [], [149; 149; 21; 144; 144; 5]. split; [reflexivity|]. split; [constructor|]. split.
  - unfold ex_acute_ops.
    apply (enc_ops_cons (SRMove _ _) _ [[149]; [149]]).
    { repeat constructor; exact (enc_int1 10 ltac:(lia)). }
    apply (enc_ops_cons (SRLine _) [] [[144]; [144]] []).
    { repeat constructor; exact (enc_int1 5 ltac:(lia)). }
    constructor.
  - unfold prog_wf, ex_acute_ops. cbn [ops_wf]. vm_compute. intuition congruence.
Qed.

(* ISOAdobe: iacute = dotlessi (code 245, SID and glyph 145) + acute (code 194, SID 125); fixed:
   the code, not the SID, used to be compared with 228 *)
Example ex_seac_iso_adobe_dotlessi :
  run_glyph (mk_cff (repeat [14] 125 ++ [[159; 199; 21; 144; 144; 5; 14]] ++ repeat [14] 19
                     ++ [[139; 139; 21; 149; 139; 139; 189; 5; 14]] ++ [[139; 139; 247; 137; 247; 86; 14]])
                    [] None 146) =
  COk [MoveTo 0 0; LineTo (of_int 10) 0; LineTo (of_int 10) (of_int 50); Close;
       MoveTo (of_int 20) (of_int 60); LineTo (of_int 25) (of_int 65); Close].
Proof. vm_compute. reflexivity. Qed.
