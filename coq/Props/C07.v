(* Props/C07.v — subsetting preserves the outlines and metrics of retained glyphs.  Statements only.

   glyf part: tbl is any glyf table (list of Empty | Simple | Composite | unparsable-composite
   records), ids any list of glyph ids; recs = the (old_id, record) vector GlyfTable::subset
   returns, old_ids recs its first components, sg_table recs the new table.
   hmtx part: (hm, lsbs) = (hMetrics, leftSideBearings) of the source, out = the rebuilt hMetrics.
   CFF part: an abstract CFF (INDEXes as lists of byte strings; the CharString interpreter's
   "used subrs" answer is data). *)
From AV Require Import Base.Prelude Gen.SubsetConsts Model.GlyfSubset Model.CffSubset
  Proofs.GlyfSubsetProofs Proofs.CffSubsetProofs.
Open Scope Z_scope.

(* ---- GlyfTable::subset: termination ---- *)

(* the worklist loop ends for every table and every id list: the fuel the model passes (derived
   from list lengths) is never exhausted, and any larger fuel gives the same result *)
Theorem C07_glyf_fuel_enough : forall tbl ids fuel,
  (subset_fuel tbl ids <= fuel)%nat ->
  subset_loop fuel tbl ids O [] = Some (glyf_subset tbl ids).
Proof. exact glyf_subset_any_fuel. Qed.
Print Assumptions C07_glyf_fuel_enough.

(* without fuel: one loop iteration, as a relation on the states (glyph_ids, i), is well founded
   on ALL states; the measure that decreases is (ids still to visit) + (component ids of the
   table not yet in glyph_ids) *)
Theorem C07_glyf_loop_terminates : forall tbl, well_founded (loop_next tbl).
Proof. exact loop_terminates. Qed.
Print Assumptions C07_glyf_loop_terminates.

Theorem C07_glyf_loop_measure : forall tbl s' s,
  loop_next tbl s' s -> (loop_measure tbl s' < loop_measure tbl s)%nat.
Proof. exact loop_next_decreases. Qed.
Print Assumptions C07_glyf_loop_measure.

(* number of iterations = number of glyphs of the subset <= requested + distinct component ids *)
Theorem C07_glyf_loop_bound : forall tbl ids recs,
  glyf_subset tbl ids = Ok recs ->
  (length recs <= length ids + length (all_comps tbl))%nat.
Proof. exact glyf_subset_length. Qed.
Print Assumptions C07_glyf_loop_bound.

(* it never panics; it fails exactly because of a glyph reachable from the request that is out
   of range (BadIndex) or an unparsable composite (its parse error) *)
Theorem C07_glyf_total : forall tbl ids,
  glyf_subset tbl ids <> Panic /\ glyf_subset tbl ids <> OOB /\
  (forall e, glyf_subset tbl ids = Err e -> bad_reachable tbl ids e).
Proof. exact glyf_subset_total. Qed.
Print Assumptions C07_glyf_total.

Theorem C07_glyf_succeeds : forall tbl ids,
  (forall g, Reach tbl ids g -> exists r, get_record tbl g = Some r /\ forall e, r <> GBadComposite e) ->
  exists recs, glyf_subset tbl ids = Ok recs.
Proof. exact glyf_subset_succeeds. Qed.
Print Assumptions C07_glyf_succeeds.

(* ---- GlyfTable::subset: which glyphs, in which order ---- *)

Theorem C07_glyf_requested_first : forall tbl ids recs,
  glyf_subset tbl ids = Ok recs ->
  firstn (length ids) (old_ids recs) = ids /\
  (forall n, (n < length ids)%nat -> nth_error (old_ids recs) n = nth_error ids n).
Proof. exact subset_requested_first. Qed.
Print Assumptions C07_glyf_requested_first.

(* closed under components *)
Theorem C07_glyf_closed : forall tbl ids recs g comps rest c,
  glyf_subset tbl ids = Ok recs -> In g (old_ids recs) ->
  get_record tbl g = Some (GComposite comps rest) -> In c (map fst comps) ->
  In c (old_ids recs).
Proof. exact subset_closed. Qed.
Print Assumptions C07_glyf_closed.

(* exactly the glyphs reachable from the request: nothing missing, nothing superfluous *)
Theorem C07_glyf_exactly_reachable : forall tbl ids recs g,
  glyf_subset tbl ids = Ok recs -> (In g (old_ids recs) <-> Reach tbl ids g).
Proof. exact subset_exactly_reachable. Qed.
Print Assumptions C07_glyf_exactly_reachable.

Theorem C07_glyf_no_duplicates : forall tbl ids recs,
  glyf_subset tbl ids = Ok recs -> NoDup ids -> NoDup (old_ids recs).
Proof. exact subset_nodup. Qed.
Print Assumptions C07_glyf_no_duplicates.

(* the 65535 limit: with distinct requested ids the subset has at most as many glyphs as the
   source table (GlyfTable::new admits at most 65535), so `new_id as u16` loses nothing *)
Theorem C07_glyf_count_limit : forall tbl ids recs,
  glyf_subset tbl ids = Ok recs -> NoDup ids -> (length recs <= length tbl)%nat.
Proof. exact subset_count. Qed.
Print Assumptions C07_glyf_count_limit.

(* ---- GlyfTable::subset: the records ---- *)

(* empty and simple glyphs are copied unchanged *)
Theorem C07_glyf_copies_non_composite : forall tbl ids recs n g r src,
  glyf_subset tbl ids = Ok recs -> nth_error recs n = Some (g, r) ->
  get_record tbl g = Some src -> (forall cs rest, src <> GComposite cs rest) -> r = src.
Proof. exact subset_copies_non_composite. Qed.
Print Assumptions C07_glyf_copies_non_composite.

(* renumbering commutes: old_id (new component id) = old component id; component data untouched *)
Theorem C07_glyf_renumbering : forall tbl ids recs n g r comps rest k c d,
  glyf_subset tbl ids = Ok recs -> len recs <= 65536 ->
  nth_error recs n = Some (g, r) -> get_record tbl g = Some (GComposite comps rest) ->
  nth_error comps k = Some (c, d) ->
  exists comps' c',
    r = GComposite comps' rest /\ length comps' = length comps /\
    nth_error comps' k = Some (c', d) /\
    0 <= c' < len recs /\ nth_error (old_ids recs) (Z.to_nat c') = Some c.
Proof. exact subset_renumbering. Qed.
Print Assumptions C07_glyf_renumbering.

(* SubsetGlyphs::new_id inverts old_id *)
Theorem C07_glyf_new_id_old_id : forall recs n g r,
  NoDup (old_ids recs) -> len recs <= 65536 -> nth_error recs n = Some (g, r) ->
  sg_old_id recs (Z.of_nat n) = Ok g /\ sg_new_id recs g = Z.of_nat n.
Proof. exact new_id_old_id. Qed.
Print Assumptions C07_glyf_new_id_old_id.

(* ---- same outline ---- *)

(* for every way `comb` of combining a parent transform with a component's data (the code's, which
   drops the parent's, included), every nesting budget and every transform: the outline of new
   glyph n in the subset table is the outline of old glyph old_id(n) in the source, error cases
   included *)
Theorem C07_glyf_same_outline : forall comb tbl ids recs,
  glyf_subset tbl ids = Ok recs -> len recs <= 65536 ->
  forall fuel n g tr, nth_error (old_ids recs) n = Some g ->
  outline comb fuel (sg_table recs) (Z.of_nat n) tr = outline comb fuel tbl g tr.
Proof. exact same_outline. Qed.
Print Assumptions C07_glyf_same_outline.

(* in particular for the requested glyphs, with the code's traversal and depth limit *)
Theorem C07_glyf_same_outline_requested : forall tbl ids recs n g,
  glyf_subset tbl ids = Ok recs -> NoDup ids -> len tbl <= 65536 -> nth_error ids n = Some g ->
  glyf_outline (sg_table recs) (Z.of_nat n) = glyf_outline tbl g.
Proof. exact same_outline_requested. Qed.
Print Assumptions C07_glyf_same_outline_requested.

(* ---- hmtx ---- *)

(* create_hmtx_table never panics, in debug and release arithmetic *)
Theorem C07_hmtx_total : forall m hm lsbs nhm olds,
  create_hmtx m hm lsbs nhm olds <> Panic /\ create_hmtx m hm lsbs nhm olds <> OOB.
Proof. exact create_hmtx_total. Qed.
Print Assumptions C07_hmtx_total.

(* HmtxTable::metric is the declarative reading of the table: advance of min(g, n-1), lsb from the
   long metrics below n and from the lsb array above *)
Theorem C07_hmtx_metric_spec : forall hm lsbs g a l, 0 <= g ->
  (hmtx_metric hm lsbs g = Ok (a, l) <-> spec_advance hm g = Some a /\ spec_lsb hm lsbs g = Some l).
Proof. exact hmtx_metric_spec. Qed.
Print Assumptions C07_hmtx_metric_spec.

(* for every new glyph the (advance, lsb) looked up in the rebuilt table equals the source's for its
   old id, on both sides of numberOfHMetrics *)
Theorem C07_hmtx_same_metrics : forall m hm lsbs olds out,
  (forall o, In o olds -> 0 <= o) ->
  create_hmtx m hm lsbs (len hm) olds = Ok out ->
  length out = length olds /\
  forall n o, nth_error olds n = Some o ->
    hmtx_metric out [] (Z.of_nat n) = hmtx_metric hm lsbs o /\
    exists e, hmtx_metric hm lsbs o = Ok e.
Proof. exact create_hmtx_same_metrics. Qed.
Print Assumptions C07_hmtx_same_metrics.

Theorem C07_hmtx_advance : forall hm lsbs g e,
  hmtx_metric hm lsbs g = Ok e -> hmtx_advance hm g = Ok (fst e).
Proof. exact hmtx_advance_metric. Qed.
Print Assumptions C07_hmtx_advance.

(* on a well-formed source (>= 1 long metric, an entry for every glyph) the table is rebuilt *)
Theorem C07_hmtx_succeeds : forall m hm lsbs olds,
  1 <= len hm -> (forall o, In o olds -> 0 <= o < len hm + len lsbs) ->
  exists out, create_hmtx m hm lsbs (len hm) olds = Ok out.
Proof. exact create_hmtx_succeeds. Qed.
Print Assumptions C07_hmtx_succeeds.

(* subset_ttf = glyf.subset ; create_hmtx_table over its old ids: requested glyph ids[n] keeps its
   metrics as new glyph n, every pulled-in component keeps its own *)
Theorem C07_ttf_same_metrics : forall m tbl hm lsbs ids recs out,
  glyf_subset tbl ids = Ok recs ->
  create_hmtx m hm lsbs (len hm) (old_ids recs) = Ok out ->
  length out = length recs /\
  (forall n g, nth_error (old_ids recs) n = Some g ->
     hmtx_metric out [] (Z.of_nat n) = hmtx_metric hm lsbs g /\
     exists e, hmtx_metric hm lsbs g = Ok e) /\
  (forall n g, nth_error ids n = Some g ->
     hmtx_metric out [] (Z.of_nat n) = hmtx_metric hm lsbs g).
Proof. exact ttf_same_metrics. Qed.
Print Assumptions C07_ttf_same_metrics.

(* ---- CFF::subset (abstract CFF; Type1->CID conversion covered structurally; CFF2 not modelled) ---- *)

(* copy_used_subrs: on a partial copy it never panics; afterwards every used entry holds the
   source's bytes, earlier copies stay, unused entries are untouched; it fails only with BadIndex
   for a used index outside the source INDEX *)
Theorem C07_cff_copy_used_subrs : forall used src dst,
  partial_copy src dst ->
  match copy_used_subrs used src dst with
  | Ok dst' =>
    partial_copy src dst' /\
    (forall i, In i used -> 0 <= i < len src /\ nth_opt dst' i = nth_opt src i) /\
    (forall i, nth_opt dst i = nth_opt src i -> nth_opt dst' i = nth_opt src i) /\
    (forall i, ~ In i used -> nth_opt dst' i = nth_opt dst i)
  | Err e => e = BadIndex /\ exists i, In i used /\ nth_opt src i = None
  | Panic | OOB => False
  end.
Proof. exact copy_used_spec. Qed.
Print Assumptions C07_cff_copy_used_subrs.

(* the rebuilt Global Subr INDEX: empty when nothing is used, otherwise as long as the source, the
   used entries identical, the others emptied — for any iteration order of the hash set *)
Theorem C07_cff_global_subrs : forall src used,
  match rebuild_global src used with
  | Ok out =>
    (used = [] /\ out = []) \/
    (len out = len src /\
     (forall i, In i used -> 0 <= i < len src /\ nth_opt out i = nth_opt src i) /\
     (forall i, ~ In i used -> 0 <= i < len src -> nth_opt out i = Some []))
  | Err e => e = BadIndex /\ exists i, In i used /\ nth_opt src i = None
  | Panic | OOB => False
  end.
Proof. exact rebuild_global_spec. Qed.
Print Assumptions C07_cff_global_subrs.

(* CFF::subset: CharStrings kept by old id in the requested order; for every retained glyph each
   global and local subr its CharString enters is at the same index, in an INDEX of the same
   length, with the same bytes; FDSelect remapped (new glyph n -> Font DICT of old glyph ids[n]) *)
Theorem C07_cff_subset : forall c used ids convert c' n2o,
  cff_subset c used ids convert = Ok (c', n2o) -> cff_subset_ok c used ids c' n2o.
Proof. exact cff_subset_spec. Qed.
Print Assumptions C07_cff_subset.

(* so a biased callsubr/callgsubr operand that resolved to used subr i resolves to the same bytes *)
Theorem C07_cff_calls_resolve : forall src dst operand i,
  subr_kept src dst i -> subr_index operand (subr_bias (len src)) = Some i ->
  resolve dst operand = resolve src operand /\ exists b, resolve src operand = Some b.
Proof. exact subr_kept_resolve. Qed.
Print Assumptions C07_cff_calls_resolve.

(* CID-keyed source: the charset maps new glyph n to the CID of old glyph ids[n] *)
Theorem C07_cff_charset_cid : forall c used ids convert c' n2o,
  cff_subset c used ids convert = Ok (c', n2o) -> is_cid (var c) = true ->
  exists sids, charset c' = 0 :: sids /\
    Forall2 (fun g sid => nth_opt (charset c) g = Some sid) (nonzero ids) sids.
Proof. exact cff_subset_charset_cid. Qed.
Print Assumptions C07_cff_charset_cid.

(* ---- non-vacuity ---- *)

(* glyph 1 = composite of 3 and 2, glyph 2 = composite of 3 (shared), 4 unused: request [0; 1] *)
Example C07_ex_closure :
  glyf_subset [GEmpty; GComposite [(3, 10); (2, 20)] 7; GComposite [(3, 30)] 8; GSimple 300; GSimple 400] [0; 1]
  = Ok [(0, GEmpty); (1, GComposite [(2, 10); (3, 20)] 7); (3, GSimple 300); (2, GComposite [(2, 30)] 8)].
Proof. vm_compute. reflexivity. Qed.

(* a self-referencing composite terminates *)
Example C07_ex_self_reference :
  glyf_subset [GEmpty; GComposite [(1, 0)] 0] [0; 1] = Ok [(0, GEmpty); (1, GComposite [(1, 0)] 0)].
Proof. vm_compute. reflexivity. Qed.

(* a component out of range is BadIndex *)
Example C07_ex_bad_component : glyf_subset [GEmpty; GComposite [(9, 0)] 0] [0; 1] = Err BadIndex.
Proof. vm_compute. reflexivity. Qed.

(* numberOfHMetrics = 2, three more glyphs: advance repeated from the last long metric *)
Example C07_ex_hmtx :
  create_hmtx Debug [(500, 1); (600, 2)] [7; 8; 9] 2 [0; 4; 1; 2] = Ok [(500, 1); (600, 9); (600, 2); (600, 7)].
Proof. vm_compute. reflexivity. Qed.

(* F19 (fixed): numberOfHMetrics = 0 is an error in both arithmetic modes, not a panic *)
Example C07_ex_hmtx_nhm0 :
  create_hmtx Debug [] [7; 8; 9] 0 [0; 1] = Err BadIndex /\
  create_hmtx Release [] [7; 8; 9] 0 [0; 1] = Err BadIndex.
Proof. vm_compute. split; reflexivity. Qed.

(* CFF: glyph 2 calls global subr 1 and local subr 0; glyph 1 calls nothing *)
Example C07_ex_cff :
  cff_subset (mkCff [[14]; [1; 14]; [2; 14]] [[11]; [12]; [13]] [0; 5; 6] (VType1 (Some [[21]; [22]])))
    (fun g => if g =? 2 then Ok ([1], [0]) else Ok ([], [])) [0; 2] false
  = Ok (mkCff [[14]; [2; 14]] [[]; [12]; []] [0; 6] (VType1 (Some [[21]; []])), [0; 2]).
Proof. vm_compute. reflexivity. Qed.
