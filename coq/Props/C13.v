(* Props/C13.v — user coordinates normalise per fvar and avar.  Statements only. *)
From AV Require Import Base.Prelude Model.Normalize Proofs.NormalizeProofs.
From AV Require Import Model.Reader Model.FvarTable Proofs.FvarTableProofs.
From Coq Require Import Sorted.
Open Scope Z_scope.

(* All values are raw integers: user coordinates and axis fields 16.16 (i32), results 2.14 (i16);
   65536 = 1.0 in 16.16, 16384 = 1.0 in 2.14. *)

(* minimum, default and maximum become exactly -1, 0 and +1 *)
Theorem C13_endpoints : forall minv def maxv, minv <= def <= maxv ->
  (minv < def -> normalize_axis (minv, def, maxv) minv None = -16384) /\
  normalize_axis (minv, def, maxv) def None = 0 /\
  (def < maxv -> normalize_axis (minv, def, maxv) maxv None = 16384).
Proof. exact normalize_axis_endpoints. Qed.
Print Assumptions C13_endpoints.

(* the user coordinate is clamped to the axis range *)
Theorem C13_clamps : forall minv def maxv c, minv <= maxv ->
  (c <= minv -> default_normalize minv def maxv c = default_normalize minv def maxv minv) /\
  (maxv <= c -> default_normalize minv def maxv c = default_normalize minv def maxv maxv).
Proof. exact dn_clamps. Qed.
Print Assumptions C13_clamps.

(* every component of every result lies in [-1, 1], with or without avar, for ANY axis record *)
Theorem C13_range : forall axis c map, -16384 <= normalize_axis axis c map <= 16384.
Proof. exact normalize_axis_range. Qed.
Print Assumptions C13_range.

(* monotone non-decreasing in the user coordinate (default normalisation) *)
Theorem C13_monotone : forall minv def maxv x y, minv <= def <= maxv -> x <= y ->
  normalize_axis (minv, def, maxv) x None <= normalize_axis (minv, def, maxv) y None.
Proof. exact normalize_axis_mono. Qed.
Print Assumptions C13_monotone.

(* accuracy: the 2.14 result r is within one unit of the exact rational 16384*(c-def)/span *)
Theorem C13_accuracy : forall minv def maxv coord, minv <= def <= maxv ->
  let c := Z.min (Z.max coord minv) maxv in
  let r := f2dot14_of_fx (default_normalize minv def maxv coord) in
  (c < def -> Z.abs (r * (def - minv) - 16384 * (c - def)) <= def - minv) /\
  (c = def -> r = 0) /\
  (def < c -> Z.abs (r * (maxv - def) - 16384 * (c - def)) <= maxv - def).
Proof. exact dn_accuracy. Qed.
Print Assumptions C13_accuracy.

(* avar: every knot of a strictly sorted segment map is mapped exactly to its target *)
Theorem C13_avar_knots : forall maps f t,
  map_ok maps -> (2 <= length maps)%nat -> In (f, t) maps -> -16384 <= t <= 16384 ->
  f2dot14_of_fx (clampZ (avar_normalize maps (fx_of_f2dot14 f)) (fx_of_int (-1)) (fx_of_int 1)) = t.
Proof. exact avar_knot_result. Qed.
Print Assumptions C13_avar_knots.

(* monotone non-decreasing in the user coordinate THROUGH avar, when the avar map is monotone:
   strictly sorted knots from -1 to +1 with non-decreasing targets *)
Theorem C13_monotone_through_avar : forall minv def maxv maps x y, minv <= def <= maxv -> x <= y ->
  map_ok maps -> targets_mono maps -> (1 <= length maps)%nat ->
  fst (hd (0, 0) maps) = -16384 -> fst (last maps (0, 0)) = 16384 ->
  normalize_axis (minv, def, maxv) x (Some maps) <= normalize_axis (minv, def, maxv) y (Some maps).
Proof. exact normalize_axis_avar_mono. Qed.
Print Assumptions C13_monotone_through_avar.

(* inside a segment the avar value is exactly start + floor(q * rise / 1.0) with q the truncated
   16.16 ratio: the "slope times intermediate rounding" accuracy clause of the property *)
Theorem C13_avar_segment_exact : forall s e x, i16_pair s -> i16_pair e -> fst s < fst e -> snd s <= snd e ->
  fst s * 4 <= x < fst e * 4 ->
  let q := (x - fst s * 4) * 65536 / ((fst e - fst s) * 4) in
  0 <= q < 65536 /\ interp s e x = snd s * 4 + q * ((snd e - snd s) * 4) / 65536.
Proof. exact interp_exact. Qed.
Print Assumptions C13_avar_segment_exact.

(* a tuple of the wrong length is rejected *)
Theorem C13_tuple_len_rejected : forall axes coords avar,
  length coords <> length axes -> fvar_normalize axes coords avar = Err BadValue.
Proof. exact fvar_normalize_len. Qed.
Print Assumptions C13_tuple_len_rejected.

(* the tuple is the per-axis normalisation, in axis order; an avar with too few maps is an error *)
Theorem C13_tuple_plain : forall axes coords, length coords = length axes ->
  normalize_axes axes coords None =
  Ok (map (fun ac => normalize_axis (fst ac) (snd ac) None) (combine axes coords)).
Proof. exact normalize_axes_plain. Qed.
Print Assumptions C13_tuple_plain.

Theorem C13_tuple_avar : forall axes coords maps,
  length coords = length axes -> (length axes <= length maps)%nat ->
  normalize_axes axes coords (Some maps) =
  Ok (map (fun acm => normalize_axis (fst (fst acm)) (snd (fst acm)) (Some (snd acm)))
          (combine (combine axes coords) maps)).
Proof. exact normalize_axes_avar. Qed.
Print Assumptions C13_tuple_avar.

Theorem C13_avar_too_short : forall axes coords maps,
  length coords = length axes -> (length maps < length axes)%nat ->
  normalize_axes axes coords (Some maps) = Err BadIndex.
Proof. exact normalize_axes_avar_short. Qed.
Print Assumptions C13_avar_too_short.

(* the fixed-point conversions, for all 65536 F2Dot14 values *)
Theorem C13_f2dot14_fixed_roundtrip : forall v, -32768 <= v <= 32767 ->
  f2dot14_of_fx (fx_of_f2dot14 v) = v.
Proof. exact f2dot14_fixed_roundtrip. Qed.
Print Assumptions C13_f2dot14_fixed_roundtrip.


(* ---- the fvar table as bytes (Model/FvarTable.v): header, axis records axisSize bytes apart,
   instance records, trailing bytes.  shape_legal: majorVersion 1, axesArrayOffset >= 16,
   axisSize >= 20 (ANY such value: the record may be extended), axisCount = number of records. *)

(* FvarTable::read + axes(): the strided array yields exactly the records that were written *)
Theorem C13_fvar_axes_strided : forall m sh axes,
  shape_legal sh -> len axes < 65536 -> Forall axis4_ok axes ->
  exists f, fvar_read m (fvar_encode sh axes) = Ok f /\ fvar_axis_count f = len axes /\
            fvar_axes m f = Ok (map axis4_triple axes).
Proof. exact fvar_axes_encode. Qed.
Print Assumptions C13_fvar_axes_strided.

(* FvarTable::normalize on the table bytes is the arithmetic model on those axes, so every theorem
   above holds for tables of any legal layout *)
Theorem C13_fvar_bytes_normalize : forall m sh axes coords avar,
  shape_legal sh -> len axes < 65536 -> Forall axis4_ok axes ->
  case_normalize m sh axes coords avar = fvar_normalize (map axis4_triple axes) coords avar.
Proof. exact case_normalize_encode. Qed.
Print Assumptions C13_fvar_bytes_normalize.

(* and so is the tuple variations::instance returns *)
Theorem C13_instance_bytes_normalize : forall m sh axes coords avar,
  shape_legal sh -> len axes < 65536 -> Forall axis4_ok axes ->
  case_instance m sh axes coords avar = fvar_normalize (map axis4_triple axes) coords avar.
Proof. exact case_instance_encode. Qed.
Print Assumptions C13_instance_bytes_normalize.

(* a named instance of the table itself as the user tuple (FvarTable::instances().nth(k), whose
   coordinate array is handed to normalize): the record is found instanceSize bytes apart, with or
   without postScriptNameID or further bytes, and normalises like any other tuple *)
Theorem C13_named_instance_normalize : forall m sh axes k avar,
  shape_legal sh -> len axes < 65536 -> Forall axis4_ok axes -> 0 <= k < sh_icnt sh ->
  sh_isz sh = 4 + 4 * len axes \/ 6 + 4 * len axes <= sh_isz sh ->
  case_named m sh axes k avar = fvar_normalize (map axis4_triple axes) (inst_coords k 0 axes) avar.
Proof. exact case_named_encode. Qed.
Print Assumptions C13_named_instance_normalize.

(* wrong length is rejected against the table's axisCount at every entry point, for ANY table bytes *)
Theorem C13_table_len_rejected : forall m f coords avar,
  len coords <> fvar_axis_count f -> fvar_normalize_tbl m f coords avar = Err BadValue.
Proof. exact fvar_normalize_tbl_len. Qed.
Print Assumptions C13_table_len_rejected.

Theorem C13_instance_len_rejected : forall m b f coords avar,
  fvar_read m b = Ok f -> len coords <> fvar_axis_count f -> instance_tuple m b coords avar = Err BadValue.
Proof. exact instance_tuple_len. Qed.
Print Assumptions C13_instance_len_rejected.

Theorem C13_owned_tuple_len : forall f vals v,
  fvar_owned_tuple f vals = Some v -> len vals = fvar_axis_count f /\ v = vals.
Proof. exact owned_tuple_len. Qed.
Print Assumptions C13_owned_tuple_len.

(* non-vacuity *)
Example C13_example :
  fvar_normalize [(100 * 65536, 400 * 65536, 900 * 65536); (-2147483648, 0, 2147418112)]
                 [650 * 65536; -1073741824]
                 (Some [[(-16384, -16384); (0, 0); (8192, 4096); (16384, 16384)]; []])
  = Ok [4096; -8192].
Proof. vm_compute. reflexivity. Qed.
Example C13_map_ok_example : map_ok [(-16384, -16384); (0, 0); (8192, 4096); (16384, 16384)].
Proof.
  split.
  - repeat (constructor; [|repeat constructor; cbn; lia]). constructor.
  - repeat constructor; cbn; lia.
Qed.

(* an fvar with axesArrayOffset 18, axisSize 24, two instance records and three trailing bytes *)
Example C13_strided_example :
  case_instance Release
    {| sh_major := 1; sh_off := 18; sh_asz := 24; sh_dcount := 0; sh_icnt := 2; sh_isz := 14; sh_trail := 3 |}
    [(2003265652, 100 * 65536, 400 * 65536, 900 * 65536); (1769234796, 0, 0, 65536)]
    [650 * 65536; 32768] None
  = Ok [8192; 8192].
Proof. vm_compute. reflexivity. Qed.
Example C13_strided_too_long :
  case_instance Release
    {| sh_major := 1; sh_off := 16; sh_asz := 24; sh_dcount := 0; sh_icnt := 0; sh_isz := 0; sh_trail := 0 |}
    [(2003265652, 100 * 65536, 400 * 65536, 900 * 65536); (1769234796, 0, 0, 65536)]
    [650 * 65536; 32768; 5] None
  = Err BadValue.
Proof. vm_compute. reflexivity. Qed.
Example C13_named_example :
  case_named Release
    {| sh_major := 1; sh_off := 16; sh_asz := 24; sh_dcount := 0; sh_icnt := 3; sh_isz := 14; sh_trail := 0 |}
    [(2003265652, 100 * 65536, 400 * 65536, 900 * 65536); (1769234796, 0, 0, 65536)] 2 None
  = Ok [16384; 8192].
Proof. vm_compute. reflexivity. Qed.
