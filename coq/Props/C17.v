(* Props/C17.v — the theorems that decide C17 (text preprocessing only reorders marks and applies the
   documented decompositions).  Statements only; every proof is `exact <lemma>`.

   `class : Z -> Z` is the modified combining class of a character (0 = not reordered).  It is data of
   a dependency (Unicode), so every theorem is stated for an ARBITRARY class function.
   `preprocess_text class cs tag` is the model of scripts::preprocess_text (Model/Preprocess.v);
   `dispatch_action tag` is what ScriptType::from + the match in preprocess_text select for a tag. *)
From AV Require Import Base.Prelude Gen.PreprocessTables Model.Preprocess Model.PreprocessRef
  Proofs.PreprocessSort Proofs.PreprocessRuns Proofs.PreprocessMarks Proofs.PreprocessThai
  Proofs.PreprocessIndic Proofs.PreprocessTop.
From Coq Require Import Permutation Sorted.
Open Scope Z_scope.

(* ---- 0. totality and the functional specification ---- *)
(* No input makes preprocess_text panic (index out of range, rotate out of range, unknown Indic tag)
   or run out of loop fuel. *)
Theorem C17_never_panics : forall class cs tag, exists out, preprocess_text class cs tag = Ok out.
Proof. exact never_panics. Qed.
Print Assumptions C17_never_panics.

(* The model equals a specification written without indices, fuel or bounds checks. *)
Theorem C17_model_is_spec : forall class cs tag,
  preprocess_text class cs tag = Ok (preprocess_spec class cs tag).
Proof. exact preprocess_text_spec. Qed.
Print Assumptions C17_model_is_spec.

(* ---- 1. tables and dispatch against references typed by hand ---- *)
Theorem C17_tables_match_reference : tables_check = true.
Proof. exact tables_match_reference. Qed.
Print Assumptions C17_tables_match_reference.

Theorem C17_mcc_table_reference : MCC_TABLE = map ref_mcc (range 0 256).
Proof. exact mcc_table_is_reference. Qed.
Print Assumptions C17_mcc_table_reference.

Theorem C17_mcc_table_facts :
  length MCC_TABLE = 256%nat /\ nth 0 MCC_TABLE 1 = 0 /\
  NoDup (filter (fun m => negb (m =? 0)) MCC_TABLE) /\
  (forall c ccc, 0 <= ccc < 256 -> exists m, modified_combining_class_of c ccc = Ok m).
Proof. exact mcc_table_facts. Qed.
Print Assumptions C17_mcc_table_facts.

Theorem C17_dispatch_reference : forall tag, dispatch_action tag = ref_action tag.
Proof. exact dispatch_reference. Qed.
Print Assumptions C17_dispatch_reference.

Theorem C17_indic_script_total : forall tag,
  dispatch_action tag = ActIndic -> exists s, indic_script_of tag = Ok s.
Proof. exact indic_script_total. Qed.
Print Assumptions C17_indic_script_total.

(* ---- 2. scripts without decompositions (default, Syriac) ---- *)
Theorem C17_default_is_permutation : forall class cs tag out,
  dispatch_action tag = ActSort -> preprocess_text class cs tag = Ok out ->
  Permutation cs out /\ length out = length cs.
Proof. exact default_is_permutation. Qed.
Print Assumptions C17_default_is_permutation.

(* A character of class 0 keeps its index, and the output has a mark exactly where the input has one
   (default, Syriac and Arabic). *)
Theorem C17_bases_keep_position : forall class cs tag out,
  (dispatch_action tag = ActSort \/ dispatch_action tag = ActArabic) ->
  preprocess_text class cs tag = Ok out ->
  (forall i z, nth_error cs i = Some z -> class z = 0 -> nth_error out i = Some z) /\
  map (fun c => class c =? 0) out = map (fun c => class c =? 0) cs.
Proof. exact bases_keep_position. Qed.
Print Assumptions C17_bases_keep_position.

(* Every maximal run r of marks (delimited by class-0 characters or the ends of the text) is replaced
   by a rearrangement of itself that is sorted by class and keeps the order of marks of equal class;
   there is only one such rearrangement.  What is before and after the run is processed on its own. *)
Theorem C17_runs_stably_sorted : forall class x r y tag out,
  dispatch_action tag = ActSort ->
  ends_with_base class x -> marks class r -> starts_with_base class y ->
  preprocess_text class (x ++ r ++ y) tag = Ok out ->
  exists x' r' y', out = x' ++ r' ++ y' /\
    preprocess_text class x tag = Ok x' /\ preprocess_text class y tag = Ok y' /\
    length x' = length x /\
    Permutation r r' /\
    StronglySorted (fun a b => class a <= class b) r' /\
    (forall k, filter (fun c => class c =? k) r' = filter (fun c => class c =? k) r) /\
    (forall r'', StronglySorted (fun a b => class a <= class b) r'' ->
                 (forall k, filter (fun c => class c =? k) r'' = filter (fun c => class c =? k) r) -> r'' = r').
Proof. exact runs_stably_sorted. Qed.
Print Assumptions C17_runs_stably_sorted.

(* The stable sort itself (slice::sort_by_key as modelled): permutation, sorted, stable, unique. *)
Theorem C17_stable_sort : forall key l,
  Permutation l (sort_by_key key l) /\
  StronglySorted (fun a b => key a <= key b) (sort_by_key key l) /\
  (forall k, filter (fun c => key c =? k) (sort_by_key key l) = filter (fun c => key c =? k) l) /\
  (forall l', StronglySorted (fun a b => key a <= key b) l' ->
              (forall k, filter (fun c => key c =? k) l' = filter (fun c => key c =? k) l) ->
              l' = sort_by_key key l).
Proof.
  exact (fun key l => conj (sort_by_key_perm key l) (conj (sort_by_key_sorted key l)
          (conj (sort_by_key_stable key l) (sort_by_key_unique key l)))).
Qed.
Print Assumptions C17_stable_sort.

(* The combining-class sort as a function (`sort_p`): it is the whole default path and the last step
   of the Thai/Lao, Indic and Khmer paths, whose theorems below mention it. *)
Theorem C17_sort_p : forall class l,
  sort_by_modified_combining_class class l = Ok (sort_p class l) /\
  Permutation l (sort_p class l) /\ length (sort_p class l) = length l /\
  (forall i z, nth_error l i = Some z -> class z = 0 -> nth_error (sort_p class l) i = Some z) /\
  map (fun c => class c =? 0) (sort_p class l) = map (fun c => class c =? 0) l /\
  (forall x r y, l = x ++ r ++ y -> ends_with_base class x -> marks class r -> starts_with_base class y ->
     sort_p class l = sort_p class x ++ sort_by_key class r ++ sort_p class y).
Proof. exact sort_p_props. Qed.
Print Assumptions C17_sort_p.

(* ---- 3. Arabic ---- *)
(* A permutation that rearranges every maximal run of marks within itself. *)
Theorem C17_arabic_is_run_local_permutation : forall class x r y tag out,
  dispatch_action tag = ActArabic ->
  ends_with_base class x -> marks class r -> starts_with_base class y ->
  preprocess_text class (x ++ r ++ y) tag = Ok out ->
  Permutation (x ++ r ++ y) out /\
  exists x' y', out = x' ++ arabic_run_spec class r ++ y' /\
    preprocess_text class x tag = Ok x' /\ preprocess_text class y tag = Ok y' /\
    length x' = length x /\ Permutation r (arabic_run_spec class r).
Proof. exact arabic_is_run_local_permutation. Qed.
Print Assumptions C17_arabic_is_run_local_permutation.

(* What a run becomes: sorted stably by class; shaddas (class 33) first; then, for class 230 and then
   class 220, the modifier combining marks that start the first group of that class go to the front. *)
Theorem C17_arabic_run_shape : forall class r,
  arabic_run_spec class r =
  rot_p class 220 (rot_p class 230 (shadda_first class (sort_by_key class r))).
Proof. exact arabic_run_shape. Qed.
Print Assumptions C17_arabic_run_shape.

(* 2a: reorder_marks_shadda is the stable partition "shaddas first". *)
Theorem C17_arabic_shadda_first : forall class r,
  reorder_marks_shadda class r =
  filter (fun c => class c =? SHADDA_CLASS) r ++ filter (fun c => negb (class c =? SHADDA_CLASS)) r.
Proof. exact reorder_marks_shadda_spec. Qed.
Print Assumptions C17_arabic_shadda_first.

(* 2b/2c: one MCM step.  Either the run has no mark of class m and is unchanged, or it is
   a ++ p ++ b where a has no mark of class m, p ++ b starts with a mark of class m, p is the longest
   prefix of p ++ b made of modifier combining marks, and the result is p ++ a ++ b. *)
Theorem C17_arabic_mcm_first : forall class m cs,
  (Forall (fun c => class c <> m) cs /\ rot_p class m cs = cs) \/
  (exists a p b, cs = a ++ p ++ b /\
     Forall (fun c => class c <> m) a /\
     (exists h t, p ++ b = h :: t /\ class h = m) /\
     Forall (fun c => is_modifier_combining_mark c = true) p /\
     (b = [] \/ exists h t, b = h :: t /\ is_modifier_combining_mark h = false) /\
     rot_p class m cs = p ++ a ++ b).
Proof. exact rot_spec. Qed.
Print Assumptions C17_arabic_mcm_first.

(* A run without modifier combining marks: shaddas, then everything else stably by class. *)
Theorem C17_arabic_no_mcm : forall class r,
  Forall (fun c => is_modifier_combining_mark c = false) r ->
  arabic_run_spec class r = shadda_first class (sort_by_key class r).
Proof. exact arabic_run_spec_no_mcm. Qed.
Print Assumptions C17_arabic_no_mcm.

(* ---- 4. Thai / Lao ---- *)
(* The output is the combining-class sort of thai_spec [] cs, a single left-to-right pass. *)
Theorem C17_thai_spec : forall class cs tag,
  dispatch_action tag = ActThaiLao -> preprocess_text class cs tag = Ok (sort_p class (thai_spec [] cs)).
Proof. exact thai_spec_top. Qed.
Print Assumptions C17_thai_spec.

(* Content: exactly the input with every SARA AM replaced by its two parts. *)
Theorem C17_thai_content : forall class cs tag out,
  dispatch_action tag = ActThaiLao -> preprocess_text class cs tag = Ok out ->
  Permutation (flat_map expand_am cs) out.
Proof. exact thai_content. Qed.
Print Assumptions C17_thai_content.

(* Locality: a character that is neither an above-base mark nor a SARA AM is a barrier. *)
Theorem C17_thai_barrier : forall l1 b l2,
  is_abovebase_mark b = false -> split_am_vowel b = None ->
  thai_spec [] (l1 ++ b :: l2) = thai_spec [] l1 ++ b :: thai_spec [] l2.
Proof. exact thai_spec_barrier. Qed.
Print Assumptions C17_thai_barrier.

(* A SARA AM: its second part stays in its place (and is a barrier), its first part is inserted in
   front of the above-base marks that end the text before it. *)
Theorem C17_thai_am : forall l1 c c1 c2 l2, split_am_vowel c = Some (c1, c2) ->
  thai_spec [] (l1 ++ c :: l2) = ins_above (thai_spec [] l1) c1 ++ c2 :: thai_spec [] l2.
Proof. exact thai_spec_am. Qed.
Print Assumptions C17_thai_am.

Theorem C17_thai_insert_position : forall f tl c1,
  Forall (fun c => is_abovebase_mark c = true) tl ->
  (f = [] \/ exists f0 z, f = f0 ++ [z] /\ is_abovebase_mark z = false) ->
  ins_above (f ++ tl) c1 = f ++ c1 :: tl.
Proof. exact ins_above_decomp. Qed.
Print Assumptions C17_thai_insert_position.

(* One cluster, exactly: front, above-base marks ms, SARA AM  ->  front, c1, ms, c2. *)
Theorem C17_thai_cluster : forall front ms c c1 c2,
  (front = [] \/ exists f0 z, front = f0 ++ [z] /\ is_abovebase_mark z = false) ->
  Forall (fun x => split_am_vowel x = None) front ->
  Forall (fun x => is_abovebase_mark x = true) ms -> Forall (fun x => split_am_vowel x = None) ms ->
  split_am_vowel c = Some (c1, c2) ->
  thai_spec [] (front ++ ms ++ [c]) = front ++ c1 :: ms ++ [c2].
Proof. exact thai_spec_cluster. Qed.
Print Assumptions C17_thai_cluster.

(* Text without SARA AM is only sorted. *)
Theorem C17_thai_no_am : forall cs, Forall (fun c => split_am_vowel c = None) cs -> thai_spec [] cs = cs.
Proof. exact (fun cs H => thai_spec_nosplit cs [] H). Qed.
Print Assumptions C17_thai_no_am.

(* ---- 5. Indic (content; the positional claims are in C17_indic_spec) ---- *)
Theorem C17_indic_spec : forall class cs tag, dispatch_action tag = ActIndic ->
  exists s, indic_script_of tag = Ok s /\
    preprocess_text class cs tag =
      Ok (indic_tail s (sort_p class (flat_map expand_matra (cv_spec cs)))).
Proof. exact indic_spec_top. Qed.
Print Assumptions C17_indic_spec.

(* There is an intermediate text mid = the input with dotted circles inserted only between the two
   characters of a prohibited pair (or behind reph and in front of LETTER I); without the circles it
   is the input; the output is a rearrangement of mid with the split matras expanded, up to
   YA NUKTA <-> YYA; for every script but Bengali it is a plain rearrangement. *)
Theorem C17_indic_content_partial : forall class cs tag out,
  dispatch_action tag = ActIndic -> preprocess_text class cs tag = Ok out ->
  exists mid, circled cs mid /\ filter not_circle mid = filter not_circle cs /\
    Permutation (flat_map unrecompose (flat_map expand_matra mid)) (flat_map unrecompose out) /\
    (tag <> REF_BENGALI_TAG -> Permutation (flat_map expand_matra mid) out).
Proof. exact indic_content_partial. Qed.
Print Assumptions C17_indic_content_partial.

(* For the eight scripts without an extra step the output is exactly the combining-class sort of the
   expanded text E: class-0 characters of E keep their index (C17_sort_p gives the rest). *)
Theorem C17_indic_positions : forall class cs tag out,
  dispatch_action tag = ActIndic -> tag <> REF_BENGALI_TAG -> tag <> REF_KANNADA_TAG ->
  preprocess_text class cs tag = Ok out ->
  let E := flat_map expand_matra (cv_spec cs) in
  out = sort_p class E /\ length out = length E /\
  (forall i z, nth_error E i = Some z -> class z = 0 -> nth_error out i = Some z).
Proof. exact indic_positions. Qed.
Print Assumptions C17_indic_positions.

Theorem C17_indic_circles : forall cs, circled cs (cv_spec cs) /\ subseq cs (cv_spec cs).
Proof. exact (fun cs => conj (cv_spec_circled cs) (circled_subseq _ _ (cv_spec_circled cs))). Qed.
Print Assumptions C17_indic_circles.

Theorem C17_indic_script_steps : forall tag s, indic_script_of tag = Ok s ->
  (is_ya_nukta_script s = true <-> tag = REF_BENGALI_TAG) /\
  (is_ra_halant_script s = true <-> tag = REF_KANNADA_TAG).
Proof. exact indic_script_steps. Qed.
Print Assumptions C17_indic_script_steps.

(* Bengali: recomposition changes nothing but YA NUKTA -> YYA. *)
Theorem C17_ya_nukta_content : forall l, flat_map unrecompose (rc_spec l) = flat_map unrecompose l.
Proof. exact rc_spec_content. Qed.
Print Assumptions C17_ya_nukta_content.

(* Kannada: RA HALANT ZWJ rest -> RA ZWJ HALANT rest, anything else unchanged. *)
Theorem C17_kannada_swap : forall cs,
  (forall rest, cs = KANNADA_PREFIX ++ rest ->
     kn_spec cs = match KANNADA_PREFIX with x :: y :: z :: nil => x :: z :: y :: rest | _ => cs end) /\
  (starts_with cs KANNADA_PREFIX = false -> kn_spec cs = cs).
Proof.
  exact (fun cs => conj (fun rest H => eq_trans (f_equal kn_spec H)
                           (eq_trans (kn_spec_prefix rest)
                              (match H in _ = x return _ with eq_refl => eq_refl end)))
                        (kn_spec_other cs)).
Qed.
Print Assumptions C17_kannada_swap.

(* ---- 6. Khmer, Myanmar ---- *)
Theorem C17_khmer_content : forall class cs tag out,
  dispatch_action tag = ActKhmer -> preprocess_text class cs tag = Ok out ->
  out = sort_p class (flat_map expand_khmer cs) /\ Permutation (flat_map expand_khmer cs) out.
Proof. exact khmer_content. Qed.
Print Assumptions C17_khmer_content.

Theorem C17_myanmar_identity : forall class cs tag,
  dispatch_action tag = ActNone -> preprocess_text class cs tag = Ok cs.
Proof. exact myanmar_identity. Qed.
Print Assumptions C17_myanmar_identity.

(* ---- non-vacuity: concrete instances, computed ---- *)
(* a small excerpt of the real class function (modified classes) *)
Definition ex_class (c : Z) : Z :=
  match assoc_z c
    [(0x0301, 230); (0x0323, 220); (0x0327, 202); (0x05B4, 23); (0x05B7, 20);
     (0x0618, 30); (0x0619, 31); (0x064E, 30); (0x064F, 31); (0x0650, 32); (0x0651, 33); (0x0652, 34);
     (0x0653, 230); (0x0654, 230); (0x0655, 220); (0x0656, 220); (0x0658, 230); (0x065C, 220);
     (0x0E38, 3); (0x0E3A, 9); (0x0E48, 107); (0x0E49, 107); (0x09BC, 7); (0x09CD, 9); (0x0CCD, 9);
     (0x0DCA, 9); (0x17D2, 9)] with
  | Some k => k | None => 0 end.
Definition ARAB : Z := TAG_ARAB. Definition LATN : Z := TAG_LATN. Definition THAI : Z := TAG_THAI.
Definition BENG : Z := REF_BENGALI_TAG. Definition KNDA : Z := REF_KANNADA_TAG.
Definition KHMR : Z := TAG_KHMR. Definition MYMR : Z := TAG_MYMR. Definition DEVA : Z := TAG_DEVA.

Example ex_actions :
  map dispatch_action [ARAB; LATN; THAI; BENG; KHMR; MYMR; 12345] =
  [ActArabic; ActSort; ActThaiLao; ActIndic; ActKhmer; ActNone; ActSort].
Proof. vm_compute. reflexivity. Qed.

(* default: marks sorted by class, equal classes keep their order, bases stay *)
Example ex_default :
  preprocess_text ex_class [0x61; 0x0301; 0x0323; 0x0327; 0x0323; 0x62; 0x0301] LATN
  = Ok [0x61; 0x0327; 0x0323; 0x0323; 0x0301; 0x62; 0x0301].
Proof. vm_compute. reflexivity. Qed.

(* Arabic: the artificial example of UTR #53 *)
Example ex_arabic_utr53 :
  preprocess_text ex_class
    [0x0618; 0x0619; 0x064E; 0x064F; 0x0654; 0x0658; 0x0653; 0x0654; 0x0651; 0x0656; 0x0651; 0x065C; 0x0655; 0x0650] ARAB
  = Ok [0x0654; 0x0658; 0x0651; 0x0651; 0x0618; 0x064E; 0x0619; 0x064F; 0x0650; 0x0656; 0x065C; 0x0655; 0x0653; 0x0654].
Proof. vm_compute. reflexivity. Qed.

(* Thai: tone mark + SARA AM; and two SARA AMs in a row (both are split) *)
Example ex_thai :
  preprocess_text ex_class [0x0E19; 0x0E49; 0x0E33] THAI = Ok [0x0E19; 0x0E4D; 0x0E49; 0x0E32] /\
  preprocess_text ex_class [0x0E33; 0x0E33] THAI = Ok [0x0E4D; 0x0E32; 0x0E4D; 0x0E32] /\
  preprocess_text ex_class [0x0E19; 0x0E3A; 0x0E38] THAI = Ok [0x0E19; 0x0E38; 0x0E3A].
Proof. vm_compute. repeat split; reflexivity. Qed.

(* Indic: split matra, prohibited pair, reph + I, ya + nukta, Kannada ra + halant + ZWJ *)
Example ex_indic :
  preprocess_text ex_class [0x0995; 0x09CB] BENG = Ok [0x0995; 0x09C7; 0x09BE] /\
  preprocess_text ex_class [0x0985; 0x09BE] BENG = Ok [0x0985; 0x25CC; 0x09BE] /\
  preprocess_text ex_class [0x0930; 0x094D; 0x0907] DEVA = Ok [0x0930; 0x094D; 0x25CC; 0x0907] /\
  preprocess_text ex_class [0x09AF; 0x09BC; 0x09AF] BENG = Ok [0x09DF; 0x09AF] /\
  preprocess_text ex_class [0x0CB0; 0x0CCD; 0x200D; 0x0C95] KNDA = Ok [0x0CB0; 0x200D; 0x0CCD; 0x0C95].
Proof. vm_compute. repeat split; reflexivity. Qed.

Example ex_khmer_myanmar :
  preprocess_text ex_class [0x1780; 0x17C4] KHMR = Ok [0x1780; 0x17C1; 0x17C4] /\
  preprocess_text ex_class [0x1000; 0x1039; 0x1037] MYMR = Ok [0x1000; 0x1039; 0x1037].
Proof. vm_compute. repeat split; reflexivity. Qed.

(* the hypotheses of the run theorems are satisfiable *)
Example ex_run_hyps :
  ends_with_base ex_class [0x61] /\ marks ex_class [0x0301; 0x0323] /\ starts_with_base ex_class [0x62].
Proof.
  split; [right; exists [], 0x61; split; reflexivity|].
  split; [repeat constructor; vm_compute; discriminate|].
  right. exists 0x62, []. split; reflexivity.
Qed.
