(* Props/C09.v — every font the library writes is a valid, self-consistent sfnt. *)
From AV Require Import Base.Prelude Gen.ReaderPrims Gen.ContainerLayouts Model.Reader Model.Container
  Model.Sfnt Proofs.EncodeProofs Proofs.ContainerProofs Proofs.SfntProofs.
From Coq Require Import Sorted.
Open Scope Z_scope.

(* Tables are whatever byte strings add_table serialised; `tables` is the writer's BTreeMap as an
   association list.  tables_wf: ascending distinct tags, exactly one `head` of >= 12 bytes whose
   checkSumAdjustment placeholder (bytes 8..12) is zero. *)

(* the table map is always in ascending tag order with distinct tags, whatever was inserted *)
Theorem C09_directory_sorted : forall ins,
  keys_sorted (fold_left (fun acc tb => map_insert (fst tb) (snd tb) acc) ins []).
Proof. exact build_directory_sorted. Qed.
Print Assumptions C09_directory_sorted.

(* whole-file checksum: the file is a whole number of u32 words summing to 0xB1B0AFBA — i.e. the
   per-table checksums, the directory checksum and head.checkSumAdjustment are mutually consistent *)
Theorem C09_whole_file_checksum : forall m ver tables file,
  build_font m ver tables = Ok file -> tables_wf tables ->
  len file mod 4 = 0 /\ word_sum file mod U32MOD = 2981146554.
Proof. exact build_checksum. Qed.
Print Assumptions C09_whole_file_checksum.

(* what the directory pass records: tags in order, unpadded lengths, contiguous 4-aligned offsets,
   zero-padded buffers and their checksums *)
Theorem C09_directory_spec : forall tables offset recs bufs total,
  directory tables offset = Ok (recs, bufs, total) ->
  dir_spec tables offset recs bufs /\
  total = fold_right (fun tb acc => (word_sum (pad4 (snd tb)) mod U32MOD + acc) mod U32MOD) 0 tables.
Proof. exact directory_spec. Qed.
Print Assumptions C09_directory_spec.

Theorem C09_padding : forall b,
  len (pad4 b) mod 4 = 0 /\ firstn (length b) (pad4 b) = b /\
  forallb (Z.eqb 0) (skipn (length b) (pad4 b)) = true.
Proof. intros b. split; [apply pad4_aligned|split; [apply pad4_prefix|apply pad4_padding_zero]]. Qed.
Print Assumptions C09_padding.

(* the library can load what it wrote: through the container model of C10 the output reads back as
   exactly the directory that was written (flavour, one record per table in ascending tag order,
   recorded lengths = payload lengths, 4-aligned offsets, correct search fields) *)
Theorem C09_reads_back : forall m ver tables file idx,
  build_font m ver tables = Ok file ->
  is_sfnt_magic ver = true -> 1 <= len tables < 4096 -> len file < USIZE ->
  Forall (fun tb => u32v (fst tb) /\ bytes_ok (snd tb) = true) tables ->
  exists recs,
    font_provider (scope_new file) idx = Ok (POpenType {| ot_version := ver; ot_records := recs |}) /\
    map (fun r => nth 0 r 0) recs = map fst tables /\
    map (fun r => nth 3 r 0) recs = map (fun tb => len (snd tb)) tables /\
    Forall (fun r => nth 2 r 0 mod 4 = 0) recs.
Proof. exact build_reads_back. Qed.
Print Assumptions C09_reads_back.

(* non-vacuity, and the boolean validity judge (used on the implementation's output) accepts it *)
Definition ex_head : list Z := [0;1;0;0; 0;0;0;0; 0;0;0;0; 95;15;60;245; 1;2].
Example C09_example :
  match build_from_inserts Debug 65536 [(1886352244, [1;2;3]); (1751474532, ex_head); (1668112752, [])] with
  | Ok f => (valid_sfnt f, len f, word_sum f mod U32MOD)
  | _ => (false, 0, 0)
  end = (true, 84, 2981146554).
Proof. vm_compute. reflexivity. Qed.
