(* Props/C09.v — every font the library writes is a valid, self-consistent sfnt. *)
From AV Require Import Base.Prelude Gen.ReaderPrims Gen.ContainerLayouts Model.Reader Model.Container
  Model.Sfnt Proofs.EncodeProofs Proofs.ContainerProofs Proofs.SfntProofs Proofs.SfntValid.
From Coq Require Import Sorted.
Open Scope Z_scope.

(* Tables are whatever byte strings add_table serialised; `tables` is the writer's BTreeMap as an
   association list.  tables_wf: ascending distinct tags, exactly one `head` of >= 12 bytes whose
   checkSumAdjustment placeholder (bytes 8..12) is zero. *)

(* the table map is always in ascending tag order with distinct tags, whatever was inserted *)
Theorem C09_directory_sorted : forall ins,
  keys_sorted (fold_left (fun acc tb => map_insert (fst tb) (snd tb) acc) ins []).
Proof. exact build_directory_sorted. Qed.
Print Assumptions C09_directory_sorted.

(* whole-file checksum: the file is a whole number of u32 words summing to 0xB1B0AFBA — i.e. the
   per-table checksums, the directory checksum and head.checkSumAdjustment are mutually consistent *)
Theorem C09_whole_file_checksum : forall m ver tables file,
  build_font m ver tables = Ok file -> tables_wf tables ->
  len file mod 4 = 0 /\ word_sum file mod U32MOD = 2981146554.
Proof. exact build_checksum. Qed.
Print Assumptions C09_whole_file_checksum.

(* what the directory pass records: tags in order, unpadded lengths, contiguous 4-aligned offsets,
   zero-padded buffers and their checksums *)
Theorem C09_directory_spec : forall tables offset recs bufs total,
  directory tables offset = Ok (recs, bufs, total) ->
  dir_spec tables offset recs bufs /\
  total = fold_right (fun tb acc => (word_sum (pad4 (snd tb)) mod U32MOD + acc) mod U32MOD) 0 tables.
Proof. exact directory_spec. Qed.
Print Assumptions C09_directory_spec.

Theorem C09_padding : forall b,
  len (pad4 b) mod 4 = 0 /\ firstn (length b) (pad4 b) = b /\
  forallb (Z.eqb 0) (skipn (length b) (pad4 b)) = true.
Proof. intros b. split; [apply pad4_aligned|split; [apply pad4_prefix|apply pad4_padding_zero]]. Qed.
Print Assumptions C09_padding.

(* the library can load what it wrote: through the container model of C10 the output reads back as
   exactly the directory that was written (flavour, one record per table in ascending tag order,
   recorded lengths = payload lengths, 4-aligned offsets, correct search fields) *)
Theorem C09_reads_back : forall m ver tables file idx,
  build_font m ver tables = Ok file ->
  is_sfnt_magic ver = true -> 1 <= len tables < 4096 -> len file < USIZE ->
  Forall (fun tb => u32v (fst tb) /\ bytes_ok (snd tb) = true) tables ->
  exists recs,
    font_provider (scope_new file) idx = Ok (POpenType {| ot_version := ver; ot_records := recs |}) /\
    map (fun r => nth 0 r 0) recs = map fst tables /\
    map (fun r => nth 3 r 0) recs = map (fun tb => len (snd tb)) tables /\
    Forall (fun r => nth 2 r 0 mod 4 = 0) recs.
Proof. exact build_reads_back. Qed.
Print Assumptions C09_reads_back.

(* ---------- THE statement: the structural judge accepts every file the writer produces.
   valid_sfnt = searchRange/entrySelector/rangeShift, strictly ascending tags, 4-aligned contiguous
   in-bounds offsets ending at end of file, zero padding, per-table checksums (head's with
   checkSumAdjustment zeroed), whole-file checksum 0xB1B0AFBA.  Hypotheses, each needed (witnesses below):
     tables_wf tables      the BTreeMap invariant (ascending distinct tags: C09_directory_sorted discharges it
                           for any insertion sequence), exactly one head, whose 4-byte placeholder at 8..12 is
                           zero (the `12 <= len` clause of head_ok follows from the placeholder clause, and
                           patch_head panics on a shorter head anyway: C09_head_placeholder_len)
     u32 tags              tags are u32 in the Rust; the directory stores them in 4 bytes
   NOT needed any more: a bound on the number of tables.  From 4096 tables on the 16-bit search fields
   cannot hold their values; since the repair c89f93a the writer refuses such a font in every build
   (C09_too_many_tables_refused) where it used to panic (debug) or write a wrapped searchRange (release).
   NOT needed, so not assumed: table bytes in [0,256) (payloads are copied, never decoded), a bound on
   table lengths / offsets / file size (`directory` returns Err when an offset or length does not fit
   u32), 1 <= len tables (implied by the head), len tables <= 65535 (Err), any condition on `ver`. *)
Theorem C09_written_font_is_valid : forall m ver tables file,
  build_font m ver tables = Ok file -> tables_wf tables ->
  Forall (fun tb => u32v (fst tb)) tables ->
  valid_sfnt file = true.
Proof. exact build_valid. Qed.
Print Assumptions C09_written_font_is_valid.

(* the builder as the library drives it: ANY insertion sequence (duplicates replace, any order) that
   inserts a head; hypotheses are on the inserted tables only *)
Theorem C09_inserted_font_is_valid : forall m ver ins file,
  build_from_inserts m ver ins = Ok file ->
  In HEAD_TAG (map fst ins) ->
  Forall (fun tb => u32v (fst tb) /\ (fst tb = HEAD_TAG -> head_ok (snd tb))) ins ->
  valid_sfnt file = true.
Proof. exact build_from_inserts_valid. Qed.
Print Assumptions C09_inserted_font_is_valid.

(* same, hypotheses on the resulting map (only the head that survives replacement has to be well-formed) *)
Theorem C09_inserted_font_is_valid_map : forall m ver ins file,
  build_from_inserts m ver ins = Ok file ->
  count_head (table_map ins) = 1%nat ->
  Forall (fun tb => u32v (fst tb) /\ (fst tb = HEAD_TAG -> head_ok (snd tb))) (table_map ins) ->
  valid_sfnt file = true.
Proof. exact build_from_inserts_valid_map. Qed.
Print Assumptions C09_inserted_font_is_valid_map.

Theorem C09_head_placeholder_len : forall b, firstn 4 (skipn 8 b) = [0; 0; 0; 0] -> 12 <= len b.
Proof. exact head_placeholder_len. Qed.
Print Assumptions C09_head_placeholder_len.

(* (a) the hypotheses are satisfiable: cmap (5 bytes), head (18), maxp (6), post (3), release build *)
Example C09_valid_hyps_satisfiable :
  tables_wf wit_tables /\ Forall (fun tb => u32v (fst tb)) wit_tables /\
  exists file, build_font Release 65536 wit_tables = Ok file /\ len file = 116.
Proof. exact wit_tables_hyps. Qed.

(* (b) each hypothesis is needed: all the others hold, the writer returns Ok, the judge rejects *)
Example C09_sorted_needed :          (* [head; cmap]: not in tag order *)
  count_head wit_unsorted = 1%nat /\
  Forall (fun tb => fst tb = HEAD_TAG -> head_ok (snd tb)) wit_unsorted /\
  Forall (fun tb => u32v (fst tb)) wit_unsorted /\
  judged (build_font Debug 65536 wit_unsorted) = Some false.
Proof. exact wit_unsorted_needed. Qed.

Example C09_one_head_needed :        (* [cmap]: nothing carries checkSumAdjustment *)
  keys_sorted wit_nohead /\
  Forall (fun tb => fst tb = HEAD_TAG -> head_ok (snd tb)) wit_nohead /\
  Forall (fun tb => u32v (fst tb)) wit_nohead /\
  judged (build_font Debug 65536 wit_nohead) = Some false.
Proof. exact wit_nohead_needed. Qed.

Example C09_zero_placeholder_needed : (* head whose bytes 8..12 are 0,0,0,1 on entry *)
  keys_sorted wit_dirty /\ count_head wit_dirty = 1%nat /\
  Forall (fun tb => u32v (fst tb)) wit_dirty /\
  judged (build_font Debug 65536 wit_dirty) = Some false.
Proof. exact wit_dirty_needed. Qed.

Example C09_head_length_enforced :   (* not a hypothesis: a head shorter than 12 bytes panics *)
  build_font Debug 65536 [(HEAD_TAG, [1; 2; 3])] = Panic.
Proof. vm_compute. reflexivity. Qed.

Example C09_u32_tags_needed :        (* [head; tag 2^32 + 5]: stored as 5, directory no longer ascending *)
  tables_wf wit_bigtag /\ judged (build_font Debug 65536 wit_bigtag) = Some false.
Proof. exact wit_bigtag_needed. Qed.

(* too many tables for the 16-bit search fields: refused with an error, never written wrapped *)
Theorem C09_too_many_tables_refused : forall m ver tables,
  4096 <= len tables <= 65535 -> build_font m ver tables = Err BadValue.
Proof. exact too_many_tables_refused. Qed.
Print Assumptions C09_too_many_tables_refused.

Example C09_4096_tables_refused :    (* the witness of the repaired defect: head + 4095 empty tables *)
  In HEAD_TAG (map fst wit_many) /\
  Forall (fun tb => u32v (fst tb) /\ (fst tb = HEAD_TAG -> head_ok (snd tb))) wit_many /\
  len wit_many = 4096 /\
  build_from_inserts Release 65536 wit_many = Err BadValue /\
  build_from_inserts Debug 65536 wit_many = Err BadValue.
Proof. exact wit_many_refused. Qed.

(* a concrete insertion sequence, computed: the judge accepts it *)
Definition ex_head : list Z := [0;1;0;0; 0;0;0;0; 0;0;0;0; 95;15;60;245; 1;2].
Example C09_example :
  match build_from_inserts Debug 65536 [(1886352244, [1;2;3]); (1751474532, ex_head); (1668112752, [])] with
  | Ok f => (valid_sfnt f, len f, word_sum f mod U32MOD)
  | _ => (false, 0, 0)
  end = (true, 84, 2981146554).
Proof. vm_compute. reflexivity. Qed.
